// splitmix64: every random choice of a run derives from one seed
pub struct Rng(pub u64);

impl Rng {
    pub fn new(seed: u64) -> Rng {
        Rng(seed.wrapping_mul(0x9E3779B97F4A7C15).wrapping_add(0xD1B54A32D192ED03))
    }
    pub fn next(&mut self) -> u64 {
        self.0 = self.0.wrapping_add(0x9E3779B97F4A7C15);
        let mut z = self.0;
        z = (z ^ (z >> 30)).wrapping_mul(0xBF58476D1CE4E5B9);
        z = (z ^ (z >> 27)).wrapping_mul(0x94D049BB133111EB);
        z ^ (z >> 31)
    }
    pub fn below(&mut self, n: u64) -> u64 {
        self.next() % n
    }
    pub fn pick<'a, T>(&mut self, v: &'a [T]) -> &'a T {
        &v[self.below(v.len() as u64) as usize]
    }
    pub fn chance(&mut self, num: u64, den: u64) -> bool {
        self.below(den) < num
    }
}

/// boundary lattice for 16-bit values
pub fn lattice16() -> Vec<u16> {
    let mut v: Vec<u16> = vec![
        0, 1, 2, 0xF, 0x10, 0x7F, 0x80, 0xFF, 0x100, 0x7FFF, 0x8000, 0x8001, 0xFFFE, 0xFFFF, 0x00FE,
        0x0101, 0x7FFE, 0x0FFF, 0x1000, 0xFF00, 0xFF7F, 0xFF80, 0x5555, 0xAAAA, 9, 10, 0x99, 0x9A,
        0x9F, 0xA0,
    ];
    for k in 0..16 {
        let p = 1u16 << k;
        v.push(p);
        v.push(p.wrapping_sub(1));
        v.push(p.wrapping_add(1));
        v.push(0u16.wrapping_sub(p));
        v.push(0u16.wrapping_sub(p).wrapping_add(1));
        v.push(0u16.wrapping_sub(p).wrapping_sub(1));
    }
    v.sort();
    v.dedup();
    v
}

pub fn fnv1a(s: &str) -> u64 {
    let mut h: u64 = 0xcbf29ce484222325;
    for b in s.bytes() {
        h ^= b as u64;
        h = h.wrapping_mul(0x100000001b3);
    }
    h ^ (h >> 29)
}
