// Level 3: whole source text through the real assembler (`Preprocessor::parse`), and later the
// loader and a replica of the driver's run loop.
//
// request : asm <percent-encoded source>
// answer  : OK | c=<code lines> | d=<data lines> | l=<labels name:T:map:srcpos> | f=<procs name:idx> | u=<undefined pos:name> | m=<source map>
//           ERR custom <start> <first line of the message> | ERR syntax <start> | ERR eof <pos> | ERR invalid <pos> | ERR other
//           PANIC
use emulator_8086_lib::{LabelType, Preprocessor, PreprocessorContext, PreprocessorOutput};
use lalrpop_util::ParseError;
use std::panic::{catch_unwind, AssertUnwindSafe};

pub fn enc(s: &str) -> String {
    let mut o = String::with_capacity(s.len() + 8);
    for b in s.bytes() {
        if (0x21..=0x7e).contains(&b) && b != b'%' && b != b'|' && b != b';' && b != b',' {
            o.push(b as char);
        } else {
            o.push_str(&format!("%{:02X}", b));
        }
    }
    if o.is_empty() {
        o.push_str("%");
    }
    o
}

pub fn dec(s: &str) -> Option<String> {
    let b = s.as_bytes();
    let mut out: Vec<u8> = Vec::with_capacity(b.len());
    let mut i = 0;
    if s == "%" {
        return Some(String::new());
    }
    while i < b.len() {
        if b[i] == b'%' {
            if i + 2 >= b.len() + 0 && i + 2 > b.len() {
                return None;
            }
            let h = std::str::from_utf8(&b[i + 1..i + 3]).ok()?;
            out.push(u8::from_str_radix(h, 16).ok()?);
            i += 3;
        } else {
            out.push(b[i]);
            i += 1;
        }
    }
    String::from_utf8(out).ok()
}

pub fn join(v: &[String]) -> String {
    if v.is_empty() {
        "-".to_string()
    } else {
        v.join(";")
    }
}

pub struct Asm {
    pub ctx: PreprocessorContext,
    pub out: PreprocessorOutput,
}

pub fn err_string<T: std::fmt::Display>(e: &ParseError<usize, T, &str>) -> String {
    match e {
        ParseError::UnrecognizedToken { token: (s, t, _), expected } => {
            if format!("{}", t).is_empty() {
                let first = expected.get(0).map(|x| x.lines().next().unwrap_or("").to_string()).unwrap_or_default();
                format!("ERR custom {} {}", s, enc(&first))
            } else {
                format!("ERR syntax {}", s)
            }
        }
        ParseError::UnrecognizedEOF { location, .. } => format!("ERR eof {}", location),
        ParseError::InvalidToken { location } => format!("ERR invalid {}", location),
        ParseError::ExtraToken { token: (s, _, _) } => format!("ERR syntax {}", s),
        ParseError::User { .. } => "ERR other".to_string(),
    }
}

/// run the real assembler; Err(answer) for every non-OK outcome
pub fn assemble(src: &str) -> Result<Asm, String> {
    let r = catch_unwind(AssertUnwindSafe(|| {
        let mut ctx = PreprocessorContext::default();
        let mut out = PreprocessorOutput::default();
        let p = Preprocessor::new();
        match p.parse(&mut ctx, &mut out, src) {
            Ok(_) => Ok(Asm { ctx, out }),
            Err(e) => Err(err_string(&e)),
        }
    }));
    match r {
        Err(_) => Err("PANIC".to_string()),
        Ok(x) => x,
    }
}

/// (position, name) of a recorded forward reference, whatever collection of pairs or map keyed by position holds it
trait UPair { fn up(self) -> (usize, String); }
impl<'a> UPair for &'a (usize, String) { fn up(self) -> (usize, String) { self.clone() } }
impl<'a> UPair for (&'a usize, &'a String) { fn up(self) -> (usize, String) { (*self.0, self.1.clone()) } }
impl<'a> UPair for (&'a String, &'a usize) { fn up(self) -> (usize, String) { (*self.1, self.0.clone()) } }

pub fn ok_answer(ctx: PreprocessorContext, out: PreprocessorOutput) -> String {
        let c: Vec<String> = out.code.iter().map(|l| enc(l)).collect();
        let d: Vec<String> = out.data.iter().map(|l| enc(l)).collect();
        let mut l: Vec<String> = ctx
            .label_map
            .iter()
            .map(|(k, v)| format!("{}:{}:{}:{}", k, match v.get_type() { LabelType::DATA => "D", LabelType::CODE => "C" }, v.map, v.source_position))
            .collect();
        l.sort();
        let mut f: Vec<String> = ctx.fn_map.iter().map(|(k, v)| format!("{}:{}", k, v)).collect();
        f.sort();
        let mut uu: Vec<(usize, String)> = ctx.undefined_labels.iter().map(|x| x.up()).collect();
        uu.sort();
        let u: Vec<String> = uu.iter().map(|(p, n)| format!("{}:{}", p, n)).collect();
        let sm = ctx.mapper.get_source_map();
        let mut m: Vec<String> = Vec::new();
        for i in 0..sm.len() {
            m.push(sm.get(&i).map(|x| x.to_string()).unwrap_or("?".into()));
        }
        format!("OK | c={} | d={} | l={} | f={} | u={} | m={}", join(&c), join(&d), join(&l), join(&f), join(&u), if m.is_empty() { "-".to_string() } else { m.join(",") })
}

pub fn asm_answer(src: &str) -> String {
    match assemble(src) {
        Err(a) => a,
        Ok(Asm { ctx, out }) => ok_answer(ctx, out),
    }
}

pub fn answer(req: &str) -> String {
    let mut it = req.splitn(2, ' ');
    let kind = it.next().unwrap_or("");
    let rest = it.next().unwrap_or("");
    match kind {
        "asm" => match dec(rest.trim()) {
            Some(src) => asm_answer(&src),
            None => "BADREQ".into(),
        },
        "opnd" | "jsp" | "role" => match rest.trim().split(' ').next().and_then(dec) {
            Some(src) => asm_answer(&src),
            None => "BADREQ".into(),
        },
        "asmre" => {
            // the second source on a parser and a context that have already processed the first one
            // (cleared in between, as the library's users do), and on fresh objects
            let mut it = rest.trim().splitn(2, ' ');
            match (it.next().and_then(dec), it.next().and_then(|x| dec(x.trim()))) {
                (Some(a), Some(b)) => {
                    let reused = catch_unwind(AssertUnwindSafe(|| {
                        let mut ctx = PreprocessorContext::default();
                        let mut out = PreprocessorOutput::default();
                        let p = Preprocessor::new();
                        let _ = p.parse(&mut ctx, &mut out, &a);
                        ctx.clear();
                        out.clear();
                        match p.parse(&mut ctx, &mut out, &b) {
                            Ok(_) => ok_answer(ctx, out),
                            Err(e) => err_string(&e),
                        }
                    }))
                    .unwrap_or_else(|_| "PANIC".to_string());
                    format!("{} || {}", reused, asm_answer(&b))
                }
                _ => "BADREQ".into(),
            }
        }
        "asmx" => {
            let mut it = rest.trim().splitn(2, ' ');
            let a = it.next().and_then(dec);
            let b = it.next().map(|x| x.trim().to_string()).unwrap_or_default();
            match a {
                Some(a) => {
                    if b == "!" {
                        format!("{} || !", asm_answer(&a))
                    } else {
                        match dec(&b) {
                            Some(b) => format!("{} || {}", asm_answer(&a), asm_answer(&b)),
                            None => "BADREQ".into(),
                        }
                    }
                }
                None => "BADREQ".into(),
            }
        }
        "asm2" => {
            let mut it = rest.trim().splitn(3, ' ');
            match (it.next().and_then(dec), it.next().and_then(|x| dec(x.trim()))) {
                (Some(a), Some(b)) => format!("{} || {}", asm_answer(&a), asm_answer(&b)),
                _ => "BADREQ".into(),
            }
        }
        _ => "BADREQ".into(),
    }
}
