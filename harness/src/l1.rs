// Level 1: the pub functions of instructions::{arithmetic,bit_manipulation} on explicit operands.
use crate::rng::{lattice16, Rng};
use emulator_8086_lib::instructions::arithmetic as ar;
use emulator_8086_lib::instructions::bit_manipulation as bm;
use emulator_8086_lib::util::interpreter_util::DivByZero;
use emulator_8086_lib::VM;
use std::io::Write;
use std::panic::{catch_unwind, AssertUnwindSafe};

type B8 = fn(&mut VM, u8, u8) -> u8;
type B16 = fn(&mut VM, u16, u16) -> u16;
type U8 = fn(&mut VM, &mut u8) -> Result<(), DivByZero>;
type U16 = fn(&mut VM, &mut u16) -> Result<(), DivByZero>;
type S = fn(&mut VM);

pub fn b8(name: &str) -> Option<B8> {
    Some(match name {
        "add" => ar::byte_add,
        "adc" => ar::byte_adc,
        "sub" => ar::byte_sub,
        "sbb" => ar::byte_sbb,
        "cmp" => ar::byte_cmp,
        "and" => bm::byte_and,
        "or" => bm::byte_or,
        "xor" => bm::byte_xor,
        "test" => bm::byte_test,
        "sal" => bm::byte_sal,
        "sar" => bm::byte_sar,
        "shr" => bm::byte_shr,
        "rol" => bm::byte_rol,
        "ror" => bm::byte_ror,
        "rcl" => bm::byte_rcl,
        "rcr" => bm::byte_rcr,
        _ => return None,
    })
}
pub fn b16(name: &str) -> Option<B16> {
    Some(match name {
        "add" => ar::word_add,
        "adc" => ar::word_adc,
        "sub" => ar::word_sub,
        "sbb" => ar::word_sbb,
        "cmp" => ar::word_cmp,
        "and" => bm::word_and,
        "or" => bm::word_or,
        "xor" => bm::word_xor,
        "test" => bm::word_test,
        "sal" => bm::word_sal,
        "sar" => bm::word_sar,
        "shr" => bm::word_shr,
        "rol" => bm::word_rol,
        "ror" => bm::word_ror,
        "rcl" => bm::word_rcl,
        "rcr" => bm::word_rcr,
        _ => return None,
    })
}
pub fn u8f(name: &str) -> Option<U8> {
    Some(match name {
        "dec" => ar::byte_dec,
        "inc" => ar::byte_inc,
        "neg" => ar::byte_neg,
        "mul" => ar::byte_mul,
        "imul" => ar::byte_imul,
        "div" => ar::byte_div,
        "idiv" => ar::byte_idiv,
        _ => return None,
    })
}
pub fn u16f(name: &str) -> Option<U16> {
    Some(match name {
        "dec" => ar::word_dec,
        "inc" => ar::word_inc,
        "neg" => ar::word_neg,
        "mul" => ar::word_mul,
        "imul" => ar::word_imul,
        "div" => ar::word_div,
        "idiv" => ar::word_idiv,
        _ => return None,
    })
}
pub fn sf(name: &str) -> Option<S> {
    Some(match name {
        "aaa" => ar::aaa,
        "aad" => ar::aad,
        "aam" => ar::aam,
        "aas" => ar::aas,
        "daa" => ar::daa,
        "das" => ar::das,
        "cbw" => ar::cbw,
        "cwd" => ar::cwd,
        _ => return None,
    })
}

thread_local! {
    static VMCELL: std::cell::RefCell<VM> = std::cell::RefCell::new(VM::new());
}

fn with_vm<R>(f: impl FnOnce(&mut VM) -> R) -> R {
    VMCELL.with(|c| f(&mut c.borrow_mut()))
}

pub fn answer(req: &str) -> String {
    let t: Vec<&str> = req.split_whitespace().collect();
    if t.len() < 2 {
        return "BADREQ".into();
    }
    let n = |i: usize| -> u64 { t.get(i).and_then(|s| s.parse().ok()).unwrap_or(0) };
    let r = catch_unwind(AssertUnwindSafe(|| {
        with_vm(|vm| match t[0] {
            "b8" => match b8(t[1]) {
                Some(f) => {
                    vm.arch.flag = n(2) as u16;
                    let r = f(vm, n(3) as u8, n(4) as u8);
                    format!("{} {}", r, vm.arch.flag)
                }
                None => "BADREQ".into(),
            },
            "b16" => match b16(t[1]) {
                Some(f) => {
                    vm.arch.flag = n(2) as u16;
                    let r = f(vm, n(3) as u16, n(4) as u16);
                    format!("{} {}", r, vm.arch.flag)
                }
                None => "BADREQ".into(),
            },
            "u8" => match u8f(t[1]) {
                Some(f) => {
                    vm.arch.flag = n(2) as u16;
                    vm.arch.ax = n(3) as u16;
                    vm.arch.dx = n(4) as u16;
                    let mut v = n(5) as u8;
                    match f(vm, &mut v) {
                        Ok(()) => format!("ok {} {} {} {}", vm.arch.flag, vm.arch.ax, vm.arch.dx, v),
                        Err(_) => format!("err {} {} {} {}", vm.arch.flag, vm.arch.ax, vm.arch.dx, v),
                    }
                }
                None => "BADREQ".into(),
            },
            "u16" => match u16f(t[1]) {
                Some(f) => {
                    vm.arch.flag = n(2) as u16;
                    vm.arch.ax = n(3) as u16;
                    vm.arch.dx = n(4) as u16;
                    let mut v = n(5) as u16;
                    match f(vm, &mut v) {
                        Ok(()) => format!("ok {} {} {} {}", vm.arch.flag, vm.arch.ax, vm.arch.dx, v),
                        Err(_) => format!("err {} {} {} {}", vm.arch.flag, vm.arch.ax, vm.arch.dx, v),
                    }
                }
                None => "BADREQ".into(),
            },
            "s" => match sf(t[1]) {
                Some(f) => {
                    vm.arch.flag = n(2) as u16;
                    vm.arch.ax = n(3) as u16;
                    vm.arch.dx = n(4) as u16;
                    f(vm);
                    format!("{} {} {}", vm.arch.flag, vm.arch.ax, vm.arch.dx)
                }
                None => "BADREQ".into(),
            },
            "par" => format!(
                "{}",
                emulator_8086_lib::util::interpreter_util::has_even_parity(n(1) as u8) as u8
            ),
            _ => "BADREQ".into(),
        })
    }));
    match r {
        Ok(s) => s,
        Err(_) => {
            // the thread-local VM may be left borrowed/inconsistent: replace it
            VMCELL.with(|c| {
                if let Ok(mut g) = c.try_borrow_mut() {
                    *g = VM::new();
                }
            });
            "PANIC".into()
        }
    }
}

struct Emit<'a, W: Write> {
    out: &'a mut W,
    idx: u64,
    shard: u64,
    nshards: u64,
}
impl<'a, W: Write> Emit<'a, W> {
    fn req(&mut self, req: &str) {
        self.idx += 1;
        // shard by a hash of the request text: equal requests always land in the same shard, so the
        // driver's per-shard de-duplication is a global one
        if crate::rng::fnv1a(req) % self.nshards != self.shard {
            return;
        }
        let a = answer(req);
        writeln!(self.out, "{} => {}", req, a).unwrap();
    }
}

const FLS: [u16; 2] = [0x0000, 0xFFFF];


/// flags of the 8086 for a 16-bit addition / subtraction, written here a second time (wide arithmetic): used only to
/// FILTER the exhaustive scan — every pair on which the real function disagrees with it is handed to the model driver
/// as an ordinary request, so a mistake here can at most produce requests that the driver then finds in order
fn ref_word_arith(name: &str, fl: u16, a: u16, b: u16) -> (u16, u16) {
    let c = (fl & 1) as u32;
    let (a32, b32) = (a as u32, b as u32);
    let (r, cf, of, af) = match name {
        "add" | "adc" => {
            let cin = if name == "adc" { c } else { 0 };
            let s = a32 + b32 + cin;
            let r = s as u16;
            (r, s > 0xFFFF, ((a ^ r) & (b ^ r) & 0x8000) != 0, ((a ^ b ^ r) & 0x10) != 0)
        }
        _ => {
            let cin = if name == "sbb" { c } else { 0 };
            let r = a.wrapping_sub(b).wrapping_sub(cin as u16);
            (r, a32 < b32 + cin, ((a ^ b) & (a ^ r) & 0x8000) != 0, ((a ^ b ^ r) & 0x10) != 0)
        }
    };
    let pf = (r as u8).count_ones() % 2 == 0;
    let mut f = fl & !0x08D5;
    if cf { f |= 0x0001; }
    if pf { f |= 0x0004; }
    if af { f |= 0x0010; }
    if r == 0 { f |= 0x0040; }
    if r & 0x8000 != 0 { f |= 0x0080; }
    if of { f |= 0x0800; }
    (if name == "cmp" { a } else { r }, f)
}

/// EVERY pair of word operands x both carry-ins for ADD/ADC/SUB/SBB/CMP (2^32 pairs per pass): the real functions run
/// on all of them; the pairs on which they differ from `ref_word_arith` (none on a correct tree) are emitted as ordinary
/// `b16` requests for the model / spec verdict, followed by one `scan` line with the number of pairs covered
fn run_wordx<W: Write>(thorough: bool, seed: u64, shard: u64, nshards: u64, out: &mut W) {
    // quick tier: one sixteenth of the first operands (chosen by the seed), all second operands
    let stride = if thorough { 1u32 } else { 16u32 };
    let phase = if thorough { 0u32 } else { (seed % 16) as u32 };
    let passes: [(&str, u16); 8] = [("add", 0x0000), ("adc", 0x0000), ("adc", 0xFFFF), ("sub", 0x0000), ("sbb", 0x0000), ("sbb", 0xFFFF), ("cmp", 0xFFFF), ("add", 0xFFFF)];
    let mut scanned: u64 = 0;
    let mut emitted = 0u64;
    let mut vm = VM::new();
    for (name, fl) in passes.iter() {
        let f = b16(name).unwrap();
        let mut a = (shard as u32) * stride + phase;
        while a <= 0xFFFF {
            for b in 0..=0xFFFFu32 {
                vm.arch.flag = *fl;
                let r = catch_unwind(AssertUnwindSafe(|| f(&mut vm, a as u16, b as u16)));
                let (er, ef) = ref_word_arith(name, *fl, a as u16, b as u16);
                let bad = match r {
                    Ok(res) => {
                        let got = if *name == "cmp" { a as u16 } else { res };
                        got != er || vm.arch.flag != ef
                    }
                    Err(_) => {
                        vm = VM::new();
                        true
                    }
                };
                if bad && emitted < 2000 {
                    let req = format!("b16 {} {} {} {}", name, fl, a, b);
                    let ans = answer(&req);
                    writeln!(out, "{} => {}", req, ans).unwrap();
                    emitted += 1;
                }
                scanned += 1;
            }
            a += (nshards as u32) * stride;
        }
    }
    writeln!(out, "scan wordx {} => ok", scanned).unwrap();
}

/// the same exhaustive scan for the word logical instructions (defined flags only: CF=OF=0, SF/ZF/PF of the result;
/// AF is left out of the filter) and for word MUL / IMUL (DX:AX and CF=OF only)
fn run_wordx2<W: Write>(group: &str, thorough: bool, seed: u64, shard: u64, nshards: u64, out: &mut W) {
    let stride = if thorough { 1u32 } else { 16u32 };
    let phase = if thorough { 0u32 } else { (seed % 16) as u32 };
    let mut scanned: u64 = 0;
    let mut emitted = 0u64;
    let mut vm = VM::new();
    if group == "wordx_logic" {
        for name in ["and", "or", "xor", "test"].iter() {
            for fl in [0x0000u16, 0xFFFF].iter() {
                let f = b16(name).unwrap();
                let mut a = (shard as u32) * stride + phase;
                while a <= 0xFFFF {
                    for b in 0..=0xFFFFu32 {
                        vm.arch.flag = *fl;
                        let r = catch_unwind(AssertUnwindSafe(|| f(&mut vm, a as u16, b as u16)));
                        let full = match *name { "and" | "test" => (a & b) as u16, "or" => (a | b) as u16, _ => (a ^ b) as u16 };
                        let mut ef = fl & !0x08C5;
                        if (full as u8).count_ones() % 2 == 0 { ef |= 4; }
                        if full == 0 { ef |= 0x40; }
                        if full & 0x8000 != 0 { ef |= 0x80; }
                        let er = if *name == "test" { a as u16 } else { full };
                        let bad = match r {
                            Ok(res) => (if *name == "test" { a as u16 } else { res }) != er || (vm.arch.flag & !0x10) != (ef & !0x10),
                            Err(_) => { vm = VM::new(); true }
                        };
                        if bad && emitted < 2000 {
                            let req = format!("b16 {} {} {} {}", name, fl, a, b);
                            let ans = answer(&req);
                            writeln!(out, "{} => {}", req, ans).unwrap();
                            emitted += 1;
                        }
                        scanned += 1;
                    }
                    a += (nshards as u32) * stride;
                }
            }
        }
    } else {
        for name in ["mul", "imul"].iter() {
            for fl in [0x0000u16, 0xFFFF].iter() {
                let f = u16f(name).unwrap();
                let mut a = (shard as u32) * stride + phase;
                while a <= 0xFFFF {
                    for b in 0..=0xFFFFu32 {
                        vm.arch.flag = *fl;
                        vm.arch.ax = a as u16;
                        vm.arch.dx = 0x5A5A;
                        let mut v = b as u16;
                        let r = catch_unwind(AssertUnwindSafe(|| f(&mut vm, &mut v)));
                        let (lo, hi, cof) = if *name == "mul" {
                            let p = a * b;
                            (p as u16, (p >> 16) as u16, (p >> 16) != 0)
                        } else {
                            let p = (a as u16 as i16 as i32) * (b as u16 as i16 as i32);
                            (p as u16, ((p as u32) >> 16) as u16, p != (p as u16 as i16 as i32))
                        };
                        let bad = match r {
                            Ok(Ok(())) => vm.arch.ax != lo || vm.arch.dx != hi || ((vm.arch.flag & 1) != 0) != cof || ((vm.arch.flag & 0x800) != 0) != cof,
                            Ok(Err(_)) => true,
                            Err(_) => { vm = VM::new(); true }
                        };
                        if bad && emitted < 2000 {
                            let req = format!("u16 {} {} {} {} {}", name, fl, a, 0x5A5A, b);
                            let ans = answer(&req);
                            writeln!(out, "{} => {}", req, ans).unwrap();
                            emitted += 1;
                        }
                        scanned += 1;
                    }
                    a += (nshards as u32) * stride;
                }
            }
        }
    }
    writeln!(out, "scan {} {} => ok", group, scanned).unwrap();
}

/// EVERY word value x EVERY count 0..255 x CF for the seven shift / rotate functions, filtered by n single-bit steps
/// (value, CF, SF/ZF/PF for shifts, OF when the count is 1; bits the manual leaves undefined are not in the filter)
fn run_wordx_shift<W: Write>(thorough: bool, seed: u64, shard: u64, nshards: u64, out: &mut W) {
    let stride = if thorough { 1u32 } else { 16u32 };
    let phase = if thorough { 0u32 } else { (seed % 16) as u32 };
    let mut scanned: u64 = 0;
    let mut emitted = 0u64;
    let mut vm = VM::new();
    for name in ["sal", "sar", "shr", "rol", "ror", "rcl", "rcr"].iter() {
        let f = b16(name).unwrap();
        let is_shift = matches!(*name, "sal" | "sar" | "shr");
        for fl in [0x0000u16, 0xFFFF].iter() {
            let mut a = (shard as u32) * stride + phase;
            while a <= 0xFFFF {
                for cnt in 0..=255u32 {
                    vm.arch.flag = *fl;
                    let r = catch_unwind(AssertUnwindSafe(|| f(&mut vm, a as u16, cnt as u16)));
                    // reference: cnt single-bit steps
                    let mut v = a as u16;
                    let mut cf = fl & 1 != 0;
                    for _ in 0..cnt {
                        let (msb, lsb) = (v & 0x8000 != 0, v & 1 != 0);
                        match *name {
                            "sal" => { cf = msb; v <<= 1; }
                            "shr" => { cf = lsb; v >>= 1; }
                            "sar" => { cf = lsb; v = (v >> 1) | (v & 0x8000); }
                            "rol" => { cf = msb; v = v.rotate_left(1); }
                            "ror" => { cf = lsb; v = v.rotate_right(1); }
                            "rcl" => { let o = cf; cf = msb; v = (v << 1) | (o as u16); }
                            _ => { let o = cf; cf = lsb; v = (v >> 1) | ((o as u16) << 15); }
                        }
                    }
                    let bad = match r {
                        Ok(res) => {
                            let g = vm.arch.flag;
                            let mut b = res != v;
                            if cnt == 0 {
                                b = b || g != *fl;
                            } else {
                                b = b || ((g & 1) != 0) != cf;
                                if is_shift {
                                    b = b || ((g & 0x40) != 0) != (v == 0) || ((g & 0x80) != 0) != (v & 0x8000 != 0)
                                        || ((g & 4) != 0) != ((v as u8).count_ones() % 2 == 0);
                                } else {
                                    b = b || (g & 0x00D4) != (fl & 0x00D4);
                                }
                                if cnt == 1 {
                                    let msb = v & 0x8000 != 0;
                                    let of = match *name {
                                        "sal" | "rol" | "rcl" => msb ^ cf,
                                        "shr" => (a as u16) & 0x8000 != 0,
                                        "sar" => false,
                                        _ => msb ^ (v & 0x4000 != 0),
                                    };
                                    b = b || ((g & 0x800) != 0) != of;
                                }
                                // the non-status bits never change
                                b = b || (g & 0xF72A) != (fl & 0xF72A);
                            }
                            b
                        }
                        Err(_) => { vm = VM::new(); true }
                    };
                    if bad && emitted < 2000 {
                        let req = format!("b16 {} {} {} {}", name, fl, a, cnt);
                        let ans = answer(&req);
                        writeln!(out, "{} => {}", req, ans).unwrap();
                        emitted += 1;
                    }
                    scanned += 1;
                }
                a += (nshards as u32) * stride;
            }
        }
    }
    writeln!(out, "scan wordx_shift {} => ok", scanned).unwrap();
}

pub fn run<W: Write>(group: &str, thorough: bool, seed: u64, shard: u64, nshards: u64, out: &mut W) {
    if group == "wordx_shift" {
        return run_wordx_shift(thorough, seed, shard, nshards, out);
    }
    if group == "wordx_logic" || group == "wordx_mul" {
        return run_wordx2(group, thorough, seed, shard, nshards, out);
    }
    if group == "wordx" {
        return run_wordx(thorough, seed, shard, nshards, out);
    }
    let mut e = Emit { out, idx: 0, shard, nshards };
    let mut rng = Rng::new(seed ^ 0x1111);
    let lat = lattice16();
    let mut fls: Vec<u16> = FLS.to_vec();
    fls.push(0xF000);
    fls.push(rng.next() as u16);
    if thorough {
        fls.push(rng.next() as u16);
        fls.push(0x0001);
        fls.push(0xFFFE);
    }
    match group {
        "arith" => {
            // byte binary: exhaustive operand pairs x flag words (CF 0/1, all other bits 0/1)
            for name in ["add", "adc", "sub", "sbb", "cmp"] {
                for &fl in &fls {
                    for a in 0..=255u32 {
                        for b in 0..=255u32 {
                            e.req(&format!("b8 {} {} {} {}", name, fl, a, b));
                        }
                    }
                }
            }
            for name in ["inc", "dec", "neg"] {
                for &fl in &fls {
                    for a in 0..=255u32 {
                        e.req(&format!("u8 {} {} {} {} {}", name, fl, rng.next() as u16, rng.next() as u16, a));
                    }
                }
                // all flag words for a few operands (frame of the other flag bits)
                for fl in 0..=0xFFFFu32 {
                    if thorough || fl % 16 == (seed % 16) as u32 {
                        for a in [0u32, 0x80, 0xFF, 0x0F, 0x10] {
                            e.req(&format!("u8 {} {} 0 0 {}", name, fl, a));
                        }
                    }
                }
            }
            // word binary: lattice^2 x flag words, then random
            for name in ["add", "adc", "sub", "sbb", "cmp"] {
                for &fl in &fls[..3] {
                    for &a in &lat {
                        for &b in &lat {
                            e.req(&format!("b16 {} {} {} {}", name, fl, a, b));
                        }
                    }
                }
                let nrand = if thorough { 1u64 << 22 } else { 1u64 << 16 };
                for _ in 0..nrand {
                    let fl = rng.next() as u16;
                    let a = rng.next() as u16;
                    let b = match rng.below(4) {
                        0 => a.wrapping_add(rng.below(3) as u16).wrapping_sub(1),
                        1 => (!a).wrapping_add(rng.below(3) as u16),
                        _ => rng.next() as u16,
                    };
                    e.req(&format!("b16 {} {} {} {}", name, fl, a, b));
                }
                if thorough {
                    // full columns: every a against every lattice b
                    for a in 0..=0xFFFFu32 {
                        for &b in &lat {
                            e.req(&format!("b16 {} {} {} {}", name, if a & 1 == 0 { 0 } else { 0xFFFFu16 }, a, b));
                        }
                    }
                }
            }
            for name in ["inc", "dec", "neg"] {
                for &fl in &fls {
                    for a in 0..=0xFFFFu32 {
                        if thorough || lat.contains(&(a as u16)) || a % 61 == (seed % 61) as u32 {
                            e.req(&format!("u16 {} {} {} {} {}", name, fl, rng.next() as u16, rng.next() as u16, a));
                        }
                    }
                }
            }
            for v in 0..=255u32 {
                e.req(&format!("par {}", v));
            }
        }
        "bits" => {
            for name in ["and", "or", "xor", "test"] {
                for &fl in &fls[..2] {
                    for a in 0..=255u32 {
                        for b in 0..=255u32 {
                            e.req(&format!("b8 {} {} {} {}", name, fl, a, b));
                        }
                    }
                }
                for &fl in &fls[..3] {
                    for &a in &lat {
                        for &b in &lat {
                            e.req(&format!("b16 {} {} {} {}", name, fl, a, b));
                        }
                    }
                }
                let nrand = if thorough { 1u64 << 20 } else { 1u64 << 14 };
                for _ in 0..nrand {
                    e.req(&format!("b16 {} {} {} {}", name, rng.next() as u16, rng.next() as u16, rng.next() as u16));
                }
            }
            for name in ["sal", "sar", "shr", "rol", "ror", "rcl", "rcr"] {
                // byte: all values x all counts x flag words
                for &fl in &fls[..2] {
                    for v in 0..=255u32 {
                        for n in 0..=255u32 {
                            e.req(&format!("b8 {} {} {} {}", name, fl, v, n));
                        }
                    }
                }
                // word: all counts x (lattice + random values); thorough: all values for key counts
                let mut vals: Vec<u16> = lat.clone();
                for _ in 0..(if thorough { 4096 } else { 256 }) {
                    vals.push(rng.next() as u16);
                }
                for &fl in &fls[..2] {
                    for &v in &vals {
                        for n in 0..=255u32 {
                            e.req(&format!("b16 {} {} {} {}", name, fl, v, n));
                        }
                    }
                }
                if thorough {
                    for v in 0..=0xFFFFu32 {
                        for n in (0..=35u32).chain([255u32, 254, 64, 128, 33 + 17, 34 + 17]) {
                            e.req(&format!("b16 {} {} {} {}", name, if v & 1 == 0 { 0x0001u16 } else { 0xFFFEu16 }, v, n));
                        }
                    }
                }
            }
        }
        "muldiv" => {
            for name in ["mul", "imul", "div", "idiv"] {
                // byte forms: AX from lattice + random, all 256 operands (thorough: all AX x 64 operands)
                let mut axs: Vec<u16> = lat.clone();
                for _ in 0..(if thorough { 8192 } else { 512 }) {
                    axs.push(rng.next() as u16);
                }
                for &ax in &axs {
                    for v in 0..=255u32 {
                        let fl = if (ax as u32 + v) & 1 == 0 { 0u16 } else { 0xFFFF };
                        e.req(&format!("u8 {} {} {} {} {}", name, fl, ax, rng.next() as u16, v));
                    }
                }
                if thorough {
                    // exhaustive: all 2^16 AX x all 256 operands
                    for ax in 0..=0xFFFFu32 {
                        for v in 0..=255u32 {
                            e.req(&format!("u8 {} {} {} 0 {}", name, 0xF000u16, ax, v));
                        }
                    }
                }
                // word forms: lattice of (dx, ax, operand) + random 48-bit triples
                let small: Vec<u16> = vec![0, 1, 2, 0x7FFF, 0x8000, 0x8001, 0xFFFE, 0xFFFF, 0x00FF, 0x0100, 3, 10, 0x4000, 0xC000];
                for &dx in &small {
                    for &ax in &lat {
                        for &v in &small {
                            e.req(&format!("u16 {} {} {} {} {}", name, 0xF000u16, ax, dx, v));
                        }
                    }
                }
                for &dx in &lat {
                    for &ax in &small {
                        for &v in &lat {
                            e.req(&format!("u16 {} {} {} {} {}", name, 0x0FFFu16, ax, dx, v));
                        }
                    }
                }
                let nrand = if thorough { 1u64 << 21 } else { 1u64 << 16 };
                for _ in 0..nrand {
                    let v = rng.next() as u16;
                    let (dx, ax) = match rng.below(4) {
                        // quotient near the overflow boundary: dividend ~ v * 2^16 or v * 2^15
                        0 => {
                            let q = 0x10000u64 - 2 + rng.below(4);
                            let d = (v as u64).wrapping_mul(q).wrapping_add(rng.below(3)) as u32;
                            ((d >> 16) as u16, d as u16)
                        }
                        1 => {
                            let q = 0x8000i64 - 2 + rng.below(4) as i64;
                            let sgn = if rng.chance(1, 2) { -1 } else { 1 };
                            let d = ((v as i16 as i64) * q * sgn + rng.below(3) as i64 - 1) as u32;
                            ((d >> 16) as u16, d as u16)
                        }
                        _ => (rng.next() as u16, rng.next() as u16),
                    };
                    e.req(&format!("u16 {} {} {} {} {}", name, rng.next() as u16, ax, dx, v));
                }
            }
            for name in ["aaa", "aad", "aam", "aas", "daa", "das", "cbw", "cwd"] {
                for ax in 0..=0xFFFFu32 {
                    for fl in [0x0000u16, 0x0001, 0x0010, 0x0011, 0xFFFF, 0xFFEE] {
                        e.req(&format!("s {} {} {} {}", name, fl, ax, rng.next() as u16));
                    }
                }
            }
        }
        _ => {
            eprintln!("unknown l1 group {}", group);
            std::process::exit(2);
        }
    }
}
