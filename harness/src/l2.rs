// Level 2 (one interpreter line on a prepared machine) — filled in below.
use std::io::Write;
pub fn answer(_req: &str) -> String { "BADREQ".into() }
pub fn run<W: Write>(_group: &str, _thorough: bool, _seed: u64, _shard: u64, _nshards: u64, _out: &mut W) {}
