// Level 2: one interpreter line (`Interpreter::parse`) on a fully specified machine state.
//
// request : x <14 regs> | <seed> | <pokes a:v,..> | <labels n:D:off;n:C:idx> | <fns n:idx> | <stack n,n> | <cur> | <line>
// answer  : <STATE> | <14 regs> | <memory diff a:v,..> | <call stack>      or  ERR  or  PANIC
// registers in the order flag ax bx cx dx sp bp si di ip cs ds ss es; memory is a position dependent
// pattern (seed) so that a read identifies the address used and any stray write shows in the full diff.
use crate::rng::Rng;
use emulator_8086_lib::util::preprocessor_util::{Label, LabelType};
use emulator_8086_lib::{Interpreter, InterpreterContext, State, VM};
use std::io::Write;
use std::panic::{catch_unwind, AssertUnwindSafe};

const MBU: usize = 1 << 20;

pub fn pattern(seed: u32, a: u32) -> u8 {
    let x = a.wrapping_mul(0x9E37_79B1).wrapping_add(seed.wrapping_mul(0x85EB_CA6B));
    ((x >> 13) & 0xFF) as u8
}

pub struct Bench {
    vm: VM,
    base: Vec<u8>,
    seed: Option<u32>,
    interp: Interpreter,
}

impl Bench {
    pub fn new() -> Bench {
        Bench { vm: VM::new(), base: vec![0; MBU], seed: None, interp: Interpreter::new() }
    }
    fn set_seed(&mut self, seed: u32) {
        if self.seed == Some(seed) {
            return;
        }
        for a in 0..MBU {
            let b = pattern(seed, a as u32);
            self.base[a] = b;
            self.vm.mem[a] = b;
        }
        self.seed = Some(seed);
    }
    fn diff_and_restore(&mut self) -> Vec<(usize, u8)> {
        let mut d = Vec::new();
        const CH: usize = 4096;
        for c in 0..(MBU / CH) {
            let r = c * CH..(c + 1) * CH;
            if self.vm.mem[r.clone()] != self.base[r.clone()] {
                for a in r {
                    if self.vm.mem[a] != self.base[a] {
                        d.push((a, self.vm.mem[a]));
                        self.vm.mem[a] = self.base[a];
                    }
                }
            }
        }
        d
    }
}

fn regs_of(vm: &VM) -> String {
    let a = &vm.arch;
    format!(
        "{} {} {} {} {} {} {} {} {} {} {} {} {} {}",
        a.flag, a.ax, a.bx, a.cx, a.dx, a.sp, a.bp, a.si, a.di, a.ip, a.cs, a.ds, a.ss, a.es
    )
}

fn state_str(s: &State) -> String {
    match s {
        State::HALT => "HALT".into(),
        State::PRINT => "PRINT".into(),
        State::JMP(i) => format!("JMP {}", i),
        State::NEXT => "NEXT".into(),
        State::INT(n) => format!("INT {}", n),
        State::REPEAT => "REPEAT".into(),
    }
}

thread_local! {
    static BENCH: std::cell::RefCell<Option<Bench>> = std::cell::RefCell::new(None);
}

pub fn answer(req: &str) -> String {
    BENCH.with(|b| {
        let mut g = b.borrow_mut();
        if g.is_none() {
            *g = Some(Bench::new());
        }
        answer_with(g.as_mut().unwrap(), req)
    })
}

pub fn answer_with(b: &mut Bench, req: &str) -> String {
    let parts: Vec<&str> = req.splitn(8, " | ").collect();
    if parts.len() != 8 {
        return "BADREQ".into();
    }
    let regs: Vec<u16> = parts[0].split_whitespace().skip(1).filter_map(|s| s.parse().ok()).collect();
    if regs.len() != 14 {
        return "BADREQ".into();
    }
    let seed: u32 = parts[1].trim().parse().unwrap_or(0);
    b.set_seed(seed);
    {
        let a = &mut b.vm.arch;
        a.flag = regs[0];
        a.ax = regs[1];
        a.bx = regs[2];
        a.cx = regs[3];
        a.dx = regs[4];
        a.sp = regs[5];
        a.bp = regs[6];
        a.si = regs[7];
        a.di = regs[8];
        a.ip = regs[9];
        a.cs = regs[10];
        a.ds = regs[11];
        a.ss = regs[12];
        a.es = regs[13];
    }
    let mut poked: Vec<(usize, u8)> = Vec::new();
    if parts[2].trim() != "-" {
        for p in parts[2].trim().split(',') {
            let mut it = p.split(':');
            let a: usize = it.next().and_then(|s| s.parse().ok()).unwrap_or(0) % MBU;
            let v: u8 = it.next().and_then(|s| s.parse().ok()).unwrap_or(0);
            poked.push((a, b.base[a]));
            b.base[a] = v;
            b.vm.mem[a] = v;
        }
    }
    let mut ctx = InterpreterContext::default();
    if parts[3].trim() != "-" {
        for l in parts[3].trim().split(';') {
            let f: Vec<&str> = l.split(':').collect();
            if f.len() == 3 {
                let t = if f[1] == "D" { LabelType::DATA } else { LabelType::CODE };
                ctx.label_map.insert(f[0].to_string(), Label::new(t, 0, f[2].parse().unwrap_or(0)));
            }
        }
    }
    if parts[4].trim() != "-" {
        for l in parts[4].trim().split(';') {
            let f: Vec<&str> = l.split(':').collect();
            if f.len() == 2 {
                ctx.fn_map.insert(f[0].to_string(), f[1].parse().unwrap_or(0));
            }
        }
    }
    if parts[5].trim() != "-" {
        for n in parts[5].trim().split(',') {
            ctx.call_stack.push(n.parse().unwrap_or(0));
        }
    }
    let cur: usize = parts[6].trim().parse().unwrap_or(0);
    let line = parts[7];
    let repeat_protocol = parts[0].starts_with("xr");
    if parts[0].starts_with("xs") {
        // a straight-line sequence `l1 ; l2 ; ...` executed one line after the other (state carried over)
        let mut last = State::NEXT;
        let mut failed: Option<&str> = None;
        for (k, l) in line.split(" ; ").enumerate() {
            let vm = &mut b.vm;
            let interp = &b.interp;
            match catch_unwind(AssertUnwindSafe(|| interp.parse(cur + k, vm, &mut ctx, l).map_err(|_| ()))) {
                Err(_) => {
                    failed = Some("PANIC");
                    break;
                }
                Ok(Err(())) => {
                    failed = Some("ERR");
                    break;
                }
                Ok(Ok(st)) => last = st,
            }
        }
        let out = match failed {
            Some(f) => {
                b.diff_and_restore();
                f.to_string()
            }
            None => {
                let regs = regs_of(&b.vm);
                let d = b.diff_and_restore();
                let ds = if d.is_empty() { "-".to_string() } else { d.iter().map(|(a, v)| format!("{}:{}", a, v)).collect::<Vec<_>>().join(",") };
                let cs = if ctx.call_stack.is_empty() { "-".to_string() } else { ctx.call_stack.iter().map(|n| n.to_string()).collect::<Vec<_>>().join(",") };
                format!("{} | {} | {} | {}", state_str(&last), regs, ds, cs)
            }
        };
        for (a, old) in poked.into_iter().rev() {
            b.base[a] = old;
            b.vm.mem[a] = old;
        }
        return out;
    }
    let r = {
        let vm = &mut b.vm;
        let interp = &b.interp;
        catch_unwind(AssertUnwindSafe(|| {
            if repeat_protocol {
                // the driver's loop: re-issue the same line while the answer is REPEAT
                let mut n = 0u32;
                loop {
                    match interp.parse(cur, vm, &mut ctx, line) {
                        Ok(State::REPEAT) => {
                            n += 1;
                            if n > 70_000 {
                                return Ok(State::REPEAT);
                            }
                        }
                        Ok(s) => return Ok(s),
                        Err(_) => return Err(()),
                    }
                }
            } else {
                interp.parse(cur, vm, &mut ctx, line).map_err(|_| ())
            }
        }))
    };
    let out = match r {
        Err(_) => {
            b.diff_and_restore();
            "PANIC".to_string()
        }
        Ok(Err(())) => {
            b.diff_and_restore();
            "ERR".to_string()
        }
        Ok(Ok(st)) => {
            let regs = regs_of(&b.vm);
            let d = b.diff_and_restore();
            let ds = if d.is_empty() {
                "-".to_string()
            } else {
                d.iter().map(|(a, v)| format!("{}:{}", a, v)).collect::<Vec<_>>().join(",")
            };
            let cs = if ctx.call_stack.is_empty() {
                "-".to_string()
            } else {
                ctx.call_stack.iter().map(|n| n.to_string()).collect::<Vec<_>>().join(",")
            };
            format!("{} | {} | {} | {}", state_str(&st), regs, ds, cs)
        }
    };
    // undo the pokes
    for (a, old) in poked.into_iter().rev() {
        b.base[a] = old;
        b.vm.mem[a] = old;
    }
    out
}

// ------------------------------------------------------------------------------------------------
// generators

const ADV: [u16; 12] = [0, 1, 2, 0x7FFF, 0x8000, 0xFFFE, 0xFFFF, 0x00FF, 0x0100, 0xFFF0, 0x000F, 0x1234];

pub struct Gen {
    pub rng: Rng,
    pub memseed: u64,
}

pub const BREGS: [&str; 8] = ["al", "ah", "bl", "bh", "cl", "ch", "dl", "dh"];
pub const WREGS: [&str; 8] = ["ax", "bx", "cx", "dx", "sp", "bp", "si", "di"];
pub const SREGS: [&str; 4] = ["es", "ds", "ss", "cs"];

pub const LABELS: &str = "vb:D:5;vw:D:300;big:D:65535;zero:D:0;edge:D:15;start:C:0;lab:C:7;far:C:100";
pub const FNS: &str = "fun:3;other:44";

impl Gen {
    pub fn reg16(&mut self) -> u16 {
        if self.rng.chance(2, 3) {
            *self.rng.pick(&ADV)
        } else {
            self.rng.next() as u16
        }
    }
    /// a machine state: 14 registers; segments often chosen so that seg*16+off straddles 2^20
    pub fn regs(&mut self) -> [u16; 14] {
        let mut r = [0u16; 14];
        for x in r.iter_mut() {
            *x = self.reg16();
        }
        r[0] = match self.rng.below(4) {
            0 => 0xF000,
            1 => 0xFFFF,
            2 => 0x0000,
            _ => self.rng.next() as u16,
        };
        for i in [10usize, 11, 12, 13] {
            r[i] = match self.rng.below(5) {
                0 => 0xFFFF,
                1 => 0xF000 + (self.rng.below(0x1000) as u16),
                2 => 0,
                3 => 0xFFF0 + (self.rng.below(16) as u16),
                _ => self.rng.next() as u16,
            };
        }
        r
    }
    pub fn disp(&mut self) -> String {
        match self.rng.below(8) {
            0 => "0".into(),
            1 => "1".into(),
            2 => "-1".into(),
            3 => "-32768".into(),
            4 => "65535".into(),
            5 => "32767".into(),
            6 => format!("-{}", self.rng.below(32768) + 1),
            _ => format!("{}", self.rng.below(65536)),
        }
    }
    pub fn mem(&mut self) -> String {
        let seg = if self.rng.chance(1, 2) { format!("{}:", self.rng.pick(&SREGS)) } else { String::new() };
        let base = *self.rng.pick(&["bx", "bp"]);
        let idx = *self.rng.pick(&["si", "di"]);
        match self.rng.below(6) {
            0 => format!("{}[{}]", seg, self.rng.below(65536)),
            1 => format!("{}[{}]", seg, base),
            2 => format!("{}[{}]", seg, idx),
            3 => format!("{}[{},{}]", seg, base, self.disp()),
            4 => format!("{}[{},{}]", seg, idx, self.disp()),
            _ => format!("{}[{},{},{}]", seg, base, idx, self.disp()),
        }
    }
    pub fn dst8(&mut self) -> String {
        match self.rng.below(4) {
            0 | 1 => self.rng.pick(&BREGS).to_string(),
            2 => format!("byte {}", self.mem()),
            _ => format!("byte {}", self.rng.pick(&["vb", "vw", "big", "zero", "edge"])),
        }
    }
    pub fn dst16(&mut self) -> String {
        match self.rng.below(4) {
            0 | 1 => self.rng.pick(&WREGS).to_string(),
            2 => format!("word {}", self.mem()),
            _ => format!("word {}", self.rng.pick(&["vb", "vw", "big", "zero", "edge"])),
        }
    }
    pub fn imm8s(&mut self) -> String {
        match self.rng.below(6) {
            0 => "0".into(),
            1 => "255".into(),
            2 => "-128".into(),
            3 => "-1".into(),
            4 => format!("-{}", self.rng.below(128) + 1),
            _ => format!("{}", self.rng.below(256)),
        }
    }
    pub fn imm16s(&mut self) -> String {
        match self.rng.below(6) {
            0 => "0".into(),
            1 => "65535".into(),
            2 => "-32768".into(),
            3 => "-1".into(),
            4 => format!("-{}", self.rng.below(32768) + 1),
            _ => format!("{}", self.rng.below(65536)),
        }
    }
    /// (dst, src) for the binary families; `signed` selects the immediate syntax
    pub fn pair(&mut self, signed: bool) -> String {
        let word = self.rng.chance(1, 2);
        let (d, mut s);
        if word {
            d = self.dst16();
            s = match self.rng.below(4) {
                0 => self.rng.pick(&WREGS).to_string(),
                1 => {
                    if signed {
                        self.imm16s()
                    } else {
                        format!("{}", self.rng.below(65536))
                    }
                }
                _ => self.dst16(),
            };
            if d.starts_with("word") && s.starts_with("word") {
                s = self.rng.pick(&WREGS).to_string();
            }
        } else {
            d = self.dst8();
            s = match self.rng.below(4) {
                0 => self.rng.pick(&BREGS).to_string(),
                1 => {
                    if signed {
                        self.imm8s()
                    } else {
                        format!("{}", self.rng.below(256))
                    }
                }
                _ => self.dst8(),
            };
            if d.starts_with("byte") && s.starts_with("byte") {
                s = self.rng.pick(&BREGS).to_string();
            }
        }
        let sep = *self.rng.pick(&[",", " , ", ", "]);
        format!("{}{}{}", d, sep, s)
    }
    pub fn unary_dst(&mut self) -> String {
        if self.rng.chance(1, 2) {
            self.dst16()
        } else {
            self.dst8()
        }
    }

    pub fn line(&mut self, class: &str) -> String {
        match class {
            "arith" => match self.rng.below(3) {
                0 | 1 => format!("{} {}", self.rng.pick(&["add", "adc", "sub", "sbb", "cmp"]), self.pair(true)),
                _ => format!("{} {}", self.rng.pick(&["inc", "dec", "neg"]), self.unary_dst()),
            },
            "logic" => match self.rng.below(4) {
                0 => format!("not {}", self.unary_dst()),
                _ => format!("{} {}", self.rng.pick(&["and", "or", "xor", "test"]), self.pair(false)),
            },
            "shift" => {
                let f = *self.rng.pick(&["sal", "shl", "sar", "shr", "rol", "ror", "rcl", "rcr"]);
                let cnt = match self.rng.below(4) {
                    0 => "cl".to_string(),
                    1 => format!("{}", self.rng.below(256)),
                    _ => format!("{}", self.rng.pick(&[0u32, 1, 2, 7, 8, 9, 10, 15, 16, 17, 18, 31, 32, 33, 255])),
                };
                format!("{} {},{}", f, self.unary_dst(), cnt)
            }
            "muldiv" => match self.rng.below(5) {
                0 => self.rng.pick(&["aaa", "aad", "aam", "aas", "daa", "das", "cbw", "cwd"]).to_string(),
                _ => format!("{} {}", self.rng.pick(&["mul", "imul", "div", "idiv"]), self.unary_dst()),
            },
            "mov" => match self.rng.below(8) {
                0 => format!("mov {},{}", self.rng.pick(&SREGS), self.rng.pick(&WREGS)),
                1 => format!("mov {},{}", self.rng.pick(&WREGS), self.rng.pick(&SREGS)),
                2 => format!("mov word {},{}", self.mem(), self.rng.pick(&SREGS)),
                3 => format!("mov {}, word {}", self.rng.pick(&SREGS), self.mem()),
                4 => format!("mov {}, word {}", self.rng.pick(&SREGS), self.rng.pick(&["vw", "vw", "edge", "big"])),
                5 => format!("mov word {},{}", self.rng.pick(&["vw", "vw", "edge", "big"]), self.rng.pick(&SREGS)),
                _ => format!("mov {}", self.pair(true)),
            },
            "xfer" => match self.rng.below(10) {
                0 => "lahf".into(),
                1 => "sahf".into(),
                2 => "xlat".into(),
                3 => format!("xchg {},{}", self.rng.pick(&BREGS), self.rng.pick(&BREGS)),
                4 => format!("xchg {} ,{}", self.rng.pick(&WREGS), self.rng.pick(&WREGS)),
                5 => format!("xchg byte {} ,{}", self.mem(), self.rng.pick(&BREGS)),
                6 => format!("xchg word {} ,{}", self.mem(), self.rng.pick(&WREGS)),
                7 => format!("xchg word {} ,{}", self.rng.pick(&["vw", "vw", "edge", "big"]), self.rng.pick(&WREGS)),
                8 => format!("lea {} , word {}", self.rng.pick(&WREGS), self.mem()),
                _ => format!("lea {} , word {}", self.rng.pick(&WREGS), self.rng.pick(&["vb", "vw", "big", "zero", "edge"])),
            },
            "stack" => match self.rng.below(10) {
                0 => "pushf".into(),
                1 => "popf".into(),
                2 => format!("push {}", self.rng.pick(&WREGS)),
                3 => format!("pop {}", self.rng.pick(&WREGS)),
                4 => format!("push {}", self.rng.pick(&SREGS)),
                5 => format!("pop {}", self.rng.pick(&["es", "ds", "ss"])),
                6 => format!("push word {}", self.mem()),
                7 => format!("pop word {}", self.mem()),
                8 => format!("push word {}", self.rng.pick(&["vb", "vw", "big", "edge"])),
                _ => format!("pop word {}", self.rng.pick(&["vb", "vw", "big", "edge"])),
            },
            "jump" => {
                let j = *self.rng.pick(&[
                    "jmp", "ja", "jae", "jb", "jbe", "jc", "je", "jg", "jge", "jl", "jle", "jnc", "jne", "jno", "jnp",
                    "jns", "jo", "jp", "js", "jcxz", "loop", "loope", "loopne",
                ]);
                match self.rng.below(12) {
                    0 => "ret".into(),
                    1 => format!("call {}", self.rng.pick(&["fun", "other"])),
                    2 => format!("int {}", self.rng.pick(&[3u32, 16, 33])),
                    _ => format!("{} {}", j, self.rng.pick(&["lab", "far", "start"])),
                }
            }
            "string" => {
                let pre = *self.rng.pick(&["", "", "rep ", "repz ", "repnz "]);
                format!(
                    "{}{} {}",
                    pre,
                    self.rng.pick(&["movs", "lods", "stos", "cmps", "scas"]),
                    self.rng.pick(&["byte", "word"])
                )
            }
            "ctl" => self
                .rng
                .pick(&["stc", "clc", "cmc", "std", "cld", "sti", "cli", "hlt", "nop", "print reg", "print flags", "print mem 0 -> 5", "print mem 5 : 3", "print mem : 9"])
                .to_string(),
            "malformed" => {
                // near misses: lines the assembler never emits; must be ERR in both, never PANIC
                let c = *self.rng.pick(&["arith", "logic", "shift", "muldiv", "mov", "xfer", "stack", "jump", "string", "ctl"]);
                let mut l = self.line(c);
                match self.rng.below(9) {
                    0 => l = l.replace(',', " "),
                    1 => l.push_str(" ax"),
                    2 => l = l.replacen("word", "byte", 1),
                    3 => l = l.replacen("byte", "word", 1),
                    4 => l = l.replace("[", "[["),
                    5 => l = format!("{} 70000", l),
                    6 => l = l.replace("lab", "nolabel").replace("vw", "nolabel").replace("fun", "nofun"),
                    7 => l = l.replace("vw", "lab").replace("lab", "vb"),
                    _ => {
                        let toks: Vec<&str> = l.split_whitespace().collect();
                        if toks.len() > 1 {
                            let k = self.rng.below(toks.len() as u64) as usize;
                            l = toks.iter().enumerate().filter(|(i, _)| *i != k).map(|(_, t)| *t).collect::<Vec<_>>().join(" ");
                        }
                    }
                }
                l
            }
            _ => "nop".into(),
        }
    }

    pub fn request(&mut self, class: &str) -> String {
        let line = self.line(class);
        self.request_for(&line)
    }

    pub fn request_for(&mut self, line: &str) -> String {
        let r = self.regs();
        let regs = r.iter().map(|x| x.to_string()).collect::<Vec<_>>().join(" ");
        let seed = self.memseed;
        let stack = match self.rng.below(3) {
            0 => "-".to_string(),
            1 => "9".to_string(),
            _ => "4,17,2".to_string(),
        };
        let pokes = if self.rng.chance(1, 4) {
            // make the stack top / DS:SI region interesting
            let a = ((r[12] as u32) * 16 + r[5] as u32) & 0xFFFFF;
            format!("{}:{},{}:{}", a, self.rng.below(256), (a + 1) & 0xFFFFF, self.rng.below(256))
        } else {
            "-".to_string()
        };
        format!("x {} | {} | {} | {} | {} | {} | {} | {}", regs, seed, pokes, LABELS, FNS, stack, self.rng.below(50), line)
    }
}

const JUMPS: [&str; 23] = [
    "jmp", "ja", "jae", "jb", "jbe", "jc", "je", "jg", "jge", "jl", "jle", "jnc", "jne", "jno", "jnp", "jns", "jo", "jp",
    "js", "jcxz", "loop", "loope", "loopne",
];

/// exhaustive: every jump mnemonic x all 32 settings of CF PF ZF SF OF x 4 settings of the other bits x CX lattice
fn run_jumpx<W: Write>(thorough: bool, seed: u64, shard: u64, nshards: u64, out: &mut W) {
    let mut g = Gen { rng: Rng::new(seed ^ 0x6a6a), memseed: seed % 7 + 1 };
    let mut b = Bench::new();
    let others: [u16; 4] = [0x0000, 0xF000, 0xF72A, 0x0712];
    let mut cxs: Vec<u16> = vec![0, 1, 2, 0x7FFF, 0x8000, 0xFFFE, 0xFFFF, 0x100, 0xFF];
    let extra = if thorough { 4096 } else { 24 };
    for _ in 0..extra {
        cxs.push(g.rng.next() as u16);
    }
    for j in JUMPS.iter() {
        for bits in 0..32u16 {
            let five = (bits & 1) | ((bits >> 1 & 1) << 2) | ((bits >> 2 & 1) << 6) | ((bits >> 3 & 1) << 7) | ((bits >> 4 & 1) << 11);
            for o in others.iter() {
                let fl = (o & !0x08C5) | five;
                let cx_dependent = matches!(*j, "jcxz" | "loop" | "loope" | "loopne");
                for (k, cx) in cxs.iter().enumerate() {
                    if !cx_dependent && k >= 2 {
                        break;
                    }
                    let mut r = g.regs();
                    r[0] = fl;
                    r[3] = *cx;
                    let regs = r.iter().map(|x| x.to_string()).collect::<Vec<_>>().join(" ");
                    let req = format!("x {} | {} | - | {} | {} | 4,17,2 | {} | {} {}", regs, g.memseed, LABELS, FNS, g.rng.below(50), j, g.rng.pick(&["lab", "far", "start"]));
                    if crate::rng::fnv1a(&req) % nshards != shard {
                        continue;
                    }
                    let a = answer_with(&mut b, &req);
                    writeln!(out, "{} => {}", req, a).unwrap();
                }
            }
        }
    }
}

/// REP protocol driven to completion: every string mnemonic x width x DF x prefix x CX in 0..=64 (+ larger)
fn run_rep<W: Write>(thorough: bool, seed: u64, shard: u64, nshards: u64, out: &mut W) {
    let mut g = Gen { rng: Rng::new(seed ^ 0x7e9), memseed: seed % 7 + 1 };
    let mut b = Bench::new();
    let mut cxs: Vec<u16> = (0..=64).collect();
    if thorough {
        cxs.extend_from_slice(&[255, 256, 4095, 32768, 65535]);
        for _ in 0..8 {
            cxs.push(g.rng.next() as u16);
        }
    } else {
        cxs.extend_from_slice(&[255, 300]);
    }
    let rounds = if thorough { 6 } else { 1 };
    for _ in 0..rounds {
        for op in ["movs", "lods", "stos", "cmps", "scas"].iter() {
            for w in ["byte", "word"].iter() {
                for pre in ["rep", "repz", "repnz"].iter() {
                    for df in [false, true].iter() {
                        for cx in cxs.iter() {
                            let mut r = g.regs();
                            r[0] = if *df { r[0] | 0x0400 } else { r[0] & !0x0400 };
                            r[3] = *cx;
                            // make comparisons interesting: sometimes DS:SI and ES:DI alias (equal runs), and
                            // poke a few equal / different bytes
                            if g.rng.chance(1, 2) {
                                r[13] = r[11];
                                r[8] = r[7];
                            }
                            let regs = r.iter().map(|x| x.to_string()).collect::<Vec<_>>().join(" ");
                            let mut pokes: Vec<String> = Vec::new();
                            if g.rng.chance(1, 2) {
                                // a run of bytes equal to AL / to each other at ES:DI, so that REPE/REPNE run for a while
                                let base = (r[13] as u32) * 16;
                                let al = r[1] & 0xFF;
                                let n = g.rng.below(12) as u32;
                                for k in 0..n {
                                    let off = if *df { r[8].wrapping_sub(k as u16) } else { r[8].wrapping_add(k as u16) };
                                    pokes.push(format!("{}:{}", (base + off as u32) & 0xFFFFF, al));
                                }
                            }
                            let pk = if pokes.is_empty() { "-".to_string() } else { pokes.join(",") };
                            let req = format!("xr {} | {} | {} | {} | {} | - | {} | {} {} {}", regs, g.memseed, pk, LABELS, FNS, g.rng.below(50), pre, op, w);
                            if crate::rng::fnv1a(&req) % nshards != shard {
                                continue;
                            }
                            let a = answer_with(&mut b, &req);
                            writeln!(out, "{} => {}", req, a).unwrap();
                        }
                    }
                }
            }
        }
    }
}

/// random interleavings of pushes and pops (and a few moves) as one straight-line sequence
fn run_stackseq<W: Write>(thorough: bool, seed: u64, shard: u64, nshards: u64, out: &mut W) {
    let mut g = Gen { rng: Rng::new(seed ^ 0x57ac), memseed: seed % 7 + 1 };
    let mut b = Bench::new();
    let n = if thorough { 20_000 } else { 2_000 };
    let maxlen = if thorough { 2000 } else { 64 };
    for i in 0..n {
        let len = 1 + g.rng.below(if i % 50 == 0 { maxlen } else { 24 }) as usize;
        let mut lines: Vec<String> = Vec::new();
        for _ in 0..len {
            let class = *g.rng.pick(&["stack", "stack", "stack", "mov"]);
            lines.push(g.line(class));
        }
        let mut r = g.regs();
        // SS:SP families: SP 0,1,0xFFFF, top of the 1 MB space
        match g.rng.below(6) {
            0 => r[5] = 0,
            1 => r[5] = 1,
            2 => r[5] = 0xFFFF,
            3 => {
                r[12] = 0xFFFF;
                r[5] = 0x10 + g.rng.below(8) as u16;
            }
            _ => {}
        }
        let regs = r.iter().map(|x| x.to_string()).collect::<Vec<_>>().join(" ");
        let req = format!("xs {} | {} | - | {} | {} | - | {} | {}", regs, g.memseed, LABELS, FNS, g.rng.below(50), lines.join(" ; "));
        if crate::rng::fnv1a(&req) % nshards != shard {
            continue;
        }
        let a = answer_with(&mut b, &req);
        writeln!(out, "{} => {}", req, a).unwrap();
    }
}

/// random straight-line sequences over ALL instruction classes without control transfer: state left by one
/// instruction (flags, registers, memory, stack) is consumed by the next
fn run_mixseq<W: Write>(thorough: bool, seed: u64, shard: u64, nshards: u64, out: &mut W) {
    let mut g = Gen { rng: Rng::new(seed ^ 0x31c5), memseed: seed % 7 + 1 };
    let mut b = Bench::new();
    let n = if thorough { 60_000 } else { 6_000 };
    for i in 0..n {
        let len = 2 + g.rng.below(if i % 40 == 0 { 40 } else { 7 }) as usize;
        let mut lines: Vec<String> = Vec::new();
        // every third sequence only from the classes whose flags are fully defined (compared with the reference itself)
        let pool: &[&str] = if i % 3 == 0 { &["arith", "mov", "xfer", "stack", "ctl", "string"] } else { &["arith", "logic", "shift", "muldiv", "mov", "xfer", "stack", "ctl", "string"] };
        for _ in 0..len {
            let class = *g.rng.pick(pool);
            let l = g.line(class);
            // no repeat prefixes / interrupts / transfers inside a straight-line sequence
            if l.starts_with("rep") || l.starts_with("int") || l.starts_with("call") || l.starts_with("ret") || l.starts_with("hlt") {
                continue;
            }
            lines.push(l);
        }
        if lines.len() < 2 {
            continue;
        }
        let r = g.regs();
        let regs = r.iter().map(|x| x.to_string()).collect::<Vec<_>>().join(" ");
        let req = format!("xs {} | {} | - | {} | {} | - | {} | {}", regs, g.memseed, LABELS, FNS, g.rng.below(50), lines.join(" ; "));
        if crate::rng::fnv1a(&req) % nshards != shard {
            continue;
        }
        let a = answer_with(&mut b, &req);
        writeln!(out, "{} => {}", req, a).unwrap();
    }
}

/// operands that alias the stack top (or the registers the instruction itself updates): the memory word read or
/// written lies within +-4 bytes of SS:SP, SP / BP are themselves operands, segments equal or wrapped
fn run_alias<W: Write>(thorough: bool, seed: u64, shard: u64, nshards: u64, out: &mut W) {
    let mut g = Gen { rng: Rng::new(seed ^ 0xa11a5), memseed: seed % 7 + 1 };
    let mut b = Bench::new();
    let reps = if thorough { 40 } else { 4 };
    let templates = [
        "push word [bp,{d}]", "pop word [bp,{d}]", "push word [bx,{d}]", "pop word [bx,{d}]", "push word ss:[si,{d}]", "pop word ss:[di,{d}]",
        "xchg word [bp,{d}] ,sp", "xchg word [bp,{d}] ,bp", "mov word [bp,{d}],sp", "mov sp, word [bp,{d}]", "mov bp, word [bp,{d}]",
        "add word [bp,{d}],sp", "add sp, word [bp,{d}]", "inc word [bp,{d}]", "not word [bp,{d}]", "shl word [bp,{d}],1",
        "pop sp", "push sp", "pop bp", "push bp", "pop ss", "push ss", "pushf", "popf", "xchg sp,bp", "xchg ax,sp", "mov sp,bp", "lea sp , word [bp,{d}]",
        "movs word", "movs byte", "stos word", "lods word", "cmps word", "xlat",
    ];
    for t in templates.iter() {
        for d in -4i32..=4 {
            if !t.contains("{d}") && d != 0 {
                continue;
            }
            for _ in 0..reps {
                let line = t.replace("{d}", &d.to_string());
                let mut r = g.regs();
                // SS:SP family
                let (ss, sp) = match g.rng.below(5) {
                    0 => (0u16, 0x100u16),
                    1 => (0xFFFF, 0x10 + g.rng.below(6) as u16),
                    2 => (g.rng.next() as u16, g.rng.pick(&[0u16, 1, 2, 3, 0xFFFE, 0xFFFF]).clone()),
                    _ => (g.rng.next() as u16, g.rng.next() as u16),
                };
                r[12] = ss;
                r[5] = sp;
                r[6] = sp; // BP = SP
                r[2] = sp; // BX = SP
                r[7] = sp; // SI = SP
                r[8] = sp.wrapping_add(*g.rng.pick(&[0u16, 1, 0xFFFF, 2])); // DI near SI
                if g.rng.chance(3, 4) {
                    r[11] = ss; // DS = SS: [bx,d] aliases the stack too
                    r[13] = ss; // ES = SS
                }
                let regs = r.iter().map(|x| x.to_string()).collect::<Vec<_>>().join(" ");
                let req = format!("x {} | {} | - | {} | {} | 4,17,2 | {} | {}", regs, g.memseed, LABELS, FNS, g.rng.below(50), line);
                if crate::rng::fnv1a(&req) % nshards != shard {
                    continue;
                }
                let a = answer_with(&mut b, &req);
                writeln!(out, "{} => {}", req, a).unwrap();
            }
        }
    }
}

/// MUL/IMUL/DIV/IDIV on the boundary lattice of (DX:AX, operand): divisors 0 / 1 / -1, MIN dividends, quotient-overflow edges
fn run_divx<W: Write>(thorough: bool, seed: u64, shard: u64, nshards: u64, out: &mut W) {
    let mut g = Gen { rng: Rng::new(seed ^ 0xd1f), memseed: seed % 7 + 1 };
    let mut b = Bench::new();
    let mut lat: Vec<u16> = vec![0, 1, 2, 0x7F, 0x80, 0x81, 0xFF, 0x100, 0x7FFF, 0x8000, 0x8001, 0xFFFE, 0xFFFF, 0xFF00, 0x00FE];
    if thorough {
        for _ in 0..24 {
            lat.push(g.rng.next() as u16);
        }
    }
    for op in ["mul", "imul", "div", "idiv"].iter() {
        for form in ["bx", "bl", "bh", "word [300]", "byte [300]", "word vw", "ax", "dx", "al", "ah"].iter() {
            for ax in lat.iter() {
                for dx in lat.iter() {
                    for v in lat.iter() {
                        let mut r = g.regs();
                        r[1] = *ax;
                        r[4] = *dx;
                        if *form != "ax" && *form != "al" && *form != "ah" && *form != "dx" {
                            r[2] = *v;
                        }
                        r[11] = 0;
                        let regs = r.iter().map(|x| x.to_string()).collect::<Vec<_>>().join(" ");
                        let pokes = format!("300:{},301:{}", v & 0xFF, v >> 8);
                        let req = format!("x {} | {} | {} | {} | {} | - | {} | {} {}", regs, g.memseed, pokes, LABELS, FNS, g.rng.below(50), op, form);
                        if crate::rng::fnv1a(&req) % nshards != shard {
                            continue;
                        }
                        let a = answer_with(&mut b, &req);
                        writeln!(out, "{} => {}", req, a).unwrap();
                    }
                }
            }
        }
    }
}

pub fn run<W: Write>(group: &str, thorough: bool, seed: u64, shard: u64, nshards: u64, out: &mut W) {
    if group == "divx" {
        return run_divx(thorough, seed, shard, nshards, out);
    }
    if group == "stackseq" {
        return run_stackseq(thorough, seed, shard, nshards, out);
    }
    if group == "mixseq" {
        return run_mixseq(thorough, seed, shard, nshards, out);
    }
    if group == "alias" {
        return run_alias(thorough, seed, shard, nshards, out);
    }
    if group == "jumpx" {
        return run_jumpx(thorough, seed, shard, nshards, out);
    }
    if group == "rep" {
        return run_rep(thorough, seed, shard, nshards, out);
    }
    let mut g = Gen { rng: Rng::new(seed ^ 0x2222 ^ crate::rng::fnv1a(group)), memseed: seed % 7 + 1 };
    let mut b = Bench::new();
    let classes: Vec<&str> = if group == "all" {
        vec!["arith", "logic", "shift", "muldiv", "mov", "xfer", "stack", "jump", "string", "ctl"]
    } else {
        group.split('+').collect()
    };
    let n: u64 = if thorough { 400_000 } else { 40_000 };
    for i in 0..n {
        let class = classes[(i % classes.len() as u64) as usize];
        let req = g.request(class);
        if crate::rng::fnv1a(&req) % nshards != shard {
            continue;
        }
        let a = answer_with(&mut b, &req);
        writeln!(out, "{} => {}", req, a).unwrap();
    }
}
