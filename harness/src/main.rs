// Correspondence harness (T-corr): runs the REAL code of /repo (path dependency, dev profile,
// overflow checks on) on generated inputs and prints `<request> => <implementation answer>` lines
// that the Lean model driver re-reads, re-computes (model + spec) and compares.
use std::io::{BufWriter, Write};

mod l1;
mod l2;
mod l3;
mod l4;
mod rng;

fn usage() -> ! {
    eprintln!("usage: verif_harness l1 <group> <quick|thorough> <seed> <shard> <nshards>");
    eprintln!("       verif_harness l2 <group> <quick|thorough> <seed> <shard> <nshards>");
    eprintln!("       verif_harness replay   (requests on stdin, answers on stdout)");
    std::process::exit(2)
}

fn main() {
    // panics of the code under test are caught per case; keep stderr quiet
    std::panic::set_hook(Box::new(|_| {}));
    let args: Vec<String> = std::env::args().collect();
    if args.len() < 2 {
        usage();
    }
    let stdout = std::io::stdout();
    let mut out = BufWriter::with_capacity(1 << 20, stdout.lock());
    match args[1].as_str() {
        "l1" | "l2" => {
            if args.len() != 7 {
                usage();
            }
            let group = args[2].as_str();
            let thorough = args[3] == "thorough";
            let seed: u64 = args[4].parse().unwrap_or(0);
            let shard: u64 = args[5].parse().unwrap();
            let nshards: u64 = args[6].parse().unwrap();
            if args[1] == "l1" {
                l1::run(group, thorough, seed, shard, nshards, &mut out);
            } else {
                l2::run(group, thorough, seed, shard, nshards, &mut out);
            }
        }
        "replay" => {
            let mut line = String::new();
            let stdin = std::io::stdin();
            loop {
                line.clear();
                if stdin.read_line(&mut line).unwrap_or(0) == 0 {
                    break;
                }
                let req = line.split(" => ").next().unwrap().trim();
                if req.is_empty() {
                    continue;
                }
                if std::env::var("VERIF_ISOLATE").map(|v| v == "1").unwrap_or(false) && (req.starts_with("asm ") || req.starts_with("asm2 ") || req.starts_with("opnd ") || req.starts_with("jsp ") || req.starts_with("asmx ") || req.starts_with("asmre ") || req.starts_with("role ")) {
                    // one child process per request: a stack overflow / abort of the code under test is an answer, not our death
                    use std::io::Write as _;
                    use std::process::{Command, Stdio};
                    let exe = std::env::current_exe().unwrap();
                    let mut ch = Command::new(exe).arg("replay").env("VERIF_ISOLATE", "0").stdin(Stdio::piped()).stdout(Stdio::piped()).stderr(Stdio::null()).spawn().unwrap();
                    ch.stdin.take().unwrap().write_all(format!("{}\n", req).as_bytes()).unwrap();
                    let o = ch.wait_with_output().unwrap();
                    let txt = String::from_utf8_lossy(&o.stdout).to_string();
                    if o.status.success() && txt.contains(" => ") {
                        write!(out, "{}", txt).unwrap();
                    } else {
                        writeln!(out, "{} => ABORT", req).unwrap();
                    }
                    continue;
                }
                let ans = if req.starts_with("cli ") { l4::answer(req) } else if req.starts_with("asm ") || req.starts_with("asm2 ") || req.starts_with("opnd ") || req.starts_with("jsp ") || req.starts_with("asmx ") || req.starts_with("asmre ") || req.starts_with("role ") || req.starts_with("run ") { l3::answer(req) } else if req.starts_with("x ") || req.starts_with("xr ") || req.starts_with("xs ") { l2::answer(req) } else { l1::answer(req) };
                writeln!(out, "{} => {}", req, ans).unwrap();
            }
        }
        _ => usage(),
    }
    out.flush().unwrap();
}
