// Level 4: the real `emulator_8086` binary (built from /repo's working tree with the verification
// hook enabled) in a child process: scripted stdin, captured stdout, watchdog.
//
// request : cli <i|-> | <percent-encoded source file content> | <percent-encoded stdin>
// answer  : exit=<code|signal|timeout> | out=<stdout> | trace=<idx,..|-> | regs=<14 regs|-> | mem=<count>:<first 48 a:v>
use crate::l3::{dec, enc};
use std::io::{Read, Write};
use std::process::{Command, Stdio};
use std::time::{Duration, Instant};

fn cli_path() -> String {
    std::env::var("VERIF_CLI").unwrap_or_else(|_| "/verif/build/target-cli/debug/emulator_8086".to_string())
}

/// with VERIF_CLI_REPEAT=n every case is run n times in separate processes; the answers must be identical
pub fn answer(req: &str) -> String {
    let n: usize = std::env::var("VERIF_CLI_REPEAT").ok().and_then(|s| s.parse().ok()).unwrap_or(1);
    let first = answer_once(req);
    for _ in 1..n {
        let again = answer_once(req);
        // a run cut off by the watchdog stops at an arbitrary point: not comparable
        if again != first && !first.starts_with("exit=timeout") && !again.starts_with("exit=timeout") {
            return format!("NONDET first={} || again={}", first, again);
        }
    }
    first
}

fn dec_bytes(s: &str) -> Option<Vec<u8>> {
    let b = s.as_bytes();
    if s == "%" {
        return Some(Vec::new());
    }
    let mut out = Vec::with_capacity(b.len());
    let mut i = 0;
    while i < b.len() {
        if b[i] == b'%' {
            if i + 2 >= b.len() + 0 && i + 2 > b.len() {
                return None;
            }
            let h = std::str::from_utf8(b.get(i + 1..i + 3)?).ok()?;
            out.push(u8::from_str_radix(h, 16).ok()?);
            i += 3;
        } else {
            out.push(b[i]);
            i += 1;
        }
    }
    Some(out)
}

fn answer_once(req: &str) -> String {
    // an optional fourth field (`expect=..`) is for the model driver only
    let parts: Vec<&str> = req.splitn(4, " | ").collect();
    if parts.len() != 3 && parts.len() != 4 {
        return "BADREQ".into();
    }
    let head: Vec<&str> = parts[0].split_whitespace().collect();
    if head.len() != 2 || head[0] != "cli" {
        return "BADREQ".into();
    }
    let interpreted = head[1] == "i";
    // the source file is arbitrary bytes (not necessarily UTF-8)
    let src: Vec<u8> = match dec_bytes(parts[1].trim()) {
        Some(s) => s,
        None => return "BADREQ".into(),
    };
    let stdin_text = match dec(parts[2].trim()) {
        Some(s) => s,
        None => return "BADREQ".into(),
    };
    let dir = std::env::var("VERIF_SCRATCH").unwrap_or_else(|_| "/verif/build/scratch".to_string());
    let _ = std::fs::create_dir_all(&dir);
    let pid = std::process::id();
    let srcf = format!("{}/p{}.s", dir, pid);
    let trf = format!("{}/p{}.trace", dir, pid);
    let _ = std::fs::remove_file(&trf);
    if std::fs::write(&srcf, &src).is_err() {
        return "BADREQ".into();
    }
    let mut cmd = Command::new(cli_path());
    if interpreted {
        cmd.arg("-i");
    }
    cmd.arg(&srcf).env("VERIF_TRACE_FILE", &trf).env("RUST_BACKTRACE", "0").stdin(Stdio::piped()).stdout(Stdio::piped()).stderr(Stdio::null());
    let mut child = match cmd.spawn() {
        Ok(c) => c,
        Err(e) => return format!("NOCLI {}", e),
    };
    {
        let mut si = child.stdin.take().unwrap();
        let _ = si.write_all(stdin_text.as_bytes());
        // dropped: the child sees end of input
    }
    let mut so = child.stdout.take().unwrap();
    let reader = std::thread::spawn(move || {
        let mut buf = Vec::new();
        let mut chunk = [0u8; 65536];
        loop {
            match so.read(&mut chunk) {
                Ok(0) | Err(_) => break,
                Ok(n) => {
                    if buf.len() < (4 << 20) {
                        buf.extend_from_slice(&chunk[..n]);
                    }
                }
            }
        }
        buf
    });
    let limit = Duration::from_secs(std::env::var("VERIF_CLI_TIMEOUT").ok().and_then(|s| s.parse().ok()).unwrap_or(20));
    let t0 = Instant::now();
    let status = loop {
        match child.try_wait() {
            Ok(Some(st)) => break Some(st),
            Ok(None) => {
                if t0.elapsed() > limit {
                    let _ = child.kill();
                    let _ = child.wait();
                    break None;
                }
                std::thread::sleep(Duration::from_millis(2));
            }
            Err(_) => break None,
        }
    };
    let out = reader.join().unwrap_or_default();
    let exit = match status {
        None => "timeout".to_string(),
        Some(st) => match st.code() {
            Some(c) => c.to_string(),
            None => "signal".to_string(),
        },
    };
    let (mut trace, mut regs, mut mem) = ("-".to_string(), "-".to_string(), "-".to_string());
    if let Ok(t) = std::fs::read_to_string(&trf) {
        for l in t.lines() {
            if let Some(x) = l.strip_prefix("trace=") {
                trace = if x.is_empty() { "-".into() } else { x.to_string() };
            } else if let Some(x) = l.strip_prefix("regs=") {
                regs = x.to_string();
            } else if let Some(x) = l.strip_prefix("mem=") {
                let items: Vec<&str> = if x.is_empty() { vec![] } else { x.split(',').collect() };
                mem = format!("{}:{}", items.len(), items.iter().take(48).cloned().collect::<Vec<_>>().join(","));
            }
        }
    }
    let _ = std::fs::remove_file(&trf);
    let _ = std::fs::remove_file(&srcf);
    let out_s = String::from_utf8_lossy(&out).to_string();
    format!("exit={} | out={} | trace={} | regs={} | mem={}", exit, enc(&out_s), trace, regs, mem)
}
