#!/bin/bash
# MANIFEST.setup_cmd: build everything from files on disk (offline).
set -e
cd "$(dirname "$0")"
export CARGO_NET_OFFLINE=true
python3 tools/extract.py > /dev/null
(cd lean && lake build Emu8086 emu_driver)
(cd harness && cargo build --offline)
RUSTFLAGS="--cfg yjdoc2_8086_emulator_verif" cargo build --offline --manifest-path /repo/Cargo.toml --target-dir build/target-cli
echo setup-ok
