/-
Line-protocol handler, level 3: whole source text through the assembler model.
request : asm <percent-encoded source>
answer  : OK | c=.. | d=.. | l=.. | f=.. | u=.. | m=..   or   ERR <kind> ..   or   PANIC
-/
import Driver.L1
import Emu8086.Model.Asm
import Emu8086.Model.Norm
import Emu8086.Spec.Cond
import Emu8086.Model.ILex

namespace Driver
open Emu8086 Emu8086.Asm

def hexVal (c : Char) : Nat :=
  if '0' ≤ c && c ≤ '9' then c.toNat - '0'.toNat
  else if 'a' ≤ c && c ≤ 'f' then c.toNat - 'a'.toNat + 10
  else c.toNat - 'A'.toNat + 10

def pctDecodeBytes : List Char → List UInt8
  | '%' :: a :: b :: rest => UInt8.ofNat (hexVal a * 16 + hexVal b) :: pctDecodeBytes rest
  | c :: rest => UInt8.ofNat c.toNat :: pctDecodeBytes rest
  | [] => []

def pctDecode (s : String) : Option String :=
  if s == "%" then some "" else
  String.fromUTF8? (ByteArray.mk (pctDecodeBytes s.toList).toArray)

def hexDigit (n : Nat) : Char := if n < 10 then Char.ofNat (48 + n) else Char.ofNat (55 + n)

def pctEncode (s : String) : String :=
  let bytes := s.toUTF8.toList
  if bytes.isEmpty then "%" else
  String.ofList (bytes.foldr (fun b acc =>
    let n := b.toNat
    if 0x21 ≤ n && n ≤ 0x7e && n != 37 && n != 124 && n != 59 && n != 44 then Char.ofNat n :: acc
    else '%' :: hexDigit (n / 16) :: hexDigit (n % 16) :: acc) [])

def joinOr (l : List String) (sep : String) : String := if l.isEmpty then "-" else sep.intercalate l

def sortStrings (l : List String) : List String := (l.toArray.qsort (· < ·)).toList

def fmtAsmOk (s : St) : String :=
  let c := s.code.toList.map pctEncode
  let d := s.data.toList.map pctEncode
  let l := sortStrings (s.labels.map fun (k, v) => s!"{k}:{if v.type == .DATA then "D" else "C"}:{v.map}:{v.srcPos}")
  let f := sortStrings (s.fns.map fun (k, v) => s!"{k}:{v}")
  let u := (s.undefined.toArray.qsort (fun a b => a.1 < b.1 || (a.1 == b.1 && a.2 < b.2))).toList.map fun (p, n) => s!"{p}:{n}"
  let m := s.smap.toList.map toString
  s!"OK | c={joinOr c ";"} | d={joinOr d ";"} | l={joinOr l ";"} | f={joinOr f ";"} | u={joinOr u ";"} | m={joinOr m ","}"

def firstLine (s : String) : String := (s.splitOn "\n").headD ""

/-- model answer and whether the implementation's answer agrees with it (see DESIGN §4.2: which of
    several errors the LR parser reports first is not modelled) -/
def asmVerdict (src : String) (ans : String) : String × Bool :=
  match assemble src with
  | .ok s => let m := fmtAsmOk s; (m, ans == m)
  | .error .syntax => ("ERR syntax ?", ans.startsWith "ERR ")
  | .error (.invalidToken p) => (s!"ERR invalid {p}", ans.startsWith "ERR ")
  | .error (.panic w) => (s!"PANIC ({w})", ans == "PANIC")
  | .error (.custom a _ msg) =>
    if msg == "unsupported" then (s!"ERR custom {a} *", ans.startsWith s!"ERR custom {a} ")
    else let m := s!"ERR custom {a} {pctEncode (firstLine msg)}"; (m, ans == m)

def handleL3 (req ans : String) : Verdict :=
  match req.splitOn " " with
  | ["asm", e] =>
    match pctDecode e with
    | none => bad
    | some src =>
      if ans == "ABORT" then
        { model := (asmVerdict src ans).1, specOk := false, spec := "the assembler terminates with a result or a diagnostic (no abort)", nontrivial := true } else
      let (m, ok) := asmVerdict src ans
      -- the driver reports a model disagreement iff `model != ans`: give back `ans` itself when the
      -- comparison rule accepts it
      { model := if ok then ans else m, specOk := true, spec := "-", nontrivial := ans.startsWith "OK" && src.length > 10 }
  | ["opnd", e, eexp] =>
    match pctDecode e, pctDecode eexp with
    | some src, some expLine =>
      let (m, ok) := asmVerdict src ans
      -- independent reader (C04): the one emitted code line, read by the interpreter model, must be
      -- the instruction the generator built the source from (given in interpreter syntax), up to
      -- writing the default segment out (`Instr.norm`, `Props.C04.exec_norm`)
      let c := ((ans.splitOn " | ").find? (·.startsWith "c=")).getD "c=-"
      let lines := if c == "c=-" then [] else ((c.drop 2).toString.splitOn ";").filterMap pctDecode
      let specOk := match lines, parseLine expLine with
        | [l], some ie => (match parseLine l with | some ii => decide (ii.norm = ie.norm) | none => false)
        | _, _ => false
      { model := if ok then ans else m, specOk := specOk,
        spec := s!"accepted, and the emitted line means `{expLine}` (same instruction, same operand parts, same effective segment)", nontrivial := true }
    | _, _ => bad
  | ["role", e, eline] =>
    -- C11: the emitted line, read by the interpreter model, is the same instruction with the same operands in the
    -- same roles as the source instruction (given in the interpreter's spelling, derived by the generator from the
    -- plainest rendering of the same syntax tree; no grammar action is consulted)
    match pctDecode e, pctDecode eline with
    | some src, some expLine =>
      let (m, ok) := asmVerdict src ans
      let c := ((ans.splitOn " | ").find? (·.startsWith "c=")).getD "c=-"
      let lines := if c == "c=-" then [] else ((c.drop 2).toString.splitOn ";").filterMap pctDecode
      let normJ : Instr → Instr := fun i => match i with
        | .jcc j t => .jcc (Emu8086.Spec.canon j) t
        | i => i.norm
      match (if ans.startsWith "OK" then parseLine expLine else none) with
      | none => { model := if ok then ans else m, specOk := true, spec := "-", nontrivial := false }
      | some w =>
        let specOk := match lines.head? with
          | some l => (match parseLine l with | some g => decide (normJ g = normJ w) | none => false)
          | none => false
        { model := if ok then ans else m, specOk := specOk,
          spec := s!"accepted, and the first emitted line means `{expLine}` (same operation, same operands in the same roles)", nontrivial := true }
    | _, _ => bad
  | ["jsp", e, nm] =>
    match pctDecode e with
    | some src =>
      let (m, ok) := asmVerdict src ans
      -- independent reader (C06): the emitted jump, read by the interpreter model, must belong to the
      -- condition class the Intel table gives for the mnemonic as written in the source
      let c := ((ans.splitOn " | ").find? (·.startsWith "c=")).getD "c=-"
      let lines := if c == "c=-" then [] else ((c.drop 2).toString.splitOn ";").filterMap pctDecode
      let want := (Emu8086.Spec.intelJumps.lookup (nm.toList.map Emu8086.Spec.lowerC)).map Emu8086.Spec.canon
      let jumps := lines.filterMap fun l => match parseLine l with
        | some (.jcc j tgt) => some (j, tgt)
        | _ => none
      let specOk := match jumps with
        | [(j, tgt)] => want == some (Emu8086.Spec.canon j) && tgt == "tgt"
        | _ => false
      { model := if ok then ans else m, specOk := specOk,
        spec := s!"accepted, and the emitted line is a jump to `tgt` of the condition class Intel gives for `{nm}`", nontrivial := true }
    | _ => bad
  | ["asmre", _, e2] =>
    -- C19: the answer for a source does not depend on what the parser object and the (cleared) context processed before
    match pctDecode e2, ans.splitOn " || " with
    | some s2, [aReused, aFresh] =>
      let (m2, ok2) := asmVerdict s2 aFresh
      { model := if ok2 then ans else s!"{aReused} || {m2}", specOk := aReused == aFresh,
        spec := "the same answer on used (cleared) objects as on fresh ones", nontrivial := true }
    | _, _ => bad
  | ["asmx", e1, e2] =>
    -- C13: a program with macro uses against the same program with every use written out by hand
    -- (the reference expansion is made by the generator: simultaneous whole-word substitution,
    -- the function `expandTk` of Props.C13Subst); "!" = the reference refuses (recursion, missing argument)
    match pctDecode e1, ans.splitOn " || " with
    | some s1, [a1, a2] =>
      let (m1, ok1) := asmVerdict s1 a1
      let lists := fun (a : String) => ((a.splitOn " | ").filter fun f => f.startsWith "c=" || f.startsWith "d=" || f.startsWith "f=")
      if e2 == "!" then
        { model := if ok1 then ans else s!"{m1} || !", specOk := a1.startsWith "ERR ",
          spec := "the reference refuses this use (recursion / missing argument): a diagnostic is required", nontrivial := true }
      else match pctDecode e2 with
        | none => bad
        | some s2 =>
          let (m2, ok2) := asmVerdict s2 a2
          let same := (a2.startsWith "OK" && a1.startsWith "OK" && lists a1 == lists a2) || (a2.startsWith "ERR " && a1.startsWith "ERR ")
          { model := if ok1 && ok2 then ans else s!"{m1} || {m2}", specOk := same,
            spec := "the macro program emits exactly the code of its hand-expanded form (or both are refused)", nontrivial := a2.startsWith "OK" }
    | _, _ => bad
  | ["asm2", e1, e2, expV] =>
    match pctDecode e1, pctDecode e2, ans.splitOn " || " with
    | some s1, some s2, [a1, a2] =>
      -- independent reader: the numeric constants of the emitted code lines (mod 256, zeros dropped,
      -- sorted) must be the constants of the source (given by the generator from its syntax tree)
      let constsOf := fun (a : String) =>
        let c := ((a.splitOn " | ").find? (·.startsWith "c=")).getD "c=-"
        let lines := if c == "c=-" then [] else ((c.drop 2).toString.splitOn ";").filterMap pctDecode
        let nums := lines.flatMap fun l =>
          let cs := l.toList
          let rec go : List Char → Option Char → List Int → Nat → List Int
            | _, _, acc, 0 => acc
            | [], _, acc, _ => acc
            | c :: rest, prev, acc, fuel+1 =>
              let prevAlnum := match prev with | some p => p.isAlphanum || p == '_' | none => false
              if c.isDigit && !prevAlnum then
                let ds := (c :: rest).takeWhile Char.isDigit
                let v : Int := (String.ofList ds).toNat!
                let v := if prev == some '-' then -v else v
                go ((c :: rest).drop ds.length) ds.getLast? (v :: acc) fuel
              else go rest (some c) acc fuel
          go cs none [] (cs.length + 1)
        let m := nums.map fun v => (v % 256).toNat
        (m.filter (· != 0)).toArray.qsort (· < ·) |>.toList
      let expected : List Nat := if expV == "-" then [] else (expV.splitOn ".").map String.toNat!
      let constsOk := !(a1.startsWith "OK") || (constsOf a1 == expected)
      let (m1, ok1) := asmVerdict s1 a1
      let (m2, ok2) := asmVerdict s2 a2
      -- C11: the two renderings of the same program must emit identical code and data lists
      let lists := fun (a : String) => ((a.splitOn " | ").filter fun f => f.startsWith "c=" || f.startsWith "d=" || f.startsWith "f=")
      let errMsg := fun (a : String) => " ".intercalate ((a.splitOn " ").drop 3)
      let same := (a1.startsWith "OK" && a2.startsWith "OK" && lists a1 == lists a2 && constsOk)
        || (a1.startsWith "ERR custom" && a2.startsWith "ERR custom" && errMsg a1 == errMsg a2)
      { model := if ok1 && ok2 then ans else s!"{m1} || {m2}", specOk := same,
        spec := "both renderings accepted with identical code/data lists (or both refused with the same diagnostic)", nontrivial := s1 != s2 }
    | _, _, _ => bad
  | _ => bad

end Driver
