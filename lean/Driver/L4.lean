/-
Line-protocol handler, level 4: the whole CLI run (model: Emu8086.Driver.runCLI).
request : cli <i|-> | <source enc> | <stdin enc>
answer  : exit=.. | out=.. | trace=.. | regs=.. | mem=<count>:<first 48 a:v>
-/
import Driver.L3
import Driver.L2
import Emu8086.Model.Driver

namespace Driver
open Emu8086 Emu8086.Driver

/-- split stdin text into lines as `read_line` returns them -/
def splitLines (s : String) : List String :=
  let rec go : List Char → List Char → List String → List String
    | [], [], acc => acc.reverse
    | [], cur, acc => (String.ofList cur.reverse :: acc).reverse
    | '\n' :: cs, cur, acc => go cs [] (String.ofList ('\n' :: cur).reverse :: acc)
    | c :: cs, cur, acc => go cs (c :: cur) acc
  go s.toList [] []

def fmtMem (m : Machine) : String :=
  let l := m.mem.ov.toList.filter fun (_, v) => v != 0#8
  let l := (l.toArray.qsort (fun x y => x.1 < y.1)).toList
  s!"{l.length}:" ++ ",".intercalate ((l.take 48).map fun (a, v) => s!"{a}:{v.toNat}")

def fmtCli (r : Result) : String :=
  let tr := if r.trace.isEmpty then "-" else ",".intercalate (r.trace.map toString)
  match r.final with
  | some m => s!"exit={r.exit} | out={pctEncode r.stdout} | trace={tr} | regs={fmtRegs m} | mem={fmtMem m}"
  | none => s!"exit={r.exit} | out={pctEncode r.stdout} | trace=- | regs=- | mem=-"

def fieldOf (ans key : String) : String :=
  match (ans.splitOn " | ").find? (·.startsWith (key ++ "=")) with
  | some f => (f.drop (key.length + 1)).toString
  | none => ""

/-- the property-relevant digest of an output: every decimal / upper-case hexadecimal token in order
    (line numbers, columns, register, flag and memory values, addresses).  Two outputs with the same
    digest differ in wording only. -/
def digest (out : String) : List String :=
  let toks := out.split (fun c => c == ' ' || c == '\t' || c == '\n' || c == ':' || c == ',' || c == '>')
  toks.toList.filterMap fun t =>
    let s := t.toString
    let body := if s.startsWith "0x" then (s.drop 2).toString else s
    if !body.isEmpty && body.toList.all (fun c => c.isDigit || ('A' ≤ c && c ≤ 'F')) then some s else none

def handleL4Core (strict : Bool) (fuel : Nat) (head srcE inE : String) (expects : List String) (ans : String) : Verdict :=
    match words head, pctDecode srcE.trimAscii.toString, pctDecode inE.trimAscii.toString with
    | ["cli", _], none, some _ =>
      -- the file is not valid UTF-8: bin.rs reports the read error and exits with status 1, nothing runs
      let realOut := (pctDecode (fieldOf ans "out")).getD ""
      let ok := fieldOf ans "exit" == "1" && realOut.startsWith "Error Reading file" && fieldOf ans "trace" == "-"
      { model := ans, specOk := ok, spec := "a file that is not UTF-8 is refused with a read-error message, exit status 1, nothing executed", nontrivial := true }
    | ["cli", flag], some src, some inp =>
      if ans.startsWith "NONDET" then
        { model := ans, specOk := false, spec := "identical output on repeated runs (C19)", nontrivial := true } else
      let r := runCLI src (splitLines inp) (flag == "i") fuel
      let model := fmtCli r
      let realOut := (pctDecode (fieldOf ans "out")).getD ""
      if r.budget then
        -- the model's step budget is exhausted (a very long or endless run): trace, state and output are not
        -- compared, but what needs no model still is — the emulator must not abort, an accepted program must
        -- not reach an internal error, and an expectation the generator states from the property must hold
        -- (a run the watchdog cut off is not judged: the program may simply not terminate)
        let exitS := fieldOf ans "exit"
        let collapse := fun (t : String) => " ".intercalate ((t.split (fun c => c == ' ' || c == '\t' || c == '\n' || c == '\r')).toList.map (·.toString) |>.filter (· != ""))
        let holds := fun (e : String) =>
          if e == "!refused" || e == "!accepted" then true
          else if e.startsWith "ws:" then ((collapse realOut).splitOn (collapse (e.drop 3).toString)).length > 1
          else (realOut.splitOn e).length > 1
        let aborted := exitS == "101" || exitS == "signal" || exitS == "134" || (realOut.splitOn "Internal Error").length > 1
        let failed := if exitS == "timeout" then [] else expects.filter (fun e => !holds e)
        if aborted then
          { model := ans, specOk := false, spec := "no abort and no internal error (run beyond the model's step budget)", nontrivial := true }
        else if !failed.isEmpty then
          { model := ans, specOk := false, spec := "the output must contain: " ++ failed.headD "" ++ " (run beyond the model's step budget)", nontrivial := true }
        else { model := ans, specOk := true, spec := "(model budget exhausted: trace/state not compared)", nontrivial := false }
      else
      let ok :=
        if r.syntaxUnpredicted then
          fieldOf ans "exit" == toString r.exit && fieldOf ans "trace" == "-" &&
            (realOut.startsWith ((r.stdout.splitOn "\n").headD "") || realOut.startsWith "Syntax Error")
        else if r.tailUnpredicted then
          fieldOf ans "exit" == toString r.exit && realOut.startsWith r.stdout && fieldOf ans "trace" == fieldOf model "trace"
            && fieldOf ans "regs" == fieldOf model "regs" && fieldOf ans "mem" == fieldOf model "mem"
        else ans == model
      -- property-level verdicts that need no model: an accepted program never reaches an internal error,
      -- the emulator never aborts or hangs
      let exitS := fieldOf ans "exit"
      -- open finding KF-MACRO-DEPTH: macro chains of hundreds of levels overflow the real stack
      if (exitS == "signal" || exitS == "134") && (src.splitOn "macro ").length > 250 then
        { model := ans, specOk := false, spec := "no abort", kf := "KF-MACRO-DEPTH", nontrivial := true } else
      let specOk := exitS != "101" && exitS != "signal" && exitS != "timeout" && exitS != "134"
        && ((realOut.splitOn "Internal Error").length == 1
            -- RET with an empty call stack is a reported run-time error (dynamic, not a static inconsistency)
            || (realOut.splitOn "ret is encountered without corresponding call").length == 2)
      -- at this level the model's run (assembler + loader + run loop + services + prompt, each part proved
      -- against its property in Props.C08-C20) IS the reference: a different trace, final state or output
      -- is a violation with this request as the failing input
      -- a difference in wording only (same exit status, trace, final state and the same numbers in the same
      -- order in the output) is a broken tie, not a failing input
      let sameDigest := !strict && fieldOf ans "exit" == fieldOf model "exit" && fieldOf ans "trace" == fieldOf model "trace"
        && fieldOf ans "regs" == fieldOf model "regs" && fieldOf ans "mem" == fieldOf model "mem" && digest realOut == digest r.stdout
      -- an expectation stated by the generator from the property itself (independent of model and grammar)
      -- `ws:` prefix: compare after collapsing every run of white space (row layout of a dump is not part of it)
      let collapse := fun (t : String) => " ".intercalate ((t.split (fun c => c == ' ' || c == '\t' || c == '\n' || c == '\r')).toList.map (·.toString) |>.filter (· != ""))
      let holds := fun (e : String) =>
        -- verdicts the property fixes for a program known (by construction) to be invalid / valid
        if e == "!refused" then fieldOf ans "trace" == "-" && fieldOf ans "exit" == "0" && !realOut.trimAscii.toString.isEmpty
        else if e == "!accepted" then !(realOut.startsWith "Syntax Error" || realOut.startsWith "Label " || realOut.startsWith "Error")
        else if e.startsWith "ws:" then ((collapse realOut).splitOn (collapse (e.drop 3).toString)).length > 1
        else (realOut.splitOn e).length > 1
      let failed := expects.filter (fun e => !holds e)
      let expectOk := failed.isEmpty
      if !expectOk then
        { model := if ok then ans else model, specOk := false,
          spec := (if failed.headD "" == "!refused" then "this program is invalid by construction: a diagnostic and nothing executed"
                   else if failed.headD "" == "!accepted" then "this program is valid by construction: it is accepted and runs"
                   else s!"the output contains `{failed.headD ""}`") ++ " (stated by the generator from the property)", nontrivial := true } else
      { model := if ok then ans else model, specOk := specOk && (ok || sameDigest),
        spec := if ok then "exit status 0/1, no 'Internal Error' in the output" else "reference run: " ++ model,
        nontrivial := !r.diag && r.trace.length > 1 }
    | _, _, _ => bad

def handleL4 (strict : Bool) (fuel : Nat) (req ans : String) : Verdict :=
  match req.splitOn " | " with
  | head :: srcE :: inE :: exps =>
    if exps.all (·.startsWith "expect=") then
      match exps.mapM (fun e => pctDecode (e.drop 7).toString.trimAscii.toString) with
      | some es => handleL4Core strict fuel head srcE inE es ans
      | none => bad
    else bad
  | _ => bad

end Driver
