/-
Line-protocol handler, level 2: one interpreter line on a fully specified machine state.
request : x <14 regs> | <seed> | <pokes> | <labels> | <fns> | <stack> | <cur> | <line>
answer  : <STATE> | <14 regs> | <memory diff> | <call stack>   or ERR or PANIC
-/
import Driver.L1
import Emu8086.Model.ILex
import Emu8086.Spec.Exec
import Emu8086.Spec.WF
import Emu8086.Spec.Rep

namespace Driver
open Emu8086

/-- the harness' memory pattern (u32 wrapping arithmetic) -/
def pattern (seed : Nat) (a : Nat) : BitVec 8 :=
  let x := (a * 0x9E3779B1 + seed * 0x85EBCA6B) % 4294967296
  BitVec.ofNat 8 ((x >>> 13) % 256)

def splitBar (s : String) : List String := s.splitOn " | "

def parsePairs (s : String) (sep : String) : List (List String) :=
  if s.trimAscii.toString == "-" then [] else (s.trimAscii.toString.splitOn sep).map (·.splitOn ":")

structure L2Req where
  m : Machine
  ctx : Ctx
  cur : Nat
  line : String
  initOv : Std.HashMap Nat (BitVec 8)

def parseL2 (req : String) : Option L2Req :=
  match splitBar req with
  | regs :: seed :: pokes :: labels :: fns :: stack :: cur :: lineParts =>
    let line := " | ".intercalate lineParts
    match (words regs).drop 1 |>.map nat! with
    | [fl, ax, bx, cx, dx, sp, bp, si, di, ip, cs, ds, ss, es] =>
      let sd := nat! seed.trimAscii.toString
      let ov : Std.HashMap Nat (BitVec 8) :=
        (parsePairs pokes ",").foldl (fun acc p => match p with
          | [a, v] => acc.insert (nat! a % MB) (BitVec.ofNat 8 (nat! v))
          | _ => acc) {}
      let b := fun (n : Nat) => BitVec.ofNat 16 n
      let m : Machine := { flag := b fl, ax := b ax, bx := b bx, cx := b cx, dx := b dx, sp := b sp, bp := b bp,
                           si := b si, di := b di, ip := b ip, cs := b cs, ds := b ds, ss := b ss, es := b es,
                           mem := { base := pattern sd, ov := ov } }
      let lm : List (String × Label) := (parsePairs labels ";").filterMap fun p => match p with
        | [n, t, v] => some (n, ⟨if t == "D" then .DATA else .CODE, nat! v⟩)
        | _ => none
      let fm : List (String × Nat) := (parsePairs fns ";").filterMap fun p => match p with
        | [n, v] => some (n, nat! v)
        | _ => none
      let st : List Nat := if stack.trimAscii.toString == "-" then [] else (stack.trimAscii.toString.splitOn ",").map nat!
      some { m := m, ctx := { fnMap := fm, labelMap := lm, callStack := st }, cur := nat! cur.trimAscii.toString,
             line := line, initOv := ov }
    | _ => none
  | _ => none

def fmtState : State → String
  | .HALT => "HALT" | .PRINT => "PRINT" | .JMP i => s!"JMP {i}" | .NEXT => "NEXT"
  | .INT n => s!"INT {n.toNat}" | .REPEAT => "REPEAT"

def fmtRegs (m : Machine) : String :=
  " ".intercalate ([m.flag, m.ax, m.bx, m.cx, m.dx, m.sp, m.bp, m.si, m.di, m.ip, m.cs, m.ds, m.ss, m.es].map
    fun (x : BitVec 16) => toString x.toNat)

def memDiff (init : Std.HashMap Nat (BitVec 8)) (m : Machine) : String :=
  let l := m.mem.ov.toList.filter fun (a, v) => v != (init[a]?).getD (m.mem.base a)
  let l := l.toArray.qsort (fun x y => x.1 < y.1) |>.toList
  if l.isEmpty then "-" else ",".intercalate (l.map fun (a, v) => s!"{a}:{v.toNat}")

def fmtStack (l : List Nat) : String := if l.isEmpty then "-" else ",".intercalate (l.map toString)

def fmtOut (init : Std.HashMap Nat (BitVec 8)) : Except String (State × Machine × Ctx) → String
  | .error _ => "ERR"
  | .ok (st, m, ctx) => s!"{fmtState st} | {fmtRegs m} | {memDiff init m} | {fmtStack ctx.callStack}"

/-- `xr` requests: the line is driven through the REPEAT protocol to completion (driver.rs loop) -/
def handleRep (r : L2Req) (i : Instr) (ans : String) : Verdict :=
  let fuel := r.m.cx.toNat + 2
  let model := match runRep r.cur r.ctx i fuel r.m with
    | some (st, m) => fmtOut r.initOv (.ok (st, m, r.ctx))
    | none => "ERR"
  let spec := match i with
    | .str (some pre) op word =>
      fmtOut r.initOv (.ok (.NEXT, Spec.repRef pre op word r.m.cx.toNat r.m, r.ctx))
    | _ => model
  { model := model, specOk := ans == spec, spec := spec, nontrivial := r.m.cx != 0#16 }

def handleL2 (req ans : String) : Verdict :=
  match parseL2 req with
  | none => bad
  | some r =>
    match parseLine r.line with
    | none => { model := "ERR", specOk := ans == "ERR", spec := "ERR (line not in the interpreter language)", nontrivial := false }
    | some i =>
      if !i.WF then bad else          -- the model's parser must only produce well-formed operands
      if (words req).head? == some "xr" then handleRep r i ans else
      let mo := exec r.cur r.m r.ctx i
      let model := fmtOut r.initOv mo
      -- the spec's verdict on the IMPLEMENTATION's answer: compare with the reference semantics
      -- through the observation mask (flags the manual leaves undefined are not compared)
      let so := Spec.execRef r.cur r.m r.ctx i
      let (specOk, specStr) := match so with
        | .error _ => (ans == "ERR", "ERR")
        | .ok (st, sm, sctx, undef) =>
          let exp := s!"{fmtState st} | {fmtRegs sm} | {memDiff r.initOv sm} | {fmtStack sctx.callStack}"
          if undef == 0#16 then (ans == exp, exp)
          else
            -- mask the undefined flag bits on both sides
            match splitBar ans with
            | [st', regs', mem', stk'] =>
              match (words regs').map nat! with
              | fl' :: rest =>
                let flm := (BitVec.ofNat 16 fl' &&& ~~~ undef) ||| (sm.flag &&& undef)
                let regs'' := " ".intercalate (toString flm.toNat :: rest.map toString)
                (s!"{st'} | {regs''} | {mem'} | {stk'}" == exp, exp ++ s!" (flags masked by {undef.toNat})")
              | _ => (false, exp)
            | _ => (false, exp)
      let kf := Spec.knownFinding r.m r.ctx i
      { model := model, specOk := specOk, spec := specStr, kf := kf,
        nontrivial := match mo with | .ok (st, _, _) => st != State.NEXT || model != fmtOut r.initOv (.ok (State.NEXT, r.m, r.ctx)) | _ => false }


/-- `xs` requests: a straight-line sequence `l1 ; l2 ; ...`; model = fold of `exec`, spec = fold of
    `execRef` (the generator uses only instruction classes without undefined flags) -/
def handleSeq (req ans : String) : Verdict :=
  match parseL2 req with
  | none => bad
  | some r =>
    let lines := r.line.splitOn " ; "
    let instrs := lines.map parseLine
    if instrs.any (·.isNone) then { model := "ERR", specOk := ans == "ERR", spec := "ERR", nontrivial := false } else
    let is := instrs.filterMap id
    if is.any (fun i => !i.WF) then bad else
    let rec runM (k : Nat) (m : Machine) (c : Ctx) (st : State) : List Instr → Except String (State × Machine × Ctx)
      | [] => .ok (st, m, c)
      | i :: rest => match exec (r.cur + k) m c i with
        | .ok (st', m', c') => runM (k + 1) m' c' st' rest
        | .error e => .error e
    let rec runS (k : Nat) (m : Machine) (c : Ctx) (st : State) : List Instr → Except String (State × Machine × Ctx)
      | [] => .ok (st, m, c)
      | i :: rest => match Spec.execRef (r.cur + k) m c i with
        | .ok (st', m', c', _) => runS (k + 1) m' c' st' rest
        | .error e => .error e
    -- is every step free of undefined flag bits and of known findings (judged on the model's states)?
    let rec clean (k : Nat) (m : Machine) (c : Ctx) : List Instr → Bool
      | [] => true
      | i :: rest =>
        let undefOk := match Spec.execRef (r.cur + k) m c i with
          | .ok (_, _, _, u) => u == 0#16
          | .error _ => true
        if !undefOk || Spec.knownFinding m c i != "-" then false else
        match exec (r.cur + k) m c i with
        | .ok (_, m', c') => clean (k + 1) m' c' rest
        | .error _ => true
    let model := fmtOut r.initOv (runM 0 r.m r.ctx .NEXT is)
    let spec := fmtOut r.initOv (runS 0 r.m r.ctx .NEXT is)
    -- sequences containing a step with undefined flags or a known finding are compared with the model only
    -- (the model refines the reference up to exactly those bits: Props.ExecAll.exec_refines)
    if clean 0 r.m r.ctx is then
      { model := model, specOk := ans == spec, spec := spec, nontrivial := is.length > 1 }
    else
      { model := model, specOk := ans == model, spec := "model (sequence with undefined flags / known findings): " ++ model, nontrivial := is.length > 1 }

end Driver
