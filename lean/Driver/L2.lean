import Driver.L1
namespace Driver
def handleL2 (_req _ans : String) : Verdict := bad
end Driver
