/-
Line-protocol handlers, level 1 (function level).  For a request line `<req> => <impl answer>`
compute (a) the MODEL's answer (must equal the implementation's: the tie), (b) the SPEC's verdict
on the implementation's answer (does the real code satisfy the property on this input?), and
(c) the open known-finding class of the input, if any.
-/
import Emu8086.Model.Alu
import Emu8086.Model.Bits
import Emu8086.Spec.Arith
import Emu8086.Spec.Bits
import Emu8086.Spec.MulDiv
import Emu8086.KnownFindings

namespace Driver
open Emu8086

structure Verdict where
  model : String          -- the model's answer, same format as the implementation's
  specOk : Bool           -- implementation answer acceptable to the spec
  spec : String           -- what the spec expected (for the replay file)
  kf : String := "-"      -- open known-finding class of this input
  nontrivial : Bool := true
  deriving Inhabited

def bad : Verdict := { model := "BADREQ", specOk := false, spec := "BADREQ" }

def nat! (s : String) : Nat := s.toNat?.getD 0

def words (s : String) : List String :=
  (s.splitOn " ").filter (· ≠ "")

def fmt2 {w} (p : BitVec w × BitVec 16) : String := s!"{p.1.toNat} {p.2.toNat}"

def b8 (name : String) : Option (BitVec 16 → BitVec 8 → BitVec 8 → BitVec 8 × BitVec 16) :=
  match name with
  | "add" => some byteAdd | "adc" => some byteAdc | "sub" => some byteSub | "sbb" => some byteSbb
  | "cmp" => some byteCmp | "and" => some byteAnd | "or" => some byteOr | "xor" => some byteXor
  | "test" => some byteTest | "sal" => some byteSal | "sar" => some byteSar | "shr" => some byteShr
  | "rol" => some byteRol | "ror" => some byteRor | "rcl" => some byteRcl | "rcr" => some byteRcr
  | _ => none

def b16 (name : String) : Option (BitVec 16 → BitVec 16 → BitVec 16 → BitVec 16 × BitVec 16) :=
  match name with
  | "add" => some wordAdd | "adc" => some wordAdc | "sub" => some wordSub | "sbb" => some wordSbb
  | "cmp" => some wordCmp | "and" => some wordAnd | "or" => some wordOr | "xor" => some wordXor
  | "test" => some wordTest | "sal" => some wordSal | "sar" => some wordSar | "shr" => some wordShr
  | "rol" => some wordRol | "ror" => some wordRor | "rcl" => some wordRcl | "rcr" => some wordRcr
  | _ => none

def arithSpec {w} (name : String) : Option (BitVec 16 → BitVec w → BitVec w → BitVec w × BitVec 16) :=
  match name with
  | "add" => some Spec.ADD | "adc" => some Spec.ADC | "sub" => some Spec.SUB | "sbb" => some Spec.SBB
  | "cmp" => some Spec.CMP | _ => none

def logOp (name : String) : Option Spec.LogOp :=
  match name with
  | "and" => some .and | "or" => some .or | "xor" => some .xor | "test" => some .test | _ => none

def shOp (name : String) : Option Spec.ShOp :=
  match name with
  | "sal" => some .shl | "shr" => some .shr | "sar" => some .sar | "rol" => some .rol
  | "ror" => some .ror | "rcl" => some .rcl | "rcr" => some .rcr | _ => none

/-- binary function of width w: model answer + spec verdict on the implementation's (res, fl') -/
def binary {w} (name : String) (f : BitVec 16 → BitVec w → BitVec w → BitVec w × BitVec 16)
    (fl : BitVec 16) (a b : BitVec w) (implOut : Option (BitVec w × BitVec 16)) : Verdict :=
  let m := f fl a b
  let nontriv := m.2 != fl || m.1 != a
  match arithSpec (w := w) name with
  | some sp =>
    let s := sp fl a b
    { model := fmt2 m, specOk := implOut == some s, spec := fmt2 s, nontrivial := nontriv }
  | none =>
    match logOp name with
    | some op =>
      { model := fmt2 m, specOk := (implOut.map (Spec.logicOk op fl a b)).getD false,
        spec := "logicOk", nontrivial := nontriv }
    | none =>
      match shOp name with
      | some op =>
        { model := fmt2 m, specOk := (implOut.map (Spec.shiftOk op fl a b.toNat)).getD false,
          spec := "shiftOk(n single-bit steps)", nontrivial := nontriv }
      | none => bad

def uname8 (name : String) : Option (AluState → BitVec 8 → Option (AluState × BitVec 8)) :=
  match name with
  | "dec" => some byteDec | "inc" => some byteInc | "neg" => some byteNeg | "mul" => some byteMul
  | "imul" => some byteImul | "div" => some byteDiv | "idiv" => some byteIdiv | _ => none
def uname16 (name : String) : Option (AluState → BitVec 16 → Option (AluState × BitVec 16)) :=
  match name with
  | "dec" => some wordDec | "inc" => some wordInc | "neg" => some wordNeg | "mul" => some wordMul
  | "imul" => some wordImul | "div" => some wordDiv | "idiv" => some wordIdiv | _ => none

def mdOp (name : String) : Option Spec.MdOp :=
  match name with
  | "mul" => some .mul | "imul" => some .imul | "div" => some .div | "idiv" => some .idiv | _ => none

/-- implementation answer of the unary family: `ok fl ax dx val` / `err fl ax dx val` -/
structure UOut (w : Nat) where
  ok : Bool
  flag : BitVec 16
  ax : BitVec 16
  dx : BitVec 16
  val : BitVec w

def fmtU {w} (s : AluState) (v : BitVec w) (r : Option (AluState × BitVec w)) : String :=
  match r with
  | some (s', v') => s!"ok {s'.flag.toNat} {s'.ax.toNat} {s'.dx.toNat} {v'.toNat}"
  | none => s!"err {s.flag.toNat} {s.ax.toNat} {s.dx.toNat} {v.toNat}"   -- error: nothing changed

def unary {w} (name : String) (f : AluState → BitVec w → Option (AluState × BitVec w))
    (mdOk : Spec.MdOp → Spec.Regs → BitVec w → Option Spec.Regs → Bool)
    (s : AluState) (v : BitVec w) (io : Option (UOut w)) : Verdict :=
  let m := f s v
  let model := fmtU s v m
  let regs : Spec.Regs := ⟨s.flag, s.ax, s.dx⟩
  match name with
  | "inc" | "dec" | "neg" =>
    let sp : BitVec w × BitVec 16 :=
      if name == "inc" then Spec.INC s.flag v else if name == "dec" then Spec.DEC s.flag v else Spec.NEG s.flag v
    let ok := match io with
      | some o => o.ok && o.val == sp.1 && o.flag == sp.2 && o.ax == s.ax && o.dx == s.dx
      | none => false
    let kf := if name == "inc" && KF.inc s.flag v then "KF-INC-CF"
              else if name == "neg" && KF.neg s.flag v then "KF-NEG0-SF" else "-"
    { model := model, specOk := ok, spec := s!"ok {sp.2.toNat} {s.ax.toNat} {s.dx.toNat} {sp.1.toNat}", kf := kf }
  | _ =>
    match mdOp name with
    | none => bad
    | some op =>
      let ok := match io with
        | none => false
        | some o =>
          if o.ok then o.val == v && mdOk op regs v (some ⟨o.flag, o.ax, o.dx⟩)
          else o.val == v && o.flag == s.flag && o.ax == s.ax && o.dx == s.dx && mdOk op regs v none
      let kf := if name == "imul" && w == 8 && KF.imul8 s.ax (v.setWidth 8) then "KF-IMUL8-FLAGS" else "-"
      { model := model, specOk := ok, spec := "mulDivOk", kf := kf }

def adjName (name : String) : Option (Spec.AdjOp × (AluState → AluState)) :=
  match name with
  | "aaa" => some (.aaa, aaa) | "aas" => some (.aas, aas) | "daa" => some (.daa, daa)
  | "das" => some (.das, das) | "aam" => some (.aam, aam) | "aad" => some (.aad, aad)
  | "cbw" => some (.cbw, cbw) | "cwd" => some (.cwd, cwd) | _ => none

def parseUOut (w : Nat) (ans : List String) : Option (UOut w) :=
  match ans with
  | [k, fl, ax, dx, v] =>
    if k == "ok" || k == "err" then
      some ⟨k == "ok", BitVec.ofNat 16 (nat! fl), BitVec.ofNat 16 (nat! ax), BitVec.ofNat 16 (nat! dx), BitVec.ofNat w (nat! v)⟩
    else none
  | _ => none

def parse2 (w : Nat) (ans : List String) : Option (BitVec w × BitVec 16) :=
  match ans with
  | [r, fl] => some (BitVec.ofNat w (nat! r), BitVec.ofNat 16 (nat! fl))
  | _ => none

/-- one L1 request -/
def handleL1 (req : List String) (ans : List String) : Verdict :=
  match req with
  | ["b8", name, fl, a, b] =>
    match b8 name with
    | some f => binary name f (BitVec.ofNat 16 (nat! fl)) (BitVec.ofNat 8 (nat! a)) (BitVec.ofNat 8 (nat! b)) (parse2 8 ans)
    | none => bad
  | ["b16", name, fl, a, b] =>
    match b16 name with
    | some f => binary name f (BitVec.ofNat 16 (nat! fl)) (BitVec.ofNat 16 (nat! a)) (BitVec.ofNat 16 (nat! b)) (parse2 16 ans)
    | none => bad
  | ["u8", name, fl, ax, dx, v] =>
    match uname8 name with
    | some f => unary name f Spec.mulDiv8Ok ⟨BitVec.ofNat 16 (nat! fl), BitVec.ofNat 16 (nat! ax), BitVec.ofNat 16 (nat! dx)⟩
                  (BitVec.ofNat 8 (nat! v)) (parseUOut 8 ans)
    | none => bad
  | ["u16", name, fl, ax, dx, v] =>
    match uname16 name with
    | some f => unary name f Spec.mulDiv16Ok ⟨BitVec.ofNat 16 (nat! fl), BitVec.ofNat 16 (nat! ax), BitVec.ofNat 16 (nat! dx)⟩
                  (BitVec.ofNat 16 (nat! v)) (parseUOut 16 ans)
    | none => bad
  | ["s", name, fl, ax, dx] =>
    match adjName name with
    | some (op, f) =>
      let s : AluState := ⟨BitVec.ofNat 16 (nat! fl), BitVec.ofNat 16 (nat! ax), BitVec.ofNat 16 (nat! dx)⟩
      let m := f s
      let ok := match ans with
        | [fl', ax', dx'] =>
          Spec.adjOk op ⟨s.flag, s.ax, s.dx⟩ ⟨BitVec.ofNat 16 (nat! fl'), BitVec.ofNat 16 (nat! ax'), BitVec.ofNat 16 (nat! dx')⟩
        | _ => false
      { model := s!"{m.flag.toNat} {m.ax.toNat} {m.dx.toNat}", specOk := ok, spec := "adjOk",
        nontrivial := m != s }
    | none => bad
  | ["par", v] =>
    let x := BitVec.ofNat 8 (nat! v)
    let m := if hasEvenParity x then "1" else "0"
    let s := if Spec.parityEven x then "1" else "0"
    { model := m, specOk := ans == [s], spec := s }
  | _ => bad

end Driver
