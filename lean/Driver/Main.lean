/-
Model driver.  Reads `<request> => <implementation answer>` lines on stdin and, for each line,
compares the implementation's answer with the MODEL (tie) and with the SPEC (property on this input).
Output: one line per disagreement and a final SUMMARY line.

  DIFF-MODEL <req> => <ans> | model=<model answer>
  DIFF-SPEC  <req> => <ans> | spec=<expected> kf=<id or ->      (kf = open known finding class)
  KF <id> <req> => <ans>                                         (first 3 of each class)
  SUMMARY n=<lines> diff_model=<k> diff_spec=<k> kf_hits=<k> nontrivial=<k> bad=<k> kf=<id:count,...>
-/
import Driver.L1
import Driver.L2
import Driver.L3
import Driver.L4
import Std.Data.HashSet

namespace Driver

structure Acc where
  n : Nat := 0
  diffModel : Nat := 0
  diffSpec : Nat := 0
  kfHits : Nat := 0
  nontrivial : Nat := 0
  badreq : Nat := 0
  kfs : List (String × Nat) := []
  distinctNontrivial : Nat := 0
  seen : Std.HashSet UInt64 := {}
  dist : Std.HashMap String Nat := {}

def bump (l : List (String × Nat)) (k : String) : List (String × Nat) × Nat :=
  match l.find? (·.1 == k) with
  | some (_, c) => (l.map (fun p => if p.1 == k then (p.1, p.2 + 1) else p), c + 1)
  | none => ((k, 1) :: l, 1)

/-- coarse class of a case, for the input distribution reported in the evidence -/
def category (req ans : String) : String :=
  match words req with
  | "x" :: _ | "xr" :: _ | "xs" :: _ =>
    let line := (req.splitOn " | ").getLast?.getD ""
    let ws := words line
    let mn := match ws with | p :: q :: _ => if p == "rep" || p == "repz" || p == "repnz" then p ++ "+" ++ q else p | p :: _ => p | [] => "?"
    s!"L2 {(words req).headD "x"} {mn} -> {(words ans).headD "?"}"
  | "asm" :: _ | "asm2" :: _ | "opnd" :: _ | "jsp" :: _ | "asmx" :: _ | "asmre" :: _ | "role" :: _ => s!"L3 {(words req).headD "asm"} -> {" ".intercalate ((words ans).take 2)}"
  | "cli" :: flag :: _ =>
    let out := (pctDecode (fieldOf ans "out")).getD ""
    let kind := if out.startsWith "Syntax Error" then "syntax diagnostic" else if out.startsWith "Label " then "undefined label"
      else if out.startsWith "Error : necessary" then "no start" else if (out.splitOn ">>> ").length > 1 then "ran with prompts" else "ran"
    s!"L4 cli {flag} exit={fieldOf ans "exit"} {kind}"
  | k :: f :: _ => s!"L1 {k} {f}"
  | _ => "?"

def handle (strict : Bool) (fuel : Nat) (req ans : String) : Verdict :=
  let r := words req
  match r with
  | "x" :: _ => handleL2 req ans
  | "xr" :: _ => handleL2 req ans
  | "xs" :: _ => handleSeq req ans
  | "asm" :: _ => handleL3 req ans
  | "asm2" :: _ => handleL3 req ans
  | "opnd" :: _ => handleL3 req ans
  | "jsp" :: _ => handleL3 req ans
  | "asmx" :: _ => handleL3 req ans
  | "asmre" :: _ => handleL3 req ans
  | "role" :: _ => handleL3 req ans
  | "cli" :: _ => handleL4 strict fuel req ans
  | _ => handleL1 r (words ans)

partial def loop (strict : Bool) (fuel : Nat) (h : IO.FS.Stream) (out : IO.FS.Stream) (acc : Acc) : IO Acc := do
  let line ← h.getLine
  if line.isEmpty then return acc
  let line := (line.dropEndWhile (fun c => c == '\n' || c == '\r')).toString
  if line.isEmpty then loop strict fuel h out acc else
  if line.startsWith "scan " then
    -- exhaustive pre-filtered scan by the harness (`scan <group> <n> => ok`): n inputs on which the real code agreed
    -- with the harness-side filter; the disagreeing ones precede this line as ordinary requests
    let n := (((line.splitOn " => ").headD "").splitOn " ").getD 2 "0" |>.toNat!
    loop strict fuel h out { acc with n := acc.n + n, dist := acc.dist.insert "L1_scan" ((acc.dist.getD "L1_scan" 0) + n) }
  else
  match line.splitOn " => " with
  | [req, ans] =>
    let v := handle strict fuel req ans
    let cat := category req ans
    let mut acc := { acc with n := acc.n + 1, dist := acc.dist.insert cat ((acc.dist.getD cat 0) + 1) }
    if v.model == "BADREQ" then
      out.putStrLn s!"BADREQ {line}"
      acc := { acc with badreq := acc.badreq + 1 }
    else
      if acc.n ≤ 2 then out.putStrLn s!"SAMPLE {line}"
      if v.nontrivial then
        let h := hash req
        if acc.seen.contains h then
          acc := { acc with nontrivial := acc.nontrivial + 1 }
        else
          acc := { acc with nontrivial := acc.nontrivial + 1, distinctNontrivial := acc.distinctNontrivial + 1,
                            seen := acc.seen.insert h }
      let modelAgrees := v.model == ans
      if !modelAgrees then
        out.putStrLn s!"DIFF-MODEL {line} | model={v.model}"
        acc := { acc with diffModel := acc.diffModel + 1 }
      if !v.specOk then
        if v.kf != "-" && modelAgrees then
          let (l, c) := bump acc.kfs v.kf
          acc := { acc with kfs := l, kfHits := acc.kfHits + 1 }
          if c ≤ 3 then out.putStrLn s!"KF {v.kf} {line}"
        else
          out.putStrLn s!"DIFF-SPEC {line} | spec={v.spec} kf={v.kf}"
          acc := { acc with diffSpec := acc.diffSpec + 1 }
    loop strict fuel h out acc
  | _ =>
    out.putStrLn s!"BADLINE {line}"
    loop strict fuel h out { acc with n := acc.n + 1, badreq := acc.badreq + 1 }

end Driver

def main : IO Unit := do
  let stdin ← IO.getStdin
  let stdout ← IO.getStdout
  -- VERIF_STRICT_OUT=1: the text written is itself the property (C16-C18, C20): no wording tolerance
  let strict := (← IO.getEnv "VERIF_STRICT_OUT") == some "1"
  -- VERIF_MODEL_FUEL: step budget of the model's run loop (default 200000; the `deep` group needs millions)
  let fuel := ((← IO.getEnv "VERIF_MODEL_FUEL").bind String.toNat?).getD 200000
  let acc ← Driver.loop strict fuel stdin stdout {}
  let kfs := ",".intercalate (acc.kfs.map (fun p => s!"{p.1}:{p.2}"))
  let dist := ";".intercalate (acc.dist.toList.map fun (k, v) => s!"{k.replace " " "_"}={v}")
  stdout.putStrLn s!"DIST {dist}"
  stdout.putStrLn s!"SUMMARY n={acc.n} diff_model={acc.diffModel} diff_spec={acc.diffSpec} kf_hits={acc.kfHits} nontrivial={acc.nontrivial} distinct_nontrivial={acc.distinctNontrivial} bad={acc.badreq} kf={kfs}"
