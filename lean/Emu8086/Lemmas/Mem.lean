/-
Read-after-write lemmas for the memory model (base function + hash-map overlay) and for the
architectural byte/word accessors of Spec.Exec.  Helper lemmas only.
-/
import Emu8086.Lemmas.ExecBridge

namespace Emu8086
open Emu8086.Spec

theorem Mem.read_write (m : Mem) (a b : Nat) (v : BitVec 8) :
    (m.write a v).read b = if a % MB = b % MB then v else m.read b := by
  simp only [Mem.read, Mem.write, Std.HashMap.getElem?_insert]
  by_cases h : a % MB = b % MB <;> simp [h]

theorem byteAt_putByte (m : Machine) (a b : Nat) (v : BitVec 8) :
    byteAt (putByte m a v) b = if a % M20 = b % M20 then v else byteAt m b := by
  simp only [byteAt, putByte, Mem.read_write, M20_eq_MB, Nat.mod_mod]

theorem byteAt_mod (m : Machine) (a : Nat) : byteAt m (a % M20) = byteAt m a := by
  simp [byteAt, Nat.mod_mod]

theorem succ_mod_ne (a : Nat) : (a + 1) % M20 % M20 ≠ a % M20 := by
  simp only [M20]; omega

theorem wordAt_putWord_same (m : Machine) (a : Nat) (v : BitVec 16) : wordAt (putWord m a v) a = v := by
  simp only [wordAt, putWord, byteAt_putByte, Nat.mod_mod]
  have h1 : ¬ (a % M20 = (a + 1) % M20) := by simp only [M20]; omega
  have h2 : ¬ ((a + 1) % M20 = a % M20) := fun e => h1 e.symm
  simp only [h1, h2, if_true, if_false]
  bv_decide

/-- the two byte cells of the word at `a` -/
def wordCells (a : Nat) : List Nat := [a % M20, (a + 1) % M20]

theorem byteAt_putWord_other (m : Machine) (a b : Nat) (v : BitVec 16) (h : b % M20 ∉ wordCells a) :
    byteAt (putWord m a v) b = byteAt m b := by
  simp only [wordCells, List.mem_cons, List.not_mem_nil, or_false, not_or] at h
  simp only [putWord, byteAt_putByte, Nat.mod_mod]
  rw [if_neg (fun e => h.2 e.symm), if_neg (fun e => h.1 e.symm)]

theorem wordAt_putWord_other (m : Machine) (a b : Nat) (v : BitVec 16)
    (h1 : b % M20 ∉ wordCells a) (h2 : (b + 1) % M20 ∉ wordCells a) :
    wordAt (putWord m a v) b = wordAt m b := by
  unfold wordAt
  rw [byteAt_putWord_other m a b v h1, byteAt_putWord_other m a ((b + 1) % M20) v (by simpa [Nat.mod_mod] using h2)]

end Emu8086
