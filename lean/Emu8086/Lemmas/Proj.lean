import Emu8086.Model.Alu
import Emu8086.Spec.MulDiv
namespace Emu8086
variable (c : Prop) [Decidable c]
theorem AluState.ax_ite (a b : AluState) : (if c then a else b).ax = if c then a.ax else b.ax := by split <;> rfl
theorem AluState.dx_ite (a b : AluState) : (if c then a else b).dx = if c then a.dx else b.dx := by split <;> rfl
theorem AluState.flag_ite (a b : AluState) : (if c then a else b).flag = if c then a.flag else b.flag := by split <;> rfl
theorem Spec.Regs.ax_ite (a b : Spec.Regs) : (if c then a else b).ax = if c then a.ax else b.ax := by split <;> rfl
theorem Spec.Regs.dx_ite (a b : Spec.Regs) : (if c then a else b).dx = if c then a.dx else b.dx := by split <;> rfl
theorem Spec.Regs.flag_ite (a b : Spec.Regs) : (if c then a else b).flag = if c then a.flag else b.flag := by split <;> rfl
end Emu8086
