/-
Simp lemmas for the state+error monad of the assembler model (`Asm.M = StateT St (Except PPErr)`):
how the primitive operations act on an explicit state.  Helper lemmas only.
-/
import Emu8086.Model.Asm

namespace Emu8086.Asm

@[simp] theorem fail_apply {α} (e : PPErr) (s : St) : (fail e : M α) s = .error e := rfl
@[simp] theorem err_apply {α} (a b : Nat) (msg : String) (s : St) : (err a b msg : M α) s = .error (.custom a b msg) := rfl
@[simp] theorem pure_apply {α} (a : α) (s : St) : (pure a : M α) s = .ok (a, s) := rfl
@[simp] theorem get_apply (s : St) : (get : M St) s = .ok (s, s) := rfl
@[simp] theorem set_apply (s' s : St) : (set s' : M PUnit) s = .ok (⟨⟩, s') := rfl
@[simp] theorem modify_apply (f : St → St) (s : St) : (modify f : M PUnit) s = .ok (⟨⟩, f s) := rfl
@[simp] theorem bind_apply {α β} (x : M α) (f : α → M β) (s : St) :
    (x >>= f) s = match x s with | .ok (a, s') => f a s' | .error e => .error e := by
  simp only [bind, StateT.bind, Except.bind]
  cases x s with
  | error e => rfl
  | ok p => rfl

@[simp] theorem map_apply {α β} (f : α → β) (x : M α) (s : St) :
    (f <$> x) s = match x s with | .ok (a, s') => .ok (f a, s') | .error e => .error e := by
  simp only [Functor.map, StateT.map, bind, Except.bind, pure, Except.pure]
  cases x s with
  | error e => rfl
  | ok p => rfl

@[simp] theorem addEntry_apply (pos : Nat) (s : St) :
    addEntry pos s = .ok (⟨⟩, if s.lock != 0 then { s with smap := s.smap.push s.sourceLast }
                              else { s with sourceLast := pos, smap := s.smap.push pos }) := rfl

@[simp] theorem pushCode_apply (line : String) (pos : Nat) (s : St) :
    pushCode line pos s = .ok (⟨⟩,
      if s.lock != 0 then { s with code := s.code.push line, smap := s.smap.push s.sourceLast }
      else { s with code := s.code.push line, sourceLast := pos, smap := s.smap.push pos }) := by
  simp only [pushCode, bind_apply, modify_apply, addEntry_apply]

end Emu8086.Asm
