namespace Emu8086

@[simp] theorem fst_ite {α β} (c : Prop) [Decidable c] (a b : α × β) :
    (if c then a else b).1 = if c then a.1 else b.1 := by split <;> rfl
@[simp] theorem snd_ite {α β} (c : Prop) [Decidable c] (a b : α × β) :
    (if c then a else b).2 = if c then a.2 else b.2 := by split <;> rfl
@[simp] theorem fst_bite {α β} (c : Bool) (a b : α × β) :
    (bif c then a else b).1 = bif c then a.1 else b.1 := by cases c <;> rfl
@[simp] theorem snd_bite {α β} (c : Bool) (a b : α × β) :
    (bif c then a else b).2 = bif c then a.2 else b.2 := by cases c <;> rfl

end Emu8086
