/-
Bridging lemmas between the model's machine primitives (mirrors of vm.rs / address.rs / data_util.rs)
and the architectural vocabulary of Spec.Exec.  Helper lemmas only: no property statement lives here.
-/
import Std.Tactic.BVDecide
import Emu8086.Model.Instr
import Emu8086.Spec.Exec
import Emu8086.Spec.WF

namespace Emu8086
open Emu8086.Spec

/-- the generated size of the memory is the architectural 1 MiB (re-checked against vm.rs each run) -/
theorem MB_eq : MB = 1048576 := by decide
theorem M20_eq_MB : M20 = MB := by decide

theorem calcAddr_eq_phys (seg off : BitVec 16) : calcAddr seg.toNat off.toNat = phys seg off := by
  simp [calcAddr, makeValid, phys, M20_eq_MB]

theorem calcAddr_lt (b o : Nat) : calcAddr b o < MB := by
  unfold calcAddr makeValid; exact Nat.mod_lt _ (by decide)
theorem incAddr_lt (a i : Nat) : incAddr a i < MB := by
  unfold incAddr; exact Nat.mod_lt _ (by decide)
theorem phys_lt (s o : BitVec 16) : phys s o < M20 := by
  unfold phys; exact Nat.mod_lt _ (by decide)

@[simp] theorem Mem.read_mod (m : Mem) (a : Nat) : m.read (a % MB) = m.read a := by
  simp [Mem.read, Nat.mod_mod]
@[simp] theorem Mem.write_mod (m : Mem) (a : Nat) (v : BitVec 8) : m.write (a % MB) v = m.write a v := by
  simp [Mem.write, Nat.mod_mod]

theorem readByte_eq_byteAt (m : Machine) (a : Nat) : m.readByte a = byteAt m a := by
  simp [Machine.readByte, byteAt, M20_eq_MB]

theorem readWord_eq_wordAt (m : Machine) (a : Nat) : m.readWord a = wordAt m a := by
  simp only [Machine.readWord, wordAt, byteAt, incAddr, M20_eq_MB, Mem.read_mod]
  rw [BitVec.or_comm]

theorem writeByte_eq_putByte (m : Machine) (a : Nat) (v : BitVec 8) : m.writeByte a v = putByte m a v := by
  simp [Machine.writeByte, putByte, M20_eq_MB]

theorem separateBytes_eq (v : BitVec 16) : separateBytes v = ((v >>> 8).setWidth 8, v.setWidth 8) := by
  simp only [separateBytes, Prod.mk.injEq]; constructor <;> bv_decide

theorem writeWord_eq_putWord (m : Machine) (a : Nat) (v : BitVec 16) : m.writeWord a v = putWord m a v := by
  simp only [Machine.writeWord, separateBytes_eq, putWord, writeByte_eq_putByte, incAddr, M20_eq_MB]

theorem lowByte_eq (x : BitVec 16) : lowByte x = x.setWidth 8 := by unfold lowByte; bv_decide
theorem highByte_eq (x : BitVec 16) : highByte x = (x >>> 8).setWidth 8 := by unfold highByte; bv_decide
theorem withLow_eq (x : BitVec 16) (v : BitVec 8) : withLow x v = lowSet x v := by
  unfold withLow lowSet; bv_decide
theorem withHigh_eq (x : BitVec 16) (v : BitVec 8) : withHigh x v = highSet x v := by
  unfold withHigh highSet; bv_decide

theorem getByteReg_eq (m : Machine) (r : ByteReg) : m.getByteReg r = get8 m r := by
  cases r <;> simp [Machine.getByteReg, get8, lowByte_eq, highByte_eq]
theorem setByteReg_eq (m : Machine) (r : ByteReg) (v : BitVec 8) : m.setByteReg r v = set8 m r v := by
  cases r <;> simp [Machine.setByteReg, set8, withLow_eq, withHigh_eq]
theorem getWordReg_eq (m : Machine) (r : WordReg) : m.getWordReg r = get16 m r := by
  cases r <;> rfl
theorem setWordReg_eq (m : Machine) (r : WordReg) (v : BitVec 16) : m.setWordReg r v = set16 m r v := by
  cases r <;> rfl

theorem offsetOf_eq (m : Machine) (a : MemAddr) : m.offsetOf a = off16 m a := by
  unfold Machine.offsetOf off16 Machine.baseVal Machine.indexVal
  rcases a with ⟨s, b, i, d⟩
  cases b with
  | none => cases i with
    | none => cases d <;> rfl
    | some i => cases i <;> cases d <;> rfl
  | some b => cases b <;> (cases i with
    | none => cases d <;> rfl
    | some i => cases i <;> cases d <;> rfl)

theorem segOf_eq (m : Machine) (a : MemAddr) (h : a.WF = true) : m.segOf a = segVal m a := by
  rcases a with ⟨s, b, i, d⟩
  unfold Machine.segOf segVal
  cases s with
  | none =>
    cases b with
    | none => simp
    | some b => cases b <;> simp
  | some s => cases s <;> simp_all [MemAddr.WF, WordReg.isSeg, Machine.getWordReg]

theorem resolveMem_eq_ea (m : Machine) (a : MemAddr) (h : a.WF = true) : m.resolveMem a = ea m a := by
  unfold Machine.resolveMem ea
  rw [calcAddr_eq_phys, segOf_eq m a h, offsetOf_eq]

end Emu8086

namespace Emu8086
open Emu8086.Spec

def Spec.Place.toLoc : Place → Loc
  | .r8 r => .reg8 r | .r16 r => .reg16 r | .mem a => .mem a | .const8 v => .imm8 v | .const16 v => .imm16 v

/-- forget the error text -/
def okOf {α} : Except String α → Option α
  | .ok a => some a | .error _ => none

@[simp] theorem okOf_ok {α} (a : α) : okOf (Except.ok a : Except String α) = some a := rfl
@[simp] theorem okOf_error {α} (e : String) : okOf (Except.error e : Except String α) = none := rfl

theorem resolveLabel_eq (m : Machine) (ctx : Ctx) (h : ctx.WF) (n : String) :
    okOf (resolveLabel m ctx n) = (okOf (labelAddr m ctx n)).map (·.1) := by
  unfold resolveLabel labelAddr
  cases hl : ctx.labelMap.lookup n with
  | none => rfl
  | some l =>
    rcases l with ⟨t, off⟩
    cases t with
    | CODE => rfl
    | DATA =>
      have hlt : off < 65536 := h n ⟨.DATA, off⟩ hl rfl
      simp only [okOf_ok, Option.map_some, Option.some.injEq]
      have e : off = (BitVec.ofNat 16 off).toNat := by simp [Nat.mod_eq_of_lt hlt]
      conv => lhs; rw [e]
      exact calcAddr_eq_phys _ _

theorem resolve8_eq (m : Machine) (ctx : Ctx) (h : ctx.WF) (o : Op8) (hw : o.WF = true) :
    okOf (resolve8 m ctx o) = (okOf (place8 m ctx o)).map Place.toLoc := by
  cases o with
  | reg r => rfl
  | imm v => rfl
  | mem a => simp [resolve8, place8, Place.toLoc, resolveMem_eq_ea m a (by simpa [Op8.WF] using hw)]
  | lbl n =>
    have := resolveLabel_eq m ctx h n
    simp only [resolve8, place8]
    cases h1 : resolveLabel m ctx n <;> cases h2 : labelAddr m ctx n <;> simp_all [Except.map, Place.toLoc]

theorem resolve16_eq (m : Machine) (ctx : Ctx) (h : ctx.WF) (o : Op16) (hw : o.WF = true) :
    okOf (resolve16 m ctx o) = (okOf (place16 m ctx o)).map Place.toLoc := by
  cases o with
  | reg r => rfl
  | imm v => rfl
  | mem a => simp [resolve16, place16, Place.toLoc, resolveMem_eq_ea m a (by simpa [Op16.WF] using hw)]
  | lbl n =>
    have := resolveLabel_eq m ctx h n
    simp only [resolve16, place16]
    cases h1 : resolveLabel m ctx n <;> cases h2 : labelAddr m ctx n <;> simp_all [Except.map, Place.toLoc]

theorem load8_eq (m : Machine) (p : Place) : m.load8 p.toLoc = rd8 m p := by
  cases p <;> simp [Machine.load8, rd8, Place.toLoc, getByteReg_eq, getWordReg_eq, readByte_eq_byteAt]
theorem load16_eq (m : Machine) (p : Place) : m.load16 p.toLoc = rd16 m p := by
  cases p <;> simp [Machine.load16, rd16, Place.toLoc, getByteReg_eq, getWordReg_eq, readWord_eq_wordAt]
theorem store8_eq (m : Machine) (p : Place) (v : BitVec 8) : m.store8 p.toLoc v = wr8 m p v := by
  cases p <;> simp [Machine.store8, wr8, Place.toLoc, setByteReg_eq, writeByte_eq_putByte]
theorem store16_eq (m : Machine) (p : Place) (v : BitVec 16) : m.store16 p.toLoc v = wr16 m p v := by
  cases p <;> simp [Machine.store16, wr16, Place.toLoc, setWordReg_eq, writeWord_eq_putWord]

theorem stackTop_eq (m : Machine) : m.stackTop = phys m.ss m.sp := by
  simp [Machine.stackTop, calcAddr_eq_phys]

end Emu8086

namespace Emu8086
open Emu8086.Spec

/-- forget the error text and the undefined-flag mask of a reference result -/
def strip : Spec.Res → Option (State × Machine × Ctx)
  | .ok (s, m, c, _) => some (s, m, c) | .error _ => none

@[simp] theorem strip_next (m : Machine) (c : Ctx) (u : BitVec 16) : strip (Spec.next m c u) = some (.NEXT, m, c) := rfl
@[simp] theorem strip_ok (s : State) (m : Machine) (c : Ctx) (u : BitVec 16) : strip (.ok (s, m, c, u)) = some (s, m, c) := rfl
@[simp] theorem strip_error (e : String) : strip (.error e) = none := rfl

/-- operand resolution followed by the action: the model and the reference agree if they agree on
    the resolved operand and on the continuation -/
theorem bind_refines {α β} (x : Except String α) (y : Except String β) (f : β → α)
    (k : α → Except String (State × Machine × Ctx)) (k' : β → Spec.Res)
    (hx : okOf x = (okOf y).map f) (hk : ∀ p, okOf (k (f p)) = strip (k' p)) :
    okOf (x >>= k) = strip (y >>= k') := by
  cases x <;> cases y <;> simp_all [okOf, bind, Except.bind, strip]

end Emu8086

namespace Emu8086
open Emu8086.Spec
theorem putByte_set8_comm (m : Machine) (r : ByteReg) (v : BitVec 8) (a : Nat) (b : BitVec 8) :
    putByte (set8 m r v) a b = set8 (putByte m a b) r v := by cases r <;> rfl
theorem putWord_set16_comm (m : Machine) (r : WordReg) (v : BitVec 16) (a : Nat) (b : BitVec 16) :
    putWord (set16 m r v) a b = set16 (putWord m a b) r v := by cases r <;> rfl
end Emu8086

namespace Emu8086
open Emu8086.Spec
section
variable (m : Machine) (a : Nat) (v : BitVec 8)
@[simp] theorem putByte_flag : (putByte m a v).flag = m.flag := rfl
@[simp] theorem putByte_ax : (putByte m a v).ax = m.ax := rfl
@[simp] theorem putByte_bx : (putByte m a v).bx = m.bx := rfl
@[simp] theorem putByte_cx : (putByte m a v).cx = m.cx := rfl
@[simp] theorem putByte_dx : (putByte m a v).dx = m.dx := rfl
@[simp] theorem putByte_sp : (putByte m a v).sp = m.sp := rfl
@[simp] theorem putByte_bp : (putByte m a v).bp = m.bp := rfl
@[simp] theorem putByte_si : (putByte m a v).si = m.si := rfl
@[simp] theorem putByte_di : (putByte m a v).di = m.di := rfl
@[simp] theorem putByte_ip : (putByte m a v).ip = m.ip := rfl
@[simp] theorem putByte_cs : (putByte m a v).cs = m.cs := rfl
@[simp] theorem putByte_ds : (putByte m a v).ds = m.ds := rfl
@[simp] theorem putByte_ss : (putByte m a v).ss = m.ss := rfl
@[simp] theorem putByte_es : (putByte m a v).es = m.es := rfl
end
theorem hi_of_word (h l : BitVec 8) : ((h.setWidth 16 <<< 8 ||| l.setWidth 16) >>> 8).setWidth 8 = h := by bv_decide
theorem lo_of_word (h l : BitVec 8) : (h.setWidth 16 <<< 8 ||| l.setWidth 16).setWidth 8 = l := by bv_decide
end Emu8086
