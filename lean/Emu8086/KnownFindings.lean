/-
Decidable class predicates of the OPEN known findings (see /verif/known_findings.jsonl).  Kept apart
from the proofs so that both the theorems (`*_partial` hypotheses) and the compiled driver (which
classifies implementation-vs-spec differences) use the very same definitions.
-/
namespace Emu8086.KF

/-- KF-INC-CF: INC overwrites CF with the carry of the addition; wrong iff that carry differs from CF -/
def inc {w} (fl : BitVec 16) (a : BitVec w) : Bool := (a == BitVec.allOnes w) != fl.getLsbD 0

/-- KF-NEG0-SF: NEG of 0 keeps the previous SF; wrong iff operand 0 and SF set on entry -/
def neg {w} (fl : BitVec 16) (a : BitVec w) : Bool := (a == 0#w) && fl.getLsbD 7

/-- KF-IMUL8-FLAGS: byte IMUL takes CF/OF from the OLD AH (`AH != 0xFF`) instead of from the product;
    wrong iff that differs from "AH:AL is not the sign extension of AL" of the product -/
def imul8 (ax : BitVec 16) (v : BitVec 8) : Bool :=
  let p : BitVec 16 := (ax.setWidth 8).signExtend 16 * v.signExtend 16
  ((ax >>> 8).setWidth 8 != 255#8) != (p != (p.setWidth 8).signExtend 16)

/-- KF-JLE: JLE/JNG is implemented as `ZF ∧ SF≠OF`; wrong iff that differs from `ZF ∨ SF≠OF` -/
def jle (fl : BitVec 16) : Bool :=
  let z := fl.getLsbD 6; let l := fl.getLsbD 7 != fl.getLsbD 11
  (z && l) != (z || l)

/-- KF-LEA-SEG: LEA subtracts DS*16 from the physical address; wrong iff the operand's segment differs
    from DS by something that does not vanish modulo 2^16 after the shift by 4 -/
def lea (ds seg : BitVec 16) : Bool := ((seg - ds) <<< 4) != 0#16

end Emu8086.KF
