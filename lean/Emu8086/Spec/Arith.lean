/-
Specification of the 8086 arithmetic results and status flags (my reading of the 8086 Family
User's Manual, instruction-set reference: ADD/ADC/SUB/SBB/CMP/INC/DEC/NEG).

Written independently of the implementation's carry-chain tricks: every quantity is computed
*exactly* in a wider bit-vector (no wrap-around can occur at that width) and the flag says whether
the exact value fits.  The flag bit positions are Intel's (CF=0, PF=2, AF=4, ZF=6, SF=7, OF=11),
written here as literals — NOT taken from the repository's arch.rs.
-/
namespace Emu8086.Spec

/-- the six status flags -/
structure Status where
  cf : Bool
  pf : Bool
  af : Bool
  zf : Bool
  sf : Bool
  of : Bool
  deriving DecidableEq, Repr, Inhabited

/-- PF: the low byte of the result has an even number of 1 bits -/
def parityEven (v : BitVec 8) : Bool :=
  !(v.getLsbD 0 ^^ v.getLsbD 1 ^^ v.getLsbD 2 ^^ v.getLsbD 3 ^^
    v.getLsbD 4 ^^ v.getLsbD 5 ^^ v.getLsbD 6 ^^ v.getLsbD 7)

def bit (b : Bool) (w : Nat) : BitVec w := if b then 1#w else 0#w

/-- ZF/SF/PF of a result -/
def zf {w} (r : BitVec w) : Bool := r == 0#w
def sf {w} (r : BitVec w) : Bool := r.msb
def pf {w} (r : BitVec w) : Bool := parityEven (r.setWidth 8)

/-- `a + b + cin`: result and flags -/
def add {w : Nat} (a b : BitVec w) (cin : Bool) : BitVec w × Status :=
  -- exact unsigned and signed sums, one bit wider than the operands
  let u : BitVec (w+1) := a.setWidth (w+1) + b.setWidth (w+1) + bit cin (w+1)
  let s : BitVec (w+1) := a.signExtend (w+1) + b.signExtend (w+1) + bit cin (w+1)
  let n : BitVec 5 := (a.setWidth 4).setWidth 5 + (b.setWidth 4).setWidth 5 + bit cin 5
  let r : BitVec w := u.setWidth w
  (r, { cf := u.msb,                       -- unsigned sum does not fit in w bits
        af := n.msb,                       -- carry out of bit 3
        of := s != r.signExtend (w+1),     -- signed sum does not fit in w bits
        zf := zf r, sf := sf r, pf := pf r })

/-- `a - b - bin`: result and flags -/
def sub {w : Nat} (a b : BitVec w) (bin : Bool) : BitVec w × Status :=
  let u : BitVec (w+1) := a.setWidth (w+1) - b.setWidth (w+1) - bit bin (w+1)
  let s : BitVec (w+1) := a.signExtend (w+1) - b.signExtend (w+1) - bit bin (w+1)
  let n : BitVec 5 := (a.setWidth 4).setWidth 5 - (b.setWidth 4).setWidth 5 - bit bin 5
  let r : BitVec w := u.setWidth w
  (r, { cf := u.msb,                       -- borrow: exact difference is negative
        af := n.msb,                       -- borrow into bit 3
        of := s != r.signExtend (w+1),
        zf := zf r, sf := sf r, pf := pf r })

/-- write the six status flags into a FLAGS word, every other bit unchanged (Intel bit positions) -/
def withStatus (fl : BitVec 16) (s : Status) : BitVec 16 :=
  (fl &&& ~~~ 0x08D5#16)
    ||| bit s.cf 16 ||| (bit s.pf 16 <<< 2) ||| (bit s.af 16 <<< 4)
    ||| (bit s.zf 16 <<< 6) ||| (bit s.sf 16 <<< 7) ||| (bit s.of 16 <<< 11)

def cfOf (fl : BitVec 16) : Bool := fl.getLsbD 0

/-! The eight instructions of property C01, as (result written to the destination, new FLAGS). -/

def ADD {w} (fl : BitVec 16) (a b : BitVec w) : BitVec w × BitVec 16 :=
  let (r, s) := add a b false; (r, withStatus fl s)
def ADC {w} (fl : BitVec 16) (a b : BitVec w) : BitVec w × BitVec 16 :=
  let (r, s) := add a b (cfOf fl); (r, withStatus fl s)
def SUB {w} (fl : BitVec 16) (a b : BitVec w) : BitVec w × BitVec 16 :=
  let (r, s) := sub a b false; (r, withStatus fl s)
def SBB {w} (fl : BitVec 16) (a b : BitVec w) : BitVec w × BitVec 16 :=
  let (r, s) := sub a b (cfOf fl); (r, withStatus fl s)
/-- CMP: flags of SUB, destination keeps its value -/
def CMP {w} (fl : BitVec 16) (a b : BitVec w) : BitVec w × BitVec 16 :=
  (a, (SUB fl a b).2)
/-- INC/DEC: add/subtract 1, CF untouched -/
def INC {w} (fl : BitVec 16) (a : BitVec w) : BitVec w × BitVec 16 :=
  let (r, s) := add a 1#w false; (r, withStatus fl { s with cf := cfOf fl })
def DEC {w} (fl : BitVec 16) (a : BitVec w) : BitVec w × BitVec 16 :=
  let (r, s) := sub a 1#w false; (r, withStatus fl { s with cf := cfOf fl })
/-- NEG: 0 - a -/
def NEG {w} (fl : BitVec 16) (a : BitVec w) : BitVec w × BitVec 16 :=
  let (r, s) := sub 0#w a false; (r, withStatus fl s)

end Emu8086.Spec
