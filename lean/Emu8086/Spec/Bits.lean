/-
Specification of AND/OR/XOR/TEST/NOT and of SHL/SAL/SHR/SAR/ROL/ROR/RCL/RCR (8086 Family User's
Manual).  A shift/rotate by `n` is DEFINED as `n` single-bit steps on (value, CF) — no masking of the
count (8086, not 80186+).  What the manual leaves undefined is not constrained:
  * AF after logic and shift instructions,
  * OF after a shift/rotate by a count other than 1.
The spec is a predicate on (inputs, outputs) so that undefined bits may take any value.
Intel flag bit positions are literals here (CF=0, PF=2, AF=4, ZF=6, SF=7, OF=11).
-/
import Emu8086.Spec.Arith

namespace Emu8086.Spec

inductive ShOp where
  | shl | shr | sar | rol | ror | rcl | rcr
  deriving DecidableEq, Repr, Inhabited

def ShOp.isShift : ShOp → Bool
  | .shl | .shr | .sar => true
  | _ => false

/-- one single-bit step on (value, CF) -/
def step1 {w : Nat} (op : ShOp) (s : BitVec w × Bool) : BitVec w × Bool :=
  let (v, c) := s
  match op with
  | .shl => (v <<< 1, v.msb)
  | .shr => (v >>> 1, v.getLsbD 0)
  | .sar => (v.sshiftRight 1, v.getLsbD 0)
  | .rol => ((v <<< 1) ||| bit v.msb w, v.msb)
  | .ror => ((v >>> 1) ||| (bit (v.getLsbD 0) w <<< (w - 1)), v.getLsbD 0)
  | .rcl => ((v <<< 1) ||| bit c w, v.msb)
  | .rcr => ((v >>> 1) ||| (bit c w <<< (w - 1)), v.getLsbD 0)

def iter {α} (f : α → α) : Nat → α → α
  | 0, x => x
  | n+1, x => f (iter f n x)

/-- OF after a count of exactly 1, from the original value `v`, the result `r` and the new CF `c` -/
def of1 {w : Nat} (op : ShOp) (v r : BitVec w) (c : Bool) : Bool :=
  match op with
  | .shl | .rol | .rcl => r.msb ^^ c           -- sign changed
  | .shr => v.msb                               -- the original high-order bit
  | .sar => false
  | .ror | .rcr => r.msb ^^ r.getLsbD (w - 2)   -- the two high-order bits of the result differ

/-- flag bits a shift (resp. rotate) is allowed to change -/
def shiftMayChange : BitVec 16 := 0x08D5#16    -- CF PF AF ZF SF OF
def rotateMayChange : BitVec 16 := 0x0801#16   -- CF OF

/-- the acceptance predicate for `op` applied `n` times to `v` with flags `fl`, producing `(r, fl')` -/
def shiftOk {w : Nat} (op : ShOp) (fl : BitVec 16) (v : BitVec w) (n : Nat) (out : BitVec w × BitVec 16) : Bool :=
  let (r, fl') := out
  if n = 0 then r == v && fl' == fl
  else
    let (rs, cs) := iter (step1 op) n (v, cfOf fl)
    r == rs
    && fl'.getLsbD 0 == cs
    && (if op.isShift then
          fl'.getLsbD 6 == zf rs && fl'.getLsbD 7 == sf rs && fl'.getLsbD 2 == pf rs
          && (fl' &&& ~~~ shiftMayChange) == (fl &&& ~~~ shiftMayChange)
        else
          (fl' &&& ~~~ rotateMayChange) == (fl &&& ~~~ rotateMayChange))
    && (if n = 1 then fl'.getLsbD 11 == of1 op v rs cs else true)

/-! ### logic -/

inductive LogOp where
  | and | or | xor | test
  deriving DecidableEq, Repr, Inhabited

def logicVal {w} (op : LogOp) (a b : BitVec w) : BitVec w :=
  match op with
  | .and | .test => a &&& b
  | .or => a ||| b
  | .xor => a ^^^ b

/-- result written (TEST writes nothing: destination keeps `a`), CF=OF=0, SF/ZF/PF from the value,
    AF unconstrained, every other bit unchanged -/
def logicOk {w} (op : LogOp) (fl : BitVec 16) (a b : BitVec w) (out : BitVec w × BitVec 16) : Bool :=
  let (r, fl') := out
  let x := logicVal op a b
  r == (if op = .test then a else x)
  && fl'.getLsbD 0 == false && fl'.getLsbD 11 == false
  && fl'.getLsbD 6 == zf x && fl'.getLsbD 7 == sf x && fl'.getLsbD 2 == pf x
  && (fl' &&& ~~~ 0x08D5#16) == (fl &&& ~~~ 0x08D5#16)

end Emu8086.Spec
