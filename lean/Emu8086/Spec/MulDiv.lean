/-
Specification of MUL/IMUL/DIV/IDIV, AAA/AAS/DAA/DAS/AAM/AAD, CBW/CWD (8086 Family User's Manual).
Products and quotients are computed exactly in a wider bit-vector.  Flags the manual calls
undefined are not constrained; every flag bit the instruction does not affect must be unchanged.
IDIV uses the lenient quotient range [-2^(w-1), 2^(w-1)-1]; an implementation that also raises the
divide error for -2^(w-1) (as the original 8086 does) is accepted.
Flag bit positions are Intel's, as literals (CF=0, PF=2, AF=4, ZF=6, SF=7, OF=11).
-/
import Emu8086.Spec.Arith

namespace Emu8086.Spec

/-- machine part touched by these instructions -/
structure Regs where
  flag : BitVec 16
  ax : BitVec 16
  dx : BitVec 16
  deriving DecidableEq, Repr, Inhabited

inductive MdOp where
  | mul | imul | div | idiv
  deriving DecidableEq, Repr, Inhabited

def statusMask : BitVec 16 := 0x08D5#16

def lo8 (x : BitVec 16) : BitVec 8 := x.setWidth 8
def hi8 (x : BitVec 16) : BitVec 8 := (x >>> 8).setWidth 8
def mk16 (hi lo : BitVec 8) : BitVec 16 := (hi.setWidth 16 <<< 8) ||| lo.setWidth 16

/-- CF and OF both equal `c`, the four other status flags unconstrained, the rest unchanged -/
def mulFlagsOk (fl fl' : BitVec 16) (c : Bool) : Bool :=
  fl'.getLsbD 0 == c && fl'.getLsbD 11 == c && (fl' &&& ~~~ statusMask) == (fl &&& ~~~ statusMask)

/-- all six status flags unconstrained, the rest unchanged -/
def divFlagsOk (fl fl' : BitVec 16) : Bool :=
  (fl' &&& ~~~ statusMask) == (fl &&& ~~~ statusMask)

/-- byte forms: `out = none` is the divide-error outcome (INT 0) -/
def mulDiv8Ok (op : MdOp) (s : Regs) (v : BitVec 8) (out : Option Regs) : Bool :=
  match op with
  | .mul =>
    let p : BitVec 16 := (lo8 s.ax).setWidth 16 * v.setWidth 16
    match out with
    | none => false
    | some o => o.ax == p && o.dx == s.dx && mulFlagsOk s.flag o.flag (hi8 p != 0#8)
  | .imul =>
    let p : BitVec 16 := (lo8 s.ax).signExtend 16 * v.signExtend 16
    match out with
    | none => false
    | some o => o.ax == p && o.dx == s.dx && mulFlagsOk s.flag o.flag (p != (lo8 p).signExtend 16)
  | .div =>
    -- exact in 16 bits: dividend AX, divisor zero-extended
    let q := s.ax / v.setWidth 16
    let r := s.ax % v.setWidth 16
    let err := v == 0#8 || q > 255#16
    match out with
    | none => err
    | some o => !err && o.ax == mk16 (r.setWidth 8) (q.setWidth 8) && o.dx == s.dx && divFlagsOk s.flag o.flag
  | .idiv =>
    -- exact in 32 bits, truncating toward zero; remainder has the sign of the dividend
    let n : BitVec 32 := s.ax.signExtend 32
    let d : BitVec 32 := v.signExtend 32
    let q := n.sdiv d
    let r := n.srem d
    let mustErr := v == 0#8 || q.slt (-128#32) || (127#32).slt q
    let mayErr := mustErr || q == (-128#32)
    match out with
    | none => mayErr
    | some o => !mustErr && o.ax == mk16 (r.setWidth 8) (q.setWidth 8) && o.dx == s.dx && divFlagsOk s.flag o.flag

/-- word forms -/
def mulDiv16Ok (op : MdOp) (s : Regs) (v : BitVec 16) (out : Option Regs) : Bool :=
  match op with
  | .mul =>
    let p : BitVec 32 := s.ax.setWidth 32 * v.setWidth 32
    match out with
    | none => false
    | some o => o.ax == p.setWidth 16 && o.dx == (p >>> 16).setWidth 16
                && mulFlagsOk s.flag o.flag ((p >>> 16).setWidth 16 != 0#16)
  | .imul =>
    let p : BitVec 32 := s.ax.signExtend 32 * v.signExtend 32
    match out with
    | none => false
    | some o => o.ax == p.setWidth 16 && o.dx == (p >>> 16).setWidth 16
                && mulFlagsOk s.flag o.flag (p != (p.setWidth 16).signExtend 32)
  | .div =>
    let n : BitVec 32 := (s.dx.setWidth 32 <<< 16) ||| s.ax.setWidth 32
    let q := n / v.setWidth 32
    let r := n % v.setWidth 32
    let err := v == 0#16 || q > 65535#32
    match out with
    | none => err
    | some o => !err && o.ax == q.setWidth 16 && o.dx == r.setWidth 16 && divFlagsOk s.flag o.flag
  | .idiv =>
    -- exact in 64 bits (dividend 32 bits signed; the quotient of MIN / -1 needs 33)
    let n : BitVec 64 := ((s.dx.setWidth 32 <<< 16) ||| s.ax.setWidth 32).signExtend 64
    let d : BitVec 64 := v.signExtend 64
    let q := n.sdiv d
    let r := n.srem d
    let mustErr := v == 0#16 || q.slt (-32768#64) || (32767#64).slt q
    let mayErr := mustErr || q == (-32768#64)
    match out with
    | none => mayErr
    | some o => !mustErr && o.ax == q.setWidth 16 && o.dx == r.setWidth 16 && divFlagsOk s.flag o.flag

/-! ### decimal / ASCII adjusts, CBW, CWD — the manual's algorithm boxes -/

inductive AdjOp where
  | aaa | aas | daa | das | aam | aad | cbw | cwd
  deriving DecidableEq, Repr, Inhabited

/-- flags (among the six) that the instruction DEFINES -/
def AdjOp.defined : AdjOp → BitVec 16
  | .aaa | .aas => 0x0011#16          -- AF CF
  | .daa | .das => 0x00D5#16          -- SF ZF AF PF CF (OF undefined)
  | .aam | .aad => 0x00C4#16          -- SF ZF PF
  | .cbw | .cwd => 0x08D5#16          -- none affected: all must stay

def setBit (fl : BitVec 16) (i : Nat) (b : Bool) : BitVec 16 :=
  (fl &&& ~~~ (1#16 <<< i)) ||| (bit b 16 <<< i)

def szp8 (fl : BitVec 16) (r : BitVec 8) : BitVec 16 :=
  setBit (setBit (setBit fl 7 r.msb) 6 (r == 0#8)) 2 (parityEven r)

/-- the architecturally defined effect; undefined flags keep their old value here and are masked
    away by `adjOk` -/
def adjust (op : AdjOp) (s : Regs) : Regs :=
  let al := lo8 s.ax
  let ah := hi8 s.ax
  let af := s.flag.getLsbD 4
  let cf := s.flag.getLsbD 0
  match op with
  | .aaa =>
    if (al &&& 0x0F#8) > 9#8 || af then
      { s with ax := mk16 (ah + 1#8) ((al + 6#8) &&& 0x0F#8), flag := setBit (setBit s.flag 4 true) 0 true }
    else
      { s with ax := mk16 ah (al &&& 0x0F#8), flag := setBit (setBit s.flag 4 false) 0 false }
  | .aas =>
    if (al &&& 0x0F#8) > 9#8 || af then
      { s with ax := mk16 (ah - 1#8) ((al - 6#8) &&& 0x0F#8), flag := setBit (setBit s.flag 4 true) 0 true }
    else
      { s with ax := mk16 ah (al &&& 0x0F#8), flag := setBit (setBit s.flag 4 false) 0 false }
  | .daa =>
    let adj1 := (al &&& 0x0F#8) > 9#8 || af
    let al1 := if adj1 then al + 6#8 else al
    let adj2 := al1 > 0x9F#8 || cf
    let al2 := if adj2 then al1 + 0x60#8 else al1
    { s with ax := mk16 ah al2, flag := szp8 (setBit (setBit s.flag 4 adj1) 0 adj2) al2 }
  | .das =>
    let adj1 := (al &&& 0x0F#8) > 9#8 || af
    let al1 := if adj1 then al - 6#8 else al
    let adj2 := al1 > 0x9F#8 || cf
    let al2 := if adj2 then al1 - 0x60#8 else al1
    { s with ax := mk16 ah al2, flag := szp8 (setBit (setBit s.flag 4 adj1) 0 adj2) al2 }
  | .aam =>
    let q := al / 10#8
    let r := al % 10#8
    { s with ax := mk16 q r, flag := szp8 s.flag r }
  | .aad =>
    let r := ah * 10#8 + al
    { s with ax := mk16 0#8 r, flag := szp8 s.flag r }
  | .cbw => { s with ax := (lo8 s.ax).signExtend 16 }
  | .cwd => { s with dx := ((s.ax.signExtend 32) >>> 16).setWidth 16 }

def adjOk (op : AdjOp) (s o : Regs) : Bool :=
  let e := adjust op s
  let m := op.defined ||| ~~~ statusMask
  o.ax == e.ax && o.dx == e.dx && (o.flag &&& m) == (e.flag &&& m)

end Emu8086.Spec
