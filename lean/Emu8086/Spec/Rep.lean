/-
The REPEAT protocol (model of the driver's loop on one line) and its reference `repRef`
(what property C07 demands of a REP / REPE / REPNE prefixed string instruction).
-/
import Emu8086.Spec.Exec

namespace Emu8086
open Emu8086.Spec

/-- the driver's loop on one line: re-issue it while the interpreter answers REPEAT (driver.rs:
    `State::REPEAT => {}` leaves the index unchanged) -/
def runRep (cur : Nat) (ctx : Ctx) (i : Instr) : Nat → Machine → Option (State × Machine)
  | 0, _ => none
  | f+1, m =>
    match exec cur m ctx i with
    | .ok (.REPEAT, m', _) => runRep cur ctx i f m'
    | .ok (s, m', _) => some (s, m')
    | .error _ => none

def Spec.again (pre : RepPrefix) (fl : BitVec 16) : Bool :=
  match pre with | .rep => true | .repz => ZF fl | .repnz => !ZF fl

/-- reference: at most `n` iterations; each executes the body once and decrements CX once; REPE/REPNE
    stop after the first iteration that leaves ZF=0 / ZF=1 -/
def Spec.repRef (pre : RepPrefix) (op : StrOp) (word : Bool) : Nat → Machine → Machine
  | 0, m => m
  | n+1, m =>
    let m1 := { strRef op word m with cx := m.cx - 1#16 }
    if Spec.again pre m1.flag then Spec.repRef pre op word n m1 else m1


end Emu8086
