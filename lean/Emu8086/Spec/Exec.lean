/-
Reference semantics of one instruction (what the PROPERTIES demand), written against the
architectural description, not against the implementation:

  * operands resolve through `ea` = (segment*16 + 16-bit offset) mod 2^20, default segment SS for a BP
    base, DS otherwise, override wins; data label = DS*16 + its offset; words are two consecutive
    bytes, low first (C04);
  * ALU results and flags come from Spec.Arith / Spec.Bits / Spec.MulDiv (C01–C03);
  * PUSH/POP/PUSHF/POPF use SS:SP with SP moving by 2 mod 2^16 (C05);
  * jumps use the Intel condition table `taken` (C06);
  * string instructions use DS:SI / ES:DI and step by the element width according to DF (C07).

`execRef` returns, besides the new state, the mask of FLAGS bits the manual leaves UNDEFINED for
this instruction (they are not compared).  It reuses the state record `Machine` and the instruction
syntax `Instr`, but none of the model's `exec`, ALU or addressing functions.
-/
import Emu8086.Model.Instr
import Emu8086.Spec.Arith
import Emu8086.Spec.Bits
import Emu8086.Spec.MulDiv
import Emu8086.KnownFindings

namespace Emu8086.Spec
open Emu8086

def M20 : Nat := 1048576

/-- physical address of segment:offset -/
def phys (seg off : BitVec 16) : Nat := (seg.toNat * 16 + off.toNat) % M20

/-- 16-bit offset of a memory operand: wrapping sum of base, index, displacement -/
def off16 (m : Machine) (a : MemAddr) : BitVec 16 :=
  (match a.base with | some .BX => m.bx | some .BP => m.bp | none => 0#16)
  + (match a.index with | some .SI => m.si | some .DI => m.di | none => 0#16)
  + (a.disp.getD 0#16)

/-- segment register value used by a memory operand -/
def segVal (m : Machine) (a : MemAddr) : BitVec 16 :=
  match a.seg with
  | some .ES => m.es | some .CS => m.cs | some .SS => m.ss | some .DS => m.ds
  | some _ => m.ds            -- not a segment register: not produced by the parser
  | none => if a.base = some .BP then m.ss else m.ds

def ea (m : Machine) (a : MemAddr) : Nat := phys (segVal m a) (off16 m a)

def byteAt (m : Machine) (a : Nat) : BitVec 8 := m.mem.read (a % M20)
def wordAt (m : Machine) (a : Nat) : BitVec 16 :=
  (byteAt m ((a + 1) % M20)).setWidth 16 <<< 8 ||| (byteAt m a).setWidth 16
def putByte (m : Machine) (a : Nat) (v : BitVec 8) : Machine := { m with mem := m.mem.write (a % M20) v }
def putWord (m : Machine) (a : Nat) (v : BitVec 16) : Machine :=
  putByte (putByte m a (v.setWidth 8)) ((a + 1) % M20) ((v >>> 8).setWidth 8)

/-- architectural locations -/
inductive Place where
  | r8 (r : ByteReg) | r16 (r : WordReg) | mem (a : Nat) | const8 (v : BitVec 8) | const16 (v : BitVec 16)

def labelAddr (m : Machine) (ctx : Ctx) (n : String) : Except String (Nat × BitVec 16) :=
  match ctx.labelMap.lookup n with
  | some ⟨.DATA, off⟩ => .ok (phys m.ds (BitVec.ofNat 16 off), BitVec.ofNat 16 off)
  | some ⟨.CODE, _⟩ => .error "code label used as data"
  | none => .error "unknown label"

def place8 (m : Machine) (ctx : Ctx) : Op8 → Except String Place
  | .reg r => .ok (.r8 r) | .mem a => .ok (.mem (ea m a)) | .imm v => .ok (.const8 v)
  | .lbl n => (labelAddr m ctx n).map (.mem ·.1)
def place16 (m : Machine) (ctx : Ctx) : Op16 → Except String Place
  | .reg r => .ok (.r16 r) | .mem a => .ok (.mem (ea m a)) | .imm v => .ok (.const16 v)
  | .lbl n => (labelAddr m ctx n).map (.mem ·.1)

/-- byte registers are the halves of the word registers -/
def get8 (m : Machine) : ByteReg → BitVec 8
  | .AL => m.ax.setWidth 8 | .AH => (m.ax >>> 8).setWidth 8
  | .BL => m.bx.setWidth 8 | .BH => (m.bx >>> 8).setWidth 8
  | .CL => m.cx.setWidth 8 | .CH => (m.cx >>> 8).setWidth 8
  | .DL => m.dx.setWidth 8 | .DH => (m.dx >>> 8).setWidth 8
def lowSet (x : BitVec 16) (v : BitVec 8) : BitVec 16 := (x &&& 0xFF00#16) ||| v.setWidth 16
def highSet (x : BitVec 16) (v : BitVec 8) : BitVec 16 := (x &&& 0x00FF#16) ||| (v.setWidth 16 <<< 8)
def set8 (m : Machine) (r : ByteReg) (v : BitVec 8) : Machine :=
  match r with
  | .AL => { m with ax := lowSet m.ax v } | .AH => { m with ax := highSet m.ax v }
  | .BL => { m with bx := lowSet m.bx v } | .BH => { m with bx := highSet m.bx v }
  | .CL => { m with cx := lowSet m.cx v } | .CH => { m with cx := highSet m.cx v }
  | .DL => { m with dx := lowSet m.dx v } | .DH => { m with dx := highSet m.dx v }
def get16 (m : Machine) : WordReg → BitVec 16
  | .AX => m.ax | .BX => m.bx | .CX => m.cx | .DX => m.dx | .SS => m.ss | .CS => m.cs | .DS => m.ds
  | .ES => m.es | .SP => m.sp | .BP => m.bp | .SI => m.si | .DI => m.di
def set16 (m : Machine) (r : WordReg) (v : BitVec 16) : Machine :=
  match r with
  | .AX => { m with ax := v } | .BX => { m with bx := v } | .CX => { m with cx := v } | .DX => { m with dx := v }
  | .SS => { m with ss := v } | .CS => { m with cs := v } | .DS => { m with ds := v } | .ES => { m with es := v }
  | .SP => { m with sp := v } | .BP => { m with bp := v } | .SI => { m with si := v } | .DI => { m with di := v }

def rd8 (m : Machine) : Place → BitVec 8
  | .r8 r => get8 m r | .mem a => byteAt m a | .const8 v => v
  | .r16 r => (get16 m r).setWidth 8 | .const16 v => v.setWidth 8
def rd16 (m : Machine) : Place → BitVec 16
  | .r16 r => get16 m r | .mem a => wordAt m a | .const16 v => v
  | .r8 r => (get8 m r).setWidth 16 | .const8 v => v.setWidth 16
def wr8 (m : Machine) (p : Place) (v : BitVec 8) : Machine :=
  match p with | .r8 r => set8 m r v | .mem a => putByte m a v | _ => m
def wr16 (m : Machine) (p : Place) (v : BitVec 16) : Machine :=
  match p with | .r16 r => set16 m r v | .mem a => putWord m a v | _ => m

/-! ### jump conditions (Intel) -/
def CF (fl : BitVec 16) := fl.getLsbD 0
def PF (fl : BitVec 16) := fl.getLsbD 2
def ZF (fl : BitVec 16) := fl.getLsbD 6
def SF (fl : BitVec 16) := fl.getLsbD 7
def DF (fl : BitVec 16) := fl.getLsbD 10
def OF (fl : BitVec 16) := fl.getLsbD 11

/-- is the jump taken?  `cx` is CX AFTER the decrement for the LOOP family -/
def taken (j : JmpOp) (fl : BitVec 16) (cx : BitVec 16) : Bool :=
  match j with
  | .jmp => true
  | .ja => !CF fl && !ZF fl            -- above / not below or equal
  | .jae => !CF fl                     -- above or equal / not below / not carry
  | .jb => CF fl                       -- below / not above or equal / carry
  | .jbe => CF fl || ZF fl             -- below or equal / not above
  | .jc => CF fl
  | .je => ZF fl                       -- equal / zero
  | .jg => !ZF fl && (SF fl == OF fl)  -- greater / not less or equal
  | .jge => SF fl == OF fl             -- greater or equal / not less
  | .jl => SF fl != OF fl              -- less / not greater or equal
  | .jle => ZF fl || (SF fl != OF fl)  -- less or equal / not greater
  | .jnc => !CF fl
  | .jne => !ZF fl
  | .jno => !OF fl
  | .jnp => !PF fl                     -- parity odd
  | .jns => !SF fl
  | .jo => OF fl
  | .jp => PF fl                       -- parity even
  | .js => SF fl
  | .jcxz => cx == 0#16
  | .loop => cx != 0#16
  | .loope => cx != 0#16 && ZF fl
  | .loopne => cx != 0#16 && !ZF fl

def _root_.Emu8086.JmpOp.isLoop : JmpOp → Bool
  | .loop | .loope | .loopne => true | _ => false

/-! ### functional forms of the ALU specs (result state + undefined-flag mask) -/

def arithRef {w} (f : ArithOp) (fl : BitVec 16) (a b : BitVec w) : BitVec w × BitVec 16 :=
  match f with
  | .add => ADD fl a b | .adc => ADC fl a b | .sub => SUB fl a b | .sbb => SBB fl a b | .cmp => CMP fl a b

def logicRef {w} (f : LogicOp) (fl : BitVec 16) (a b : BitVec w) : BitVec w × BitVec 16 :=
  let op : LogOp := match f with | .and => .and | .or => .or | .xor => .xor | .test => .test
  let x := logicVal op a b
  let fl' := withStatus fl { cf := false, of := false, zf := zf x, sf := sf x, pf := pf x, af := fl.getLsbD 4 }
  (if f = .test then a else x, fl')

def shOpOf : ShiftOp → ShOp
  | .sal => .shl | .sar => .sar | .shr => .shr | .rol => .rol | .ror => .ror | .rcl => .rcl | .rcr => .rcr

/-- n single-bit steps; returns (result, flags, undefined mask) -/
def shiftRef {w} (f : ShiftOp) (fl : BitVec 16) (v : BitVec w) (n : Nat) : BitVec w × BitVec 16 × BitVec 16 :=
  if n = 0 then (v, fl, 0#16) else
  let op := shOpOf f
  let (r, c) := iter (step1 op) n (v, cfOf fl)
  let o := if n = 1 then of1 op v r c else fl.getLsbD 11
  let st : Status :=
    if op.isShift then { cf := c, of := o, zf := zf r, sf := sf r, pf := pf r, af := fl.getLsbD 4 }
    else { cf := c, of := o, zf := fl.getLsbD 6, sf := fl.getLsbD 7, pf := fl.getLsbD 2, af := fl.getLsbD 4 }
  let undef : BitVec 16 := (if n = 1 then 0#16 else 0x0800#16) ||| (if op.isShift then 0x0010#16 else 0#16)
  (r, withStatus fl st, undef)

def setCO (fl : BitVec 16) (c : Bool) : BitVec 16 :=
  (fl &&& ~~~ 0x0801#16) ||| bit c 16 ||| (bit c 16 <<< 11)

/-- MUL/IMUL/DIV/IDIV on (flags, AX, DX, operand): `none` = divide error -/
def mulDivRef8 (f : UnOp) (s : Regs) (v : BitVec 8) : Option (Regs × BitVec 16) :=
  match f with
  | .mul =>
    let p : BitVec 16 := (lo8 s.ax).setWidth 16 * v.setWidth 16
    some ({ s with ax := p, flag := setCO s.flag (hi8 p != 0#8) }, 0x00D4#16)
  | .imul =>
    let p : BitVec 16 := (lo8 s.ax).signExtend 16 * v.signExtend 16
    some ({ s with ax := p, flag := setCO s.flag (p != (lo8 p).signExtend 16) }, 0x00D4#16)
  | .div =>
    let q := s.ax / v.setWidth 16
    let r := s.ax % v.setWidth 16
    if v == 0#8 || q > 255#16 then none
    else some ({ s with ax := mk16 (r.setWidth 8) (q.setWidth 8) }, 0x08D5#16)
  | .idiv =>
    let n : BitVec 32 := s.ax.signExtend 32
    let d : BitVec 32 := v.signExtend 32
    let q := n.sdiv d
    let r := n.srem d
    if v == 0#8 || q.slt (-128#32) || (127#32).slt q then none
    else some ({ s with ax := mk16 (r.setWidth 8) (q.setWidth 8) }, 0x08D5#16)
  | _ => none

def mulDivRef16 (f : UnOp) (s : Regs) (v : BitVec 16) : Option (Regs × BitVec 16) :=
  match f with
  | .mul =>
    let p : BitVec 32 := s.ax.setWidth 32 * v.setWidth 32
    some ({ ax := p.setWidth 16, dx := (p >>> 16).setWidth 16, flag := setCO s.flag ((p >>> 16).setWidth 16 != 0#16) }, 0x00D4#16)
  | .imul =>
    let p : BitVec 32 := s.ax.signExtend 32 * v.signExtend 32
    some ({ ax := p.setWidth 16, dx := (p >>> 16).setWidth 16, flag := setCO s.flag (p != (p.setWidth 16).signExtend 32) }, 0x00D4#16)
  | .div =>
    let n : BitVec 32 := (s.dx.setWidth 32 <<< 16) ||| s.ax.setWidth 32
    let q := n / v.setWidth 32
    let r := n % v.setWidth 32
    if v == 0#16 || q > 65535#32 then none
    else some ({ s with ax := q.setWidth 16, dx := r.setWidth 16 }, 0x08D5#16)
  | .idiv =>
    let n : BitVec 64 := ((s.dx.setWidth 32 <<< 16) ||| s.ax.setWidth 32).signExtend 64
    let d : BitVec 64 := v.signExtend 64
    let q := n.sdiv d
    let r := n.srem d
    if v == 0#16 || q.slt (-32768#64) || (32767#64).slt q then none
    else some ({ s with ax := q.setWidth 16, dx := r.setWidth 16 }, 0x08D5#16)
  | _ => none

def adjOpOf : SingleOp → AdjOp
  | .aaa => .aaa | .aad => .aad | .aam => .aam | .aas => .aas | .daa => .daa | .das => .das | .cbw => .cbw | .cwd => .cwd

def regsOf (m : Machine) : Regs := ⟨m.flag, m.ax, m.dx⟩
def withRegs (m : Machine) (r : Regs) : Machine := { m with flag := r.flag, ax := r.ax, dx := r.dx }

/-! ### string instructions -/
def stepIdx (fl : BitVec 16) (x : BitVec 16) (word : Bool) : BitVec 16 :=
  let w : BitVec 16 := if word then 2#16 else 1#16
  if DF fl then x - w else x + w

/-- element at seg:off; a word element is little-endian with its second byte at offset+1 (mod 2^16) -/
def elemAt (m : Machine) (seg off : BitVec 16) (word : Bool) : BitVec 16 :=
  if word then (byteAt m (phys seg (off + 1#16))).setWidth 16 <<< 8 ||| (byteAt m (phys seg off)).setWidth 16
  else (byteAt m (phys seg off)).setWidth 16
def putElem (m : Machine) (seg off : BitVec 16) (word : Bool) (v : BitVec 16) : Machine :=
  let m := putByte m (phys seg off) (v.setWidth 8)
  if word then putByte m (phys seg (off + 1#16)) ((v >>> 8).setWidth 8) else m
def acc (m : Machine) (word : Bool) : BitVec 16 := if word then m.ax else (m.ax.setWidth 8).setWidth 16
def cmpFlags (fl : BitVec 16) (a b : BitVec 16) (word : Bool) : BitVec 16 :=
  if word then (SUB fl a b).2 else (SUB fl (a.setWidth 8) (b.setWidth 8)).2

def strRef (op : StrOp) (word : Bool) (m : Machine) : Machine :=
  match op with
  | .movs =>
    let m' := putElem m m.es m.di word (elemAt m m.ds m.si word)
    { m' with si := stepIdx m.flag m.si word, di := stepIdx m.flag m.di word }
  | .lods =>
    let v := elemAt m m.ds m.si word
    { m with ax := if word then v else lowSet m.ax (v.setWidth 8), si := stepIdx m.flag m.si word }
  | .stos =>
    let m' := putElem m m.es m.di word (acc m word)
    { m' with di := stepIdx m.flag m.di word }
  | .cmps =>
    { m with flag := cmpFlags m.flag (elemAt m m.ds m.si word) (elemAt m m.es m.di word) word,
             si := stepIdx m.flag m.si word, di := stepIdx m.flag m.di word }
  | .scas =>
    { m with flag := cmpFlags m.flag (acc m word) (elemAt m m.es m.di word) word,
             di := stepIdx m.flag m.di word }

/-! ### the reference step -/
abbrev Res := Except String (State × Machine × Ctx × BitVec 16)

def next (m : Machine) (ctx : Ctx) (undef : BitVec 16 := 0#16) : Res := .ok (.NEXT, m, ctx, undef)

def execRef (cur : Nat) (m : Machine) (ctx : Ctx) : Instr → Res
  | .print => .ok (.PRINT, m, ctx, 0#16)
  | .mov8 d s => do
    let pd ← place8 m ctx d; let ps ← place8 m ctx s
    next (wr8 m pd (rd8 m ps)) ctx
  | .mov16 d s => do
    let pd ← place16 m ctx d; let ps ← place16 m ctx s
    next (wr16 m pd (rd16 m ps)) ctx
  | .lahf => next (set8 m .AH (m.flag.setWidth 8)) ctx
  | .sahf => next { m with flag := (m.flag &&& 0xFF00#16) ||| (get8 m .AH).setWidth 16 } ctx
  | .pushf =>
    let sp := m.sp - 2#16
    next (putWord { m with sp := sp } (phys m.ss sp) m.flag) ctx
  | .popf => next { m with flag := wordAt m (phys m.ss m.sp), sp := m.sp + 2#16 } ctx
  | .xlat => next (set8 m .AL (byteAt m (phys m.ds (m.bx + (get8 m .AL).setWidth 16)))) ctx
  | .xchg8 d r => do
    let pd ← place8 m ctx d
    let a := rd8 m pd; let b := get8 m r
    -- both operands swap completely; the register is written last when both are registers
    next (set8 (wr8 m pd b) r a) ctx
  | .xchg16 d r => do
    let pd ← place16 m ctx d
    let a := rd16 m pd; let b := get16 m r
    next (set16 (wr16 m pd b) r a) ctx
  | .pop d => do
    let pd ← place16 m ctx d
    let v := wordAt m (phys m.ss m.sp)
    next (wr16 { m with sp := m.sp + 2#16 } pd v) ctx
  | .push s => do
    let ps ← place16 m ctx s
    let sp := m.sp - 2#16
    let m1 := { m with sp := sp }
    -- 8086: PUSH SP stores the decremented SP
    next (putWord m1 (phys m.ss sp) (rd16 m1 ps)) ctx
  | .lea r s =>
    match s with
    | .mem a => next (set16 m r (off16 m a)) ctx
    | .lbl n => do let (_, off) ← labelAddr m ctx n; next (set16 m r off) ctx
    | _ => .error "lea needs a memory operand"
  | .arith8 f d s => do
    let pd ← place8 m ctx d; let ps ← place8 m ctx s
    let (r, fl) := arithRef f m.flag (rd8 m pd) (rd8 m ps)
    next (wr8 { m with flag := fl } pd r) ctx
  | .arith16 f d s => do
    let pd ← place16 m ctx d; let ps ← place16 m ctx s
    let (r, fl) := arithRef f m.flag (rd16 m pd) (rd16 m ps)
    next (wr16 { m with flag := fl } pd r) ctx
  | .unary8 f d => do
    let pd ← place8 m ctx d
    let v := rd8 m pd
    match f with
    | .inc => let (r, fl) := INC m.flag v; next (wr8 { m with flag := fl } pd r) ctx
    | .dec => let (r, fl) := DEC m.flag v; next (wr8 { m with flag := fl } pd r) ctx
    | .neg => let (r, fl) := NEG m.flag v; next (wr8 { m with flag := fl } pd r) ctx
    | _ =>
      match mulDivRef8 f (regsOf m) v with
      | none => .ok (.INT 0#8, m, ctx, 0#16)       -- divide error: nothing changes
      | some (r, undef) => next (withRegs m r) ctx undef
  | .unary16 f d => do
    let pd ← place16 m ctx d
    let v := rd16 m pd
    match f with
    | .inc => let (r, fl) := INC m.flag v; next (wr16 { m with flag := fl } pd r) ctx
    | .dec => let (r, fl) := DEC m.flag v; next (wr16 { m with flag := fl } pd r) ctx
    | .neg => let (r, fl) := NEG m.flag v; next (wr16 { m with flag := fl } pd r) ctx
    | _ =>
      match mulDivRef16 f (regsOf m) v with
      | none => .ok (.INT 0#8, m, ctx, 0#16)
      | some (r, undef) => next (withRegs m r) ctx undef
  | .single f =>
    let op := adjOpOf f
    next (withRegs m (adjust op (regsOf m))) ctx (statusMask &&& ~~~ op.defined)
  | .str p op word =>
    match p with
    | none => next (strRef op word m) ctx
    | some pre =>
      if m.cx == 0#16 then next m ctx else
      let m1 := strRef op word m
      let m2 := { m1 with cx := m1.cx - 1#16 }
      let again := match pre with | .rep => true | .repz => ZF m2.flag | .repnz => !ZF m2.flag
      .ok (if again then .REPEAT else .NEXT, m2, ctx, 0#16)
  | .not8 d => do let pd ← place8 m ctx d; next (wr8 m pd (~~~ rd8 m pd)) ctx
  | .not16 d => do let pd ← place16 m ctx d; next (wr16 m pd (~~~ rd16 m pd)) ctx
  | .logic8 f d s => do
    let pd ← place8 m ctx d; let ps ← place8 m ctx s
    let (r, fl) := logicRef f m.flag (rd8 m pd) (rd8 m ps)
    next (wr8 { m with flag := fl } pd r) ctx 0x0010#16
  | .logic16 f d s => do
    let pd ← place16 m ctx d; let ps ← place16 m ctx s
    let (r, fl) := logicRef f m.flag (rd16 m pd) (rd16 m ps)
    next (wr16 { m with flag := fl } pd r) ctx 0x0010#16
  | .shift8 f d cnt => do
    let pd ← place8 m ctx d
    let n := (cnt.getD (get8 m .CL)).toNat
    let (r, fl, undef) := shiftRef f m.flag (rd8 m pd) n
    next (wr8 { m with flag := fl } pd r) ctx undef
  | .shift16 f d cnt => do
    let pd ← place16 m ctx d
    let n := (cnt.getD (get8 m .CL)).toNat
    let (r, fl, undef) := shiftRef f m.flag (rd16 m pd) n
    next (wr16 { m with flag := fl } pd r) ctx undef
  | .call name =>
    match ctx.fnMap.lookup name with
    | some pos => .ok (.JMP pos, m, { ctx with callStack := ctx.callStack ++ [cur + 1] }, 0#16)
    | none => .error "call to something that is not a procedure"
  | .ret =>
    match ctx.callStack.reverse with
    | p :: rest => .ok (.JMP p, m, { ctx with callStack := rest.reverse }, 0#16)
    | [] => .error "ret without call"
  | .jcc j name =>
    let cx := if j.isLoop then m.cx - 1#16 else m.cx
    match ctx.labelMap.lookup name with
    | some ⟨.CODE, idx⟩ => .ok (if taken j m.flag cx then .JMP idx else .NEXT, { m with cx := cx }, ctx, 0#16)
    | _ => .error "jump target is not a code label"
  | .int n =>
    if n == 3#8 || n == 0x10#8 || n == 0x21#8 then .ok (.INT n, m, ctx, 0#16) else .error "unsupported interrupt"
  | .ctl c =>
    match c with
    | .stc => next { m with flag := m.flag ||| 0x0001#16 } ctx
    | .clc => next { m with flag := m.flag &&& ~~~ 0x0001#16 } ctx
    | .cmc => next { m with flag := m.flag ^^^ 0x0001#16 } ctx
    | .std => next { m with flag := m.flag ||| 0x0400#16 } ctx
    | .cld => next { m with flag := m.flag &&& ~~~ 0x0400#16 } ctx
    | .sti => next { m with flag := m.flag ||| 0x0200#16 } ctx
    | .cli => next { m with flag := m.flag &&& ~~~ 0x0200#16 } ctx
    | .hlt => .ok (.HALT, m, ctx, 0#16)
    | .nop => next m ctx

/-- open known-finding class of (state, instruction), "-" if none -/
def knownFinding (m : Machine) (ctx : Ctx) : Instr → String
  | .unary8 .inc d => match place8 m ctx d with
    | .ok p => if KF.inc m.flag (rd8 m p) then "KF-INC-CF" else "-" | _ => "-"
  | .unary16 .inc d => match place16 m ctx d with
    | .ok p => if KF.inc m.flag (rd16 m p) then "KF-INC-CF" else "-" | _ => "-"
  | .unary8 .neg d => match place8 m ctx d with
    | .ok p => if KF.neg m.flag (rd8 m p) then "KF-NEG0-SF" else "-" | _ => "-"
  | .unary16 .neg d => match place16 m ctx d with
    | .ok p => if KF.neg m.flag (rd16 m p) then "KF-NEG0-SF" else "-" | _ => "-"
  | .unary8 .imul d => match place8 m ctx d with
    | .ok p => if KF.imul8 m.ax (rd8 m p) then "KF-IMUL8-FLAGS" else "-" | _ => "-"
  | .jcc .jle _ => if KF.jle m.flag then "KF-JLE" else "-"
  | .lea _ (.mem a) => if KF.lea m.ds (segVal m a) then "KF-LEA-SEG" else "-"
  | _ => "-"

end Emu8086.Spec
