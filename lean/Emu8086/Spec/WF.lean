/-
Well-formedness hypotheses of the instruction-level theorems: what the interpreter's parser can
produce (`Instr.WF`: a segment override names one of the four segment registers) and what the
assembler can put into the context (`Ctx.WF`: a data label's offset fits the 16-bit data counter).
Both are facts about the code that produces the values, not about the values the theorems quantify
over (registers, flags, memory, operands, displacements are unrestricted).  `parseLine_wf` (Props.C09)
proves the first for the model's parser; the second is an invariant of the assembler model (Props.C12).
-/
import Emu8086.Model.Instr

namespace Emu8086

def WordReg.isSeg : WordReg → Bool
  | .ES | .CS | .SS | .DS => true
  | _ => false
def MemAddr.WF (a : MemAddr) : Bool := match a.seg with | none => true | some s => s.isSeg
def Op8.WF : Op8 → Bool | .mem a => a.WF | _ => true
def Op16.WF : Op16 → Bool | .mem a => a.WF | _ => true

def Instr.WF : Instr → Bool
  | .mov8 d s | .arith8 _ d s | .logic8 _ d s => d.WF && s.WF
  | .mov16 d s | .arith16 _ d s | .logic16 _ d s => d.WF && s.WF
  | .xchg8 d _ | .unary8 _ d | .not8 d | .shift8 _ d _ => d.WF
  | .xchg16 d _ | .unary16 _ d | .not16 d | .shift16 _ d _ | .pop d | .push d | .lea _ d => d.WF
  | _ => true

/-- contexts the assembler can produce: a data label's offset fits the 16-bit data counter -/
def Ctx.WF (c : Ctx) : Prop := ∀ n l, c.labelMap.lookup n = some l → l.type = .DATA → l.map < 65536

end Emu8086
