/-
The Intel mnemonic table for conditional jumps and loops (8086 Family User's Manual, JA … JS, JCXZ,
LOOP…): every mnemonic, including all synonyms, with the condition class it denotes (a
representative `JmpOp`; `Spec.taken` gives the predicate).  Written from the manual, independent of
the assembler's own table.
-/
import Emu8086.Spec.Exec

namespace Emu8086.Spec

def intelJumps : List (List Char × JmpOp) := [
  ("jmp".toList, .jmp),
  ("ja".toList, .ja), ("jnbe".toList, .ja),
  ("jae".toList, .jae), ("jnb".toList, .jae), ("jnc".toList, .jae),
  ("jb".toList, .jb), ("jnae".toList, .jb), ("jc".toList, .jb),
  ("jbe".toList, .jbe), ("jna".toList, .jbe),
  ("je".toList, .je), ("jz".toList, .je),
  ("jg".toList, .jg), ("jnle".toList, .jg),
  ("jge".toList, .jge), ("jnl".toList, .jge),
  ("jl".toList, .jl), ("jnge".toList, .jl),
  ("jle".toList, .jle), ("jng".toList, .jle),
  ("jne".toList, .jne), ("jnz".toList, .jne),
  ("jno".toList, .jno),
  ("jnp".toList, .jnp), ("jpo".toList, .jnp),
  ("jns".toList, .jns),
  ("jo".toList, .jo),
  ("jp".toList, .jp), ("jpe".toList, .jp),
  ("js".toList, .js),
  ("jcxz".toList, .jcxz),
  ("loop".toList, .loop),
  ("loope".toList, .loope), ("loopz".toList, .loope),
  ("loopne".toList, .loopne), ("loopnz".toList, .loopne)]

/-- condition class: JC is JB, JNC is JAE -/
def canon : JmpOp → JmpOp
  | .jc => .jb | .jnc => .jae | j => j

def lowerC (c : Char) : Char := if 'A'.toNat ≤ c.toNat ∧ c.toNat ≤ 'Z'.toNat then Char.ofNat (c.toNat + 32) else c
def upperC (c : Char) : Char := if 'a'.toNat ≤ c.toNat ∧ c.toNat ≤ 'z'.toNat then Char.ofNat (c.toNat - 32) else c

/-- the eight complementary pairs -/
def complements : List (JmpOp × JmpOp) :=
  [(.ja, .jbe), (.jae, .jb), (.je, .jne), (.jg, .jle), (.jge, .jl), (.jo, .jno), (.jp, .jnp), (.js, .jns), (.jc, .jnc)]

end Emu8086.Spec
