def hello := "world"
