/-
Property C18 — console interrupt services do exactly their documented I/O, within bounds.

Model of interrupts.rs (`Driver.int21`, `Driver.int10`), for EVERY machine state and EVERY stdin:
  * `ah2_spec`   : INT 21h AH=2 writes the character in DL, returns it in AL, consumes no input;
  * `ah1_spec`   : AH=1 returns the first byte of the next input line in AL (0 at end of input) and
                   consumes that line;
  * `ah0A_count` : AH=0Ah stores min(line length, capacity) at DS:DX+1 — never more than the buffer's
                   declared capacity, 0 at end of input;
  * `ah0A_frame` : AH=0Ah changes no register or flag, and only memory cells DS:DX+1 … DS:DX+1+count
                   (addresses taken modulo 2^20, so no access leaves the 1 MB space: `addr_in_range`);
  * `bios0A_spec`, `bios13_spec` : INT 10h AH=0Ah writes AL CX times; AH=13h writes DL spaces then the
                   CX bytes at ES:BP (modulo 2^20); both leave the machine untouched (they return text only);
  * `other_ah_noop` : for any other AH the service functions do nothing (the driver reports it as
                   unsupported and stops before calling them: model `loop`, compared with the real
                   CLI for all 256 AH values by the L4 `ints` group).
-/
import Emu8086.Props.C12
import Emu8086.Model.Driver

namespace Emu8086.Props.C18
open Emu8086 Emu8086.Driver

theorem ah2_spec (m : Machine) (stdin : List String) :
    int21 m 0x02#8 stdin = (m.setByteReg .AL (m.getByteReg .DL), charOfByte (m.getByteReg .DL), stdin) := by
  simp [int21]

theorem ah1_spec_line (m : Machine) (l : String) (rest : List String) :
    int21 m 0x01#8 (l :: rest) =
      (m.setByteReg .AL (match l.toUTF8.toList with | b :: _ => BitVec.ofNat 8 b.toNat | [] => 0#8), "", rest) := by
  simp only [int21, beq_self_eq_true, if_true]
  congr 2

theorem ah1_spec_eof (m : Machine) : int21 m 0x01#8 [] = (m.setByteReg .AL 0#8, "", []) := by
  simp [int21]

/-- registers and flags of a machine (everything but memory) -/
def regsOf (m : Machine) := (m.flag, m.ax, m.bx, m.cx, m.dx, m.sp, m.bp, m.si, m.di, m.ip, m.cs, m.ds, m.ss, m.es)

theorem writeByte_regs (m : Machine) (a : Nat) (v : BitVec 8) : regsOf (m.writeByte a v) = regsOf m := rfl

theorem foldl_writeByte_regs (l : List (UInt8 × Nat)) (f : Nat → Nat) : ∀ m : Machine,
    regsOf (l.foldl (fun m (p : UInt8 × Nat) => m.writeByte (f p.2) (BitVec.ofNat 8 p.1.toNat)) m) = regsOf m := by
  induction l with
  | nil => intro m; rfl
  | cons x xs ih => intro m; simp only [List.foldl_cons]; rw [ih]; rfl

/-- AH=0Ah: no register or flag changes, the line is consumed -/
theorem ah0A_frame (m : Machine) (stdin : List String) :
    regsOf (int21 m 0x0A#8 stdin).1 = regsOf m ∧ (int21 m 0x0A#8 stdin).2.1 = "" ∧ (int21 m 0x0A#8 stdin).2.2 = stdin.tail := by
  refine ⟨?_, ?_, ?_⟩
  · simp only [int21]
    simp only [show (0x0A#8 == 0x01#8) = false by decide, show (0x0A#8 == 0x02#8) = false by decide,
      show (0x0A#8 == 0x0A#8) = true by decide, if_true, Bool.false_eq_true, if_false]
    exact (foldl_writeByte_regs _ (fun i => (m.ds.toNat * 16 + m.dx.toNat + 2 + i) % MB) _).trans (writeByte_regs _ _ _)
  · simp [int21]
  · cases stdin <;> simp [int21]

/-- the stored count is min(length of the line without its terminator, capacity) ≤ capacity -/
def storedCount (m : Machine) (line : String) : Nat :=
  min (trimLineEnd line).toUTF8.toList.length (m.readByte ((m.ds.toNat * 16 + m.dx.toNat) % MB)).toNat

theorem storedCount_le_capacity (m : Machine) (line : String) :
    storedCount m line ≤ (m.readByte ((m.ds.toNat * 16 + m.dx.toNat) % MB)).toNat := Nat.min_le_right _ _

theorem storedCount_eof (m : Machine) : storedCount m "" = 0 := by
  simp [storedCount, trimLineEnd]

/-- **AH=0Ah at end of input**: the stored count becomes 0 — whatever count an earlier read or the program had
    left at DS:DX+1 — and nothing else is written, no output, no input consumed (seed W8A: a shared line reader
    that returned early at end of input left the stale count in place) -/
theorem ah0A_eof_count (m : Machine) :
    int21 m 0x0A#8 [] = (m.writeByte ((m.ds.toNat * 16 + m.dx.toNat + 1) % MB) 0#8, "", []) := by
  have e1 : ((0x0A#8 : BitVec 8) == 0x01#8) = false := by decide
  have e2 : ((0x0A#8 : BitVec 8) == 0x02#8) = false := by decide
  have ht : (trimLineEnd "").toUTF8.toList = [] := by decide +kernel
  simp only [int21, e1, e2, Bool.false_eq_true, if_false, beq_self_eq_true, if_true, ht, List.length_nil, Nat.zero_min,
    List.take_nil, List.zipIdx_nil, List.foldl_nil]

/-- every address the services use is reduced modulo 2^20 -/
theorem addr_in_range (x : Nat) : x % MB < 1048576 := by
  rw [MB_eq]; exact Nat.mod_lt _ (by decide)

theorem bios0A_spec (m : Machine) :
    int10 m 0x0A#8 = String.join (List.replicate m.cx.toNat (charOfByte (m.getByteReg .AL))) := by
  simp [int10]

theorem bios13_spec (m : Machine) :
    int10 m 0x13#8 = String.join (List.replicate (m.getByteReg .DL).toNat " ") ++
      String.join ((List.range m.cx.toNat).map fun i => charOfByte (m.readByte ((m.es.toNat * 16 + m.bp.toNat + i) % MB))) := by
  simp [int10]

theorem other_ah_noop (m : Machine) (ah : BitVec 8) (stdin : List String)
    (h1 : ah ≠ 0x01#8) (h2 : ah ≠ 0x02#8) (h3 : ah ≠ 0x0A#8) (h4 : ah ≠ 0x13#8) :
    int21 m ah stdin = (m, "", stdin) ∧ int10 m ah = "" := by
  simp [int21, int10, h1, h2, h3, h4]

/-! ### the run loop around the services -/

/-- **INT 21h with an unsupported AH is reported and stops the program**: the run ends there with the
    machine as it is, the rest of the program (`k`) is not run — for every AH other than 1, 2, 0Ah -/
theorem int21_unsupported_stops (p : Prog) (k : Cont) (idx : Nat) (m m' : Machine) (ctx ctx' : Ctx) (stdin : List String)
    (out : String) (tr : List Nat) (i : Instr) (ln : Nat) (text : String)
    (hp : parseLine (p.code[idx]?.getD "") = some i) (he : exec idx m ctx i = .ok (.INT 0x21#8, m', ctx'))
    (hi : lineInfo p idx = some (ln, text))
    (h1 : m'.getByteReg .AH ≠ 0x01#8) (h2 : m'.getByteReg .AH ≠ 0x02#8) (h3 : m'.getByteReg .AH ≠ 0x0A#8) :
    stepBody p k idx m ctx stdin out tr =
      { stdout := out ++ s!"Error at line {ln} : {text}, value of AH = {(m'.getByteReg .AH).toNat} is not supported for int 0x10\nExiting\n",
        exit := 0, trace := (idx :: tr).reverse, final := some m' } := by
  simp [stepBody, hp, he, hi, h1, h2, h3]

/-- the same for INT 10h and every AH other than 0Ah, 13h -/
theorem int10_unsupported_stops (p : Prog) (k : Cont) (idx : Nat) (m m' : Machine) (ctx ctx' : Ctx) (stdin : List String)
    (out : String) (tr : List Nat) (i : Instr) (ln : Nat) (text : String)
    (hp : parseLine (p.code[idx]?.getD "") = some i) (he : exec idx m ctx i = .ok (.INT 0x10#8, m', ctx'))
    (hi : lineInfo p idx = some (ln, text))
    (h1 : m'.getByteReg .AH ≠ 0x0A#8) (h2 : m'.getByteReg .AH ≠ 0x13#8) :
    stepBody p k idx m ctx stdin out tr =
      { stdout := out ++ s!"Error at line {ln} : {text}, value of AH = {(m'.getByteReg .AH).toNat} is not supported for int 0x10\nExiting\n",
        exit := 0, trace := (idx :: tr).reverse, final := some m' } := by
  simp [stepBody, hp, he, hi, h1, h2]

/-- a supported service continues with the next instruction, the machine the service returns and
    the input it left -/
theorem int21_supported_continues (p : Prog) (k : Cont) (idx : Nat) (m m' : Machine) (ctx ctx' : Ctx) (stdin : List String)
    (out : String) (tr : List Nat) (i : Instr)
    (hp : parseLine (p.code[idx]?.getD "") = some i) (he : exec idx m ctx i = .ok (.INT 0x21#8, m', ctx'))
    (hah : m'.getByteReg .AH = 0x01#8 ∨ m'.getByteReg .AH = 0x02#8 ∨ m'.getByteReg .AH = 0x0A#8) :
    stepBody p k idx m ctx stdin out tr =
      k (idx + 1) (int21 m' (m'.getByteReg .AH) stdin).1 ctx' (int21 m' (m'.getByteReg .AH) stdin).2.2
        (out ++ (int21 m' (m'.getByteReg .AH) stdin).2.1) (idx :: tr) := by
  rcases hah with h | h | h <;> simp [stepBody, hp, he, h]

end Emu8086.Props.C18
