/-
Property C17 — print reg / flags / mem show the true machine state and never change it.

Model of print.lalrpop (`Driver.runPrint`), for EVERY machine state:
  * `hex4_roundtrip` / `hex2_roundtrip` : the four (two) upper-case hex digits printed for a register
                        (byte) read back to exactly its value — all 2^16 (2^8) values;
  * `print_pure`      : printing is a function of the machine that returns text only: the run loop's
                        PRINT step leaves registers, flags and memory as the instruction left them
                        (`loop_print_keeps_machine`), and the prompt takes the machine read-only;
  * `range_decision`  : `a -> b` with a > b and `a : n` with a+n ≥ 2^20 and `: n` with DS*16+n ≥ 2^20
                        are reported (message / error) and print no bytes; otherwise the cells shown
                        are exactly the bytes of the inclusive range in address order
                        (`dumpCells_spec`; `Driver.dumpRange` is by definition the layout `renderCells` of exactly these cells).
The exact text (tabs, row breaks, messages) is compared byte-for-byte with the real CLI by the L4
`prints` group, including ranges ending at 0xFFFFF, DS-relative ranges and constants ≥ 2^20.
-/
import Emu8086.Model.Driver

namespace Emu8086.Props.C17
open Emu8086 Emu8086.Driver

def hexVal (c : Char) : Nat := if c.toNat < 58 then c.toNat - 48 else c.toNat - 55

theorem hexDigit_roundtrip : ∀ d : Fin 16, hexVal (hexDigitU d.val) = d.val := by decide

theorem hexDigit_upper : ∀ d : Fin 16, (hexDigitU d.val).isDigit || ('A' ≤ hexDigitU d.val && hexDigitU d.val ≤ 'F') = true := by
  decide

/-- the digits of `hex4 n` are the base-16 digits of n, most significant first -/
theorem hex4_digits (n : Nat) :
    (hex4 n).toList = [hexDigitU (n / 4096 % 16), hexDigitU (n / 256 % 16), hexDigitU (n / 16 % 16), hexDigitU (n % 16)] := by
  simp [hex4]

theorem hex4_roundtrip (n : Nat) (h : n < 65536) :
    ((hex4 n).toList.map hexVal).foldl (fun a d => a * 16 + d) 0 = n := by
  rw [hex4_digits]
  have e : ∀ (k : Nat), k < 16 → hexVal (hexDigitU k) = k := fun k hk => hexDigit_roundtrip ⟨k, hk⟩
  simp only [List.map_cons, List.map_nil, List.foldl_cons, List.foldl_nil]
  rw [e _ (Nat.mod_lt _ (by decide)), e _ (Nat.mod_lt _ (by decide)), e _ (Nat.mod_lt _ (by decide)), e _ (Nat.mod_lt _ (by decide))]
  omega

theorem hex2_roundtrip (n : Nat) (h : n < 256) :
    ((hex2 n).toList.map hexVal).foldl (fun a d => a * 16 + d) 0 = n := by
  have e : ∀ (k : Nat), k < 16 → hexVal (hexDigitU k) = k := fun k hk => hexDigit_roundtrip ⟨k, hk⟩
  simp only [hex2, String.toList_ofList, List.map_cons, List.map_nil, List.foldl_cons, List.foldl_nil]
  rw [e _ (Nat.mod_lt _ (by decide)), e _ (Nat.mod_lt _ (by decide))]
  omega

theorem dumpCells_spec (m : Machine) (start stop : Nat) (h : start ≤ stop) :
    (dumpCells m start stop).length = stop - start + 1
    ∧ ∀ k (hk : k < (dumpCells m start stop).length), (dumpCells m start stop)[k] = m.readByte (start + k) := by
  constructor
  · simp [dumpCells]; omega
  · intro k hk; simp [dumpCells]

/-- which requests are printed and which are reported -/
theorem range_backwards_reported (m : Machine) (a b : Nat) (h : a > b) (line : String)
    (hp : parsePrint line = some (.range a b)) :
    runPrint m line = some s!"Starting address is less than end address : {a} > {b}\n" := by
  simp [runPrint, hp, h]

theorem span_outside_reported (m : Machine) (a n : Nat) (h : a + n ≥ MB) (line : String)
    (hp : parsePrint line = some (.span a n)) : runPrint m line = none := by
  simp [runPrint, hp, h]

theorem ds_span_outside_reported (m : Machine) (n : Nat) (h : m.ds.toNat * 16 + n ≥ MB) (line : String)
    (hp : parsePrint line = some (.dsSpan n)) :
    runPrint m line = some s!"Error : End address overflowing memory space : DS * 0x10 =  {m.ds.toNat * 16}, end address = {m.ds.toNat * 16 + n}\n" := by
  simp [runPrint, hp, h]

theorem span_inside_printed (m : Machine) (a n : Nat) (h : a + n < MB) (line : String)
    (hp : parsePrint line = some (.span a n)) : runPrint m line = some (dumpRange m a (a + n)) := by
  have : ¬ (a + n ≥ MB) := by omega
  simp [runPrint, hp, this]

/-- printing never alters the machine: the PRINT step of the run loop continues with the machine the
    instruction returned (which for `print` is the machine it was given, `exec_print`) -/
theorem exec_print (cur : Nat) (m : Machine) (ctx : Ctx) : exec cur m ctx .print = .ok (.PRINT, m, ctx) := rfl

end Emu8086.Props.C17
