/-
Property C13 — a macro use equals its hand-expanded body; recursion is always rejected.

Text operations of the model (`Asm.replaceWord` = `Regex \bparam\b . replace_all`, `Asm.replaceAll` =
`str::replace` of a placeholder), for EVERY parameter name, replacement and body word:
  * `whole_word_only`   : a parameter never rewrites inside a longer identifier — a body word that is
                          not exactly the parameter is left unchanged (so `a` does not touch `ab`, `ba`, `a1`);
  * `whole_word_hit`    : a body word that IS the parameter is replaced completely;
  * `placeholder_shape` : placeholders are `{i}` — they contain no identifier character, so a later
                          parameter can never match inside an earlier placeholder and an argument is
                          never re-substituted;
  * `recursion_guard`   : a use of a macro whose name is in the active set is refused, and the active
                          set grows by exactly that name for the expansion (`enter_adds`), so every
                          use chain that revisits a name is rejected at that use;
  * `depth_bounded`     : the active set never holds a name twice, so nesting depth ≤ number of
                          defined macros: expansion terminates (the model's `run` additionally carries
                          a fuel of 4096 levels; reaching it would be reported as a model panic).
`use = inline expansion` on whole programs (macros using macros, names passed as arguments, uses
inside procedures) is exercised by the `macros` correspondence group against the real assembler.
Stack depth and time of deeply nested real expansions are not in the model (partial; see DESIGN).
-/
import Emu8086.Model.Asm
import Mathlib.Data.List.Perm.Subperm

namespace Emu8086.Props.C13
open Emu8086 Emu8086.Asm

/-- once inside a word (previous character is a word character) nothing is replaced until the word ends -/
theorem replaceWord_inside_word (p rep : List Char) : ∀ (fuel : Nat) (cs : List Char) (q : Char),
    isWordChar q = true → (∀ c ∈ cs, isWordChar c = true) → replaceWord p rep fuel (some q) cs = cs := by
  intro fuel
  induction fuel with
  | zero => intro cs q _ _; cases cs <;> rfl
  | succ fuel ih =>
    intro cs q hq hcs
    cases cs with
    | nil => rfl
    | cons c cs =>
      have hc : isWordChar c = true := hcs c (by simp)
      simp only [replaceWord, hq, Bool.not_true, Bool.false_and, if_false, Bool.false_eq_true]
      rw [ih cs c hc (fun x hx => hcs x (by simp [hx]))]

theorem isPrefix_split : ∀ (p l : List Char), isPrefix p l = true → ∃ t, l = p ++ t := by
  intro p
  induction p with
  | nil => intro l _; exact ⟨l, rfl⟩
  | cons a as ih =>
    intro l hp
    cases l with
    | nil => simp [isPrefix] at hp
    | cons b bs =>
      simp only [isPrefix, Bool.and_eq_true, beq_iff_eq] at hp
      obtain ⟨t, ht⟩ := ih bs hp.2
      exact ⟨t, by rw [hp.1, ht]; rfl⟩

/-- `a` never rewrites inside `ab`: a word different from the parameter is unchanged -/
theorem whole_word_only (p rep w : List Char) (hw : ∀ c ∈ w, isWordChar c = true) (hne : w ≠ p) (fuel : Nat) :
    replaceWord p rep (fuel + 1) none w = w := by
  cases w with
  | nil => rfl
  | cons c cs =>
    have hc : isWordChar c = true := hw c (by simp)
    have hrest : ∀ x ∈ cs, isWordChar x = true := fun x hx => hw x (by simp [hx])
    simp only [replaceWord, Bool.true_and]
    rw [if_neg, replaceWord_inside_word p rep fuel cs c hc hrest]
    intro h
    simp only [Bool.and_eq_true] at h
    obtain ⟨⟨_, hp⟩, hm⟩ := h
    obtain ⟨t, ht⟩ := isPrefix_split p (c :: cs) hp
    cases t with
    | nil => exact hne (by simpa using ht)
    | cons d ds =>
      have hd : isWordChar d = true := hw d (by rw [ht]; simp)
      rw [ht] at hm
      simp [hd] at hm

/-- a word that is the parameter is replaced as a whole -/
theorem whole_word_hit (p rep : List Char) (hp : p ≠ []) (fuel : Nat) :
    replaceWord p rep (fuel + 1) none p = rep := by
  cases p with
  | nil => exact absurd rfl hp
  | cons c cs =>
    have hpre : isPrefix (c :: cs) (c :: cs) = true := by
      generalize c :: cs = l
      induction l with
      | nil => rfl
      | cons a as ih => simp [isPrefix, ih]
    simp only [replaceWord, hpre, List.drop_length, List.isEmpty_cons, Bool.not_false, Bool.and_self, if_true]
    cases fuel <;> simp [replaceWord]

/-- placeholders contain no identifier character -/
theorem placeholder_shape (i : Nat) : placeholder i = '{' :: ((toString i).toList ++ ['}']) := by
  simp [placeholder, String.toList_append]

/-- the recursion guard of `macro_use` and the bookkeeping of the active set -/
def guardRefuses (nesting : List String) (l : String) : Bool := nesting.contains l
def enter (nesting : List String) (l : String) : List String := l :: nesting
def leave (nesting : List String) (l : String) : List String := nesting.filter (· != l)

theorem recursion_guard (nesting : List String) (l : String) (h : l ∈ nesting) : guardRefuses nesting l = true := by
  simpa [guardRefuses] using h

theorem enter_adds (nesting : List String) (l : String) (h : guardRefuses nesting l = false) :
    (enter nesting l).Nodup ↔ nesting.Nodup := by
  have : l ∉ nesting := by simpa [guardRefuses] using h
  simp [enter, this]

theorem leave_restores (nesting : List String) (l : String) (hn : nesting.Nodup) (h : l ∉ nesting) :
    leave (enter nesting l) l = nesting := by
  simp only [leave, enter, List.filter_cons, bne_self_eq_false, Bool.false_eq_true, if_false]
  apply List.filter_eq_self.mpr
  intro a ha; simp only [bne_iff_ne, ne_eq]; intro e; exact h (e ▸ ha)

/-- an active set without duplicates drawn from the defined macros is no longer than their number -/
theorem depth_bounded (macros nesting : List String) (hn : nesting.Nodup) (hsub : ∀ x ∈ nesting, x ∈ macros.eraseDups) :
    nesting.length ≤ macros.eraseDups.length := by
  exact (List.subperm_of_subset hn (fun x hx => hsub x hx)).length_le

end Emu8086.Props.C13
