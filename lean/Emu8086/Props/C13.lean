/-
Property C13 — a macro use equals its hand-expanded body; recursion is always rejected.

Text operations of the model (`Asm.replaceWord` = `Regex \bparam\b . replace_all`, `Asm.replaceAll` =
`str::replace` of a placeholder), for EVERY parameter name, replacement and body word:
  * `whole_word_only`   : a parameter never rewrites inside a longer identifier — a body word that is
                          not exactly the parameter is left unchanged (so `a` does not touch `ab`, `ba`, `a1`);
  * `whole_word_hit`    : a body word that IS the parameter is replaced completely;
  * `placeholder_shape` : placeholders are `{i}` — they contain no identifier character, so a later
                          parameter can never match inside an earlier placeholder and an argument is
                          never re-substituted;
  * `recursion_guard`   : a use of a macro whose name is in the active set is refused, and the active
                          set grows by exactly that name for the expansion (`enter_adds`), so every
                          use chain that revisits a name is rejected at that use;
  * `depth_bounded`     : the active set never holds a name twice, so nesting depth ≤ number of
                          defined macros: expansion terminates (the model's `run` additionally carries
                          a fuel of 4096 levels; reaching it would be reported as a model panic).
`use = inline expansion` on whole programs (macros using macros, names passed as arguments, uses
inside procedures) is exercised by the `macros` correspondence group against the real assembler.
Stack depth and time of deeply nested real expansions are not in the model (partial; see DESIGN).
-/
import Emu8086.Model.Asm
import Mathlib.Data.List.Perm.Subperm

namespace Emu8086.Props.C13
open Emu8086 Emu8086.Asm

/-- once inside a word (previous character is a word character) nothing is replaced until the word ends -/
theorem replaceWord_inside_word (p rep : List Char) : ∀ (fuel : Nat) (cs : List Char) (q : Char),
    isWordChar q = true → (∀ c ∈ cs, isWordChar c = true) → replaceWord p rep fuel (some q) cs = cs := by
  intro fuel
  induction fuel with
  | zero => intro cs q _ _; cases cs <;> rfl
  | succ fuel ih =>
    intro cs q hq hcs
    cases cs with
    | nil => rfl
    | cons c cs =>
      have hc : isWordChar c = true := hcs c (by simp)
      simp only [replaceWord, hq, Bool.not_true, Bool.false_and, if_false, Bool.false_eq_true]
      rw [ih cs c hc (fun x hx => hcs x (by simp [hx]))]

theorem isPrefix_split : ∀ (p l : List Char), isPrefix p l = true → ∃ t, l = p ++ t := by
  intro p
  induction p with
  | nil => intro l _; exact ⟨l, rfl⟩
  | cons a as ih =>
    intro l hp
    cases l with
    | nil => simp [isPrefix] at hp
    | cons b bs =>
      simp only [isPrefix, Bool.and_eq_true, beq_iff_eq] at hp
      obtain ⟨t, ht⟩ := ih bs hp.2
      exact ⟨t, by rw [hp.1, ht]; rfl⟩

/-- `a` never rewrites inside `ab`: a word different from the parameter is unchanged -/
theorem whole_word_only (p rep w : List Char) (hw : ∀ c ∈ w, isWordChar c = true) (hne : w ≠ p) (fuel : Nat) :
    replaceWord p rep (fuel + 1) none w = w := by
  cases w with
  | nil => rfl
  | cons c cs =>
    have hc : isWordChar c = true := hw c (by simp)
    have hrest : ∀ x ∈ cs, isWordChar x = true := fun x hx => hw x (by simp [hx])
    simp only [replaceWord, Bool.true_and]
    rw [if_neg, replaceWord_inside_word p rep fuel cs c hc hrest]
    intro h
    simp only [Bool.and_eq_true] at h
    obtain ⟨⟨_, hp⟩, hm⟩ := h
    obtain ⟨t, ht⟩ := isPrefix_split p (c :: cs) hp
    cases t with
    | nil => exact hne (by simpa using ht)
    | cons d ds =>
      have hd : isWordChar d = true := hw d (by rw [ht]; simp)
      rw [ht] at hm
      simp [hd] at hm

/-- a word that is the parameter is replaced as a whole -/
theorem whole_word_hit (p rep : List Char) (hp : p ≠ []) (fuel : Nat) :
    replaceWord p rep (fuel + 1) none p = rep := by
  cases p with
  | nil => exact absurd rfl hp
  | cons c cs =>
    have hpre : isPrefix (c :: cs) (c :: cs) = true := by
      generalize c :: cs = l
      induction l with
      | nil => rfl
      | cons a as ih => simp [isPrefix, ih]
    simp only [replaceWord, hpre, List.drop_length, List.isEmpty_cons, Bool.not_false, Bool.and_self, if_true]
    cases fuel <;> simp [replaceWord]

/-- placeholders contain no identifier character -/
theorem placeholder_shape (i : Nat) : placeholder i = '{' :: ((toString i).toList ++ ['}']) := by
  simp [placeholder, String.toList_append]

/-- the recursion guard of `macro_use` and the bookkeeping of the active set -/
def guardRefuses (nesting : List String) (l : String) : Bool := nesting.contains l
def enter (nesting : List String) (l : String) : List String := l :: nesting
def leave (nesting : List String) (l : String) : List String := nesting.filter (· != l)

theorem recursion_guard (nesting : List String) (l : String) (h : l ∈ nesting) : guardRefuses nesting l = true := by
  simpa [guardRefuses] using h

theorem enter_adds (nesting : List String) (l : String) (h : guardRefuses nesting l = false) :
    (enter nesting l).Nodup ↔ nesting.Nodup := by
  have : l ∉ nesting := by simpa [guardRefuses] using h
  simp [enter, this]

theorem leave_restores (nesting : List String) (l : String) (hn : nesting.Nodup) (h : l ∉ nesting) :
    leave (enter nesting l) l = nesting := by
  simp only [leave, enter, List.filter_cons, bne_self_eq_false, Bool.false_eq_true, if_false]
  apply List.filter_eq_self.mpr
  intro a ha; simp only [bne_iff_ne, ne_eq]; intro e; exact h (e ▸ ha)

/-- an active set without duplicates drawn from the defined macros is no longer than their number -/
theorem depth_bounded (macros nesting : List String) (hn : nesting.Nodup) (hsub : ∀ x ∈ nesting, x ∈ macros.eraseDups) :
    nesting.length ≤ macros.eraseDups.length := by
  exact (List.subperm_of_subset hn (fun x hx => hsub x hx)).length_le

/-- with more fuel than characters `replaceWord` never stops for lack of fuel -/
theorem replaceWord_fuel (p rep : List Char) : ∀ (n f1 f2 : Nat) (prev : Option Char) (cs : List Char),
    cs.length ≤ n → cs.length < f1 → cs.length < f2 → replaceWord p rep f1 prev cs = replaceWord p rep f2 prev cs := by
  intro n
  induction n with
  | zero =>
    intro f1 f2 prev cs hn h1 h2
    have : cs = [] := List.eq_nil_of_length_eq_zero (by omega)
    subst this
    cases f1 <;> cases f2 <;> simp_all [replaceWord]
  | succ n ih =>
    intro f1 f2 prev cs hn h1 h2
    cases cs with
    | nil => cases f1 <;> cases f2 <;> simp_all [replaceWord]
    | cons c cs =>
      cases f1 with
      | zero => simp at h1
      | succ f1 =>
        cases f2 with
        | zero => simp at h2
        | succ f2 =>
          simp only [List.length_cons] at hn h1 h2
          simp only [replaceWord]
          apply ite_congr rfl
          · intro hc
            have hp : p ≠ [] := by intro e; simp [e] at hc
            have hpl : 0 < p.length := List.length_pos_iff.mpr hp
            rw [ih f1 f2 p.getLast? ((c :: cs).drop p.length)
              (by simp only [List.length_drop, List.length_cons]; omega)
              (by simp only [List.length_drop, List.length_cons]; omega)
              (by simp only [List.length_drop, List.length_cons]; omega)]
          · intro _
            rw [ih f1 f2 (some c) cs (by omega) (by omega) (by omega)]

/-! ### whole-word replacement on a body seen as words and separators -/

/-- a body token: a maximal run of identifier characters, or a run of other characters -/
inductive Tk where
  | word (w : List Char)
  | sep (s : List Char)
  deriving DecidableEq, Repr

def Tk.chars : Tk → List Char
  | .word w => w | .sep s => s
def Tk.isWord : Tk → Bool
  | .word _ => true | .sep _ => false
def flat (ts : List Tk) : List Char := ts.flatMap Tk.chars

/-- well-formed tokens: non-empty, words of identifier characters, separators of other characters -/
def Tk.WF : Tk → Prop
  | .word w => w ≠ [] ∧ ∀ c ∈ w, isWordChar c = true
  | .sep s => s ≠ [] ∧ ∀ c ∈ s, isWordChar c = false

/-- no two words are adjacent (otherwise they would be one word) -/
def NoAdjWords : List Tk → Prop
  | [] => True
  | [_] => True
  | a :: b :: rest => ¬ (a.isWord = true ∧ b.isWord = true) ∧ NoAdjWords (b :: rest)

/-- "the previous character is not an identifier character (or there is none)" -/
def bnd : Option Char → Bool
  | none => true
  | some q => !isWordChar q
/-- "the text starts with a non-identifier character (or is empty)" -/
def endOk : List Char → Bool
  | [] => true
  | d :: _ => !isWordChar d

/-- the character before the text permits a word to start here -/
def BoundaryOk (prev : Option Char) : List Tk → Prop
  | .word _ :: _ => bnd prev = true
  | _ => True

/-- the replacement: every word equal to the parameter becomes `rep`, everything else is kept -/
def substWord (p rep : List Char) (ts : List Tk) : List Char :=
  ts.flatMap fun t => if t = .word p then rep else t.chars

/-- scanning separator characters replaces nothing -/
theorem replaceWord_sep (p rep : List Char) (hp : p ≠ []) (hpw : ∀ c ∈ p, isWordChar c = true) :
    ∀ (s : List Char) (r : List Char) (fuel : Nat) (prev : Option Char), s ≠ [] → (∀ c ∈ s, isWordChar c = false) →
      (s ++ r).length < fuel →
      replaceWord p rep fuel prev (s ++ r) = s ++ replaceWord p rep (fuel - s.length) s.getLast? r := by
  intro s
  induction s with
  | nil => intro r fuel prev h; exact absurd rfl h
  | cons c cs ih =>
    intro r fuel prev _ hs hf
    have hc : isWordChar c = false := hs c (by simp)
    cases fuel with
    | zero => simp at hf
    | succ fuel =>
      -- the parameter starts with an identifier character, `c` is not one: no match here
      have hnp : isPrefix p (c :: (cs ++ r)) = false := by
        cases p with
        | nil => exact absurd rfl hp
        | cons a as =>
          have ha : isWordChar a = true := hpw a (by simp)
          simp only [isPrefix, Bool.and_eq_false_iff, beq_eq_false_iff_ne, ne_eq]
          left; intro e; rw [e] at ha; rw [ha] at hc; cases hc
      simp only [List.cons_append, replaceWord, hnp, Bool.and_false, Bool.false_and, Bool.false_eq_true, if_false]
      cases cs with
      | nil => simp
      | cons d ds =>
        have := ih r fuel (some c) (by simp) (fun x hx => hs x (by simp [hx])) (by simp at hf ⊢; omega)
        rw [this]
        simp [List.getLast?_cons_cons]


/-- inside a word (the previous character is an identifier character) nothing is replaced up to
    the end of the word -/
theorem replaceWord_inside (p rep : List Char) : ∀ (cs r : List Char) (fuel : Nat) (q : Char),
    isWordChar q = true → (∀ c ∈ cs, isWordChar c = true) → (cs ++ r).length < fuel →
      replaceWord p rep fuel (some q) (cs ++ r) = cs ++ replaceWord p rep (fuel - cs.length) (some ((q :: cs).getLast (by simp))) r := by
  intro cs
  induction cs with
  | nil => intro r fuel q _ _ _; simp
  | cons c cs ih =>
    intro r fuel q hq hcs hf
    have hc : isWordChar c = true := hcs c (by simp)
    cases fuel with
    | zero => simp at hf
    | succ fuel =>
      simp only [List.cons_append, replaceWord, hq, Bool.not_true, Bool.false_and, Bool.false_eq_true, if_false]
      rw [ih r fuel c hc (fun x hx => hcs x (by simp [hx])) (by simp at hf ⊢; omega)]
      simp [List.getLast_cons]

theorem isPrefix_append_self (p r : List Char) : isPrefix p (p ++ r) = true := by
  induction p with
  | nil => rfl
  | cons a as ih => simp [isPrefix, ih]

theorem replaceWord_step (p rep : List Char) (fuel : Nat) (prev : Option Char) (c : Char) (cs : List Char) :
    replaceWord p rep (fuel + 1) prev (c :: cs) =
      if (bnd prev && !p.isEmpty && isPrefix p (c :: cs) && endOk ((c :: cs).drop p.length)) = true
      then rep ++ replaceWord p rep fuel p.getLast? ((c :: cs).drop p.length)
      else c :: replaceWord p rep fuel (some c) cs := by
  cases prev <;> cases h : (c :: cs).drop p.length <;> simp [replaceWord, bnd, endOk, h]

/-- a parameter name can only match at the start of a word if it is that whole word -/
theorem no_partial_match (p : List Char) (hpw : ∀ c ∈ p, isWordChar c = true)
    (w r : List Char) (hww : ∀ c ∈ w, isWordChar c = true) (hr : endOk r = true) (hwp : w ≠ p) :
    (isPrefix p (w ++ r) && endOk ((w ++ r).drop p.length)) = false := by
  by_cases hpre : isPrefix p (w ++ r) = true
  · obtain ⟨t, ht⟩ := isPrefix_split p _ hpre
    by_cases hl : p.length < w.length
    · -- p is a proper prefix of the word: an identifier character follows
      rw [List.drop_append_of_le_length (by omega)]
      cases hd : w.drop p.length with
      | nil =>
        have := congrArg List.length hd
        simp only [List.length_drop, List.length_nil] at this; omega
      | cons d ds =>
        have hdm : d ∈ w := List.mem_of_mem_drop (by rw [hd]; simp)
        simp [endOk, hww d hdm]
    · -- p is at least as long as the word: then p = word ++ q, q a non-empty prefix of r
      exfalso
      have hle : w.length ≤ p.length := by omega
      have hpw' : p.take w.length = w := by
        have := congrArg (List.take w.length) ht
        rw [List.take_left, List.take_append_of_le_length hle] at this
        exact this.symm
      by_cases heq : p.length = w.length
      · apply hwp
        rw [← hpw', ← heq, List.take_length]
      · have hlt : w.length < p.length := by omega
        have h3 : w.length < (w ++ r).length := by
          have := congrArg List.length ht
          simp only [List.length_append] at this ⊢; omega
        have hidx : (p[w.length]'hlt) = ((w ++ r)[w.length]'h3) := by
          have h1 : (w ++ r)[w.length]? = (p ++ t)[w.length]? := by rw [ht]
          rw [List.getElem?_append_left hlt, List.getElem?_eq_getElem hlt, List.getElem?_eq_getElem h3] at h1
          exact (Option.some.inj h1).symm
        have hpc : isWordChar (p[w.length]'hlt) = true := hpw _ (List.getElem_mem _)
        rw [hidx, List.getElem_append_right (Nat.le_refl _)] at hpc
        cases r with
        | nil => simp only [List.append_nil] at h3; omega
        | cons d ds =>
          simp only [Nat.sub_self, List.getElem_cons_zero] at hpc
          simp [endOk, hpc] at hr
  · simp only [Bool.not_eq_true] at hpre; simp [hpre]

/-- a word followed by a separator (or the end): replaced as a whole iff it IS the parameter -/
theorem replaceWord_word (p rep : List Char) (hp : p ≠ []) (hpw : ∀ c ∈ p, isWordChar c = true)
    (w r : List Char) (fuel : Nat) (prev : Option Char) (hw : w ≠ []) (hww : ∀ c ∈ w, isWordChar c = true)
    (hprev : bnd prev = true) (hr : endOk r = true) (hf : (w ++ r).length < fuel) :
    replaceWord p rep fuel prev (w ++ r) = (if w = p then rep else w) ++ replaceWord p rep (fuel - w.length) w.getLast? r := by
  cases w with
  | nil => exact absurd rfl hw
  | cons c cs =>
    have hc : isWordChar c = true := hww c (by simp)
    cases fuel with
    | zero => simp at hf
    | succ fuel =>
      simp only [List.length_append, List.length_cons] at hf
      rw [List.cons_append, replaceWord_step, ← List.cons_append]
      by_cases hwp : c :: cs = p
      · -- the word is the parameter: it matches here, as a whole
        subst hwp
        rw [isPrefix_append_self, List.drop_left, hr, hprev]
        simp only [List.isEmpty_cons, Bool.not_false, Bool.and_self, if_true]
        rw [replaceWord_fuel (c :: cs) rep r.length fuel (fuel + 1 - (c :: cs).length) _ r (Nat.le_refl _)
          (by omega) (by simp only [List.length_cons]; omega)]
      · -- the word is not the parameter: no match at its first character, none inside it
        have hno := no_partial_match p hpw (c :: cs) r hww hr hwp
        rw [Bool.and_assoc, hno, Bool.and_false, if_neg hwp]
        simp only [Bool.false_eq_true, if_false]
        rw [replaceWord_inside p rep cs r fuel c hc (fun x hx => hww x (by simp [hx]))
          (by simp only [List.length_append]; omega)]
        simp [List.getLast?_eq_some_getLast]

/-- the text of a well-formed token list starting with a separator (or empty) starts with a
    non-identifier character (or is empty) -/
theorem endOk_flat (ts : List Tk) (hwf : ∀ t ∈ ts, t.WF) (h : ∀ w rest, ts ≠ .word w :: rest) : endOk (flat ts) = true := by
  cases ts with
  | nil => rfl
  | cons t rest =>
    cases t with
    | word w => exact absurd rfl (h w rest)
    | sep s =>
      have := hwf (.sep s) (by simp)
      obtain ⟨hne, hall⟩ := this
      cases s with
      | nil => exact absurd rfl hne
      | cons c cs => simp [flat, Tk.chars, endOk, hall c (by simp)]

theorem getLast?_bnd_sep (s : List Char) (hne : s ≠ []) (hall : ∀ c ∈ s, isWordChar c = false) : bnd s.getLast? = true := by
  rw [List.getLast?_eq_some_getLast hne]
  simp [bnd, hall _ (List.getLast_mem hne)]

/-- **Whole-word substitution.**  On any text made of words (maximal runs of identifier characters)
    and separators, `replaceWord` — the model of `Regex::new(r"\b{p}\b").replace_all` — replaces
    exactly the words equal to the parameter and copies everything else, for every body, every
    parameter name and every replacement text. -/
theorem replaceWord_tokens (p rep : List Char) (hp : p ≠ []) (hpw : ∀ c ∈ p, isWordChar c = true) :
    ∀ (ts : List Tk) (fuel : Nat) (prev : Option Char), (∀ t ∈ ts, t.WF) → NoAdjWords ts → BoundaryOk prev ts →
      (flat ts).length < fuel → replaceWord p rep fuel prev (flat ts) = substWord p rep ts := by
  intro ts
  induction ts with
  | nil =>
    intro fuel prev _ _ _ hf
    cases fuel with
    | zero => simp [flat] at hf
    | succ f => simp [flat, substWord, replaceWord]
  | cons t rest ih =>
    intro fuel prev hwf hadj hb hf
    have hwfr : ∀ t ∈ rest, t.WF := fun x hx => hwf x (by simp [hx])
    have hadjr : NoAdjWords rest := by
      cases rest with
      | nil => trivial
      | cons b r => exact hadj.2
    have hflat : flat (t :: rest) = t.chars ++ flat rest := by simp [flat]
    have hsub : substWord p rep (t :: rest) = (if t = .word p then rep else t.chars) ++ substWord p rep rest := by
      simp [substWord]
    rw [hflat] at hf ⊢
    rw [hsub]
    cases t with
    | sep s =>
      obtain ⟨hne, hall⟩ := hwf (.sep s) (by simp)
      simp only [Tk.chars] at hf ⊢
      rw [replaceWord_sep p rep hp hpw s (flat rest) fuel prev hne hall hf]
      have hb' : BoundaryOk s.getLast? rest := by
        cases rest with
        | nil => trivial
        | cons b r =>
          cases b with
          | word w => exact getLast?_bnd_sep s hne hall
          | sep _ => trivial
      rw [ih (fuel - s.length) s.getLast? hwfr hadjr hb' (by simp only [List.length_append] at hf; omega)]
      simp
    | word w =>
      obtain ⟨hne, hall⟩ := hwf (.word w) (by simp)
      simp only [Tk.chars] at hf ⊢
      have hend : endOk (flat rest) = true := by
        apply endOk_flat rest hwfr
        intro w2 r2 e
        subst e
        exact hadj.1 ⟨rfl, rfl⟩
      rw [replaceWord_word p rep hp hpw w (flat rest) fuel prev hne hall hb hend hf]
      have hb' : BoundaryOk w.getLast? rest := by
        cases rest with
        | nil => trivial
        | cons b r =>
          cases b with
          | word w2 => exact absurd ⟨rfl, rfl⟩ hadj.1
          | sep _ => trivial
      rw [ih (fuel - w.length) w.getLast? hwfr hadjr hb' (by simp only [List.length_append] at hf; omega)]
      congr 1
      by_cases e : w = p <;> simp [e]

/-- non-vacuity: a real body, tokenised, satisfies the hypotheses and `x` is replaced as a word only -/
example :
    let ts : List Tk := [.word "mov".toList, .sep " ".toList, .word "x".toList, .sep ", ".toList, .word "xx".toList,
                         .sep " + ".toList, .word "x".toList]
    replaceWord "x".toList "ax".toList 100 none (flat ts) = "mov ax, xx + ax".toList := by
  decide +kernel

end Emu8086.Props.C13
