/-
Property C13, the substitution theorem: for EVERY macro body, parameter list and argument list,
definition-time storing (`Asm.macroStore`: each parameter, in order, replaced as a whole word by its
placeholder `{i}`) followed by use-time instantiation (`Asm.macroInst`: each placeholder, in order,
replaced by its argument) equals the one-pass simultaneous substitution `expand`: every body word
that is a parameter becomes the corresponding argument, every other word and every separator is
copied.  (`macro_expansion`, with `tokenize` showing that every body has the token form.)

Hypotheses = what the grammar guarantees: parameters are `name_string`s (identifier characters, not
starting with a digit); body characters come from `[_a-zA-Z0-9\[\]\(\), ]` and arguments from
`general_string`, so neither contains a brace.
-/
import Emu8086.Props.C13
import Std.Data.String.ToNat

namespace Emu8086.Props.C13
open Emu8086 Emu8086.Asm

/-! ### placeholders -/

/-- decimal digits of an index -/
def digits (i : Nat) : List Char := (toString i).toList

theorem placeholder_digits (i : Nat) : placeholder i = '{' :: (digits i ++ ['}']) := placeholder_shape i

theorem digits_isDigit (i : Nat) : ∀ c ∈ digits i, c.isDigit = true := by
  intro c hc
  unfold digits at hc
  rw [Nat.toString_eq_repr, Nat.toList_repr] at hc
  exact Nat.isDigit_of_mem_toDigits (by decide) (by decide) hc

theorem digits_ne_nil (i : Nat) : digits i ≠ [] := by
  unfold digits
  rw [Nat.toString_eq_repr]
  intro h
  exact Nat.repr_ne_empty (String.toList_eq_nil_iff.mp h)

theorem digits_inj {i j : Nat} (h : digits i = digits j) : i = j := by
  unfold digits at h
  rw [Nat.toString_eq_repr, Nat.toString_eq_repr] at h
  exact Nat.repr_injective (String.toList_inj.mp h)

theorem isDigit_word (c : Char) (h : c.isDigit = true) : isWordChar c = true := by
  simp only [Char.isDigit, Bool.and_eq_true, decide_eq_true_eq] at h
  simp only [isWordChar, isIdChar, Char.isAlphanum, Char.isAlpha, Char.isUpper, Char.isLower, Char.isDigit,
    Bool.or_eq_true, Bool.and_eq_true, decide_eq_true_eq, beq_iff_eq]
  have h2 : c.val.toNat ≤ 57 := UInt32.le_iff_toNat_le.mp h.2
  exact Or.inl ⟨by show c.val.toNat < 128; omega, Or.inr h⟩

theorem isDigit_ne_brace (c : Char) (h : c.isDigit = true) : c ≠ '{' ∧ c ≠ '}' := by
  constructor <;> (intro e; subst e; simp [Char.isDigit] at h)

/-! ### `replaceAll` (= `str::replace`) on texts whose only braces are those of placeholders -/

theorem replaceAll_step (pat tx : List Char) (fuel : Nat) (c : Char) (cs : List Char) :
    replaceAll pat tx (fuel + 1) (c :: cs) =
      if (!pat.isEmpty && isPrefix pat (c :: cs)) = true then tx ++ replaceAll pat tx fuel ((c :: cs).drop pat.length)
      else c :: replaceAll pat tx fuel cs := by
  simp [replaceAll]

theorem replaceAll_nil (pat tx : List Char) (fuel : Nat) : replaceAll pat tx fuel [] = [] := by
  cases fuel <;> rfl

/-- with more fuel than characters `replaceAll` never stops for lack of fuel -/
theorem replaceAll_fuel (pat tx : List Char) : ∀ (n f1 f2 : Nat) (cs : List Char),
    cs.length ≤ n → cs.length < f1 → cs.length < f2 → replaceAll pat tx f1 cs = replaceAll pat tx f2 cs := by
  intro n
  induction n with
  | zero =>
    intro f1 f2 cs hn _ _
    have : cs = [] := List.eq_nil_of_length_eq_zero (by omega)
    subst this
    rw [replaceAll_nil, replaceAll_nil]
  | succ n ih =>
    intro f1 f2 cs hn h1 h2
    cases cs with
    | nil => rw [replaceAll_nil, replaceAll_nil]
    | cons c cs =>
      cases f1 with
      | zero => simp at h1
      | succ f1 =>
        cases f2 with
        | zero => simp at h2
        | succ f2 =>
          simp only [List.length_cons] at hn h1 h2
          rw [replaceAll_step, replaceAll_step]
          apply ite_congr rfl
          · intro hc
            have hp : pat ≠ [] := by intro e; simp [e] at hc
            have hpl : 0 < pat.length := List.length_pos_iff.mpr hp
            rw [ih f1 f2 ((c :: cs).drop pat.length)
              (by simp only [List.length_drop, List.length_cons]; omega)
              (by simp only [List.length_drop, List.length_cons]; omega)
              (by simp only [List.length_drop, List.length_cons]; omega)]
          · intro _
            rw [ih f1 f2 cs (by omega) (by omega) (by omega)]

/-- a stretch of text without the pattern's first character is copied -/
theorem replaceAll_lit (x : Char) (pt tx : List Char) : ∀ (cs r : List Char) (fuel : Nat),
    (∀ c ∈ cs, c ≠ x) → (cs ++ r).length < fuel →
      replaceAll (x :: pt) tx fuel (cs ++ r) = cs ++ replaceAll (x :: pt) tx (fuel - cs.length) r := by
  intro cs
  induction cs with
  | nil => intro r fuel _ _; simp
  | cons c cs ih =>
    intro r fuel hcs hf
    cases fuel with
    | zero => simp at hf
    | succ fuel =>
      have hc : c ≠ x := hcs c (by simp)
      have hno : isPrefix (x :: pt) (c :: (cs ++ r)) = false := by
        simp only [isPrefix, Bool.and_eq_false_iff, beq_eq_false_iff_ne, ne_eq]
        left; exact fun e => hc e.symm
      rw [List.cons_append, replaceAll_step, hno]
      simp only [Bool.and_false, Bool.false_eq_true, if_false]
      rw [ih r fuel (fun y hy => hcs y (by simp [hy])) (by simp only [List.cons_append, List.length_cons] at hf; omega)]
      simp

/-- `a ++ [x]` is a prefix of `b ++ x :: r` only if `a = b`, when neither contains `x` -/
theorem isPrefix_sentinel (x : Char) : ∀ (a b r : List Char), (∀ c ∈ a, c ≠ x) → (∀ c ∈ b, c ≠ x) →
    isPrefix (a ++ [x]) (b ++ x :: r) = true → a = b := by
  intro a
  induction a with
  | nil =>
    intro b r _ hb h
    cases b with
    | nil => rfl
    | cons d b' =>
      simp only [List.nil_append, List.cons_append, isPrefix, Bool.and_eq_true, beq_iff_eq] at h
      exact absurd h.1.symm (hb d (by simp))
  | cons c a' ih =>
    intro b r ha hb h
    cases b with
    | nil =>
      simp only [List.nil_append, List.cons_append, isPrefix, Bool.and_eq_true, beq_iff_eq] at h
      exact absurd h.1 (ha c (by simp))
    | cons d b' =>
      simp only [List.cons_append, isPrefix, Bool.and_eq_true, beq_iff_eq] at h
      rw [h.1, ih b' r (fun y hy => ha y (by simp [hy])) (fun y hy => hb y (by simp [hy])) h.2]

theorem digits_no_close (i : Nat) : ∀ c ∈ digits i, c ≠ '}' := fun c hc => (isDigit_ne_brace c (digits_isDigit i c hc)).2
theorem digits_no_open (i : Nat) : ∀ c ∈ digits i, c ≠ '{' := fun c hc => (isDigit_ne_brace c (digits_isDigit i c hc)).1

theorem placeholder_length (j : Nat) : (placeholder j).length = (digits j).length + 2 := by
  rw [placeholder_digits]; simp

/-- at a placeholder: replaced iff it is THE placeholder searched for -/
theorem replaceAll_hole (i j : Nat) (tx r : List Char) (fuel : Nat) (hf : (placeholder j ++ r).length < fuel) :
    replaceAll (placeholder i) tx fuel (placeholder j ++ r) =
      (if j = i then tx else placeholder j) ++ replaceAll (placeholder i) tx (fuel - (placeholder j).length) r := by
  cases fuel with
  | zero => simp at hf
  | succ fuel =>
    have hlen := placeholder_length j
    simp only [List.length_append] at hf
    by_cases e : j = i
    · subst e
      rw [if_pos rfl]
      have hpre : isPrefix (placeholder j) (placeholder j ++ r) = true := isPrefix_append_self _ _
      have hne : (placeholder j).isEmpty = false := by rw [placeholder_digits]; rfl
      obtain ⟨c, cs, hcs⟩ : ∃ c cs, placeholder j ++ r = c :: cs := by rw [placeholder_digits]; exact ⟨_, _, rfl⟩
      rw [hcs, replaceAll_step, ← hcs, hpre, hne]
      simp only [Bool.not_false, Bool.and_self, if_true, List.drop_left]
      rw [replaceAll_fuel (placeholder j) tx r.length fuel (fuel + 1 - (placeholder j).length) r (Nat.le_refl _) (by omega) (by omega)]
    · rw [if_neg e]
      have hno : isPrefix (placeholder i) (placeholder j ++ r) = false := by
        cases h : isPrefix (placeholder i) (placeholder j ++ r) with
        | false => rfl
        | true =>
          exfalso
          rw [placeholder_digits i, placeholder_digits j] at h
          simp only [List.cons_append, isPrefix, beq_self_eq_true, Bool.true_and, List.append_assoc, List.singleton_append] at h
          have := isPrefix_sentinel '}' (digits i) (digits j) r (digits_no_close i) (digits_no_close j) h
          exact e (digits_inj this).symm
      rw [placeholder_digits j] at hf hlen ⊢
      rw [List.cons_append, replaceAll_step]
      rw [placeholder_digits j, List.cons_append] at hno
      rw [hno]
      simp only [Bool.and_false, Bool.false_eq_true, if_false, List.append_assoc, List.singleton_append]
      have hl := replaceAll_lit '{' (digits i ++ ['}']) tx (digits j ++ ['}']) r fuel
        (by
          intro c hc
          rcases List.mem_append.mp hc with h | h
          · exact digits_no_open j c h
          · simp at h; subst h; decide)
        (by simp only [List.length_append, List.length_cons, List.length_nil] at hf ⊢; omega)
      rw [← placeholder_digits i] at hl
      simp only [List.append_assoc, List.singleton_append] at hl
      rw [hl]
      simp only [List.cons_append, List.append_assoc, List.singleton_append, List.length_append, List.length_cons, List.length_nil]
      have : fuel - ((digits j).length + (0 + 1)) = fuel + 1 - ((digits j).length + (0 + 1) + 1) := by omega
      rw [this]; simp

/-- a stored macro text as pieces: literal text (no opening brace) and placeholders -/
inductive Pc where
  | lit (cs : List Char)
  | hole (i : Nat)
  deriving DecidableEq, Repr

def Pc.text : Pc → List Char
  | .lit cs => cs
  | .hole i => placeholder i
def Pc.WF : Pc → Prop
  | .lit cs => ∀ c ∈ cs, c ≠ '{'
  | .hole _ => True
def render (pcs : List Pc) : List Char := pcs.flatMap Pc.text

def fill1 (i : Nat) (a : List Char) : Pc → Pc
  | .hole j => if j = i then .lit a else .hole j
  | p => p

theorem replaceAll_render (i : Nat) (a : List Char) : ∀ (pcs : List Pc) (fuel : Nat), (∀ p ∈ pcs, p.WF) →
    (render pcs).length < fuel → replaceAll (placeholder i) a fuel (render pcs) = render (pcs.map (fill1 i a)) := by
  intro pcs
  induction pcs with
  | nil => intro fuel _ _; simp [render, replaceAll_nil]
  | cons pc rest ih =>
    intro fuel hwf hf
    have hr : render (pc :: rest) = pc.text ++ render rest := by simp [render]
    have hm : render ((pc :: rest).map (fill1 i a)) = (fill1 i a pc).text ++ render (rest.map (fill1 i a)) := by simp [render]
    rw [hr] at hf ⊢
    rw [hm]
    have hwfr : ∀ p ∈ rest, p.WF := fun p hp => hwf p (by simp [hp])
    cases pc with
    | lit cs =>
      have hcs : ∀ c ∈ cs, c ≠ '{' := hwf (.lit cs) (by simp)
      simp only [Pc.text, fill1] at hf ⊢
      rw [placeholder_digits i, replaceAll_lit '{' _ a cs (render rest) fuel hcs hf, ← placeholder_digits i]
      rw [ih (fuel - cs.length) hwfr (by simp only [List.length_append] at hf; omega)]
    | hole j =>
      simp only [Pc.text] at hf ⊢
      rw [replaceAll_hole i j a (render rest) fuel hf]
      rw [ih (fuel - (placeholder j).length) hwfr (by simp only [List.length_append] at hf; omega)]
      congr 1
      simp only [fill1]
      by_cases e : j = i <;> simp [e, Pc.text]

/-- placeholders `k, k+1, …` filled from the argument list; placeholders beyond it stay -/
def fillFrom (k : Nat) (args : List (List Char)) : Pc → Pc
  | .hole j => if k ≤ j then (match args[j - k]? with | some a => .lit a | none => .hole j) else .hole j
  | p => p

theorem fill1_WF (i : Nat) (a : List Char) (ha : ∀ c ∈ a, c ≠ '{') (p : Pc) (hp : p.WF) : (fill1 i a p).WF := by
  cases p with
  | lit cs => exact hp
  | hole j => simp only [fill1]; split <;> [exact ha; trivial]

theorem fillFrom_step (k : Nat) (a : List Char) (as : List (List Char)) (p : Pc) :
    fillFrom (k + 1) as (fill1 k a p) = fillFrom k (a :: as) p := by
  cases p with
  | lit cs => rfl
  | hole j =>
    simp only [fill1]
    by_cases e : j = k
    · subst e; simp [fillFrom]
    · rw [if_neg e]
      simp only [fillFrom]
      by_cases h : k ≤ j
      · have h1 : k + 1 ≤ j := by omega
        have h2 : j - k = (j - (k + 1)) + 1 := by omega
        rw [if_pos h, if_pos h1, h2, List.getElem?_cons_succ]
      · have h1 : ¬ (k + 1 ≤ j) := by omega
        rw [if_neg h, if_neg h1]

/-- use-time instantiation, for every argument list: every placeholder with an argument becomes that
    argument, all at once (no argument text is ever re-scanned for placeholders) -/
theorem macroInst_from : ∀ (args : List (List Char)) (k : Nat) (pcs : List Pc), (∀ p ∈ pcs, p.WF) →
    (∀ a ∈ args, ∀ c ∈ a, c ≠ '{') →
    (args.zipIdx k).foldl (fun r (ai : List Char × Nat) => replaceAll (placeholder ai.2) ai.1 (r.length + 1) r) (render pcs)
      = render (pcs.map (fillFrom k args)) := by
  intro args
  induction args with
  | nil =>
    intro k pcs _ _
    simp only [List.zipIdx_nil, List.foldl_nil]
    congr 1
    rw [List.map_congr_left (g := id)]
    · simp
    · intro p _
      cases p with
      | lit cs => rfl
      | hole j => simp [fillFrom]
  | cons a as ih =>
    intro k pcs hwf hargs
    simp only [List.zipIdx_cons, List.foldl_cons]
    rw [replaceAll_render k a pcs _ hwf (Nat.lt_succ_self _)]
    rw [ih (k + 1) (pcs.map (fill1 k a))
      (by
        intro p hp
        obtain ⟨q, hq, rfl⟩ := List.mem_map.mp hp
        exact fill1_WF k a (hargs a (by simp)) q (hwf q hq))
      (fun x hx => hargs x (by simp [hx]))]
    rw [List.map_map]
    congr 1
    apply List.map_congr_left
    intro p _
    exact fillFrom_step k a as p

theorem macroInst_render (args : List (List Char)) (pcs : List Pc) (hwf : ∀ p ∈ pcs, p.WF)
    (hargs : ∀ a ∈ args, ∀ c ∈ a, c ≠ '{') :
    macroInst args (render pcs) = render (pcs.map (fillFrom 0 args)) :=
  macroInst_from args 0 pcs hwf hargs

/-! ### definition time: parameters become placeholders, one parameter after the other -/

/-- a body under construction: original tokens, and placeholders already put in -/
inductive Tk2 where
  | tk (t : Tk)
  | ph (i : Nat)
  deriving DecidableEq, Repr

def Tk2.chars : Tk2 → List Char
  | .tk t => t.chars
  | .ph i => placeholder i
def Tk2.isWord : Tk2 → Bool
  | .tk t => t.isWord
  | .ph _ => false
def flat2 (ts : List Tk2) : List Char := ts.flatMap Tk2.chars
def Tk2.WF : Tk2 → Prop
  | .tk t => t.WF
  | .ph _ => True
def NoAdj2 : List Tk2 → Prop
  | [] => True
  | [_] => True
  | a :: b :: rest => ¬ (a.isWord = true ∧ b.isWord = true) ∧ NoAdj2 (b :: rest)
def BoundaryOk2 (prev : Option Char) : List Tk2 → Prop
  | .tk (.word _) :: _ => bnd prev = true
  | _ => True
/-- one parameter replaced: every word equal to it becomes the placeholder token -/
def subst2 (p : List Char) (i : Nat) : Tk2 → Tk2
  | .tk (.word w) => if w = p then .ph i else .tk (.word w)
  | t => t

theorem isWordChar_open : isWordChar '{' = false := by decide
theorem isWordChar_close : isWordChar '}' = false := by decide

/-- scanning a placeholder replaces nothing (the parameter is not a number) -/
theorem replaceWord_ph (p rep : List Char) (hp : p ≠ []) (hpw : ∀ c ∈ p, isWordChar c = true) (hpd : ∀ j, p ≠ digits j)
    (j : Nat) (r : List Char) (fuel : Nat) (prev : Option Char)
    (hf : (placeholder j ++ r).length < fuel) :
    replaceWord p rep fuel prev (placeholder j ++ r) = placeholder j ++ replaceWord p rep (fuel - (placeholder j).length) (some '}') r := by
  have hlen := placeholder_length j
  rw [placeholder_digits j] at hf hlen ⊢
  simp only [List.length_append, List.length_cons, List.length_nil] at hf hlen
  -- "{"
  have h1 := replaceWord_sep p rep hp hpw ['{'] (digits j ++ ['}'] ++ r) fuel prev (by simp)
    (by intro c hc; simp at hc; subst hc; exact isWordChar_open)
    (by simp only [List.length_append, List.length_cons, List.length_nil]; omega)
  -- the digits: a word that is not the parameter, followed by "}"
  have h2 := replaceWord_word p rep hp hpw (digits j) (['}'] ++ r) (fuel - 1) (some '{') (digits_ne_nil j)
    (fun c hc => isDigit_word c (digits_isDigit j c hc)) (by simp [bnd, isWordChar_open]) (by simp [endOk, isWordChar_close])
    (by simp only [List.length_append, List.length_cons, List.length_nil]; omega)
  rw [if_neg (fun e => hpd j e.symm)] at h2
  -- "}"
  have h3 := replaceWord_sep p rep hp hpw ['}'] r (fuel - 1 - (digits j).length) (digits j).getLast? (by simp)
    (by intro c hc; simp at hc; subst hc; exact isWordChar_close)
    (by simp only [List.length_append, List.length_cons, List.length_nil]; omega)
  simp only [List.singleton_append, List.cons_append, List.nil_append, List.length_cons, List.length_nil, List.append_assoc,
    List.getLast?_singleton] at h1 h2 h3 ⊢
  rw [h1, h2, h3]
  have : fuel - 1 - (digits j).length - (0 + 1) = fuel - ((digits j).length + (0 + 1) + 1) := by omega
  rw [this]
  simp

theorem endOk_flat2 (ts : List Tk2) (hwf : ∀ t ∈ ts, t.WF) (h : ∀ w rest, ts ≠ .tk (.word w) :: rest) : endOk (flat2 ts) = true := by
  cases ts with
  | nil => rfl
  | cons t rest =>
    cases t with
    | ph j => simp [flat2, Tk2.chars, placeholder_digits, endOk, isWordChar_open]
    | tk t =>
      cases t with
      | word w => exact absurd rfl (h w rest)
      | sep s =>
        obtain ⟨hne, hall⟩ := hwf (.tk (.sep s)) (by simp)
        cases s with
        | nil => exact absurd rfl hne
        | cons c cs => simp [flat2, Tk2.chars, Tk.chars, endOk, hall c (by simp)]

/-- one definition-time round on a body with placeholders already in it -/
theorem replaceWord_tokens2 (p : List Char) (i : Nat) (hp : p ≠ []) (hpw : ∀ c ∈ p, isWordChar c = true) (hpd : ∀ j, p ≠ digits j) :
    ∀ (ts : List Tk2) (fuel : Nat) (prev : Option Char), (∀ t ∈ ts, t.WF) → NoAdj2 ts → BoundaryOk2 prev ts →
      (flat2 ts).length < fuel → replaceWord p (placeholder i) fuel prev (flat2 ts) = flat2 (ts.map (subst2 p i)) := by
  intro ts
  induction ts with
  | nil =>
    intro fuel prev _ _ _ hf
    cases fuel with
    | zero => simp [flat2] at hf
    | succ f => simp [flat2, replaceWord]
  | cons t rest ih =>
    intro fuel prev hwf hadj hb hf
    have hwfr : ∀ t ∈ rest, t.WF := fun x hx => hwf x (by simp [hx])
    have hadjr : NoAdj2 rest := by
      cases rest with
      | nil => trivial
      | cons b r => exact hadj.2
    have hflat : flat2 (t :: rest) = t.chars ++ flat2 rest := by simp [flat2]
    have hsub : flat2 ((t :: rest).map (subst2 p i)) = (subst2 p i t).chars ++ flat2 (rest.map (subst2 p i)) := by simp [flat2]
    rw [hflat] at hf ⊢
    rw [hsub]
    cases t with
    | ph j =>
      simp only [Tk2.chars, subst2] at hf ⊢
      rw [replaceWord_ph p _ hp hpw hpd j (flat2 rest) fuel prev hf]
      have hb' : BoundaryOk2 (some '}') rest := by
        cases rest with
        | nil => trivial
        | cons b r =>
          cases b with
          | ph _ => trivial
          | tk b => cases b <;> simp [BoundaryOk2, bnd, isWordChar_close]
      rw [ih (fuel - (placeholder j).length) (some '}') hwfr hadjr hb' (by simp only [List.length_append] at hf; omega)]
    | tk t =>
      cases t with
      | sep s =>
        obtain ⟨hne, hall⟩ := hwf (.tk (.sep s)) (by simp)
        simp only [Tk2.chars, Tk.chars, subst2] at hf ⊢
        rw [replaceWord_sep p _ hp hpw s (flat2 rest) fuel prev hne hall hf]
        have hb' : BoundaryOk2 s.getLast? rest := by
          cases rest with
          | nil => trivial
          | cons b r =>
            cases b with
            | ph _ => trivial
            | tk b =>
              cases b with
              | word w => exact getLast?_bnd_sep s hne hall
              | sep _ => trivial
        rw [ih (fuel - s.length) s.getLast? hwfr hadjr hb' (by simp only [List.length_append] at hf; omega)]
      | word w =>
        obtain ⟨hne, hall⟩ := hwf (.tk (.word w)) (by simp)
        simp only [Tk2.chars, Tk.chars] at hf ⊢
        have hend : endOk (flat2 rest) = true := by
          apply endOk_flat2 rest hwfr
          intro w2 r2 e
          subst e
          exact hadj.1 ⟨rfl, rfl⟩
        rw [replaceWord_word p _ hp hpw w (flat2 rest) fuel prev hne hall hb hend hf]
        have hb' : BoundaryOk2 w.getLast? rest := by
          cases rest with
          | nil => trivial
          | cons b r =>
            cases b with
            | ph _ => trivial
            | tk b =>
              cases b with
              | word w2 => exact absurd ⟨rfl, rfl⟩ hadj.1
              | sep _ => trivial
        rw [ih (fuel - w.length) w.getLast? hwfr hadjr hb' (by simp only [List.length_append] at hf; omega)]
        congr 1
        simp only [subst2]
        by_cases e : w = p <;> simp [e, Tk2.chars, Tk.chars]

/-- a parameter name as the grammar's `name_string` gives it: identifier characters, not starting with a digit -/
def IsName (p : List Char) : Prop := (∀ c ∈ p, isWordChar c = true) ∧ ∃ c cs, p = c :: cs ∧ c.isDigit = false

theorem IsName.ne_nil {p : List Char} (h : IsName p) : p ≠ [] := by
  obtain ⟨_, c, cs, e, _⟩ := h; rw [e]; simp
theorem IsName.ne_digits {p : List Char} (h : IsName p) (j : Nat) : p ≠ digits j := by
  obtain ⟨_, c, cs, e, hc⟩ := h
  intro hd
  have hm : c ∈ digits j := by rw [← hd, e]; simp
  rw [digits_isDigit j c hm] at hc
  cases hc

/-- the body after the first `k` parameters have been processed -/
def st (ps : List (List Char)) (k : Nat) : Tk → Tk2
  | .word w => if ps.idxOf w < k then .ph (ps.idxOf w) else .tk (.word w)
  | .sep s => .tk (.sep s)

theorem idxOf_le_of_getElem? : ∀ (l : List (List Char)) (k : Nat) (a : List Char), l[k]? = some a → l.idxOf a ≤ k := by
  intro l
  induction l with
  | nil => intro k a h; simp at h
  | cons b l ih =>
    intro k a h
    rw [List.idxOf_cons]
    by_cases e : b = a
    · simp [e]
    · have : (b == a) = false := by simpa using e
      rw [this]
      cases k with
      | zero => simp at h; exact absurd h e
      | succ k =>
        simp only [List.getElem?_cons_succ] at h
        have := ih k a h
        simp only [cond_false]; omega

theorem st_step (ps : List (List Char)) (k : Nat) (p : List Char) (hk : ps[k]? = some p) (t : Tk) :
    subst2 p k (st ps k t) = st ps (k + 1) t := by
  cases t with
  | sep s => rfl
  | word w =>
    simp only [st]
    by_cases h : ps.idxOf w < k
    · rw [if_pos h, if_pos (by omega)]; rfl
    · rw [if_neg h]
      simp only [subst2]
      by_cases e : w = p
      · subst e
        have := idxOf_le_of_getElem? ps k w hk
        have hk' : ps.idxOf w = k := by omega
        rw [if_pos rfl, if_pos (by omega), hk']
      · rw [if_neg e]
        have : ¬ ps.idxOf w < k + 1 := by
          intro hlt
          have hk' : ps.idxOf w = k := by omega
          have hlen : k < ps.length := by
            rcases Nat.lt_or_ge k ps.length with h' | h'
            · exact h'
            · rw [List.getElem?_eq_none h'] at hk; cases hk
          have h1 : ps[ps.idxOf w]'(by omega) = w := List.getElem_idxOf (by omega)
          have h2 : ps[k]? = some w := by
            rw [List.getElem?_eq_getElem hlen]; congr 1
            simp only [hk'] at h1; exact h1
          rw [hk] at h2
          exact e (Option.some.inj h2).symm
        rw [if_neg this]

theorem NoAdj2_map (f : Tk → Tk2) (hf : ∀ t, (f t).isWord = true → t.isWord = true) :
    ∀ ts : List Tk, NoAdjWords ts → NoAdj2 (ts.map f) := by
  intro ts
  induction ts with
  | nil => intro _; trivial
  | cons a rest ih =>
    intro h
    cases rest with
    | nil => trivial
    | cons b r =>
      refine ⟨?_, ih h.2⟩
      intro ⟨h1, h2⟩
      exact h.1 ⟨hf a h1, hf b h2⟩

theorem st_isWord (ps : List (List Char)) (k : Nat) (t : Tk) : (st ps k t).isWord = true → t.isWord = true := by
  cases t with
  | sep s => intro h; exact h
  | word w => intro _; rfl

theorem st_WF (ps : List (List Char)) (k : Nat) (t : Tk) (h : t.WF) : (st ps k t).WF := by
  cases t with
  | sep s => exact h
  | word w => simp only [st]; split <;> [trivial; exact h]

/-- definition-time storing, for every parameter list: after all parameters, exactly the words that
    are parameters have become the placeholder of their (first) position -/
theorem macroStore_from (ps : List (List Char)) (hps : ∀ p ∈ ps, IsName p) (ts : List Tk) (hwf : ∀ t ∈ ts, t.WF) (hadj : NoAdjWords ts) :
    ∀ (suf : List (List Char)) (k : Nat), (∀ i, suf[i]? = ps[k + i]?) → (∀ p ∈ suf, p ∈ ps) →
      (suf.zipIdx k).foldl (fun r (pi : List Char × Nat) => replaceWord pi.1 (placeholder pi.2) (r.length + 1) none r)
        (flat2 (ts.map (st ps k))) = flat2 (ts.map (st ps (k + suf.length))) := by
  intro suf
  induction suf with
  | nil => intro k _ _; simp
  | cons p suf ih =>
    intro k hk hmem
    simp only [List.zipIdx_cons, List.foldl_cons]
    have hn := hps p (hmem p (by simp))
    have hpk : ps[k]? = some p := by have := hk 0; simpa using this.symm
    rw [replaceWord_tokens2 p k hn.ne_nil hn.1 hn.ne_digits (ts.map (st ps k)) _ none
      (by intro t ht; obtain ⟨q, hq, rfl⟩ := List.mem_map.mp ht; exact st_WF ps k q (hwf q hq))
      (NoAdj2_map (st ps k) (st_isWord ps k) ts hadj)
      (by cases h : ts.map (st ps k) with
          | nil => trivial
          | cons a r => cases a with
            | ph _ => trivial
            | tk a => cases a <;> simp [BoundaryOk2, bnd])
      (Nat.lt_succ_self _)]
    rw [List.map_map]
    have : (subst2 p k ∘ st ps k) = st ps (k + 1) := funext (st_step ps k p hpk)
    rw [this, ih (k + 1) (by intro i; have := hk (i + 1); simpa [Nat.add_assoc, Nat.add_comm 1 i] using this)
      (fun q hq => hmem q (by simp [hq]))]
    simp only [List.length_cons]
    congr 3; omega

/-! ### the two stages composed -/

def pcOf : Tk2 → Pc
  | .tk t => .lit t.chars
  | .ph i => .hole i

theorem render_pcOf (l : List Tk2) : render (l.map pcOf) = flat2 l := by
  induction l with
  | nil => rfl
  | cons a l ih =>
    have h1 : render ((a :: l).map pcOf) = (pcOf a).text ++ render (l.map pcOf) := by simp [render]
    have h2 : flat2 (a :: l) = a.chars ++ flat2 l := by simp [flat2]
    rw [h1, h2, ih]
    cases a <;> rfl

theorem flat2_tk (ts : List Tk) : flat2 (ts.map Tk2.tk) = flat ts := by
  induction ts with
  | nil => rfl
  | cons a l ih =>
    have h1 : flat2 ((a :: l).map Tk2.tk) = a.chars ++ flat2 (l.map Tk2.tk) := by simp [flat2, Tk2.chars]
    have h2 : flat (a :: l) = a.chars ++ flat l := by simp [flat]
    rw [h1, h2, ih]

theorem st_zero (ps : List (List Char)) : st ps 0 = Tk2.tk := by
  funext t; cases t <;> simp [st]

/-- the reference expansion of one body token: a word that is a parameter becomes the argument at
    the parameter's (first) position — its placeholder text if the use gives too few arguments —
    every other word and every separator is copied -/
def expandTk (ps args : List (List Char)) : Tk → List Char
  | .sep s => s
  | .word w =>
    if ps.idxOf w < ps.length then
      (match args[ps.idxOf w]? with | some a => a | none => placeholder (ps.idxOf w))
    else w

/-- **Macro expansion = simultaneous whole-word substitution**, for every body, every parameter list
    and every argument list the grammar can produce. -/
theorem macro_expansion (ps args : List (List Char)) (ts : List Tk)
    (hps : ∀ p ∈ ps, IsName p) (hwf : ∀ t ∈ ts, t.WF) (hadj : NoAdjWords ts)
    (hbody : ∀ t ∈ ts, ∀ c ∈ t.chars, c ≠ '{') (hargs : ∀ a ∈ args, ∀ c ∈ a, c ≠ '{') :
    macroInst args (macroStore ps (flat ts)) = ts.flatMap (expandTk ps args) := by
  have h1 : macroStore ps (flat ts) = flat2 (ts.map (st ps ps.length)) := by
    have := macroStore_from ps hps ts hwf hadj ps 0 (by intro i; simp) (fun p hp => hp)
    rw [st_zero, flat2_tk] at this
    simpa [macroStore] using this
  rw [h1, ← render_pcOf]
  rw [macroInst_render args _ (by
    intro pc hpc
    obtain ⟨t2, ht2, rfl⟩ := List.mem_map.mp hpc
    obtain ⟨t, ht, rfl⟩ := List.mem_map.mp ht2
    cases t with
    | sep s => exact hbody (.sep s) ht
    | word w =>
      simp only [st]
      split
      · trivial
      · exact hbody (.word w) ht) hargs]
  rw [List.map_map, List.map_map]
  simp only [render, List.flatMap_map]
  congr 1
  funext t
  cases t with
  | sep s => rfl
  | word w =>
    simp only [Function.comp, st, expandTk]
    by_cases h : ps.idxOf w < ps.length
    · rw [if_pos h, if_pos h]
      simp only [pcOf, fillFrom, Nat.zero_le, if_true, Nat.sub_zero]
      cases args[ps.idxOf w]? <;> rfl
    · rw [if_neg h, if_neg h]; rfl

/-! ### every text has the token form -/

def consTk (c : Char) : List Tk → List Tk
  | .word w :: r => if isWordChar c then .word (c :: w) :: r else .sep [c] :: .word w :: r
  | .sep s :: r => if isWordChar c then .word [c] :: .sep s :: r else .sep (c :: s) :: r
  | [] => if isWordChar c then [.word [c]] else [.sep [c]]

def tokenize : List Char → List Tk
  | [] => []
  | c :: cs => consTk c (tokenize cs)

theorem flat_consTk (c : Char) (ts : List Tk) : flat (consTk c ts) = c :: flat ts := by
  cases ts with
  | nil => simp only [consTk]; split <;> rfl
  | cons t r =>
    cases t <;> (simp only [consTk]; split <;> simp [flat, Tk.chars])

theorem flat_tokenize (cs : List Char) : flat (tokenize cs) = cs := by
  induction cs with
  | nil => rfl
  | cons c cs ih => rw [tokenize, flat_consTk, ih]

theorem consTk_WF (c : Char) (ts : List Tk) (h : ∀ t ∈ ts, t.WF) : ∀ t ∈ consTk c ts, t.WF := by
  cases ts with
  | nil =>
    simp only [consTk]
    by_cases hc : isWordChar c = true
    · simp [hc, Tk.WF]
    · simp [hc, Tk.WF]
  | cons t r =>
    have ht := h t (by simp)
    have hr : ∀ x ∈ r, x.WF := fun x hx => h x (by simp [hx])
    cases t with
    | word w =>
      simp only [consTk]
      by_cases hc : isWordChar c = true
      · simp only [hc, if_true]
        intro x hx
        rcases List.mem_cons.mp hx with e | e
        · subst e; exact ⟨by simp, fun y hy => by rcases List.mem_cons.mp hy with e | e; (subst e; exact hc); exact ht.2 y e⟩
        · exact hr x e
      · simp only [hc, if_false, Bool.false_eq_true]
        intro x hx
        rcases List.mem_cons.mp hx with e | e
        · subst e; exact ⟨by simp, fun y hy => by simp at hy; subst hy; simpa using hc⟩
        · exact h x e
    | sep s =>
      simp only [consTk]
      by_cases hc : isWordChar c = true
      · simp only [hc, if_true]
        intro x hx
        rcases List.mem_cons.mp hx with e | e
        · subst e; exact ⟨by simp, fun y hy => by simp at hy; subst hy; exact hc⟩
        · exact h x e
      · simp only [hc, if_false, Bool.false_eq_true]
        intro x hx
        rcases List.mem_cons.mp hx with e | e
        · subst e; exact ⟨by simp, fun y hy => by rcases List.mem_cons.mp hy with e | e; (subst e; simpa using hc); exact ht.2 y e⟩
        · exact hr x e

theorem consTk_NoAdj (c : Char) (ts : List Tk) (h : NoAdjWords ts) : NoAdjWords (consTk c ts) := by
  cases ts with
  | nil => simp only [consTk]; split <;> trivial
  | cons t r =>
    cases t with
    | word w =>
      simp only [consTk]
      split
      · cases r with
        | nil => trivial
        | cons b r' => exact ⟨fun ⟨_, hb⟩ => h.1 ⟨rfl, hb⟩, h.2⟩
      · exact ⟨fun ⟨ha, _⟩ => (by cases ha), h⟩
    | sep s =>
      simp only [consTk]
      split
      · exact ⟨fun ⟨_, hb⟩ => (by cases hb), h⟩
      · cases r with
        | nil => trivial
        | cons b r' => exact ⟨fun ⟨ha, _⟩ => (by cases ha), h.2⟩

theorem tokenize_WF (cs : List Char) : ∀ t ∈ tokenize cs, t.WF := by
  induction cs with
  | nil => intro t ht; simp [tokenize] at ht
  | cons c cs ih => exact consTk_WF c _ ih

theorem tokenize_NoAdj (cs : List Char) : NoAdjWords (tokenize cs) := by
  induction cs with
  | nil => trivial
  | cons c cs ih => exact consTk_NoAdj c _ ih

theorem tokenize_chars (cs : List Char) (P : Char → Prop) (h : ∀ c ∈ cs, P c) : ∀ t ∈ tokenize cs, ∀ c ∈ t.chars, P c := by
  intro t ht c hc
  apply h
  rw [← flat_tokenize cs]
  simp only [flat, List.mem_flatMap]
  exact ⟨t, ht, hc⟩

/-- the substitution theorem on raw text: for every brace-free body, parameter names and brace-free
    arguments, the two-stage expansion is the simultaneous whole-word substitution of the body's
    words -/
theorem macro_expansion_text (ps args : List (List Char)) (body : List Char)
    (hps : ∀ p ∈ ps, IsName p) (hbody : ∀ c ∈ body, c ≠ '{') (hargs : ∀ a ∈ args, ∀ c ∈ a, c ≠ '{') :
    macroInst args (macroStore ps body) = (tokenize body).flatMap (expandTk ps args) := by
  have := macro_expansion ps args (tokenize body) hps (tokenize_WF body) (tokenize_NoAdj body)
    (tokenize_chars body _ hbody) hargs
  rwa [flat_tokenize] at this

/-- non-vacuity / example: parameters that are prefixes of each other and of body words -/
example : macroInst ["bx".toList, "word [si,2]".toList] (macroStore ["a".toList, "ab".toList] "mov a, ab add ab1, a".toList)
    = "mov bx, word [si,2] add ab1, bx".toList := by
  decide +kernel

end Emu8086.Props.C13
