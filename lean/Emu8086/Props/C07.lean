/-
Property C07 — string instructions and REP move the right elements the right number of times.

  * `strStep_eq_strRef` : one execution of MOVS/LODS/STOS/CMPS/SCAS (model `strStep`, mirror of
    string.rs) equals the reference `Spec.strRef` for ALL DS, ES, SI, DI, AX, flags and memory: source
    element at DS:SI, destination at ES:DI, byte or little-endian word with the second byte at
    offset+1 (mod 2^16), SI/DI stepped by ±1/±2 (mod 2^16) according to DF, CMPS/SCAS set exactly the
    flags of SUB(source, destination) / SUB(accumulator, destination) and write nothing;
  * `str_refines`       : the same through `exec`, with and without a REP prefix (one protocol step);
  * `rep_protocol`      : driving `exec` on the same line until it stops answering REPEAT (the driver's
    loop) terminates within CX+1 calls for EVERY CX and equals the reference loop `repRef`: the body
    executes once per iteration, CX is decremented once per executed iteration, REPE/REPNE stop after
    the first iteration that leaves ZF=0/ZF=1 — induction on CX, no bound;
  * `rep_exact`         : for plain REP the body executes exactly CX times and CX ends at 0;
    `rep_zero`: CX = 0 executes nothing.
-/
import Std.Tactic.BVDecide
import Emu8086.Lemmas.ExecBridge
import Emu8086.Spec.Rep

namespace Emu8086.Props.C07
open Emu8086 Emu8086.Spec

theorem strAdvance_eq (m : Machine) (x w : BitVec 16) :
    strAdvance m x w = if DF m.flag then x - w else x + w := by
  simp only [strAdvance, getFlag, Flag.mask, Gen.FLAG_DIRECTION, DF]
  congr 1; bv_decide

theorem strReadByte_eq (m : Machine) (s o : BitVec 16) : strReadByte m s o = byteAt m (phys s o) := by
  simp [strReadByte, readByte_eq_byteAt, calcAddr_eq_phys]
theorem strReadWord_eq (m : Machine) (s o : BitVec 16) :
    strReadWord m s o = (byteAt m (phys s (o + 1#16))).setWidth 16 <<< 8 ||| (byteAt m (phys s o)).setWidth 16 := by
  simp only [strReadWord, strReadByte_eq]; rw [BitVec.or_comm]
theorem strWriteByte_eq (m : Machine) (s o : BitVec 16) (v : BitVec 8) :
    strWriteByte m s o v = putByte m (phys s o) v := by
  simp [strWriteByte, writeByte_eq_putByte, calcAddr_eq_phys]

theorem compareByte_eq (m : Machine) (a b : BitVec 8) :
    compareByte m a b = { m with flag := (SUB m.flag a b).2 } := by
  simp only [compareByte, setAllFlags, putFlag, setFlag, unsetFlag, Flag.mask, hasEvenParity,
    Gen.FLAG_OVERFLOW, Gen.FLAG_SIGN, Gen.FLAG_ZERO, Gen.FLAG_AUX_CARRY, Gen.FLAG_PARITY, Gen.FLAG_CARRY,
    SUB, sub, withStatus, bit, zf, sf, pf, parityEven]
  congr 1; bv_decide
theorem compareWord_eq (m : Machine) (a b : BitVec 16) :
    compareWord m a b = { m with flag := (SUB m.flag a b).2 } := by
  simp only [compareWord, setAllFlags, putFlag, setFlag, unsetFlag, Flag.mask, hasEvenParity,
    Gen.FLAG_OVERFLOW, Gen.FLAG_SIGN, Gen.FLAG_ZERO, Gen.FLAG_AUX_CARRY, Gen.FLAG_PARITY, Gen.FLAG_CARRY,
    SUB, sub, withStatus, bit, zf, sf, pf, parityEven]
  congr 1; bv_decide

theorem strStep_eq_strRef (op : StrOp) (word : Bool) (m : Machine) : strStep op word m = strRef op word m := by
  cases op <;> cases word <;>
    simp [strStep, strRef, strAdvance_eq, strReadByte_eq, strReadWord_eq, strWriteByte_eq, strWriteWord,
      compareByte_eq, compareWord_eq, elemAt, putElem, stepIdx, acc, cmpFlags, getByteReg_eq, setByteReg_eq,
      get8, set8, hi_of_word, lo_of_word]
  all_goals (first | rfl | (split <;> rfl))


theorem zf_mask (fl : BitVec 16) : (fl &&& Flag.ZERO.mask != 0#16) = ZF fl := by
  simp only [Flag.mask, Gen.FLAG_ZERO, ZF]; bv_decide
theorem zf_mask' (fl : BitVec 16) : (fl &&& Flag.ZERO.mask == 0#16) = !ZF fl := by
  simp only [Flag.mask, Gen.FLAG_ZERO, ZF]; bv_decide

theorem str_refines (cur : Nat) (m : Machine) (ctx : Ctx) (p : Option RepPrefix) (op : StrOp) (word : Bool) :
    okOf (exec cur m ctx (.str p op word)) = strip (execRef cur m ctx (.str p op word)) := by
  simp only [exec, execRef, strStep_eq_strRef]
  cases p with
  | none => rfl
  | some pre =>
    by_cases h : m.cx == 0#16
    · simp [h]
    · cases pre <;> simp [h, zf_mask, zf_mask'] <;> split <;> simp_all

/-! ### the REPEAT protocol, for every CX -/

theorem rep_protocol (cur : Nat) (ctx : Ctx) (pre : RepPrefix) (op : StrOp) (word : Bool) :
    ∀ (n : Nat) (m : Machine), m.cx.toNat = n →
      runRep cur ctx (.str (some pre) op word) (n + 1) m = some (.NEXT, repRef pre op word n m) := by
  intro n
  induction n with
  | zero =>
    intro m h
    have h0 : m.cx = 0#16 := BitVec.eq_of_toNat_eq (by simpa using h)
    simp [runRep, exec, repRef, h0]
  | succ n ih =>
    intro m h
    have hne : (m.cx == 0#16) = false := by
      simp only [beq_eq_false_iff_ne, ne_eq]; intro e; rw [e] at h; simp at h
    have hcx : (m.cx - 1#16).toNat = n := by
      have := m.cx.isLt; simp only [BitVec.toNat_sub, BitVec.toNat_ofNat]; omega
    have hstep : ({ strRef op word m with cx := (strRef op word m).cx - 1#16 } : Machine)
        = { strRef op word m with cx := m.cx - 1#16 } := by
      cases op <;> cases word <;> rfl
    rw [runRep]
    simp only [exec, strStep_eq_strRef, hne, Bool.false_eq_true, if_false, hstep, repRef]
    cases pre
    · simp only [again, if_true]
      exact ih _ hcx
    · simp only [again, zf_mask]
      by_cases hz : ZF (strRef op word m).flag = true
      · simp only [hz, if_true]; exact ih _ hcx
      · simp [hz]
    · simp only [again, zf_mask']
      by_cases hz : ZF (strRef op word m).flag = true
      · simp [hz]
      · simp only [hz, Bool.not_false, if_true]
        have := ih { strRef op word m with cx := m.cx - 1#16 } hcx
        simpa [hz] using this

/-- CX = 0: nothing executes -/
theorem rep_zero (cur : Nat) (ctx : Ctx) (pre : RepPrefix) (op : StrOp) (word : Bool) (m : Machine)
    (h : m.cx = 0#16) : exec cur m ctx (.str (some pre) op word) = .ok (.NEXT, m, ctx) := by
  simp [exec, h]

/-- the body does not look at CX -/
theorem strRef_cx (op : StrOp) (word : Bool) (m : Machine) (c : BitVec 16) :
    strRef op word { m with cx := c } = { strRef op word m with cx := c } := by
  cases op <;> cases word <;> rfl

theorem repRef_rep_cx (op : StrOp) (word : Bool) : ∀ (n : Nat) (m : Machine) (c : BitVec 16),
    { repRef .rep op word n { m with cx := c } with cx := 0#16 } = { repRef .rep op word n m with cx := 0#16 } := by
  intro n
  induction n with
  | zero => intro m c; rfl
  | succ n ih =>
    intro m c
    simp only [repRef, again, if_true, strRef_cx]
    rw [ih (strRef op word m) (c - 1#16), ih (strRef op word m) (m.cx - 1#16)]

theorem repRef_rep_cx_val (op : StrOp) (word : Bool) : ∀ (n : Nat) (m : Machine), m.cx.toNat = n →
    (repRef .rep op word n m).cx = 0#16 := by
  intro n
  induction n with
  | zero => intro m h; exact BitVec.eq_of_toNat_eq (by simpa [repRef] using h)
  | succ n ih =>
    intro m h
    simp only [repRef, again, if_true]
    apply ih
    have := m.cx.isLt; simp only [BitVec.toNat_sub, BitVec.toNat_ofNat]; omega

/-- plain REP: the body executes exactly CX times, CX ends at 0 -/
theorem rep_exact (op : StrOp) (word : Bool) : ∀ (n : Nat) (m : Machine), m.cx.toNat = n →
    repRef .rep op word n m = { iter (strRef op word) n m with cx := 0#16 } := by
  intro n m h
  have hc := repRef_rep_cx_val op word n m h
  have : repRef .rep op word n m = { repRef .rep op word n m with cx := 0#16 } := by
    rw [← hc]
  rw [this]; clear this hc h
  induction n generalizing m with
  | zero => rfl
  | succ n ih =>
    simp only [repRef, again, if_true]
    rw [repRef_rep_cx, ih]
    -- iter applies the body on the outside; commute one application to the inside
    have comm : ∀ k (x : Machine), iter (strRef op word) k (strRef op word x) = strRef op word (iter (strRef op word) k x) := by
      intro k; induction k with
      | zero => intro x; rfl
      | succ k ihk => intro x; simp only [iter, ihk]
    rw [comm]; rfl

end Emu8086.Props.C07
