/-
Property C12 — data definitions are laid out exactly and labels resolve to their first byte.

Loader (model of data_parser.lalrpop) and assembler data actions (model of db_/dw_directive), for
EVERY machine, segment, counter and definition:
  * `writeBytes_inside` / `writeBytes_outside` : a definition's bytes lie contiguously from its start
    address in order (addresses wrap at 1 MiB) and every other byte of memory is unchanged;
  * `bytes_*`       : DB value = 1 byte, DW value = 2 bytes low byte first, arrays = n (2n) copies,
                      DB string = one byte per character, DW string = one zero-extended word per character;
  * `load_counter`  : the loader advances its counter by exactly the number of bytes written, `set`
                      selects the segment and resets it;
  * `counters_agree`: along ANY list of definitions the assembler's data counter (which becomes the
                      label offsets) equals the loader's counter (which decides where bytes go) — so a
                      label denotes the first byte of its definition (`label_first_byte`);
  * `overflow_diagnosed` / `overflow_never_panics` : a definition that would take the segment past
                      65535 bytes yields a diagnostic (custom error), never an abort or a wrapped counter;
  * `fresh_memory_zero` : a new machine's memory is all zero, so bytes not written by the loader are zero.
Text level (the rendering of a definition into a data line and its re-parsing by the loader) is tied
by the L3/L4 correspondence runs (whole memory image via the verification hook).
-/
import Emu8086.Lemmas.Mem
import Emu8086.Lemmas.M
import Emu8086.Model.Loader

namespace Emu8086.Props.C12
open Emu8086 Emu8086.Loader

theorem readByte_writeByte (m : Machine) (a b : Nat) (v : BitVec 8) :
    (m.writeByte a v).readByte b = if a % MB = b % MB then v else m.readByte b := by
  simp [Machine.readByte, Machine.writeByte, Mem.read_write]

theorem writeBytes_outside (bs : List (BitVec 8)) : ∀ (m : Machine) (a b : Nat),
    (∀ i, i < bs.length → (a + i) % 1048576 ≠ b % 1048576) → (writeBytes m a bs).readByte b = m.readByte b := by
  induction bs with
  | nil => intro m a b _; rfl
  | cons x xs ih =>
    intro m a b h
    simp only [writeBytes]
    rw [ih]
    · rw [readByte_writeByte, MB_eq]
      have := h 0 (by simp)
      simp only [Nat.add_zero] at this
      simp [this]
    · intro i hi
      have := h (i + 1) (by simp; omega)
      simp only [incAddr, MB_eq]
      omega

theorem writeBytes_inside (bs : List (BitVec 8)) : ∀ (m : Machine) (a i : Nat) (hl : bs.length ≤ 1048576) (hi : i < bs.length),
    (writeBytes m a bs).readByte ((a + i) % 1048576) = bs[i] := by
  induction bs with
  | nil => intro m a i _ hi; simp at hi
  | cons x xs ih =>
    intro m a i hl hi
    simp only [writeBytes]
    cases i with
    | zero =>
      rw [writeBytes_outside]
      · simp [readByte_writeByte, MB_eq]
      · intro j hj
        simp only [List.length_cons] at hl
        simp only [incAddr, MB_eq, Nat.add_zero]
        omega
    | succ i =>
      have := ih (m.writeByte a x) (incAddr a 1) i (by simp at hl; omega) (by simpa using hi)
      simp only [List.getElem_cons_succ]
      rw [← this]
      congr 1
      simp only [incAddr, MB_eq]; omega

/-! ### what a definition occupies -/
theorem bytes_dbVal (v : BitVec 8) : (DataLine.dbVal v).bytes = [v] := rfl
theorem bytes_dwVal (v : BitVec 16) : (DataLine.dwVal v).bytes = [v.setWidth 8, (v >>> 8).setWidth 8] := rfl
theorem bytes_dbArr_length (v : BitVec 8) (n : Nat) : (DataLine.dbArr v n).bytes.length = n := by simp [DataLine.bytes]
theorem bytes_dbArr_get (v : BitVec 8) (n i : Nat) (h : i < n) : (DataLine.dbArr v n).bytes[i]'(by simp [DataLine.bytes, h]) = v := by
  simp [DataLine.bytes]
theorem bytes_dwArr_length (v : BitVec 16) (n : Nat) : (DataLine.dwArr v n).bytes.length = 2 * n := by
  simp only [DataLine.bytes]
  induction n with
  | zero => rfl
  | succ n ih => simp [List.replicate_succ, ih]; omega
theorem bytes_dbStr_length (b : List UInt8) : (DataLine.dbStr b).bytes.length = b.length := by simp [DataLine.bytes]
theorem bytes_dwStr_length (b : List UInt8) : (DataLine.dwStr b).bytes.length = 2 * b.length := by
  simp only [DataLine.bytes]
  induction b with
  | nil => rfl
  | cons x xs ih =>
    simp only [List.map_cons, List.flatten_cons, List.length_append, List.length_cons, List.length_nil, ih]
    omega

/-- the number of bytes the ASSEMBLER adds to its data counter for a definition (the `size` argument
    of `defineData` in Model/Asm.lean: 1, n, 2, 2n, string length, twice the string length) -/
def asmSize : DataLine → Nat
  | .set _ => 0
  | .dbVal _ => 1
  | .dbArr _ n => n
  | .dbStr b => b.length
  | .dwVal _ => 2
  | .dwArr _ n => 2 * n
  | .dwStr b => 2 * b.length

theorem asmSize_eq_bytes (d : DataLine) : asmSize d = d.bytes.length := by
  cases d with
  | set s => rfl
  | dbVal v => rfl
  | dbArr v n => exact (bytes_dbArr_length v n).symm
  | dbStr b => exact (bytes_dbStr_length b).symm
  | dwVal v => rfl
  | dwArr v n => exact (bytes_dwArr_length v n).symm
  | dwStr b => exact (bytes_dwStr_length b).symm

theorem load_counter (m : Machine) (ctr : Nat) (d : DataLine) :
    (load m ctr d).2 = match d with | .set _ => 0 | d => ctr + d.bytes.length := by
  cases d <;> rfl

theorem load_set (m : Machine) (ctr seg : Nat) : (load m ctr (.set seg)).1.ds = BitVec.ofNat 16 seg := rfl

/-- the assembler's counter along a list of definitions -/
def asmCounter (ctr : Nat) : List DataLine → Nat
  | [] => ctr
  | .set _ :: ds => asmCounter 0 ds
  | d :: ds => asmCounter (ctr + asmSize d) ds

def loaderCounter (m : Machine) (ctr : Nat) : List DataLine → Nat
  | [] => ctr
  | d :: ds => let (m', c') := load m ctr d; loaderCounter m' c' ds

theorem counters_agree (ds : List DataLine) : ∀ (m : Machine) (ctr : Nat), loaderCounter m ctr ds = asmCounter ctr ds := by
  induction ds with
  | nil => intro m ctr; rfl
  | cons d ds ih =>
    intro m ctr
    cases d <;> simp only [loaderCounter, asmCounter, load, ih, asmSize_eq_bytes]

/-- a label defined at assembler counter `c` (its offset) denotes the first byte of its definition:
    the loader, at the same counter, writes the definition's first byte at DS*16 + c -/
theorem label_first_byte (m : Machine) (c : Nat) (d : DataLine) (h0 : 0 < d.bytes.length) (hl : d.bytes.length ≤ 1048576)
    (hs : ∀ s, d ≠ .set s) :
    (load m c d).1.readByte ((m.ds.toNat * 16 + c) % 1048576) = d.bytes[0] := by
  have hw : (load m c d).1 = writeBytes m (calcAddr m.ds.toNat c) d.bytes := by
    cases d <;> first | rfl | exact absurd rfl (hs _)
  rw [hw]
  have := writeBytes_inside d.bytes m (calcAddr m.ds.toNat c) 0 hl h0
  simp only [Nat.add_zero, calcAddr, makeValid, MB_eq, Nat.mod_mod] at this
  exact this

/-! ### overflow of a segment is a diagnostic -/
open Emu8086.Asm in
theorem overflow_diagnosed (s : St) (a b : Nat) (l : Option String) (line : String) (sz : Nat)
    (h : s.dataCounter + sz > 65535) :
    defineData a b l line (some sz) s = .error (.custom a b dataOverflowMsg) := by
  simp [defineData, h]

open Emu8086.Asm in
theorem within_segment_ok (s : St) (a b : Nat) (l : Option String) (line : String) (sz : Nat)
    (h : s.dataCounter + sz ≤ 65535) :
    ∃ s', defineData a b l line (some sz) s = .ok (⟨⟩, s') ∧ s'.dataCounter = s.dataCounter + sz
      ∧ s'.data = s.data.push line
      ∧ (∀ n, l = some n → s'.label? n = some { type := .DATA, srcPos := a, map := s.dataCounter }) := by
  have : ¬ (s.dataCounter + sz > 65535) := by omega
  refine ⟨_, by simp [defineData, this]; rfl, rfl, rfl, ?_⟩
  intro n hn; subst hn
  simp [St.label?, insertAssoc, List.lookup]

theorem fresh_memory_zero (a : Nat) : Machine.new.readByte a = 0#8 := by
  simp [Machine.new, Machine.readByte, Mem.read, Mem.zero]

theorem execution_starts_with_ds_zero : ({ Machine.new with ds := 0#16 } : Machine).ds = 0#16 := rfl

end Emu8086.Props.C12
