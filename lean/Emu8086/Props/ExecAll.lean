/-
Whole-interpreter refinement (serves C01–C07, C09): for EVERY instruction the interpreter's parser
can produce, EVERY machine state and every context the assembler can build, the model's `exec`
(mirror of the parser actions of interpreter.lalrpop and of src/lib/instructions) refines the
reference semantics `Spec.execRef` — same outcome, same context, same machine except for the flag
bits the 8086 manual leaves undefined for that instruction (`RefinesMask`) — outside the classes of
the open known findings (`Spec.knownFinding … = "-"`).  The per-family theorems are combined in
`exec_refines`.
-/
import Std.Tactic.BVDecide
import Emu8086.Props.C01Exec
import Emu8086.Props.C02
import Emu8086.Props.C03
import Emu8086.Props.C04
import Emu8086.Props.C05
import Emu8086.Props.C06
import Emu8086.Props.C07
import Emu8086.Props.C09
import Emu8086.Lemmas.Mem

namespace Emu8086.Props.ExecAll
open Emu8086 Emu8086.Spec

/-- registers other than FLAGS -/
def regs13 (m : Machine) := (m.ax, m.bx, m.cx, m.dx, m.sp, m.bp, m.si, m.di, m.ip, m.cs, m.ds, m.ss, m.es)

/-- machines equal except for the flag bits in `undef`: same registers, same content of every memory
    cell (the overlay representation may differ: the code writes an unchanged operand back), same
    flags outside `undef` -/
def EqMask (a b : Machine) (undef : BitVec 16) : Prop :=
  regs13 a = regs13 b ∧ (∀ x, a.mem.read x = b.mem.read x) ∧ a.flag &&& ~~~undef = b.flag &&& ~~~undef

def RefinesMask (r : Except String (State × Machine × Ctx)) (s : Spec.Res) : Prop :=
  match okOf r, s with
  | none, .error _ => True
  | some (st, m, c), .ok (st', m', c', u) => st = st' ∧ c = c' ∧ EqMask m m' u
  | _, _ => False

theorem EqMask.refl (m : Machine) (u : BitVec 16) : EqMask m m u := ⟨rfl, fun _ => rfl, rfl⟩

theorem refinesMask_of_eq (r : Except String (State × Machine × Ctx)) (s : Spec.Res) (h : okOf r = strip s) :
    RefinesMask r s := by
  unfold RefinesMask
  cases s with
  | error e => simp [strip] at h; simp [h]
  | ok v =>
    obtain ⟨st', m', c', u⟩ := v
    simp [strip] at h; simp [h, EqMask.refl]

theorem bit_eq (b : Bool) : bit b 16 = (BitVec.ofBool b).setWidth 16 := by cases b <;> rfl

/-! ### logic -/
theorem logic8_fn (f : LogicOp) (fl : BitVec 16) (a b : BitVec 8) :
    (logic8 f fl a b).1 = (logicRef f fl a b).1
    ∧ (logic8 f fl a b).2 &&& ~~~0x0010#16 = (logicRef f fl a b).2 &&& ~~~0x0010#16 := by
  cases f <;> (simp only [logic8, logicRef, byteAnd, byteOr, byteXor, byteTest, logicFlags8, logicVal, withStatus, setFlagHelper,
    putFlag, setFlag, unsetFlag, Flag.mask, hasEvenParity, Gen.FLAG_OVERFLOW, Gen.FLAG_SIGN, Gen.FLAG_ZERO, Gen.FLAG_PARITY,
    Gen.FLAG_CARRY, bit_eq, zf, sf, pf, parityEven]; constructor <;> first | rfl | bv_decide)

theorem logic16_fn (f : LogicOp) (fl : BitVec 16) (a b : BitVec 16) :
    (logic16 f fl a b).1 = (logicRef f fl a b).1
    ∧ (logic16 f fl a b).2 &&& ~~~0x0010#16 = (logicRef f fl a b).2 &&& ~~~0x0010#16 := by
  cases f <;> (simp only [logic16, logicRef, wordAnd, wordOr, wordXor, wordTest, logicFlags16, logicVal, withStatus, setFlagHelper,
    putFlag, setFlag, unsetFlag, Flag.mask, hasEvenParity, Gen.FLAG_OVERFLOW, Gen.FLAG_SIGN, Gen.FLAG_ZERO, Gen.FLAG_PARITY,
    Gen.FLAG_CARRY, bit_eq, zf, sf, pf, parityEven]; constructor <;> first | rfl | bv_decide)

theorem wr8_flag (m : Machine) (f : BitVec 16) (p : Place) (v : BitVec 8) :
    wr8 { m with flag := f } p v = { wr8 m p v with flag := f } := by
  cases p with
  | r8 r => cases r <;> rfl
  | _ => rfl
theorem wr16_flag (m : Machine) (f : BitVec 16) (p : Place) (v : BitVec 16) :
    wr16 { m with flag := f } p v = { wr16 m p v with flag := f } := by
  cases p with
  | r16 r => cases r <;> rfl
  | _ => rfl

theorem eqMask_flags (m : Machine) (f1 f2 u : BitVec 16) (h : f1 &&& ~~~u = f2 &&& ~~~u) :
    EqMask { m with flag := f1 } { m with flag := f2 } u := ⟨rfl, fun _ => rfl, h⟩

/-- resolution of operands followed by an action, modulo a mask -/
theorem bind_refinesMask {α β} (x : Except String α) (y : Except String β) (f : β → α)
    (k : α → Except String (State × Machine × Ctx)) (k' : β → Spec.Res)
    (hx : okOf x = (okOf y).map f) (hk : ∀ p, RefinesMask (k (f p)) (k' p)) :
    RefinesMask (x >>= k) (y >>= k') := by
  cases x <;> cases y <;> simp_all [okOf, bind, Except.bind, RefinesMask]

theorem logic8_refines (cur : Nat) (m : Machine) (ctx : Ctx) (f : LogicOp) (d s : Op8) (hc : ctx.WF)
    (hd : d.WF = true) (hs : s.WF = true) :
    RefinesMask (exec cur m ctx (.logic8 f d s)) (execRef cur m ctx (.logic8 f d s)) := by
  simp only [exec, execRef]
  refine bind_refinesMask _ _ Place.toLoc _ _ (resolve8_eq m ctx hc d hd) fun pd => ?_
  refine bind_refinesMask _ _ Place.toLoc _ _ (resolve8_eq m ctx hc s hs) fun ps => ?_
  obtain ⟨h1, h2⟩ := logic8_fn f m.flag (rd8 m pd) (rd8 m ps)
  simp only [load8_eq, store8_eq, RefinesMask, okOf_ok, next, h1, wr8_flag]
  refine ⟨?_, ?_, eqMask_flags _ _ _ _ h2⟩ <;> trivial

theorem logic16_refines (cur : Nat) (m : Machine) (ctx : Ctx) (f : LogicOp) (d s : Op16) (hc : ctx.WF)
    (hd : d.WF = true) (hs : s.WF = true) :
    RefinesMask (exec cur m ctx (.logic16 f d s)) (execRef cur m ctx (.logic16 f d s)) := by
  simp only [exec, execRef]
  refine bind_refinesMask _ _ Place.toLoc _ _ (resolve16_eq m ctx hc d hd) fun pd => ?_
  refine bind_refinesMask _ _ Place.toLoc _ _ (resolve16_eq m ctx hc s hs) fun ps => ?_
  obtain ⟨h1, h2⟩ := logic16_fn f m.flag (rd16 m pd) (rd16 m ps)
  simp only [load16_eq, store16_eq, RefinesMask, okOf_ok, next, h1, wr16_flag]
  refine ⟨?_, ?_, eqMask_flags _ _ _ _ h2⟩ <;> trivial


/-! ### shifts and rotates -/
theorem flag_bridge_shift (fl fl' : BitVec 16) (c z s p o n1 : Bool)
    (h0 : fl'.getLsbD 0 = c) (h6 : fl'.getLsbD 6 = z) (h7 : fl'.getLsbD 7 = s) (h2 : fl'.getLsbD 2 = p)
    (hr : fl' &&& ~~~0x08D5#16 = fl &&& ~~~0x08D5#16) (h11 : n1 = true → fl'.getLsbD 11 = o) :
    fl' &&& ~~~((if n1 then 0#16 else 0x0800#16) ||| 0x0010#16)
      = withStatus fl { cf := c, of := if n1 then o else fl.getLsbD 11, zf := z, sf := s, pf := p, af := fl.getLsbD 4 }
          &&& ~~~((if n1 then 0#16 else 0x0800#16) ||| 0x0010#16) := by
  subst h0 h6 h7 h2
  cases n1
  · simp only [withStatus, bit_eq, Bool.false_eq_true, if_false]; bv_decide
  · have := h11 rfl; subst this
    simp only [withStatus, bit_eq, if_true]; bv_decide

theorem flag_bridge_rotate (fl fl' : BitVec 16) (c o n1 : Bool)
    (h0 : fl'.getLsbD 0 = c) (hr : fl' &&& ~~~0x0801#16 = fl &&& ~~~0x0801#16) (h11 : n1 = true → fl'.getLsbD 11 = o) :
    fl' &&& ~~~((if n1 then 0#16 else 0x0800#16) ||| 0#16)
      = withStatus fl { cf := c, of := if n1 then o else fl.getLsbD 11, zf := fl.getLsbD 6, sf := fl.getLsbD 7, pf := fl.getLsbD 2,
                        af := fl.getLsbD 4 } &&& ~~~((if n1 then 0#16 else 0x0800#16) ||| 0#16) := by
  subst h0
  cases n1
  · simp only [withStatus, bit_eq, Bool.false_eq_true, if_false]; bv_decide
  · have := h11 rfl; subst this
    simp only [withStatus, bit_eq, if_true]; bv_decide

/-- from the acceptance predicate of C02 to the functional reference: same result, same flags
    outside the bits the manual leaves undefined -/
theorem shift_bridge {w : Nat} (f : ShiftOp) (fl : BitVec 16) (v : BitVec w) (n : Nat) (out : BitVec w × BitVec 16)
    (h : shiftOk (shOpOf f) fl v n out = true) :
    out.1 = (shiftRef f fl v n).1
    ∧ out.2 &&& ~~~(shiftRef f fl v n).2.2 = (shiftRef f fl v n).2.1 &&& ~~~(shiftRef f fl v n).2.2 := by
  obtain ⟨r, fl'⟩ := out
  unfold shiftOk at h
  unfold shiftRef
  by_cases hn : n = 0
  · simp only [hn, if_true, Bool.and_eq_true, beq_iff_eq] at h ⊢
    exact ⟨h.1, by rw [h.2]⟩
  · simp only [hn, if_false] at h ⊢
    generalize iter (step1 (shOpOf f)) n (v, cfOf fl) = it at h ⊢
    obtain ⟨rs, cs⟩ := it
    simp only [Bool.and_eq_true, beq_iff_eq] at h
    obtain ⟨⟨⟨hres, hcf⟩, hmid⟩, hof⟩ := h
    refine ⟨hres, ?_⟩
    have h11 : (decide (n = 1)) = true → fl'.getLsbD 11 = of1 (shOpOf f) v rs cs := by
      intro h1; have h1' : n = 1 := by simpa using h1
      simpa [h1'] using hof
    by_cases hs : (shOpOf f).isShift = true
    · simp only [hs, if_true, Bool.and_eq_true, beq_iff_eq] at hmid ⊢
      obtain ⟨⟨⟨h6, h7⟩, h2⟩, hr⟩ := hmid
      have := flag_bridge_shift fl fl' cs (zf rs) (sf rs) (pf rs) (of1 (shOpOf f) v rs cs) (decide (n = 1)) hcf h6 h7 h2
        (by simpa [shiftMayChange] using hr) h11
      by_cases h1 : n = 1 <;> simpa [h1] using this
    · have hs' : (shOpOf f).isShift = false := by simpa using hs
      simp only [hs', Bool.false_eq_true, if_false, beq_iff_eq] at hmid ⊢
      have := flag_bridge_rotate fl fl' cs (of1 (shOpOf f) v rs cs) (decide (n = 1)) hcf
        (by simpa [rotateMayChange] using hmid) h11
      by_cases h1 : n = 1 <;> simpa [h1] using this


open Emu8086.Props.C02 in
theorem shift8_ok (f : ShiftOp) (fl : BitVec 16) (v n : BitVec 8) :
    shiftOk (shOpOf f) fl v n.toNat (shift8 f fl v n) = true := by
  cases f
  · exact byteSal_ok fl v n
  · exact byteSar_ok fl v n
  · exact byteShr_ok fl v n
  · exact byteRol_ok fl v n
  · exact byteRor_ok fl v n
  · exact byteRcl_ok fl v n
  · exact byteRcr_ok fl v n

open Emu8086.Props.C02 in
theorem shift16_ok (f : ShiftOp) (fl : BitVec 16) (v : BitVec 16) (n : BitVec 8) :
    shiftOk (shOpOf f) fl v n.toNat (shift16 f fl v (n.setWidth 16)) = true := by
  cases f
  · exact wordSal_ok fl v n
  · exact wordSar_ok fl v n
  · exact wordShr_ok fl v n
  · exact wordRol_ok fl v n
  · exact wordRor_ok fl v n
  · exact wordRcl_ok fl v n
  · exact wordRcr_ok fl v n

theorem shift8_tail (m : Machine) (ctx : Ctx) (f : ShiftOp) (pd : Place) (n : BitVec 8) :
    RefinesMask
      (.ok (.NEXT, ({ m with flag := (shift8 f m.flag (m.load8 pd.toLoc) n).2 }).store8 pd.toLoc (shift8 f m.flag (m.load8 pd.toLoc) n).1, ctx))
      (next (wr8 { m with flag := (shiftRef f m.flag (rd8 m pd) n.toNat).2.1 } pd (shiftRef f m.flag (rd8 m pd) n.toNat).1) ctx
        (shiftRef f m.flag (rd8 m pd) n.toNat).2.2) := by
  obtain ⟨h1, h2⟩ := shift_bridge f m.flag (rd8 m pd) n.toNat _ (shift8_ok f m.flag (rd8 m pd) n)
  simp only [load8_eq, store8_eq, RefinesMask, okOf_ok, next, h1, wr8_flag]
  refine ⟨?_, ?_, eqMask_flags _ _ _ _ h2⟩ <;> trivial

theorem shift16_tail (m : Machine) (ctx : Ctx) (f : ShiftOp) (pd : Place) (n : BitVec 8) :
    RefinesMask
      (.ok (.NEXT, ({ m with flag := (shift16 f m.flag (m.load16 pd.toLoc) (n.setWidth 16)).2 }).store16 pd.toLoc
                      (shift16 f m.flag (m.load16 pd.toLoc) (n.setWidth 16)).1, ctx))
      (next (wr16 { m with flag := (shiftRef f m.flag (rd16 m pd) n.toNat).2.1 } pd (shiftRef f m.flag (rd16 m pd) n.toNat).1) ctx
        (shiftRef f m.flag (rd16 m pd) n.toNat).2.2) := by
  obtain ⟨h1, h2⟩ := shift_bridge f m.flag (rd16 m pd) n.toNat _ (shift16_ok f m.flag (rd16 m pd) n)
  simp only [load16_eq, store16_eq, RefinesMask, okOf_ok, next, h1, wr16_flag]
  refine ⟨?_, ?_, eqMask_flags _ _ _ _ h2⟩ <;> trivial

theorem shift8_refines (cur : Nat) (m : Machine) (ctx : Ctx) (f : ShiftOp) (d : Op8) (cnt : Option (BitVec 8))
    (hc : ctx.WF) (hd : d.WF = true) :
    RefinesMask (exec cur m ctx (.shift8 f d cnt)) (execRef cur m ctx (.shift8 f d cnt)) := by
  simp only [exec, execRef]
  refine bind_refinesMask _ _ Place.toLoc _ _ (resolve8_eq m ctx hc d hd) fun pd => ?_
  cases cnt with
  | some n => exact shift8_tail m ctx f pd n
  | none => simp only [Option.getD, getByteReg_eq]; exact shift8_tail m ctx f pd (get8 m .CL)

theorem shift16_refines (cur : Nat) (m : Machine) (ctx : Ctx) (f : ShiftOp) (d : Op16) (cnt : Option (BitVec 8))
    (hc : ctx.WF) (hd : d.WF = true) :
    RefinesMask (exec cur m ctx (.shift16 f d cnt)) (execRef cur m ctx (.shift16 f d cnt)) := by
  simp only [exec, execRef]
  refine bind_refinesMask _ _ Place.toLoc _ _ (resolve16_eq m ctx hc d hd) fun pd => ?_
  cases cnt with
  | some n => exact shift16_tail m ctx f pd n
  | none => simp only [Option.getD, getByteReg_eq]; exact shift16_tail m ctx f pd (get8 m .CL)


/-! ### MUL / IMUL / DIV / IDIV: function level against the functional reference -/
def rg (s : AluState) : Regs := ⟨s.flag, s.ax, s.dx⟩

def MdRel {w} (o : Option (AluState × BitVec w)) (v : BitVec w) (r : Option (Regs × BitVec 16)) : Prop :=
  match o, r with
  | none, none => True
  | some (s', v'), some (r, u) => v' = v ∧ s'.ax = r.ax ∧ s'.dx = r.dx ∧ s'.flag &&& ~~~u = r.flag &&& ~~~u
  | _, _ => False

local macro "md_unfold" : tactic => `(tactic|
  simp only [MdRel, rg, unary8, unary16, mulDivRef8, mulDivRef16, byteMul, byteImul, byteDiv, byteIdiv, wordMul, wordImul, wordDiv, wordIdiv,
    getAL, getAH, setAL, setAH, putFlag, setFlag, unsetFlag, getFlag, Flag.mask,
    Gen.FLAG_OVERFLOW, Gen.FLAG_CARRY, setCO, lo8, hi8, mk16, bit_eq, KF.imul8])

theorem mdRel_ite {w} (c : Bool) (a : AluState × BitVec w) (v : BitVec w) (b : Regs × BitVec 16)
    (h : MdRel (some a) v (some b)) :
    MdRel (if c = true then none else some a) v (if c = true then none else some b) := by
  cases c
  · simpa using h
  · simp [MdRel]

local macro "md_unfold'" : tactic => `(tactic|
  simp only [rg, unary8, unary16, mulDivRef8, mulDivRef16, byteMul, byteImul, byteDiv, byteIdiv, wordMul, wordImul, wordDiv, wordIdiv,
    getAL, getAH, setAL, setAH, putFlag, setFlag, unsetFlag, getFlag, Flag.mask,
    Gen.FLAG_OVERFLOW, Gen.FLAG_CARRY, setCO, lo8, hi8, mk16, bit_eq, KF.imul8])

local macro "fin4" : tactic => `(tactic| (refine ⟨?_, ?_, ?_, ?_⟩ <;> first | trivial | rfl | bv_decide))

theorem md8_mul (s : AluState) (v : BitVec 8) : MdRel (unary8 .mul s v) v (mulDivRef8 .mul (rg s) v) := by
  md_unfold; fin4
theorem md8_imul (s : AluState) (v : BitVec 8) (h : KF.imul8 s.ax v = false) :
    MdRel (unary8 .imul s v) v (mulDivRef8 .imul (rg s) v) := by
  revert h; md_unfold; intro h; refine ⟨?_, ?_, ?_, ?_⟩ <;> first | trivial | rfl | (revert h; bv_decide)
theorem md16_mul (s : AluState) (v : BitVec 16) : MdRel (unary16 .mul s v) v (mulDivRef16 .mul (rg s) v) := by
  md_unfold; fin4
theorem md16_imul (s : AluState) (v : BitVec 16) : MdRel (unary16 .imul s v) v (mulDivRef16 .imul (rg s) v) := by
  md_unfold; fin4

theorem md8_div (s : AluState) (v : BitVec 8) : MdRel (unary8 .div s v) v (mulDivRef8 .div (rg s) v) := by
  md_unfold
  by_cases h0 : v = 0#8
  · have h0t : (v == 0#8) = true := by simpa using h0
    simp only [h0t, ↓reduceIte, Bool.true_or, MdRel]
  · have h0' : (v == 0#8) = false := by simpa using h0
    simp only [h0', Bool.false_eq_true, ↓reduceIte, Bool.false_or]
    by_cases hq : s.ax / v.setWidth 16 > 255#16
    · simp [hq]
    · simp only [hq, ↓reduceIte, decide_false, Bool.false_eq_true]
      fin4

theorem md8_idiv (s : AluState) (v : BitVec 8) : MdRel (unary8 .idiv s v) v (mulDivRef8 .idiv (rg s) v) := by
  md_unfold'
  by_cases h0 : v = 0#8
  · have h0t : (v == 0#8) = true := by simpa using h0
    simp only [h0t, ↓reduceIte, Bool.true_or, MdRel]
  · have h0' : (v == 0#8) = false := by simpa using h0
    simp only [h0', Bool.false_eq_true, ↓reduceIte, Bool.false_or]
    apply mdRel_ite
    simp only [MdRel]
    fin4

theorem ref16_div (s : Regs) (v : BitVec 16) : mulDivRef16 .div s v =
    (if (v == 0#16 || ((s.dx.setWidth 32 <<< 16) ||| s.ax.setWidth 32) / v.setWidth 32 > 65535#32) = true then none
     else some ({ s with ax := (((s.dx.setWidth 32 <<< 16) ||| s.ax.setWidth 32) / v.setWidth 32).setWidth 16,
                         dx := (((s.dx.setWidth 32 <<< 16) ||| s.ax.setWidth 32) % v.setWidth 32).setWidth 16 }, 0x08D5#16)) := rfl

theorem ref16_idiv (s : Regs) (v : BitVec 16) : mulDivRef16 .idiv s v =
    (if (v == 0#16 || ((((s.dx.setWidth 32 <<< 16) ||| s.ax.setWidth 32).signExtend 64).sdiv (v.signExtend 64)).slt (-32768#64)
          || (32767#64).slt ((((s.dx.setWidth 32 <<< 16) ||| s.ax.setWidth 32).signExtend 64).sdiv (v.signExtend 64))) = true then none
     else some ({ s with ax := ((((s.dx.setWidth 32 <<< 16) ||| s.ax.setWidth 32).signExtend 64).sdiv (v.signExtend 64)).setWidth 16,
                         dx := ((((s.dx.setWidth 32 <<< 16) ||| s.ax.setWidth 32).signExtend 64).srem (v.signExtend 64)).setWidth 16 }, 0x08D5#16)) := rfl

theorem md16_div (s : AluState) (v : BitVec 16) : MdRel (unary16 .div s v) v (mulDivRef16 .div (rg s) v) := by
  rw [ref16_div]
  show MdRel (wordDiv s v) v _
  unfold wordDiv
  by_cases h0 : v = 0#16
  · have h0t : (v == 0#16) = true := by simpa using h0
    simp only [h0t, ↓reduceIte, Bool.true_or, MdRel]
  · have h0' : (v == 0#16) = false := by simpa using h0
    simp only [h0', Bool.false_eq_true, ↓reduceIte, Bool.false_or, rg]
    have := mdRel_ite (decide (((s.dx.setWidth 32 <<< 16) ||| s.ax.setWidth 32) / v.setWidth 32 > 65535#32))
      ({ s with ax := (((s.dx.setWidth 32 <<< 16) ||| s.ax.setWidth 32) / v.setWidth 32).setWidth 16,
                dx := (((s.dx.setWidth 32 <<< 16) ||| s.ax.setWidth 32) % v.setWidth 32).setWidth 16 }, v) v
      ({ flag := s.flag, ax := (((s.dx.setWidth 32 <<< 16) ||| s.ax.setWidth 32) / v.setWidth 32).setWidth 16,
         dx := (((s.dx.setWidth 32 <<< 16) ||| s.ax.setWidth 32) % v.setWidth 32).setWidth 16 }, 0x08D5#16)
      (by simp only [MdRel]; fin4)
    simpa using this

theorem md16_idiv (s : AluState) (v : BitVec 16) : MdRel (unary16 .idiv s v) v (mulDivRef16 .idiv (rg s) v) := by
  rw [ref16_idiv]
  show MdRel (wordIdiv s v) v _
  unfold wordIdiv
  by_cases h0 : v = 0#16
  · have h0t : (v == 0#16) = true := by simpa using h0
    simp only [h0t, ↓reduceIte, Bool.true_or, MdRel]
  · have h0' : (v == 0#16) = false := by simpa using h0
    simp only [h0', Bool.false_eq_true, ↓reduceIte, Bool.false_or, rg]
    apply mdRel_ite
    simp only [MdRel]; fin4


/-! ### writing an unchanged value back changes nothing observable -/
theorem lowSet_same (x : BitVec 16) : lowSet x (x.setWidth 8) = x := by unfold lowSet; bv_decide
theorem highSet_same (x : BitVec 16) : highSet x ((x >>> 8).setWidth 8) = x := by unfold highSet; bv_decide

theorem set8_get8 (m : Machine) (r : ByteReg) : set8 m r (get8 m r) = m := by
  cases r <;> simp [set8, get8, lowSet_same, highSet_same]

theorem set16_get16 (m : Machine) (r : WordReg) : set16 m r (get16 m r) = m := by
  cases r <;> rfl

theorem read_congr (mem : Mem) (y z : Nat) (h : y % MB = z % MB) : mem.read y = mem.read z := by
  simp [Mem.read, h]

theorem putByte_same_read (m : Machine) (a x : Nat) : (putByte m a (byteAt m a)).mem.read x = m.mem.read x := by
  simp only [putByte, byteAt, Mem.read_write]
  split
  · rename_i h; exact read_congr _ _ _ h
  · rfl

theorem putWord_same_read (m : Machine) (a x : Nat) : (putWord m a (wordAt m a)).mem.read x = m.mem.read x := by
  have hlo : (wordAt m a).setWidth 8 = byteAt m a := by simp only [wordAt]; exact lo_of_word _ _
  have hhi : ((wordAt m a) >>> 8).setWidth 8 = byteAt m ((a + 1) % M20) := by simp only [wordAt]; exact hi_of_word _ _
  simp only [putWord, hlo, hhi]
  have h1 : byteAt (putByte m a (byteAt m a)) ((a + 1) % M20) = byteAt m ((a + 1) % M20) := by
    simp only [byteAt]; exact putByte_same_read m a _
  rw [← h1, putByte_same_read, putByte_same_read]


/-! ### INC / DEC / NEG / MUL / IMUL / DIV / IDIV through `exec` -/

/-- like `bind_refinesMask`, remembering which operand was resolved -/
theorem bind_refinesMask' {α β} (x : Except String α) (y : Except String β) (f : β → α)
    (k : α → Except String (State × Machine × Ctx)) (k' : β → Spec.Res)
    (hx : okOf x = (okOf y).map f) (hk : ∀ p, y = .ok p → RefinesMask (k (f p)) (k' p)) :
    RefinesMask (x >>= k) (y >>= k') := by
  cases x <;> cases y <;> simp_all [okOf, bind, Except.bind, RefinesMask]

theorem rd8_flag (m : Machine) (f : BitVec 16) (p : Place) : rd8 { m with flag := f } p = rd8 m p := by
  cases p with
  | r8 r => cases r <;> rfl
  | r16 r => cases r <;> rfl
  | _ => rfl
theorem rd16_flag (m : Machine) (f : BitVec 16) (p : Place) : rd16 { m with flag := f } p = rd16 m p := by
  cases p with
  | r8 r => cases r <;> rfl
  | r16 r => cases r <;> rfl
  | _ => rfl

/-- the write-back step of the unary family: a register only when the value changed, memory always -/
def writeBack8 (m' : Machine) (pd : Place) (old v : BitVec 8) : Machine :=
  match pd.toLoc with
  | .reg8 _ => if v != old then m'.store8 pd.toLoc v else m'
  | _ => m'.store8 pd.toLoc v
def writeBack16 (m' : Machine) (pd : Place) (old v : BitVec 16) : Machine :=
  match pd.toLoc with
  | .reg16 _ => if v != old then m'.store16 pd.toLoc v else m'
  | _ => m'.store16 pd.toLoc v

theorem writeBack8_eq (m' : Machine) (pd : Place) (v : BitVec 8) : writeBack8 m' pd (rd8 m' pd) v = wr8 m' pd v := by
  cases pd with
  | r8 r =>
    simp only [writeBack8, Place.toLoc, Machine.store8, setByteReg_eq, wr8, rd8]
    split
    · rfl
    · rename_i h
      have : v = get8 m' r := by simpa using h
      rw [this, set8_get8]
  | _ => simp [writeBack8, Place.toLoc, Machine.store8, wr8, writeByte_eq_putByte]
theorem writeBack16_eq (m' : Machine) (pd : Place) (v : BitVec 16) : writeBack16 m' pd (rd16 m' pd) v = wr16 m' pd v := by
  cases pd with
  | r16 r =>
    simp only [writeBack16, Place.toLoc, Machine.store16, setWordReg_eq, wr16, rd16]
    split
    · rfl
    · rename_i h
      have : v = get16 m' r := by simpa using h
      rw [this, set16_get16]
  | _ => simp [writeBack16, Place.toLoc, Machine.store16, wr16, writeWord_eq_putWord]

/-- MUL/DIV never change their operand: the write-back (of the value read BEFORE the instruction)
    leaves every register and memory cell of the updated machine as it is -/
theorem writeBack8_same (m m' : Machine) (pd : Place) (u : BitVec 16) (hmem : ∀ a, byteAt m' a = byteAt m a) :
    EqMask (writeBack8 m' pd (rd8 m pd) (rd8 m pd)) m' u := by
  cases pd with
  | r8 r => simp only [writeBack8, Place.toLoc, bne_self_eq_false, Bool.false_eq_true, if_false]; exact EqMask.refl _ _
  | mem a =>
    refine ⟨rfl, fun x => ?_, rfl⟩
    simp only [writeBack8, Place.toLoc, Machine.store8, writeByte_eq_putByte, rd8, ← hmem a]
    exact putByte_same_read m' a x
  | _ => exact EqMask.refl _ _

theorem writeBack16_same (m m' : Machine) (pd : Place) (u : BitVec 16) (hmem : ∀ a, byteAt m' a = byteAt m a) :
    EqMask (writeBack16 m' pd (rd16 m pd) (rd16 m pd)) m' u := by
  cases pd with
  | r16 r => simp only [writeBack16, Place.toLoc, bne_self_eq_false, Bool.false_eq_true, if_false]; exact EqMask.refl _ _
  | mem a =>
    refine ⟨rfl, fun x => ?_, rfl⟩
    have hw : wordAt m a = wordAt m' a := by simp only [wordAt, hmem]
    simp only [writeBack16, Place.toLoc, Machine.store16, writeWord_eq_putWord, rd16, hw]
    exact putWord_same_read m' a x
  | _ => exact EqMask.refl _ _


theorem withAlu_flag (m : Machine) (fl : BitVec 16) : m.withAlu { m.alu with flag := fl } = { m with flag := fl } := rfl

/-- what `exec` does after the ALU function returned `some (s', v')` -/
theorem exec_unary8_some (cur : Nat) (m : Machine) (ctx : Ctx) (f : UnOp) (pd : Place) (s' : AluState) (v' : BitVec 8)
    (h : unary8 f m.alu (m.load8 pd.toLoc) = some (s', v')) :
    (match unary8 f m.alu (m.load8 pd.toLoc) with
      | none => (.ok (.INT 0#8, m, ctx) : Except String (State × Machine × Ctx))
      | some (s, v) =>
        match pd.toLoc with
        | .reg8 _ => .ok (.NEXT, if v != m.load8 pd.toLoc then (m.withAlu s).store8 pd.toLoc v else m.withAlu s, ctx)
        | _ => .ok (.NEXT, (m.withAlu s).store8 pd.toLoc v, ctx))
      = .ok (.NEXT, writeBack8 (m.withAlu s') pd (m.load8 pd.toLoc) v', ctx) := by
  rw [h]; simp only [writeBack8]; cases pd <;> rfl

theorem unary8_incdecneg (cur : Nat) (m : Machine) (ctx : Ctx) (f : UnOp) (pd : Place) (r : BitVec 8) (fl : BitVec 16)
    (h : unary8 f m.alu (rd8 m pd) = some ({ m.alu with flag := fl }, r)) :
    RefinesMask
      (match unary8 f m.alu (m.load8 pd.toLoc) with
        | none => (.ok (.INT 0#8, m, ctx) : Except String (State × Machine × Ctx))
        | some (s, v) =>
          match pd.toLoc with
          | .reg8 _ => .ok (.NEXT, if v != m.load8 pd.toLoc then (m.withAlu s).store8 pd.toLoc v else m.withAlu s, ctx)
          | _ => .ok (.NEXT, (m.withAlu s).store8 pd.toLoc v, ctx))
      (next (wr8 { m with flag := fl } pd r) ctx) := by
  rw [exec_unary8_some cur m ctx f pd _ _ (by rw [load8_eq]; exact h), withAlu_flag, load8_eq]
  have := writeBack8_eq { m with flag := fl } pd r
  rw [rd8_flag] at this
  rw [this]
  exact ⟨rfl, rfl, EqMask.refl _ _⟩

theorem unary8_muldiv (cur : Nat) (m : Machine) (ctx : Ctx) (f : UnOp) (pd : Place)
    (h : MdRel (unary8 f m.alu (rd8 m pd)) (rd8 m pd) (mulDivRef8 f (regsOf m) (rd8 m pd))) :
    RefinesMask
      (match unary8 f m.alu (m.load8 pd.toLoc) with
        | none => (.ok (.INT 0#8, m, ctx) : Except String (State × Machine × Ctx))
        | some (s, v) =>
          match pd.toLoc with
          | .reg8 _ => .ok (.NEXT, if v != m.load8 pd.toLoc then (m.withAlu s).store8 pd.toLoc v else m.withAlu s, ctx)
          | _ => .ok (.NEXT, (m.withAlu s).store8 pd.toLoc v, ctx))
      (match mulDivRef8 f (regsOf m) (rd8 m pd) with
        | none => .ok (.INT 0#8, m, ctx, 0#16)
        | some (r, undef) => next (withRegs m r) ctx undef) := by
  unfold MdRel at h
  cases hm : unary8 f m.alu (rd8 m pd) with
  | none =>
    cases hr : mulDivRef8 f (regsOf m) (rd8 m pd) with
    | none =>
      have : unary8 f m.alu (m.load8 pd.toLoc) = none := by rw [load8_eq]; exact hm
      rw [this]; exact ⟨rfl, rfl, EqMask.refl _ _⟩
    | some r => rw [hm, hr] at h; exact h.elim
  | some o =>
    obtain ⟨s', v'⟩ := o
    cases hr : mulDivRef8 f (regsOf m) (rd8 m pd) with
    | none => rw [hm, hr] at h; exact h.elim
    | some ru =>
      obtain ⟨r, u⟩ := ru
      rw [hm, hr] at h
      obtain ⟨hv, hax, hdx, hfl⟩ := h
      rw [exec_unary8_some cur m ctx f pd s' v' (by rw [load8_eq]; exact hm), load8_eq, hv]
      have hw := writeBack8_same m (m.withAlu s') pd u (fun a => rfl)
      refine ⟨rfl, rfl, ?_⟩
      obtain ⟨h1, h2, h3⟩ := hw
      refine ⟨?_, ?_, ?_⟩
      · rw [h1]; simp [regs13, Machine.withAlu, withRegs, hax, hdx]
      · intro x; rw [h2 x]; rfl
      · rw [h3]; simpa [Machine.withAlu, withRegs] using hfl


open Emu8086.Props.C01 in
theorem unary8_refines (cur : Nat) (m : Machine) (ctx : Ctx) (f : UnOp) (d : Op8) (hc : ctx.WF) (hd : d.WF = true)
    (hkf : ∀ p, place8 m ctx d = .ok p →
      (f = .inc → KF.inc m.flag (rd8 m p) = false) ∧ (f = .neg → KF.neg m.flag (rd8 m p) = false)
      ∧ (f = .imul → KF.imul8 m.ax (rd8 m p) = false)) :
    RefinesMask (exec cur m ctx (.unary8 f d)) (execRef cur m ctx (.unary8 f d)) := by
  simp only [exec, execRef]
  refine bind_refinesMask' _ _ Place.toLoc _ _ (resolve8_eq m ctx hc d hd) fun pd hp => ?_
  obtain ⟨hinc, hneg, himul⟩ := hkf pd hp
  cases f with
  | dec => exact unary8_incdecneg cur m ctx .dec pd _ _ (byteDec_eq m.alu (rd8 m pd))
  | inc => exact unary8_incdecneg cur m ctx .inc pd _ _ (byteInc_partial m.alu (rd8 m pd) (hinc rfl))
  | neg => exact unary8_incdecneg cur m ctx .neg pd _ _ (byteNeg_partial m.alu (rd8 m pd) (hneg rfl))
  | mul => exact unary8_muldiv cur m ctx .mul pd (md8_mul m.alu (rd8 m pd))
  | imul => exact unary8_muldiv cur m ctx .imul pd (md8_imul m.alu (rd8 m pd) (himul rfl))
  | div => exact unary8_muldiv cur m ctx .div pd (md8_div m.alu (rd8 m pd))
  | idiv => exact unary8_muldiv cur m ctx .idiv pd (md8_idiv m.alu (rd8 m pd))

/-- what `exec` does after the ALU function returned `some (s', v')` -/
theorem exec_unary16_some (cur : Nat) (m : Machine) (ctx : Ctx) (f : UnOp) (pd : Place) (s' : AluState) (v' : BitVec 16)
    (h : unary16 f m.alu (m.load16 pd.toLoc) = some (s', v')) :
    (match unary16 f m.alu (m.load16 pd.toLoc) with
      | none => (.ok (.INT 0#8, m, ctx) : Except String (State × Machine × Ctx))
      | some (s, v) =>
        match pd.toLoc with
        | .reg16 _ => .ok (.NEXT, if v != m.load16 pd.toLoc then (m.withAlu s).store16 pd.toLoc v else m.withAlu s, ctx)
        | _ => .ok (.NEXT, (m.withAlu s).store16 pd.toLoc v, ctx))
      = .ok (.NEXT, writeBack16 (m.withAlu s') pd (m.load16 pd.toLoc) v', ctx) := by
  rw [h]; simp only [writeBack16]; cases pd <;> rfl

theorem unary16_incdecneg (cur : Nat) (m : Machine) (ctx : Ctx) (f : UnOp) (pd : Place) (r : BitVec 16) (fl : BitVec 16)
    (h : unary16 f m.alu (rd16 m pd) = some ({ m.alu with flag := fl }, r)) :
    RefinesMask
      (match unary16 f m.alu (m.load16 pd.toLoc) with
        | none => (.ok (.INT 0#8, m, ctx) : Except String (State × Machine × Ctx))
        | some (s, v) =>
          match pd.toLoc with
          | .reg16 _ => .ok (.NEXT, if v != m.load16 pd.toLoc then (m.withAlu s).store16 pd.toLoc v else m.withAlu s, ctx)
          | _ => .ok (.NEXT, (m.withAlu s).store16 pd.toLoc v, ctx))
      (next (wr16 { m with flag := fl } pd r) ctx) := by
  rw [exec_unary16_some cur m ctx f pd _ _ (by rw [load16_eq]; exact h), withAlu_flag, load16_eq]
  have := writeBack16_eq { m with flag := fl } pd r
  rw [rd16_flag] at this
  rw [this]
  exact ⟨rfl, rfl, EqMask.refl _ _⟩

theorem unary16_muldiv (cur : Nat) (m : Machine) (ctx : Ctx) (f : UnOp) (pd : Place)
    (h : MdRel (unary16 f m.alu (rd16 m pd)) (rd16 m pd) (mulDivRef16 f (regsOf m) (rd16 m pd))) :
    RefinesMask
      (match unary16 f m.alu (m.load16 pd.toLoc) with
        | none => (.ok (.INT 0#8, m, ctx) : Except String (State × Machine × Ctx))
        | some (s, v) =>
          match pd.toLoc with
          | .reg16 _ => .ok (.NEXT, if v != m.load16 pd.toLoc then (m.withAlu s).store16 pd.toLoc v else m.withAlu s, ctx)
          | _ => .ok (.NEXT, (m.withAlu s).store16 pd.toLoc v, ctx))
      (match mulDivRef16 f (regsOf m) (rd16 m pd) with
        | none => .ok (.INT 0#8, m, ctx, 0#16)
        | some (r, undef) => next (withRegs m r) ctx undef) := by
  unfold MdRel at h
  cases hm : unary16 f m.alu (rd16 m pd) with
  | none =>
    cases hr : mulDivRef16 f (regsOf m) (rd16 m pd) with
    | none =>
      have : unary16 f m.alu (m.load16 pd.toLoc) = none := by rw [load16_eq]; exact hm
      rw [this]; exact ⟨rfl, rfl, EqMask.refl _ _⟩
    | some r => rw [hm, hr] at h; exact h.elim
  | some o =>
    obtain ⟨s', v'⟩ := o
    cases hr : mulDivRef16 f (regsOf m) (rd16 m pd) with
    | none => rw [hm, hr] at h; exact h.elim
    | some ru =>
      obtain ⟨r, u⟩ := ru
      rw [hm, hr] at h
      obtain ⟨hv, hax, hdx, hfl⟩ := h
      rw [exec_unary16_some cur m ctx f pd s' v' (by rw [load16_eq]; exact hm), load16_eq, hv]
      have hw := writeBack16_same m (m.withAlu s') pd u (fun a => rfl)
      refine ⟨rfl, rfl, ?_⟩
      obtain ⟨h1, h2, h3⟩ := hw
      refine ⟨?_, ?_, ?_⟩
      · rw [h1]; simp [regs13, Machine.withAlu, withRegs, hax, hdx]
      · intro x; rw [h2 x]; rfl
      · rw [h3]; simpa [Machine.withAlu, withRegs] using hfl


open Emu8086.Props.C01 in
theorem unary16_refines (cur : Nat) (m : Machine) (ctx : Ctx) (f : UnOp) (d : Op16) (hc : ctx.WF) (hd : d.WF = true)
    (hkf : ∀ p, place16 m ctx d = .ok p →
      (f = .inc → KF.inc m.flag (rd16 m p) = false) ∧ (f = .neg → KF.neg m.flag (rd16 m p) = false)
      ∧ True) :
    RefinesMask (exec cur m ctx (.unary16 f d)) (execRef cur m ctx (.unary16 f d)) := by
  simp only [exec, execRef]
  refine bind_refinesMask' _ _ Place.toLoc _ _ (resolve16_eq m ctx hc d hd) fun pd hp => ?_
  obtain ⟨hinc, hneg, _⟩ := hkf pd hp
  cases f with
  | dec => exact unary16_incdecneg cur m ctx .dec pd _ _ (wordDec_eq m.alu (rd16 m pd))
  | inc => exact unary16_incdecneg cur m ctx .inc pd _ _ (wordInc_partial m.alu (rd16 m pd) (hinc rfl))
  | neg => exact unary16_incdecneg cur m ctx .neg pd _ _ (wordNeg_partial m.alu (rd16 m pd) (hneg rfl))
  | mul => exact unary16_muldiv cur m ctx .mul pd (md16_mul m.alu (rd16 m pd))
  | imul => exact unary16_muldiv cur m ctx .imul pd (md16_imul m.alu (rd16 m pd))
  | div => exact unary16_muldiv cur m ctx .div pd (md16_div m.alu (rd16 m pd))
  | idiv => exact unary16_muldiv cur m ctx .idiv pd (md16_idiv m.alu (rd16 m pd))


/-! ### AAA … CWD -/
open Emu8086.Props.C03 in
theorem single_ok (f : SingleOp) (s : AluState) : adjOk (adjOpOf f) (toRegs s) (toRegs (single f s)) = true := by
  cases f
  · exact aaa_ok s
  · exact aad_ok s
  · exact aam_ok s
  · exact aas_ok s
  · exact daa_ok s
  · exact das_ok s
  · exact cbw_ok s
  · exact cwd_ok s

theorem mask_compl (op : AdjOp) : ~~~(statusMask &&& ~~~op.defined) = op.defined ||| ~~~statusMask := by
  cases op <;> decide

theorem single_refines (cur : Nat) (m : Machine) (ctx : Ctx) (f : SingleOp) :
    RefinesMask (exec cur m ctx (.single f)) (execRef cur m ctx (.single f)) := by
  have h := single_ok f m.alu
  simp only [adjOk, Bool.and_eq_true, beq_iff_eq, C03.toRegs] at h
  obtain ⟨⟨hax, hdx⟩, hfl⟩ := h
  simp only [exec, execRef, RefinesMask, okOf_ok, next]
  refine ⟨trivial, trivial, ?_, fun _ => rfl, ?_⟩
  · simp only [regs13, Machine.withAlu, withRegs, regsOf, Machine.alu] at hax hdx ⊢
    rw [hax, hdx]
  · simp only [Machine.withAlu, withRegs, regsOf, Machine.alu, mask_compl] at hfl ⊢
    exact hfl


/-! ### LEA, control transfers, flags control -/
theorem lea_refines (cur : Nat) (m : Machine) (ctx : Ctx) (r : WordReg) (s : Op16) (hc : ctx.WF) (hs : s.WF = true)
    (hkf : ∀ a, s = .mem a → KF.lea m.ds (segVal m a) = false) :
    RefinesMask (exec cur m ctx (.lea r s)) (execRef cur m ctx (.lea r s)) := by
  cases s with
  | reg x => simp [exec, execRef, resolve16, RefinesMask, okOf, bind, Except.bind]
  | imm x => simp [exec, execRef, resolve16, RefinesMask, okOf, bind, Except.bind]
  | mem a =>
    have := C04.lea_partial cur m ctx r a (by simpa [Op16.WF] using hs) (hkf a rfl)
    rw [this]; simp only [execRef, RefinesMask, okOf_ok, next]
    exact ⟨trivial, trivial, EqMask.refl _ _⟩
  | lbl n =>
    cases hl : ctx.labelMap.lookup n with
    | none => simp [exec, execRef, resolve16, resolveLabel, labelAddr, hl, RefinesMask, okOf, bind, Except.bind, Except.map]
    | some l =>
      obtain ⟨t, off⟩ := l
      cases t with
      | CODE => simp [exec, execRef, resolve16, resolveLabel, labelAddr, hl, RefinesMask, okOf, bind, Except.bind, Except.map]
      | DATA =>
        have hoff : off < 65536 := hc n ⟨.DATA, off⟩ hl rfl
        have := C04.lea_label cur m ctx r n off hoff hl
        rw [this]
        simp only [execRef, labelAddr, hl, bind, Except.bind, RefinesMask, okOf_ok, next]
        exact ⟨trivial, trivial, EqMask.refl _ _⟩

theorem call_refines (cur : Nat) (m : Machine) (ctx : Ctx) (n : String) :
    RefinesMask (exec cur m ctx (.call n)) (execRef cur m ctx (.call n)) := by
  cases h : ctx.fnMap.lookup n <;> simp [exec, execRef, h, RefinesMask, okOf, EqMask.refl]

theorem ret_refines (cur : Nat) (m : Machine) (ctx : Ctx) :
    RefinesMask (exec cur m ctx .ret) (execRef cur m ctx .ret) := by
  rcases List.eq_nil_or_concat ctx.callStack with h | ⟨init, p, h⟩
  · simp [exec, execRef, h, RefinesMask, okOf]
  · simp [exec, execRef, h, RefinesMask, okOf, EqMask.refl]

theorem int_refines (cur : Nat) (m : Machine) (ctx : Ctx) (n : BitVec 8) :
    RefinesMask (exec cur m ctx (.int n)) (execRef cur m ctx (.int n)) := by
  by_cases h : (n == 3#8 || n == 0x10#8 || n == 0x21#8) = true
  · simp [exec, execRef, h, RefinesMask, okOf, EqMask.refl]
  · simp [exec, execRef, h, RefinesMask, okOf]

theorem cmc_flag (fl : BitVec 16) :
    (if fl &&& Flag.CARRY.mask != 0#16 then fl &&& ~~~ Flag.CARRY.mask else fl ||| Flag.CARRY.mask) = fl ^^^ 0x0001#16 := by
  by_cases h : (fl &&& Flag.CARRY.mask != 0#16) = true
  · rw [if_pos h]; simp only [Flag.mask, Gen.FLAG_CARRY] at h ⊢; revert h; bv_decide
  · rw [if_neg h]; simp only [Flag.mask, Gen.FLAG_CARRY] at h ⊢; revert h; bv_decide

theorem ctl_flag (fl : BitVec 16) :
    setFlag fl .CARRY = fl ||| 0x0001#16 ∧ unsetFlag fl .CARRY = fl &&& ~~~0x0001#16
    ∧ setFlag fl .DIRECTION = fl ||| 0x0400#16 ∧ unsetFlag fl .DIRECTION = fl &&& ~~~0x0400#16
    ∧ setFlag fl .INTERRUPT = fl ||| 0x0200#16 ∧ unsetFlag fl .INTERRUPT = fl &&& ~~~0x0200#16 := by
  simp only [setFlag, unsetFlag, Flag.mask, Gen.FLAG_CARRY, Gen.FLAG_DIRECTION, Gen.FLAG_INTERRUPT]
  refine ⟨?_, ?_, ?_, ?_, ?_, ?_⟩ <;> first | trivial | rfl

theorem ctl_refines (cur : Nat) (m : Machine) (ctx : Ctx) (c : CtlOp) :
    RefinesMask (exec cur m ctx (.ctl c)) (execRef cur m ctx (.ctl c)) := by
  obtain ⟨h1, h2, h3, h4, h5, h6⟩ := ctl_flag m.flag
  have h7 := cmc_flag m.flag
  cases c <;> simp only [exec, execRef, RefinesMask, okOf_ok, next, h1, h2, h3, h4, h5, h6, h7] <;>
    exact ⟨trivial, trivial, EqMask.refl _ _⟩


/-! ### every instruction -/

/-- the state/instruction pairs outside the classes of the open known findings (the same class
    predicates `Emu8086.KF.*` that the correspondence driver evaluates through `Spec.knownFinding`) -/
def NoKF (m : Machine) (ctx : Ctx) : Instr → Prop
  | .unary8 f d => ∀ p, place8 m ctx d = .ok p →
      (f = .inc → KF.inc m.flag (rd8 m p) = false) ∧ (f = .neg → KF.neg m.flag (rd8 m p) = false)
      ∧ (f = .imul → KF.imul8 m.ax (rd8 m p) = false)
  | .unary16 f d => ∀ p, place16 m ctx d = .ok p →
      (f = .inc → KF.inc m.flag (rd16 m p) = false) ∧ (f = .neg → KF.neg m.flag (rd16 m p) = false) ∧ True
  | .jcc j _ => j = .jle → KF.jle m.flag = false
  | .lea _ s => ∀ a, s = .mem a → KF.lea m.ds (segVal m a) = false
  | _ => True

/-- **Refinement of the whole interpreter model.**  For every instruction with parser-producible
    operands, every machine state and every assembler-producible context, outside the open findings:
    `exec` and `execRef` agree on outcome, context and machine (up to undefined flag bits). -/
theorem exec_refines (cur : Nat) (m : Machine) (ctx : Ctx) (i : Instr) (hc : ctx.WF) (hw : i.WF = true)
    (hk : NoKF m ctx i) : RefinesMask (exec cur m ctx i) (execRef cur m ctx i) := by
  cases i with
  | print => exact ⟨rfl, rfl, EqMask.refl _ _⟩
  | mov8 d s =>
    simp only [Instr.WF, Bool.and_eq_true] at hw
    exact refinesMask_of_eq _ _ (C05.mov8_refines cur m ctx d s hc hw.1 hw.2)
  | mov16 d s =>
    simp only [Instr.WF, Bool.and_eq_true] at hw
    exact refinesMask_of_eq _ _ (C05.mov16_refines cur m ctx d s hc hw.1 hw.2)
  | lahf => exact refinesMask_of_eq _ _ (C05.lahf_refines cur m ctx)
  | sahf => exact refinesMask_of_eq _ _ (C05.sahf_refines cur m ctx)
  | pushf => exact refinesMask_of_eq _ _ (C05.pushf_refines cur m ctx)
  | popf => exact refinesMask_of_eq _ _ (C05.popf_refines cur m ctx)
  | xlat => exact refinesMask_of_eq _ _ (C05.xlat_refines cur m ctx)
  | xchg8 d r => exact refinesMask_of_eq _ _ (C05.xchg8_refines cur m ctx d r hc (by simpa [Instr.WF] using hw))
  | xchg16 d r => exact refinesMask_of_eq _ _ (C05.xchg16_refines cur m ctx d r hc (by simpa [Instr.WF] using hw))
  | pop d => exact refinesMask_of_eq _ _ (C05.pop_refines cur m ctx d hc (by simpa [Instr.WF] using hw))
  | push s => exact refinesMask_of_eq _ _ (C05.push_refines cur m ctx s hc (by simpa [Instr.WF] using hw))
  | lea r s => exact lea_refines cur m ctx r s hc (by simpa [Instr.WF] using hw) hk
  | arith8 f d s =>
    simp only [Instr.WF, Bool.and_eq_true] at hw
    exact refinesMask_of_eq _ _ (C01.arith8_refines cur m ctx f d s hc hw.1 hw.2)
  | arith16 f d s =>
    simp only [Instr.WF, Bool.and_eq_true] at hw
    exact refinesMask_of_eq _ _ (C01.arith16_refines cur m ctx f d s hc hw.1 hw.2)
  | unary8 f d => exact unary8_refines cur m ctx f d hc (by simpa [Instr.WF] using hw) hk
  | unary16 f d => exact unary16_refines cur m ctx f d hc (by simpa [Instr.WF] using hw) hk
  | single f => exact single_refines cur m ctx f
  | str p op w => exact refinesMask_of_eq _ _ (C07.str_refines cur m ctx p op w)
  | not8 d => exact refinesMask_of_eq _ _ (C01.not8_refines cur m ctx d hc (by simpa [Instr.WF] using hw))
  | not16 d => exact refinesMask_of_eq _ _ (C01.not16_refines cur m ctx d hc (by simpa [Instr.WF] using hw))
  | logic8 f d s =>
    simp only [Instr.WF, Bool.and_eq_true] at hw
    exact logic8_refines cur m ctx f d s hc hw.1 hw.2
  | logic16 f d s =>
    simp only [Instr.WF, Bool.and_eq_true] at hw
    exact logic16_refines cur m ctx f d s hc hw.1 hw.2
  | shift8 f d c => exact shift8_refines cur m ctx f d c hc (by simpa [Instr.WF] using hw)
  | shift16 f d c => exact shift16_refines cur m ctx f d c hc (by simpa [Instr.WF] using hw)
  | call n => exact call_refines cur m ctx n
  | ret => exact ret_refines cur m ctx
  | jcc j n => exact refinesMask_of_eq _ _ (C06.jcc_refines cur m ctx j n hk)
  | int n => exact int_refines cur m ctx n
  | ctl c => exact ctl_refines cur m ctx c

/-- the driver's classification (`Spec.knownFinding`, evaluated on every correspondence case) is the
    same partition: where it answers "-" the refinement theorem applies -/
theorem noKF_of_knownFinding (m : Machine) (ctx : Ctx) (i : Instr) (h : Spec.knownFinding m ctx i = "-") : NoKF m ctx i := by
  have ne1 : ("KF-INC-CF" : String) ≠ "-" := by decide
  have ne2 : ("KF-NEG0-SF" : String) ≠ "-" := by decide
  have ne3 : ("KF-IMUL8-FLAGS" : String) ≠ "-" := by decide
  have ne4 : ("KF-JLE" : String) ≠ "-" := by decide
  have ne5 : ("KF-LEA-SEG" : String) ≠ "-" := by decide
  cases i with
  | unary8 f d =>
    intro p hp
    cases f <;> simp only [Spec.knownFinding, hp] at h <;>
      refine ⟨fun e => ?_, fun e => ?_, fun e => ?_⟩ <;> first | (cases e; done) | (split at h <;> simp_all)
  | unary16 f d =>
    intro p hp
    cases f <;> simp only [Spec.knownFinding, hp] at h <;>
      refine ⟨fun e => ?_, fun e => ?_, trivial⟩ <;> first | (cases e; done) | (split at h <;> simp_all)
  | jcc j n =>
    intro e; subst e
    simp only [Spec.knownFinding] at h
    split at h <;> simp_all
  | lea r s =>
    intro a e; subst e
    simp only [Spec.knownFinding] at h
    split at h <;> simp_all
  | _ => trivial

/-- for every line the interpreter's parser accepts (the `Instr.WF` hypothesis is discharged by
    `C09.parseLine_wf`) -/
theorem line_refines (cur : Nat) (m : Machine) (ctx : Ctx) (line : String) (i : Instr) (hp : parseLine line = some i)
    (hc : ctx.WF) (hk : NoKF m ctx i) : RefinesMask (exec cur m ctx i) (execRef cur m ctx i) :=
  exec_refines cur m ctx i hc (C09.parseLine_wf line i hp) hk

/-- non-vacuity: the hypotheses are satisfiable by a concrete non-trivial state and instruction -/
example : NoKF Machine.new {} (.arith16 .add (.reg .AX) (.mem ⟨some .ES, some .BX, some .SI, some 5#16⟩)) := trivial
example : (Instr.arith16 .add (.reg .AX) (.mem ⟨some .ES, some .BX, some .SI, some 5#16⟩)).WF = true := by decide
example : (({} : Ctx)).WF := by intro n l h; simp [List.lookup] at h

end Emu8086.Props.ExecAll
