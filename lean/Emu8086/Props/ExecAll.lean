/-
Whole-interpreter refinement (serves C01–C07, C09): for EVERY instruction the interpreter's parser
can produce, EVERY machine state and every context the assembler can build, the model's `exec`
(mirror of the parser actions of interpreter.lalrpop and of src/lib/instructions) refines the
reference semantics `Spec.execRef` — same outcome, same context, same machine except for the flag
bits the 8086 manual leaves undefined for that instruction (`RefinesMask`) — outside the classes of
the open known findings (`Spec.knownFinding … = "-"`).  The per-family theorems are combined in
`exec_refines`.
-/
import Std.Tactic.BVDecide
import Emu8086.Props.C01Exec
import Emu8086.Props.C02
import Emu8086.Props.C03
import Emu8086.Props.C04
import Emu8086.Props.C05
import Emu8086.Props.C06
import Emu8086.Props.C07

namespace Emu8086.Props.ExecAll
open Emu8086 Emu8086.Spec

/-- machines equal except for the flag bits in `undef` -/
def EqMask (a b : Machine) (undef : BitVec 16) : Prop :=
  ({ a with flag := 0#16 } : Machine) = { b with flag := 0#16 } ∧ a.flag &&& ~~~undef = b.flag &&& ~~~undef

def RefinesMask (r : Except String (State × Machine × Ctx)) (s : Spec.Res) : Prop :=
  match okOf r, s with
  | none, .error _ => True
  | some (st, m, c), .ok (st', m', c', u) => st = st' ∧ c = c' ∧ EqMask m m' u
  | _, _ => False

theorem EqMask.refl (m : Machine) (u : BitVec 16) : EqMask m m u := ⟨rfl, rfl⟩

theorem refinesMask_of_eq (r : Except String (State × Machine × Ctx)) (s : Spec.Res) (h : okOf r = strip s) :
    RefinesMask r s := by
  unfold RefinesMask
  cases s with
  | error e => simp [strip] at h; simp [h]
  | ok v =>
    obtain ⟨st', m', c', u⟩ := v
    simp [strip] at h; simp [h, EqMask.refl]

theorem bit_eq (b : Bool) : bit b 16 = (BitVec.ofBool b).setWidth 16 := by cases b <;> rfl

/-! ### logic -/
theorem logic8_fn (f : LogicOp) (fl : BitVec 16) (a b : BitVec 8) :
    (logic8 f fl a b).1 = (logicRef f fl a b).1
    ∧ (logic8 f fl a b).2 &&& ~~~0x0010#16 = (logicRef f fl a b).2 &&& ~~~0x0010#16 := by
  cases f <;> (simp only [logic8, logicRef, byteAnd, byteOr, byteXor, byteTest, logicFlags8, logicVal, withStatus, setFlagHelper,
    putFlag, setFlag, unsetFlag, Flag.mask, hasEvenParity, Gen.FLAG_OVERFLOW, Gen.FLAG_SIGN, Gen.FLAG_ZERO, Gen.FLAG_PARITY,
    Gen.FLAG_CARRY, bit_eq, zf, sf, pf, parityEven]; constructor <;> first | rfl | bv_decide)

theorem logic16_fn (f : LogicOp) (fl : BitVec 16) (a b : BitVec 16) :
    (logic16 f fl a b).1 = (logicRef f fl a b).1
    ∧ (logic16 f fl a b).2 &&& ~~~0x0010#16 = (logicRef f fl a b).2 &&& ~~~0x0010#16 := by
  cases f <;> (simp only [logic16, logicRef, wordAnd, wordOr, wordXor, wordTest, logicFlags16, logicVal, withStatus, setFlagHelper,
    putFlag, setFlag, unsetFlag, Flag.mask, hasEvenParity, Gen.FLAG_OVERFLOW, Gen.FLAG_SIGN, Gen.FLAG_ZERO, Gen.FLAG_PARITY,
    Gen.FLAG_CARRY, bit_eq, zf, sf, pf, parityEven]; constructor <;> first | rfl | bv_decide)

theorem wr8_flag (m : Machine) (f : BitVec 16) (p : Place) (v : BitVec 8) :
    wr8 { m with flag := f } p v = { wr8 m p v with flag := f } := by
  cases p with
  | r8 r => cases r <;> rfl
  | _ => rfl
theorem wr16_flag (m : Machine) (f : BitVec 16) (p : Place) (v : BitVec 16) :
    wr16 { m with flag := f } p v = { wr16 m p v with flag := f } := by
  cases p with
  | r16 r => cases r <;> rfl
  | _ => rfl

theorem eqMask_flags (m : Machine) (f1 f2 u : BitVec 16) (h : f1 &&& ~~~u = f2 &&& ~~~u) :
    EqMask { m with flag := f1 } { m with flag := f2 } u := ⟨rfl, h⟩

/-- resolution of operands followed by an action, modulo a mask -/
theorem bind_refinesMask {α β} (x : Except String α) (y : Except String β) (f : β → α)
    (k : α → Except String (State × Machine × Ctx)) (k' : β → Spec.Res)
    (hx : okOf x = (okOf y).map f) (hk : ∀ p, RefinesMask (k (f p)) (k' p)) :
    RefinesMask (x >>= k) (y >>= k') := by
  cases x <;> cases y <;> simp_all [okOf, bind, Except.bind, RefinesMask]

theorem logic8_refines (cur : Nat) (m : Machine) (ctx : Ctx) (f : LogicOp) (d s : Op8) (hc : ctx.WF)
    (hd : d.WF = true) (hs : s.WF = true) :
    RefinesMask (exec cur m ctx (.logic8 f d s)) (execRef cur m ctx (.logic8 f d s)) := by
  simp only [exec, execRef]
  refine bind_refinesMask _ _ Place.toLoc _ _ (resolve8_eq m ctx hc d hd) fun pd => ?_
  refine bind_refinesMask _ _ Place.toLoc _ _ (resolve8_eq m ctx hc s hs) fun ps => ?_
  obtain ⟨h1, h2⟩ := logic8_fn f m.flag (rd8 m pd) (rd8 m ps)
  simp only [load8_eq, store8_eq, RefinesMask, okOf_ok, next, h1, wr8_flag]
  refine ⟨?_, ?_, eqMask_flags _ _ _ _ h2⟩ <;> trivial

theorem logic16_refines (cur : Nat) (m : Machine) (ctx : Ctx) (f : LogicOp) (d s : Op16) (hc : ctx.WF)
    (hd : d.WF = true) (hs : s.WF = true) :
    RefinesMask (exec cur m ctx (.logic16 f d s)) (execRef cur m ctx (.logic16 f d s)) := by
  simp only [exec, execRef]
  refine bind_refinesMask _ _ Place.toLoc _ _ (resolve16_eq m ctx hc d hd) fun pd => ?_
  refine bind_refinesMask _ _ Place.toLoc _ _ (resolve16_eq m ctx hc s hs) fun ps => ?_
  obtain ⟨h1, h2⟩ := logic16_fn f m.flag (rd16 m pd) (rd16 m ps)
  simp only [load16_eq, store16_eq, RefinesMask, okOf_ok, next, h1, wr16_flag]
  refine ⟨?_, ?_, eqMask_flags _ _ _ _ h2⟩ <;> trivial


/-! ### shifts and rotates -/
theorem flag_bridge_shift (fl fl' : BitVec 16) (c z s p o n1 : Bool)
    (h0 : fl'.getLsbD 0 = c) (h6 : fl'.getLsbD 6 = z) (h7 : fl'.getLsbD 7 = s) (h2 : fl'.getLsbD 2 = p)
    (hr : fl' &&& ~~~0x08D5#16 = fl &&& ~~~0x08D5#16) (h11 : n1 = true → fl'.getLsbD 11 = o) :
    fl' &&& ~~~((if n1 then 0#16 else 0x0800#16) ||| 0x0010#16)
      = withStatus fl { cf := c, of := if n1 then o else fl.getLsbD 11, zf := z, sf := s, pf := p, af := fl.getLsbD 4 }
          &&& ~~~((if n1 then 0#16 else 0x0800#16) ||| 0x0010#16) := by
  subst h0 h6 h7 h2
  cases n1
  · simp only [withStatus, bit_eq, Bool.false_eq_true, if_false]; bv_decide
  · have := h11 rfl; subst this
    simp only [withStatus, bit_eq, if_true]; bv_decide

theorem flag_bridge_rotate (fl fl' : BitVec 16) (c o n1 : Bool)
    (h0 : fl'.getLsbD 0 = c) (hr : fl' &&& ~~~0x0801#16 = fl &&& ~~~0x0801#16) (h11 : n1 = true → fl'.getLsbD 11 = o) :
    fl' &&& ~~~((if n1 then 0#16 else 0x0800#16) ||| 0#16)
      = withStatus fl { cf := c, of := if n1 then o else fl.getLsbD 11, zf := fl.getLsbD 6, sf := fl.getLsbD 7, pf := fl.getLsbD 2,
                        af := fl.getLsbD 4 } &&& ~~~((if n1 then 0#16 else 0x0800#16) ||| 0#16) := by
  subst h0
  cases n1
  · simp only [withStatus, bit_eq, Bool.false_eq_true, if_false]; bv_decide
  · have := h11 rfl; subst this
    simp only [withStatus, bit_eq, if_true]; bv_decide

/-- from the acceptance predicate of C02 to the functional reference: same result, same flags
    outside the bits the manual leaves undefined -/
theorem shift_bridge {w : Nat} (f : ShiftOp) (fl : BitVec 16) (v : BitVec w) (n : Nat) (out : BitVec w × BitVec 16)
    (h : shiftOk (shOpOf f) fl v n out = true) :
    out.1 = (shiftRef f fl v n).1
    ∧ out.2 &&& ~~~(shiftRef f fl v n).2.2 = (shiftRef f fl v n).2.1 &&& ~~~(shiftRef f fl v n).2.2 := by
  obtain ⟨r, fl'⟩ := out
  unfold shiftOk at h
  unfold shiftRef
  by_cases hn : n = 0
  · simp only [hn, if_true, Bool.and_eq_true, beq_iff_eq] at h ⊢
    exact ⟨h.1, by rw [h.2]⟩
  · simp only [hn, if_false] at h ⊢
    generalize iter (step1 (shOpOf f)) n (v, cfOf fl) = it at h ⊢
    obtain ⟨rs, cs⟩ := it
    simp only [Bool.and_eq_true, beq_iff_eq] at h
    obtain ⟨⟨⟨hres, hcf⟩, hmid⟩, hof⟩ := h
    refine ⟨hres, ?_⟩
    have h11 : (decide (n = 1)) = true → fl'.getLsbD 11 = of1 (shOpOf f) v rs cs := by
      intro h1; have h1' : n = 1 := by simpa using h1
      simpa [h1'] using hof
    by_cases hs : (shOpOf f).isShift = true
    · simp only [hs, if_true, Bool.and_eq_true, beq_iff_eq] at hmid ⊢
      obtain ⟨⟨⟨h6, h7⟩, h2⟩, hr⟩ := hmid
      have := flag_bridge_shift fl fl' cs (zf rs) (sf rs) (pf rs) (of1 (shOpOf f) v rs cs) (decide (n = 1)) hcf h6 h7 h2
        (by simpa [shiftMayChange] using hr) h11
      by_cases h1 : n = 1 <;> simpa [h1] using this
    · have hs' : (shOpOf f).isShift = false := by simpa using hs
      simp only [hs', Bool.false_eq_true, if_false, beq_iff_eq] at hmid ⊢
      have := flag_bridge_rotate fl fl' cs (of1 (shOpOf f) v rs cs) (decide (n = 1)) hcf
        (by simpa [rotateMayChange] using hmid) h11
      by_cases h1 : n = 1 <;> simpa [h1] using this


open Emu8086.Props.C02 in
theorem shift8_ok (f : ShiftOp) (fl : BitVec 16) (v n : BitVec 8) :
    shiftOk (shOpOf f) fl v n.toNat (shift8 f fl v n) = true := by
  cases f
  · exact byteSal_ok fl v n
  · exact byteSar_ok fl v n
  · exact byteShr_ok fl v n
  · exact byteRol_ok fl v n
  · exact byteRor_ok fl v n
  · exact byteRcl_ok fl v n
  · exact byteRcr_ok fl v n

open Emu8086.Props.C02 in
theorem shift16_ok (f : ShiftOp) (fl : BitVec 16) (v : BitVec 16) (n : BitVec 8) :
    shiftOk (shOpOf f) fl v n.toNat (shift16 f fl v (n.setWidth 16)) = true := by
  cases f
  · exact wordSal_ok fl v n
  · exact wordSar_ok fl v n
  · exact wordShr_ok fl v n
  · exact wordRol_ok fl v n
  · exact wordRor_ok fl v n
  · exact wordRcl_ok fl v n
  · exact wordRcr_ok fl v n

theorem shift8_tail (m : Machine) (ctx : Ctx) (f : ShiftOp) (pd : Place) (n : BitVec 8) :
    RefinesMask
      (.ok (.NEXT, ({ m with flag := (shift8 f m.flag (m.load8 pd.toLoc) n).2 }).store8 pd.toLoc (shift8 f m.flag (m.load8 pd.toLoc) n).1, ctx))
      (next (wr8 { m with flag := (shiftRef f m.flag (rd8 m pd) n.toNat).2.1 } pd (shiftRef f m.flag (rd8 m pd) n.toNat).1) ctx
        (shiftRef f m.flag (rd8 m pd) n.toNat).2.2) := by
  obtain ⟨h1, h2⟩ := shift_bridge f m.flag (rd8 m pd) n.toNat _ (shift8_ok f m.flag (rd8 m pd) n)
  simp only [load8_eq, store8_eq, RefinesMask, okOf_ok, next, h1, wr8_flag]
  refine ⟨?_, ?_, eqMask_flags _ _ _ _ h2⟩ <;> trivial

theorem shift16_tail (m : Machine) (ctx : Ctx) (f : ShiftOp) (pd : Place) (n : BitVec 8) :
    RefinesMask
      (.ok (.NEXT, ({ m with flag := (shift16 f m.flag (m.load16 pd.toLoc) (n.setWidth 16)).2 }).store16 pd.toLoc
                      (shift16 f m.flag (m.load16 pd.toLoc) (n.setWidth 16)).1, ctx))
      (next (wr16 { m with flag := (shiftRef f m.flag (rd16 m pd) n.toNat).2.1 } pd (shiftRef f m.flag (rd16 m pd) n.toNat).1) ctx
        (shiftRef f m.flag (rd16 m pd) n.toNat).2.2) := by
  obtain ⟨h1, h2⟩ := shift_bridge f m.flag (rd16 m pd) n.toNat _ (shift16_ok f m.flag (rd16 m pd) n)
  simp only [load16_eq, store16_eq, RefinesMask, okOf_ok, next, h1, wr16_flag]
  refine ⟨?_, ?_, eqMask_flags _ _ _ _ h2⟩ <;> trivial

theorem shift8_refines (cur : Nat) (m : Machine) (ctx : Ctx) (f : ShiftOp) (d : Op8) (cnt : Option (BitVec 8))
    (hc : ctx.WF) (hd : d.WF = true) :
    RefinesMask (exec cur m ctx (.shift8 f d cnt)) (execRef cur m ctx (.shift8 f d cnt)) := by
  simp only [exec, execRef]
  refine bind_refinesMask _ _ Place.toLoc _ _ (resolve8_eq m ctx hc d hd) fun pd => ?_
  cases cnt with
  | some n => exact shift8_tail m ctx f pd n
  | none => simp only [Option.getD, getByteReg_eq]; exact shift8_tail m ctx f pd (get8 m .CL)

theorem shift16_refines (cur : Nat) (m : Machine) (ctx : Ctx) (f : ShiftOp) (d : Op16) (cnt : Option (BitVec 8))
    (hc : ctx.WF) (hd : d.WF = true) :
    RefinesMask (exec cur m ctx (.shift16 f d cnt)) (execRef cur m ctx (.shift16 f d cnt)) := by
  simp only [exec, execRef]
  refine bind_refinesMask _ _ Place.toLoc _ _ (resolve16_eq m ctx hc d hd) fun pd => ?_
  cases cnt with
  | some n => exact shift16_tail m ctx f pd n
  | none => simp only [Option.getD, getByteReg_eq]; exact shift16_tail m ctx f pd (get8 m .CL)

end Emu8086.Props.ExecAll
