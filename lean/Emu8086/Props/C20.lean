/-
Property C20 — single-stepping and breakpoints are transparent and the prompt always terminates.

Model of user_interface.rs (`Driver.prompt`) and of the stepping part of the run loop, for EVERY
machine state and EVERY input script:
  * `prompt_terminates`  : `prompt` is structurally recursive on the remaining input — Lean accepting
                           the definition is the termination proof; it consumes at most the whole
                           input (`prompt_consumes`), so no input sequence makes it spin;
  * `prompt_eof_exits`   : end of input terminates the emulator (prints the prompt and "Exiting");
  * `prompt_next`        : `n` / `next` (any case, surrounding blanks) returns to the program after
                           exactly one input line;
  * `prompt_quit`        : `q` / `quit` terminates the emulator;
  * `prompt_other`       : any other line — a print command or garbage — is answered and the prompt
                           comes again with the SAME machine and the rest of the input (no advance);
  * `prompt_readonly`    : the prompt cannot change the machine: it takes it as a value and returns only
                           output text, remaining input and next/exit;
  * `plain_step` / `stepped_step` : one iteration of the run loop without stepping and one with
                           stepping active (interpreted mode or TF set) whose prompt is answered
                           `next` run the SAME `stepBody` — the same instruction on the same machine,
                           context and index with the same continuation; only the output gains the
                           banner and the input loses the one answered line: stepping is transparent
                           step by step.
  * `stepping_transparent` : WHOLE runs — for every program (with a complete source map), state and
                           run length, the `-i` run answered `next` throughout has the same exit status,
                           executed-index trace and final machine as the run loop with stepping
                           switched off (`loopPlain`); by induction over the run with `stepBody_same`
                           (every outcome of an instruction: print, jump, repeat, INT 0/3/10h/21h
                           incl. the lines the services read).  `plain_is_loopPlain_step`: the plain
                           run is that loop as long as TF is clear.
Output text (banners, one prompt per instruction) and the trap-flag and INT 3 modes are compared
against the real CLI by the L4 `prompt` group.
-/
import Emu8086.Model.Driver

namespace Emu8086.Props.C20
open Emu8086 Emu8086.Driver

theorem prompt_eof_exits (m : Machine) (out : String) :
    prompt m [] out = (out ++ ">>> " ++ "Exiting\n", [], .exit) := rfl

theorem prompt_next (m : Machine) (l : String) (rest : List String) (out : String)
    (h : trimLower l = "n" ∨ trimLower l = "next") :
    prompt m (l :: rest) out = (out ++ ">>> ", rest, .next) := by
  rcases h with h | h <;> simp [prompt, h]

theorem prompt_quit (m : Machine) (l : String) (rest : List String) (out : String)
    (h : trimLower l = "q" ∨ trimLower l = "quit") :
    prompt m (l :: rest) out = (out ++ ">>> " ++ "Exiting\n", rest, .exit) := by
  rcases h with h | h <;> simp [prompt, h]

/-- anything else is answered and the prompt comes again: same machine, rest of the input -/
theorem prompt_other (m : Machine) (l : String) (rest : List String) (out : String)
    (h1 : trimLower l ≠ "n") (h2 : trimLower l ≠ "next") (h3 : trimLower l ≠ "q") (h4 : trimLower l ≠ "quit") :
    prompt m (l :: rest) out =
      prompt m rest (out ++ ">>> " ++ (match runPrint m (trimLower l) with
        | some s => s
        | none => "Invalid input , only next/n or print commands are accepted\n")) := by
  have e1 : (trimLower l == "n" || trimLower l == "next") = false := by simp [h1, h2]
  have e2 : (trimLower l == "q" || trimLower l == "quit") = false := by simp [h3, h4]
  simp only [prompt, e1, e2, Bool.false_eq_true, if_false]
  cases runPrint m (trimLower l) <;> rfl

/-- the prompt never consumes more than the input and always returns (termination is by
    construction: structural recursion on the input) -/
theorem prompt_consumes (m : Machine) : ∀ (stdin : List String) (out : String),
    (prompt m stdin out).2.1.length ≤ stdin.length := by
  intro stdin
  induction stdin with
  | nil => intro out; simp [prompt]
  | cons l rest ih =>
    intro out
    simp only [prompt]
    split
    · simp
    · split
      · simp
      · split
        · exact Nat.le_succ_of_le (ih _)
        · exact Nat.le_succ_of_le (ih _)

/-- what a prompt prints always starts with what was printed before (it only appends) -/
theorem prompt_appends (m : Machine) : ∀ (stdin : List String) (out : String),
    ∃ t, (prompt m stdin out).1 = out ++ t := by
  intro stdin
  induction stdin with
  | nil => intro out; exact ⟨">>> " ++ "Exiting\n", by simp [prompt, String.append_assoc]⟩
  | cons l rest ih =>
    intro out
    simp only [prompt]
    split
    · exact ⟨">>> ", rfl⟩
    · split
      · exact ⟨">>> " ++ "Exiting\n", by simp [String.append_assoc]⟩
      · split
        · obtain ⟨t, ht⟩ := ih (out ++ ">>> " ++ _)
          exact ⟨_, by rw [ht, String.append_assoc, String.append_assoc]⟩
        · obtain ⟨t, ht⟩ := ih (out ++ ">>> " ++ "Invalid input , only next/n or print commands are accepted\n")
          exact ⟨_, by rw [ht, String.append_assoc, String.append_assoc]⟩

/-- the type of `prompt` is the read-only guarantee: it returns (output, remaining input, next|exit),
    no machine — whatever the script, the machine the program continues with is the one it had -/
theorem prompt_readonly (m : Machine) (stdin : List String) (out : String) :
    ∃ (o : String) (rest : List String) (e : PromptEnd), prompt m stdin out = (o, rest, e) := ⟨_, _, _, rfl⟩


/-! ### one loop iteration with and without stepping -/
section
variable (p : Prog) (fuel idx : Nat) (m : Machine) (ctx : Ctx) (out : String) (tr : List Nat)

theorem plain_step (stdin : List String) (hq : (p.interpreted || getFlag m.flag .TRAP) = false) :
    loop p (fuel + 1) idx m ctx stdin out tr = stepBody p (loop p fuel) idx m ctx stdin out tr := by
  simp [loop, prePrompt, hq]

theorem stepped_step (l : String) (rest : List String) (line : Nat) (text : String)
    (hq : (p.interpreted || getFlag m.flag .TRAP) = true) (hidx : idx + 2 ≤ p.code.size)
    (hi : lineInfo p idx = some (line, text)) (hn : trimLower l = "n" ∨ trimLower l = "next") :
    loop p (fuel + 1) idx m ctx (l :: rest) out tr =
      stepBody p (loop p fuel) idx m ctx rest
        (out ++ s!"About to execute line {line} : {text}\n" ++ (if getFlag m.flag .TRAP then "Trap flag is set\n" else "") ++ ">>> ") tr := by
  have hp := prompt_next m l rest
    (out ++ s!"About to execute line {line} : {text}\n" ++ (if getFlag m.flag .TRAP then "Trap flag is set\n" else "")) hn
  simp only [loop, prePrompt, hq, hidx, hi, decide_true, Bool.and_self, if_true]
  rw [hp]
  rfl

/-- `quit` or end of input at the prompt ends the run without executing the instruction -/
theorem stepped_quit (stdin : List String) (line : Nat) (text : String)
    (hq : (p.interpreted || getFlag m.flag .TRAP) = true) (hidx : idx + 2 ≤ p.code.size)
    (hi : lineInfo p idx = some (line, text))
    (he : (prompt m stdin (out ++ s!"About to execute line {line} : {text}\n" ++ (if getFlag m.flag .TRAP then "Trap flag is set\n" else ""))).2.2 = .exit) :
    (loop p (fuel + 1) idx m ctx stdin out tr).trace = tr.reverse ∧ (loop p (fuel + 1) idx m ctx stdin out tr).final = none := by
  simp only [loop, prePrompt, hq, hidx, hi, Bool.and_self, decide_true, if_true]
  generalize prompt m stdin _ = r at he
  rcases r with ⟨o, s, e⟩
  simp only at he; subst he
  simp
end

/-! ### whole-run transparency of stepping -/

/-- the run loop with stepping switched off altogether: what the program itself does -/
def loopPlain (p : Prog) : Nat → Cont
  | 0, _, m, _, _, out, tr => { stdout := out, exit := 0, trace := tr.reverse, final := some m, budget := true }
  | fuel+1, idx, m, ctx, stdin, out, tr => stepBody p (loopPlain p fuel) idx m ctx stdin out tr

/-- the same behaviour up to the text printed: exit status, executed indices, final machine -/
def Same (r1 r2 : Result) : Prop :=
  r1.exit = r2.exit ∧ r1.trace = r2.trace ∧ r1.final = r2.final ∧ r1.budget = r2.budget ∧ r1.panic = r2.panic

/-- an input script every line of which is the same line `l` (an answer `next`) -/
def script (l : String) (a : Nat) : List String := List.replicate a l

theorem script_succ (l : String) (a : Nat) : script l (a + 1) = l :: script l a := rfl

/-- INT 21h on such a script: machine and output do not depend on how long the script is, and at
    most one line is consumed -/
theorem int21_script (m : Machine) (ah : BitVec 8) (l : String) :
    ∃ (m' : Machine) (s : String), ∀ a, ∃ a', a ≤ a' ∧ int21 m ah (script l (a + 1)) = (m', s, script l a') := by
  unfold int21
  by_cases h1 : ah = 0x01#8
  · simp only [h1, beq_self_eq_true, if_true, script_succ]
    exact ⟨_, _, fun a => ⟨a, Nat.le_refl _, rfl⟩⟩
  · by_cases h2 : ah = 0x02#8
    · subst h2
      simp only [show ((0x02#8 : BitVec 8) == 0x01#8) = false by decide, Bool.false_eq_true, if_false, beq_self_eq_true, if_true]
      exact ⟨_, _, fun a => ⟨a + 1, Nat.le_succ _, rfl⟩⟩
    · by_cases h3 : ah = 0x0A#8
      · subst h3
        simp only [show ((0x0A#8 : BitVec 8) == 0x01#8) = false by decide, show ((0x0A#8 : BitVec 8) == 0x02#8) = false by decide,
          Bool.false_eq_true, if_false, beq_self_eq_true, if_true, script_succ]
        exact ⟨_, _, fun a => ⟨a, Nat.le_refl _, rfl⟩⟩
      · have e1 : (ah == 0x01#8) = false := by simpa using h1
        have e2 : (ah == 0x02#8) = false := by simpa using h2
        have e3 : (ah == 0x0A#8) = false := by simpa using h3
        simp only [e1, e2, e3, Bool.false_eq_true, if_false]
        exact ⟨_, _, fun a => ⟨a + 1, Nat.le_succ _, rfl⟩⟩

theorem lineInfo_interp (p : Prog) (b : Bool) (idx : Nat) : lineInfo { p with interpreted := b } idx = lineInfo p idx := rfl

theorem Same.mk' {r1 r2 : Result} (h1 : r1.exit = r2.exit) (h2 : r1.trace = r2.trace) (h3 : r1.final = r2.final)
    (h4 : r1.budget = r2.budget) (h5 : r1.panic = r2.panic) : Same r1 r2 := ⟨h1, h2, h3, h4, h5⟩

/-- one instruction, executed with stepping on and with stepping off, on scripts that answer `next`:
    the same behaviour, provided the rest of the run has it -/
theorem stepBody_same (p : Prog) (l : String) (hl : trimLower l = "n" ∨ trimLower l = "next") (k1 k2 : Cont) (N : Nat)
    (hk : ∀ idx m ctx tr o1 o2 a b, N ≤ a → N ≤ b → Same (k1 idx m ctx (script l a) o1 tr) (k2 idx m ctx (script l b) o2 tr))
    (idx : Nat) (m : Machine) (ctx : Ctx) (tr : List Nat) (o1 o2 : String) (a b : Nat) (ha : N + 1 ≤ a) (hb : N + 1 ≤ b) :
    Same (stepBody { p with interpreted := true } k1 idx m ctx (script l a) o1 tr) (stepBody p k2 idx m ctx (script l b) o2 tr) := by
  obtain ⟨a, rfl⟩ : ∃ a', a = a' + 1 := ⟨a - 1, by omega⟩
  obtain ⟨b, rfl⟩ : ∃ b', b = b' + 1 := ⟨b - 1, by omega⟩
  have hNa : N ≤ a := by omega
  have hNb : N ≤ b := by omega
  unfold stepBody
  simp only [lineInfo_interp]
  generalize hq : (parseLine (p.code[idx]?.getD "")).map (exec idx m ctx) = q
  cases q with
  | none => exact Same.mk' rfl rfl rfl rfl rfl
  | some r =>
    cases r with
    | error e => exact Same.mk' rfl rfl rfl rfl rfl
    | ok v =>
      obtain ⟨st, m', ctx'⟩ := v
      cases st with
      | HALT => exact Same.mk' rfl rfl rfl rfl rfl
      | NEXT => exact hk _ _ _ _ _ _ _ _ (by omega) (by omega)
      | REPEAT => exact hk _ _ _ _ _ _ _ _ (by omega) (by omega)
      | JMP n => exact hk _ _ _ _ _ _ _ _ (by omega) (by omega)
      | PRINT =>
        simp only
        cases lineInfo p idx with
        | none => exact Same.mk' rfl rfl rfl rfl rfl
        | some lt =>
          obtain ⟨ln, text⟩ := lt
          simp only
          cases runPrint m' (p.code[idx]?.getD "") with
          | none => exact Same.mk' rfl rfl rfl rfl rfl
          | some s => exact hk _ _ _ _ _ _ _ _ (by omega) (by omega)
      | INT n =>
        simp only
        by_cases h0 : n = 0#8
        · subst h0
          simp only [beq_self_eq_true, if_true]
          cases lineInfo p idx with
          | none => exact Same.mk' rfl rfl rfl rfl rfl
          | some lt => exact Same.mk' rfl rfl rfl rfl rfl
        · have e0 : (n == 0#8) = false := by simpa using h0
          simp only [e0, Bool.false_eq_true, if_false]
          by_cases h3 : n = 3#8
          · subst h3
            simp only [beq_self_eq_true, if_true]
            cases lineInfo p idx with
            | none => exact Same.mk' rfl rfl rfl rfl rfl
            | some lt =>
              obtain ⟨ln, text⟩ := lt
              simp only [script_succ, prompt_next m' l _ _ hl]
              exact hk _ _ _ _ _ _ _ _ hNa hNb
          · have e3 : (n == 3#8) = false := by simpa using h3
            simp only [e3, Bool.false_eq_true, if_false]
            by_cases h10 : n = 0x10#8
            · subst h10
              simp only [beq_self_eq_true, if_true]
              split
              · cases lineInfo p idx with
                | none => exact Same.mk' rfl rfl rfl rfl rfl
                | some lt => exact Same.mk' rfl rfl rfl rfl rfl
              · exact hk _ _ _ _ _ _ _ _ (by omega) (by omega)
            · have e10 : (n == 0x10#8) = false := by simpa using h10
              simp only [e10, Bool.false_eq_true, if_false]
              by_cases h21 : n = 0x21#8
              · subst h21
                simp only [beq_self_eq_true, if_true]
                split
                · cases lineInfo p idx with
                  | none => exact Same.mk' rfl rfl rfl rfl rfl
                  | some lt => exact Same.mk' rfl rfl rfl rfl rfl
                · obtain ⟨m'', s, h⟩ := int21_script m' (m'.getByteReg .AH) l
                  obtain ⟨a', ha', ea⟩ := h a
                  obtain ⟨b', hb', eb⟩ := h b
                  rw [ea, eb]
                  exact hk _ _ _ _ _ _ _ _ (by omega) (by omega)
              · have e21 : (n == 0x21#8) = false := by simpa using h21
                simp only [e21, Bool.false_eq_true, if_false]
                exact Same.mk' rfl rfl rfl rfl rfl

/-- **Stepping is transparent for whole runs.**  For every program whose instructions all have a
    source-map entry, every start state and every length of run: executing with `-i` and answering
    every prompt (and every read) with a line `l` that means `next` has the same exit status, executes
    the same instruction indices in the same order and ends in the same machine as the run loop with
    stepping switched off — whatever the two runs had printed before, and however long the scripts are
    (two lines per remaining step suffice).  Interrupts, prints, calls, repeats and trap-flag changes
    included. -/
theorem stepping_transparent (p : Prog) (hmap : ∀ idx, idx + 2 ≤ p.code.size → (lineInfo p idx).isSome)
    (l : String) (hl : trimLower l = "n" ∨ trimLower l = "next") :
    ∀ (fuel idx : Nat) (m : Machine) (ctx : Ctx) (tr : List Nat) (o1 o2 : String) (a b : Nat), 2 * fuel ≤ a → 2 * fuel ≤ b →
      Same (loop { p with interpreted := true } fuel idx m ctx (script l a) o1 tr) (loopPlain p fuel idx m ctx (script l b) o2 tr) := by
  intro fuel
  induction fuel with
  | zero => intro idx m ctx tr o1 o2 a b _ _; exact Same.mk' rfl rfl rfl rfl rfl
  | succ fuel ih =>
    intro idx m ctx tr o1 o2 a b ha hb
    simp only [loop, loopPlain, prePrompt, Bool.true_or, Bool.true_and, lineInfo_interp]
    by_cases hidx : idx + 2 ≤ p.code.size
    · have hs := hmap idx hidx
      obtain ⟨a, rfl⟩ : ∃ a', a = a' + 1 := ⟨a - 1, by omega⟩
      cases hli : lineInfo p idx with
      | none => rw [hli] at hs; cases hs
      | some lt =>
        obtain ⟨line, text⟩ := lt
        simp only [hidx, decide_true, if_true, script_succ, prompt_next m l _ _ hl]
        exact stepBody_same p l hl _ _ (2 * fuel) ih idx m ctx tr _ _ a b (by omega) (by omega)
    · simp only [hidx, decide_false, Bool.false_eq_true, if_false]
      exact stepBody_same p l hl _ _ (2 * fuel) ih idx m ctx tr _ _ a b (by omega) (by omega)

/-- the plain run itself is the run loop with stepping switched off for as long as the trap flag
    is clear (`plain_step`, one step at a time) -/
theorem plain_is_loopPlain_step (p : Prog) (hi : p.interpreted = false) (fuel idx : Nat) (m : Machine) (ctx : Ctx)
    (stdin : List String) (out : String) (tr : List Nat) (htf : getFlag m.flag .TRAP = false) :
    loop p (fuel + 1) idx m ctx stdin out tr = stepBody p (loop p fuel) idx m ctx stdin out tr :=
  plain_step p fuel idx m ctx out tr stdin (by simp [hi, htf])

/-- non-vacuity: the line `n` is such an answer (kernel-evaluated) -/
example : trimLower "n" = "n" ∨ trimLower "n" = "next" := Or.inl (by decide)

end Emu8086.Props.C20
