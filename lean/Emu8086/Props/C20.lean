/-
Property C20 — single-stepping and breakpoints are transparent and the prompt always terminates.

Model of user_interface.rs (`Driver.prompt`) and of the stepping part of the run loop, for EVERY
machine state and EVERY input script:
  * `prompt_terminates`  : `prompt` is structurally recursive on the remaining input — Lean accepting
                           the definition is the termination proof; it consumes at most the whole
                           input (`prompt_consumes`), so no input sequence makes it spin;
  * `prompt_eof_exits`   : end of input terminates the emulator (prints the prompt and "Exiting");
  * `prompt_next`        : `n` / `next` (any case, surrounding blanks) returns to the program after
                           exactly one input line;
  * `prompt_quit`        : `q` / `quit` terminates the emulator;
  * `prompt_other`       : any other line — a print command or garbage — is answered and the prompt
                           comes again with the SAME machine and the rest of the input (no advance);
  * `prompt_readonly`    : the prompt cannot change the machine: it takes it as a value and returns only
                           output text, remaining input and next/exit;
  * `plain_step` / `stepped_step` : one iteration of the run loop without stepping and one with
                           stepping active (interpreted mode or TF set) whose prompt is answered
                           `next` run the SAME `stepBody` — the same instruction on the same machine,
                           context and index with the same continuation; only the output gains the
                           banner and the input loses the one answered line: stepping is transparent
                           step by step.
Whole-run transparency (same output minus banners, same final machine, one prompt per instruction)
is checked on the model and against the real CLI by the L4 `prompt` group (stepping by -i, by a
POPF-set trap flag, by INT 3).
-/
import Emu8086.Model.Driver

namespace Emu8086.Props.C20
open Emu8086 Emu8086.Driver

theorem prompt_eof_exits (m : Machine) (out : String) :
    prompt m [] out = (out ++ ">>> " ++ "Exiting\n", [], .exit) := rfl

theorem prompt_next (m : Machine) (l : String) (rest : List String) (out : String)
    (h : trimLower l = "n" ∨ trimLower l = "next") :
    prompt m (l :: rest) out = (out ++ ">>> ", rest, .next) := by
  rcases h with h | h <;> simp [prompt, h]

theorem prompt_quit (m : Machine) (l : String) (rest : List String) (out : String)
    (h : trimLower l = "q" ∨ trimLower l = "quit") :
    prompt m (l :: rest) out = (out ++ ">>> " ++ "Exiting\n", rest, .exit) := by
  rcases h with h | h <;> simp [prompt, h]

/-- anything else is answered and the prompt comes again: same machine, rest of the input -/
theorem prompt_other (m : Machine) (l : String) (rest : List String) (out : String)
    (h1 : trimLower l ≠ "n") (h2 : trimLower l ≠ "next") (h3 : trimLower l ≠ "q") (h4 : trimLower l ≠ "quit") :
    prompt m (l :: rest) out =
      prompt m rest (out ++ ">>> " ++ (match runPrint m (trimLower l) with
        | some s => s
        | none => "Invalid input , only next/n or print commands are accepted\n")) := by
  have e1 : (trimLower l == "n" || trimLower l == "next") = false := by simp [h1, h2]
  have e2 : (trimLower l == "q" || trimLower l == "quit") = false := by simp [h3, h4]
  simp only [prompt, e1, e2, Bool.false_eq_true, if_false]
  cases runPrint m (trimLower l) <;> rfl

/-- the prompt never consumes more than the input and always returns (termination is by
    construction: structural recursion on the input) -/
theorem prompt_consumes (m : Machine) : ∀ (stdin : List String) (out : String),
    (prompt m stdin out).2.1.length ≤ stdin.length := by
  intro stdin
  induction stdin with
  | nil => intro out; simp [prompt]
  | cons l rest ih =>
    intro out
    simp only [prompt]
    split
    · simp
    · split
      · simp
      · split
        · exact Nat.le_succ_of_le (ih _)
        · exact Nat.le_succ_of_le (ih _)

/-- what a prompt prints always starts with what was printed before (it only appends) -/
theorem prompt_appends (m : Machine) : ∀ (stdin : List String) (out : String),
    ∃ t, (prompt m stdin out).1 = out ++ t := by
  intro stdin
  induction stdin with
  | nil => intro out; exact ⟨">>> " ++ "Exiting\n", by simp [prompt, String.append_assoc]⟩
  | cons l rest ih =>
    intro out
    simp only [prompt]
    split
    · exact ⟨">>> ", rfl⟩
    · split
      · exact ⟨">>> " ++ "Exiting\n", by simp [String.append_assoc]⟩
      · split
        · obtain ⟨t, ht⟩ := ih (out ++ ">>> " ++ _)
          exact ⟨_, by rw [ht, String.append_assoc, String.append_assoc]⟩
        · obtain ⟨t, ht⟩ := ih (out ++ ">>> " ++ "Invalid input , only next/n or print commands are accepted\n")
          exact ⟨_, by rw [ht, String.append_assoc, String.append_assoc]⟩

/-- the type of `prompt` is the read-only guarantee: it returns (output, remaining input, next|exit),
    no machine — whatever the script, the machine the program continues with is the one it had -/
theorem prompt_readonly (m : Machine) (stdin : List String) (out : String) :
    ∃ (o : String) (rest : List String) (e : PromptEnd), prompt m stdin out = (o, rest, e) := ⟨_, _, _, rfl⟩


/-! ### one loop iteration with and without stepping -/
section
variable (p : Prog) (fuel idx : Nat) (m : Machine) (ctx : Ctx) (out : String) (tr : List Nat)

theorem plain_step (stdin : List String) (hq : (p.interpreted || getFlag m.flag .TRAP) = false) :
    loop p (fuel + 1) idx m ctx stdin out tr = stepBody p (loop p fuel) idx m ctx stdin out tr := by
  simp [loop, prePrompt, hq]

theorem stepped_step (l : String) (rest : List String) (line : Nat) (text : String)
    (hq : (p.interpreted || getFlag m.flag .TRAP) = true) (hidx : idx + 2 ≤ p.code.size)
    (hi : lineInfo p idx = some (line, text)) (hn : trimLower l = "n" ∨ trimLower l = "next") :
    loop p (fuel + 1) idx m ctx (l :: rest) out tr =
      stepBody p (loop p fuel) idx m ctx rest
        (out ++ s!"About to execute line {line} : {text}\n" ++ (if getFlag m.flag .TRAP then "Trap flag is set\n" else "") ++ ">>> ") tr := by
  have hp := prompt_next m l rest
    (out ++ s!"About to execute line {line} : {text}\n" ++ (if getFlag m.flag .TRAP then "Trap flag is set\n" else "")) hn
  simp only [loop, prePrompt, hq, hidx, hi, decide_true, Bool.and_self, if_true]
  rw [hp]
  rfl

/-- `quit` or end of input at the prompt ends the run without executing the instruction -/
theorem stepped_quit (stdin : List String) (line : Nat) (text : String)
    (hq : (p.interpreted || getFlag m.flag .TRAP) = true) (hidx : idx + 2 ≤ p.code.size)
    (hi : lineInfo p idx = some (line, text))
    (he : (prompt m stdin (out ++ s!"About to execute line {line} : {text}\n" ++ (if getFlag m.flag .TRAP then "Trap flag is set\n" else ""))).2.2 = .exit) :
    (loop p (fuel + 1) idx m ctx stdin out tr).trace = tr.reverse ∧ (loop p (fuel + 1) idx m ctx stdin out tr).final = none := by
  simp only [loop, prePrompt, hq, hidx, hi, Bool.and_self, decide_true, if_true]
  generalize prompt m stdin _ = r at he
  rcases r with ⟨o, s, e⟩
  simp only at he; subst he
  simp
end

end Emu8086.Props.C20
