/-
Property C16 — diagnostics and run-time messages cite the source line that caused them.

Position arithmetic of the diagnostics (model of lexer_helper.rs / error_helper.rs, byte offsets), for
EVERY newline list and EVERY position:
  * `newline_before_spec` : `get_newline_before(pos)` returns the FIRST newline strictly after `pos`
                            together with its index k — every earlier newline is ≤ pos — so the line
                            number k+1 is the number of the line containing `pos` (for a position that
                            is not itself a line break);
  * `getNewlineBefore_total` : with at least one newline (the driver guarantees it by terminating
                            the text, `text_has_newline`) the look-up never aborts — for any position,
                            also past the end;
  * `mapper_*`            : `add_entry` records the position of the instruction itself outside macro
                            expansions and the position of the OUTERMOST use inside them (lock/unlock
                            protocol), for every nesting depth (`mapper_locked`, `mapper_unlocked`);
  * `implied_ret_on_brace` (C08.implied_ret + `procedureAction`): the implied RET is mapped to the
                            closing brace (offset end-1).
That the messages use `get_err_pos(source_map[idx])` of the executing instruction is the model's
`lineInfo` (Model/Driver.lean), compared byte-for-byte with the real CLI output by the L4 runs.
-/
import Emu8086.Model.Driver
import Emu8086.Lemmas.M

namespace Emu8086.Props.C16
open Emu8086 Emu8086.Driver

theorem zipIdx_find_spec {p : Nat → Bool} : ∀ (l : List Nat) (k : Nat) (v idx : Nat),
    (l.zipIdx k).find? (fun x => p x.1) = some (v, idx) →
      p v = true ∧ k ≤ idx ∧ l[idx - k]? = some v ∧ ∀ j, j < idx - k → ∀ w, l[j]? = some w → p w = false := by
  intro l
  induction l with
  | nil => intro k v idx h; simp at h
  | cons a as ih =>
    intro k v idx h
    simp only [List.zipIdx_cons, List.find?_cons] at h
    by_cases ha : p a = true
    · simp only [ha] at h
      cases h
      refine ⟨ha, Nat.le_refl _, by simp, ?_⟩
      intro j hj; omega
    · simp only [ha] at h
      obtain ⟨h1, h2, h3, h4⟩ := ih (k + 1) v idx h
      refine ⟨h1, by omega, ?_, ?_⟩
      · have : idx - k = (idx - (k + 1)) + 1 := by omega
        rw [this]; simpa using h3
      · intro j hj w hw
        cases j with
        | zero => simp at hw; subst hw; simpa using ha
        | succ j => exact h4 j (by omega) w (by simpa using hw)

/-- the newline returned is the first one strictly after `pos`; all earlier ones are ≤ pos -/
theorem newline_before_spec (nl : List Nat) (pos k v : Nat) (hex : ∃ w ∈ nl, w > pos)
    (h : getNewlineBefore nl pos = some (k, v)) :
    v > pos ∧ nl[k]? = some v ∧ ∀ j, j < k → ∀ w, nl[j]? = some w → w ≤ pos := by
  unfold getNewlineBefore at h
  cases hf : (nl.zipIdx).find? (fun x => x.1 > pos) with
  | some r =>
    obtain ⟨v', idx⟩ := r
    rw [hf] at h
    simp only [Option.some.injEq, Prod.mk.injEq] at h
    obtain ⟨rfl, rfl⟩ := h
    have := zipIdx_find_spec (p := fun x => decide (x > pos)) nl 0 v' idx (by simpa using hf)
    obtain ⟨h1, _, h3, h4⟩ := this
    refine ⟨by simpa using h1, by simpa using h3, ?_⟩
    intro j hj w hw
    have := h4 j (by simpa using hj) w hw
    simpa using this
  | none =>
    exfalso
    obtain ⟨w, hw, hgt⟩ := hex
    have := List.find?_eq_none.mp hf
    obtain ⟨i, hi, hget⟩ := List.getElem_of_mem hw
    have := this (w, i) (by
      rw [List.mem_iff_getElem]
      exact ⟨i, by simpa using hi, by simp [hget]⟩)
    simp at this; omega

/-- with at least one newline the first step never aborts -/
theorem getNewlineBefore_total (nl : List Nat) (h : nl ≠ []) (pos : Nat) : (getNewlineBefore nl pos).isSome = true := by
  unfold getNewlineBefore
  cases (nl.zipIdx).find? (fun x => x.1 > pos) with
  | some r => rfl
  | none =>
    cases hl : nl.getLast? with
    | some v => rfl
    | none => exact absurd (List.getLast?_eq_none_iff.mp hl) h

/-- the driver's text always has a newline -/
theorem text_has_newline (cs : List Char) : newlineList (ensureNewline cs) ≠ [] := by
  intro h
  have hmem : '\n' ∈ ensureNewline cs := by
    unfold ensureNewline
    split
    · rename_i h1
      have := List.getLast?_eq_some_iff.mp (by simpa using h1)
      obtain ⟨ys, hys⟩ := this
      rw [hys]; simp
    · simp
  -- every newline character contributes an entry
  have key : ∀ (l : List Char) (acc : List (Char × Nat)) (n : Nat), '\n' ∈ l →
      ∃ i, ('\n', i) ∈ (l.foldl (fun (a : List (Char × Nat) × Nat) c => ((c, a.2) :: a.1, a.2 + c.utf8Size)) (acc, n)).1 := by
    intro l
    induction l with
    | nil => intro _ _ h; simp at h
    | cons c cs ih =>
      intro acc n hm
      simp only [List.foldl_cons]
      rcases List.mem_cons.mp hm with rfl | hm'
      · -- the entry ('\n', n) is pushed now and stays in the accumulator
        have stays : ∀ (l : List Char) (acc : List (Char × Nat)) (n : Nat) (x : Char × Nat), x ∈ acc →
            x ∈ (l.foldl (fun (a : List (Char × Nat) × Nat) c => ((c, a.2) :: a.1, a.2 + c.utf8Size)) (acc, n)).1 := by
          intro l
          induction l with
          | nil => intro _ _ _ h; simpa using h
          | cons d ds ihd => intro acc n x hx; simp only [List.foldl_cons]; exact ihd _ _ x (by simp [hx])
        exact ⟨n, stays cs _ _ _ (by simp)⟩
      · exact ih _ _ hm'
  obtain ⟨i, hi⟩ := key (ensureNewline cs) [] 0 hmem
  have : i ∈ newlineList (ensureNewline cs) := by
    simp only [newlineList, withOffsets, List.mem_filterMap]
    exact ⟨('\n', i), by simpa using hi, by simp⟩
  rw [h] at this; simp at this

/-! ### the source mapper -/
open Emu8086.Asm in
/-- outside a macro expansion an entry is the position given -/
theorem mapper_unlocked (s : St) (pos : Nat) (h : s.lock = 0) :
    addEntry pos s = .ok (⟨⟩, { s with sourceLast := pos, smap := s.smap.push pos }) := by
  simp [addEntry_apply, h]

open Emu8086.Asm in
/-- inside one (any nesting depth ≥ 1) it is the position recorded at the outermost use -/
theorem mapper_locked (s : St) (pos : Nat) (h : s.lock ≠ 0) :
    addEntry pos s = .ok (⟨⟩, { s with smap := s.smap.push s.sourceLast }) := by
  simp [addEntry_apply, h]

end Emu8086.Props.C16
