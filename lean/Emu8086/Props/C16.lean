/-
Property C16 — diagnostics and run-time messages cite the source line that caused them.

Position arithmetic of the diagnostics (model of lexer_helper.rs / error_helper.rs, byte offsets), for
EVERY newline list and EVERY position:
  * `newline_before_spec` : `get_newline_before(pos)` returns the FIRST newline strictly after `pos`
                            together with its index k — every earlier newline is ≤ pos — so the line
                            number k+1 is the number of the line containing `pos` (for a position that
                            is not itself a line break);
  * `getErrPos_correct`   : for a strictly increasing newline list (`newlineList_sorted`: the driver's list
                            always is) and a position before the last newline that is not itself a line
                            break, `get_err_pos` returns (k+1, start, end) with start ≤ pos < end, end the
                            first newline after pos and start = 0 or one past the previous newline: the
                            reported line number, column base and line text are those of the line CONTAINING
                            the position (`boundsFold_eq`: what the `get_bounds` loop computes);
  * `getNewlineBefore_total` : with at least one newline (the driver guarantees it by terminating
                            the text, `text_has_newline`) the look-up never aborts — for any position,
                            also past the end;
  * `mapper_*`            : `add_entry` records the position of the instruction itself outside macro
                            expansions and the position of the OUTERMOST use inside them (lock/unlock
                            protocol), for every nesting depth (`mapper_locked`, `mapper_unlocked`);
  * `implied_ret_on_brace` (C08.implied_ret + `procedureAction`): the implied RET is mapped to the
                            closing brace (offset end-1).
That the messages use `get_err_pos(source_map[idx])` of the executing instruction is the model's
`lineInfo` (Model/Driver.lean), compared byte-for-byte with the real CLI output by the L4 runs.
-/
import Emu8086.Model.Driver
import Emu8086.Lemmas.M

namespace Emu8086.Props.C16
open Emu8086 Emu8086.Driver

theorem zipIdx_find_spec {p : Nat → Bool} : ∀ (l : List Nat) (k : Nat) (v idx : Nat),
    (l.zipIdx k).find? (fun x => p x.1) = some (v, idx) →
      p v = true ∧ k ≤ idx ∧ l[idx - k]? = some v ∧ ∀ j, j < idx - k → ∀ w, l[j]? = some w → p w = false := by
  intro l
  induction l with
  | nil => intro k v idx h; simp at h
  | cons a as ih =>
    intro k v idx h
    simp only [List.zipIdx_cons, List.find?_cons] at h
    by_cases ha : p a = true
    · simp only [ha] at h
      cases h
      refine ⟨ha, Nat.le_refl _, by simp, ?_⟩
      intro j hj; omega
    · simp only [ha] at h
      obtain ⟨h1, h2, h3, h4⟩ := ih (k + 1) v idx h
      refine ⟨h1, by omega, ?_, ?_⟩
      · have : idx - k = (idx - (k + 1)) + 1 := by omega
        rw [this]; simpa using h3
      · intro j hj w hw
        cases j with
        | zero => simp at hw; subst hw; simpa using ha
        | succ j => exact h4 j (by omega) w (by simpa using hw)

/-- the newline returned is the first one strictly after `pos`; all earlier ones are ≤ pos -/
theorem newline_before_spec (nl : List Nat) (pos k v : Nat) (hex : ∃ w ∈ nl, w > pos)
    (h : getNewlineBefore nl pos = some (k, v)) :
    v > pos ∧ nl[k]? = some v ∧ ∀ j, j < k → ∀ w, nl[j]? = some w → w ≤ pos := by
  unfold getNewlineBefore at h
  cases hf : (nl.zipIdx).find? (fun x => x.1 > pos) with
  | some r =>
    obtain ⟨v', idx⟩ := r
    rw [hf] at h
    simp only [Option.some.injEq, Prod.mk.injEq] at h
    obtain ⟨rfl, rfl⟩ := h
    have := zipIdx_find_spec (p := fun x => decide (x > pos)) nl 0 v' idx (by simpa using hf)
    obtain ⟨h1, _, h3, h4⟩ := this
    refine ⟨by simpa using h1, by simpa using h3, ?_⟩
    intro j hj w hw
    have := h4 j (by simpa using hj) w hw
    simpa using this
  | none =>
    exfalso
    obtain ⟨w, hw, hgt⟩ := hex
    have := List.find?_eq_none.mp hf
    obtain ⟨i, hi, hget⟩ := List.getElem_of_mem hw
    have := this (w, i) (by
      rw [List.mem_iff_getElem]
      exact ⟨i, by simpa using hi, by simp [hget]⟩)
    simp at this; omega

/-- with at least one newline the first step never aborts -/
theorem getNewlineBefore_total (nl : List Nat) (h : nl ≠ []) (pos : Nat) : (getNewlineBefore nl pos).isSome = true := by
  unfold getNewlineBefore
  cases (nl.zipIdx).find? (fun x => x.1 > pos) with
  | some r => rfl
  | none =>
    cases hl : nl.getLast? with
    | some v => rfl
    | none => exact absurd (List.getLast?_eq_none_iff.mp hl) h

theorem mem_withOffsetsFrom (c : Char) : ∀ (l : List Char) (n : Nat), c ∈ l → ∃ i, (c, i) ∈ withOffsetsFrom n l := by
  intro l
  induction l with
  | nil => intro n h; simp at h
  | cons x xs ih =>
    intro n h
    rcases List.mem_cons.mp h with rfl | h'
    · exact ⟨n, by simp [withOffsetsFrom]⟩
    · obtain ⟨i, hi⟩ := ih (n + x.utf8Size) h'
      exact ⟨i, by simp [withOffsetsFrom, hi]⟩

/-- the driver's text always has a newline -/
theorem text_has_newline (cs : List Char) : newlineList (ensureNewline cs) ≠ [] := by
  intro h
  have hmem : '\n' ∈ ensureNewline cs := by
    unfold ensureNewline
    split
    · rename_i h1
      have := List.getLast?_eq_some_iff.mp (by simpa using h1)
      obtain ⟨ys, hys⟩ := this
      rw [hys]; simp
    · simp
  obtain ⟨i, hi⟩ := mem_withOffsetsFrom '\n' (ensureNewline cs) 0 hmem
  have : i ∈ newlineList (ensureNewline cs) := by
    simp only [newlineList, withOffsets, List.mem_filterMap]
    exact ⟨('\n', i), hi, by simp⟩
  rw [h] at this; simp at this

/-- offsets are strictly increasing (every character occupies at least one byte) -/
theorem withOffsetsFrom_lb : ∀ (l : List Char) (n : Nat) (p : Char × Nat), p ∈ withOffsetsFrom n l → n ≤ p.2 := by
  intro l
  induction l with
  | nil => intro n p h; simp [withOffsetsFrom] at h
  | cons x xs ih =>
    intro n p h
    simp only [withOffsetsFrom, List.mem_cons] at h
    rcases h with rfl | h
    · exact Nat.le_refl _
    · have := ih _ p h; omega

theorem withOffsetsFrom_sorted : ∀ (l : List Char) (n : Nat), (withOffsetsFrom n l).Pairwise (fun a b => a.2 < b.2) := by
  intro l
  induction l with
  | nil => intro n; simp [withOffsetsFrom]
  | cons x xs ih =>
    intro n
    simp only [withOffsetsFrom, List.pairwise_cons]
    refine ⟨fun p hp => ?_, ih _⟩
    have := withOffsetsFrom_lb xs _ p hp
    have hpos : 0 < x.utf8Size := Char.utf8Size_pos x
    omega

/-- the driver's newline list is strictly increasing: the hypothesis of `getErrPos_correct` holds
    for every text -/
theorem newlineList_sorted (cs : List Char) : (newlineList cs).Pairwise (· < ·) := by
  unfold newlineList withOffsets
  have := withOffsetsFrom_sorted cs 0
  generalize withOffsetsFrom 0 cs = l at this
  induction l with
  | nil => simp
  | cons p ps ih =>
    obtain ⟨hp, hps⟩ := List.pairwise_cons.mp this
    simp only [List.filterMap_cons]
    split
    · exact ih hps
    · rename_i v hv
      refine List.pairwise_cons.mpr ⟨fun w hw => ?_, ih hps⟩
      obtain ⟨q, hq, hqw⟩ := List.mem_filterMap.mp hw
      have h1 := hp q hq
      have e1 : v = p.2 := by split at hv <;> simp_all
      have e2 : w = q.2 := by split at hqw <;> simp_all
      omega

/-! ### the source mapper -/
open Emu8086.Asm in
/-- outside a macro expansion an entry is the position given -/
theorem mapper_unlocked (s : St) (pos : Nat) (h : s.lock = 0) :
    addEntry pos s = .ok (⟨⟩, { s with sourceLast := pos, smap := s.smap.push pos }) := by
  simp [addEntry_apply, h]

open Emu8086.Asm in
/-- inside one (any nesting depth ≥ 1) it is the position recorded at the outermost use -/
theorem mapper_locked (s : St) (pos : Nat) (h : s.lock ≠ 0) :
    addEntry pos s = .ok (⟨⟩, { s with smap := s.smap.push s.sourceLast }) := by
  simp [addEntry_apply, h]

end Emu8086.Props.C16

/-! ### the bounds of the reported line -/
namespace Emu8086.Props.C16
open Emu8086 Emu8086.Driver

/-- the loop of `get_bounds`, started at index `s` with candidate `i0` -/
def boundsFold (pos : Nat) (l : List Nat) (s : Nat) (i0 : Nat) : Nat :=
  ((l.zipIdx s).foldl (fun (acc : Nat × Bool) (p : Nat × Nat) =>
      if acc.2 then acc else if p.1 > pos then (acc.1, true) else (p.2, false)) (i0, false)).1

theorem fold_stopped (pos : Nat) (l : List (Nat × Nat)) (i : Nat) :
    (l.foldl (fun (acc : Nat × Bool) (p : Nat × Nat) =>
      if acc.2 then acc else if p.1 > pos then (acc.1, true) else (p.2, false)) (i, true)) = (i, true) := by
  induction l with
  | nil => rfl
  | cons x xs ih => simp only [List.foldl_cons, if_true]; exact ih

/-- the loop leaves the index of the last element of the maximal prefix of elements ≤ pos
    (the start candidate if that prefix is empty) -/
theorem boundsFold_eq (pos : Nat) : ∀ (l : List Nat) (s i0 : Nat),
    boundsFold pos l s i0 = if (l.takeWhile (· ≤ pos)).length = 0 then i0 else s + (l.takeWhile (· ≤ pos)).length - 1 := by
  intro l
  induction l with
  | nil => intro s i0; simp [boundsFold]
  | cons x xs ih =>
    intro s i0
    unfold boundsFold
    simp only [List.zipIdx_cons, List.foldl_cons, Bool.false_eq_true, if_false]
    by_cases hx : x > pos
    · have hx' : ¬ x ≤ pos := by omega
      simp only [hx, if_true, fold_stopped, List.takeWhile_cons, hx', decide_false, Bool.false_eq_true, if_false, List.length_nil]
    · have hx' : x ≤ pos := by omega
      simp only [hx, if_false, List.takeWhile_cons, hx', decide_true, if_true, List.length_cons]
      have := ih (s + 1) s
      unfold boundsFold at this
      rw [this]
      by_cases hz : (List.takeWhile (fun x => decide (x ≤ pos)) xs).length = 0
      · simp [hz]
      · simp only [hz, if_false]
        have : ¬ ((List.takeWhile (fun x => decide (x ≤ pos)) xs).length + 1 = 0) := by omega
        simp only [this, if_false]; omega

theorem getBounds_eq (nl : List Nat) (pos : Nat) :
    getBounds nl pos =
      (let i := boundsFold pos nl 0 0
       if i == 0 then nl.head?.map fun v => (0, v)
       else match nl[i - 1]?, nl[i]? with
         | some a, some b => some (a + 1, b)
         | _, _ => none) := rfl

/-- strictly increasing list: the elements ≤ the k-th are exactly the first k+1 -/
theorem takeWhile_sorted (l : List Nat) (hs : l.Pairwise (· < ·)) (k : Nat) (v : Nat) (hk : l[k]? = some v) :
    (l.takeWhile (· ≤ v)).length = k + 1 := by
  induction l generalizing k with
  | nil => simp at hk
  | cons x xs ih =>
    obtain ⟨hx, hxs⟩ := List.pairwise_cons.mp hs
    cases k with
    | zero =>
      simp at hk; subst hk
      simp only [List.takeWhile_cons, Nat.le_refl, decide_true, if_true, List.length_cons]
      -- every later element is greater
      have : xs.takeWhile (· ≤ x) = [] := by
        cases xs with
        | nil => rfl
        | cons y ys =>
          have := hx y (by simp)
          simp only [List.takeWhile_cons]
          have : ¬ y ≤ x := by omega
          simp [this]
      simp [this]
    | succ k =>
      have hk' : xs[k]? = some v := by simpa using hk
      have hv : x < v := hx v (List.mem_of_getElem? hk')
      have hle : x ≤ v := by omega
      simp only [List.takeWhile_cons, hle, decide_true, if_true, List.length_cons]
      rw [ih hxs k hk']

/-- **The reported line contains the position.**  For a strictly increasing newline list and a
    position before the last newline that is not itself a newline: `get_err_pos` returns the 1-based
    number k+1 of the first newline after the position, and the bounds [start, end) with
    start ≤ pos < end, where end is that newline and start is 0 or one past the previous newline. -/
theorem getErrPos_correct (nl : List Nat) (hs : nl.Pairwise (· < ·)) (pos : Nat)
    (hex : ∃ w ∈ nl, w > pos) (hnn : pos ∉ nl) :
    ∃ k v st, getErrPos nl pos = some (k + 1, st, v) ∧ nl[k]? = some v ∧ st ≤ pos ∧ pos < v
      ∧ (k = 0 → st = 0) ∧ (∀ a, k ≠ 0 → nl[k - 1]? = some a → st = a + 1) := by
  have htot : (getNewlineBefore nl pos).isSome = true :=
    getNewlineBefore_total nl (by obtain ⟨w, hw, _⟩ := hex; intro h; rw [h] at hw; simp at hw) pos
  obtain ⟨⟨k, v⟩, hkv⟩ := Option.isSome_iff_exists.mp htot
  obtain ⟨hgt, hget, hbefore⟩ := newline_before_spec nl pos k v hex hkv
  have hlen := takeWhile_sorted nl hs k v hget
  have hi : boundsFold v nl 0 0 = k := by
    rw [boundsFold_eq]; simp [hlen]
  unfold getErrPos
  rw [hkv]
  simp only [getBounds_eq, hi]
  cases k with
  | zero =>
    have hh : nl.head? = some v := by
      cases nl with
      | nil => simp at hget
      | cons x xs => simpa using hget
    refine ⟨0, v, 0, by simp [hh], hget, Nat.zero_le _, hgt, fun _ => rfl, fun a h => absurd rfl h⟩
  | succ k =>
    cases hprev : nl[k]? with
    | none =>
      exfalso
      have : k + 1 < nl.length := by
        have := List.getElem?_eq_some_iff.mp hget; exact this.1
      have : nl[k]? ≠ none := by
        rw [List.getElem?_eq_getElem (by omega)]; simp
      exact this hprev
    | some a =>
      have hle : a ≤ pos := hbefore k (by omega) a hprev
      have hne : a ≠ pos := fun e => hnn (e ▸ List.mem_of_getElem? hprev)
      refine ⟨k + 1, v, a + 1, ?_, hget, by omega, hgt, fun h => by omega, fun a' _ ha' => ?_⟩
      · simp [hprev, hget]
      · simp only [Nat.add_sub_cancel] at ha'; rw [hprev] at ha'; cases ha'; rfl

end Emu8086.Props.C16
