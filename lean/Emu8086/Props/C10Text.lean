/-
Property C10, text level, print lines: every print line the assembler emits
(`print flags`, `print reg`, `print mem a -> b`, `print mem a : n`, `print mem : n`, numbers rendered
in decimal) is accepted by the printer's reader and read back as exactly that command, for EVERY
pair of numbers below 2^64 (`print_*_accepted`).  (Data lines: `Props.C12Text`.)
-/
import Emu8086.Model.Driver
import Emu8086.Props.C12Text

namespace Emu8086.Props.C10Text
open Emu8086 Emu8086.Driver Emu8086.Props.C12Text

theorem print_flags_accepted : parsePrint "print flags" = some .flags := by
  decide +kernel
theorem print_reg_accepted : parsePrint "print reg" = some .reg := by
  decide +kernel
/-- the print lexer has no identifier terminal: `printreg` is `print` `reg` (as LALRPOP lexes it) -/
theorem printreg_accepted : parsePrint "printreg" = some .reg := by
  decide +kernel

/-- a digit is not white space -/
theorem digit_facts2 (c : Char) (h : c.isDigit = true) : isSpace c = false := by
  simp only [Char.isDigit, Bool.and_eq_true, decide_eq_true_eq] at h
  have h1 : 48 ≤ c.val.toNat := UInt32.le_iff_toNat_le.mp h.1
  have h2 : c.val.toNat ≤ 57 := UInt32.le_iff_toNat_le.mp h.2
  simp only [isSpace, Bool.or_eq_false_iff, beq_eq_false_iff_ne, ne_eq]
  refine ⟨⟨⟨⟨⟨?_, ?_⟩, ?_⟩, ?_⟩, ?_⟩, ?_⟩ <;> (intro e; subst e; simp at h1 h2)

theorem lexP_digits (fuel : Nat) (ds rest : List Char) (acc : List Tok) (hne : ds ≠ [])
    (hd : ∀ c ∈ ds, c.isDigit = true) (hr : noDigitAhead rest) :
    lexP (fuel + 1) (ds ++ rest) acc = lexP fuel rest (.num (String.ofList ds) :: acc) := by
  cases ds with
  | nil => exact absurd rfl hne
  | cons c cs =>
    have hc := hd c (by simp)
    have f1 := digit_facts2 c hc
    have tw := takeWhile_digits (c :: cs) rest hd hr
    simp only [List.cons_append] at tw ⊢
    simp only [lexP, f1, hc, Bool.false_eq_true, if_false, if_true, tw.1, tw.2]

theorem lexP_end (fuel : Nat) (acc : List Tok) : lexP (fuel + 1) [] acc = some acc.reverse := rfl
theorem lexP_blank (fuel : Nat) (rest : List Char) (acc : List Tok) :
    lexP (fuel + 1) (' ' :: rest) acc = lexP fuel rest acc := by
  simp [lexP, isSpace]
theorem lexP_arrow (fuel : Nat) (rest : List Char) (acc : List Tok) :
    lexP (fuel + 1) ('-' :: '>' :: rest) acc = lexP fuel rest (.arrow :: acc) := by
  simp [lexP, isSpace]
theorem lexP_colon (fuel : Nat) (rest : List Char) (acc : List Tok) :
    lexP (fuel + 1) (':' :: rest) acc = lexP fuel rest (.colon :: acc) := by
  simp [lexP, isSpace]
theorem lexP_print (fuel : Nat) (rest : List Char) (acc : List Tok) :
    lexP (fuel + 1) ("print".toList ++ rest) acc = lexP fuel rest (.kw "print" :: acc) := by
  simp [lexP, isSpace]
theorem lexP_mem (fuel : Nat) (rest : List Char) (acc : List Tok) :
    lexP (fuel + 1) ("mem".toList ++ rest) acc = lexP fuel rest (.kw "mem" :: acc) := by
  simp [lexP, isSpace]

/-- the reading of a decimal rendering by the printer's number rule -/
theorem num_of_render (a : Nat) (h : a < 2 ^ 64) :
    (let d := String.ofList (Nat.toDigits 10 a)
     if d.length ≤ 19 || (d.toNat?.getD (2^64) < 2^64) then d.toNat?.map (· % MB) else none) = some (a % MB) := by
  have hd : String.ofList (Nat.toDigits 10 a) = a.repr := Nat.repr_eq_ofList_toDigits.symm
  simp only [hd, Nat.toNat?_repr, Option.getD_some, Option.map_some]
  have : decide (a < 2 ^ 64) = true := by simpa using h
  simp [this]

theorem toList_render (n : Nat) : (toString n).toList = Nat.toDigits 10 n := toString_nat_toList n

theorem lexPrint_range (a b : Nat) :
    lexPrint ("print mem " ++ toString a ++ " -> " ++ toString b)
      = some [.kw "print", .kw "mem", .num (String.ofList (Nat.toDigits 10 a)), .arrow, .num (String.ofList (Nat.toDigits 10 b))] := by
  have hl : ("print mem " ++ toString a ++ " -> " ++ toString b).toList =
      "print".toList ++ ' ' :: ("mem".toList ++ ' ' :: (Nat.toDigits 10 a ++ ' ' :: '-' :: '>' :: ' ' :: (Nat.toDigits 10 b ++ []))) := by
    simp [String.toList_append, toList_render]
  simp only [lexPrint, hl]
  have hpa := List.length_pos_iff.mpr (toDigits_ne_nil a)
  have hpb := List.length_pos_iff.mpr (toDigits_ne_nil b)
  have h5 : "print".toList.length = 5 := rfl
  have h3 : "mem".toList.length = 3 := rfl
  have hlen : ("print".toList ++ ' ' :: ("mem".toList ++ ' ' :: (Nat.toDigits 10 a ++ ' ' :: '-' :: '>' :: ' ' :: (Nat.toDigits 10 b ++ [])))).length + 1
      = ((Nat.toDigits 10 a).length + (Nat.toDigits 10 b).length + 5) + 1 + 1 + 1 + 1 + 1 + 1 + 1 + 1 + 1 + 1 := by
    simp only [List.length_append, List.length_cons, List.length_nil, h5, h3]; omega
  rw [hlen, lexP_print, lexP_blank, lexP_mem, lexP_blank,
    lexP_digits _ _ _ _ (toDigits_ne_nil a) (digits_all a) (by simp [noDigitAhead]),
    lexP_blank, lexP_arrow, lexP_blank,
    lexP_digits _ _ [] _ (toDigits_ne_nil b) (digits_all b) trivial, lexP_end]
  rfl

/-- **`print mem a -> b`** as emitted (decimal) is read back as the range a..b (mod 1 MiB) -/
theorem print_range_accepted (a b : Nat) (ha : a < 2 ^ 64) (hb : b < 2 ^ 64) :
    parsePrint ("print mem " ++ toString a ++ " -> " ++ toString b) = some (.range (a % MB) (b % MB)) := by
  have na := num_of_render a ha
  have nb := num_of_render b hb
  simp only at na nb
  simp only [parsePrint, lexPrint_range, na, nb, bind, Option.bind, pure]

theorem lexPrint_span (a b : Nat) :
    lexPrint ("print mem " ++ toString a ++ " : " ++ toString b)
      = some [.kw "print", .kw "mem", .num (String.ofList (Nat.toDigits 10 a)), .colon, .num (String.ofList (Nat.toDigits 10 b))] := by
  have hl : ("print mem " ++ toString a ++ " : " ++ toString b).toList =
      "print".toList ++ ' ' :: ("mem".toList ++ ' ' :: (Nat.toDigits 10 a ++ ' ' :: ':' :: ' ' :: (Nat.toDigits 10 b ++ []))) := by
    simp [String.toList_append]
  simp only [lexPrint, hl]
  have hpa := List.length_pos_iff.mpr (toDigits_ne_nil a)
  have hpb := List.length_pos_iff.mpr (toDigits_ne_nil b)
  have h5 : "print".toList.length = 5 := rfl
  have h3 : "mem".toList.length = 3 := rfl
  have hlen : ("print".toList ++ ' ' :: ("mem".toList ++ ' ' :: (Nat.toDigits 10 a ++ ' ' :: ':' :: ' ' :: (Nat.toDigits 10 b ++ [])))).length + 1
      = ((Nat.toDigits 10 a).length + (Nat.toDigits 10 b).length + 4) + 1 + 1 + 1 + 1 + 1 + 1 + 1 + 1 + 1 + 1 := by
    simp only [List.length_append, List.length_cons, List.length_nil, h5, h3]; omega
  rw [hlen, lexP_print, lexP_blank, lexP_mem, lexP_blank,
    lexP_digits _ _ _ _ (toDigits_ne_nil a) (digits_all a) (by simp [noDigitAhead]),
    lexP_blank, lexP_colon, lexP_blank,
    lexP_digits _ _ [] _ (toDigits_ne_nil b) (digits_all b) trivial, lexP_end]
  rfl

/-- **`print mem a : n`** -/
theorem print_span_accepted (a n : Nat) (ha : a < 2 ^ 64) (hn : n < 2 ^ 64) :
    parsePrint ("print mem " ++ toString a ++ " : " ++ toString n) = some (.span (a % MB) (n % MB)) := by
  have na := num_of_render a ha
  have nb := num_of_render n hn
  simp only at na nb
  simp only [parsePrint, lexPrint_span, na, nb, bind, Option.bind, pure]

theorem lexPrint_dsSpan (b : Nat) :
    lexPrint ("print mem : " ++ toString b) = some [.kw "print", .kw "mem", .colon, .num (String.ofList (Nat.toDigits 10 b))] := by
  have hl : ("print mem : " ++ toString b).toList =
      "print".toList ++ ' ' :: ("mem".toList ++ ' ' :: ':' :: ' ' :: (Nat.toDigits 10 b ++ [])) := by
    simp [String.toList_append]
  simp only [lexPrint, hl]
  have hpb := List.length_pos_iff.mpr (toDigits_ne_nil b)
  have h5 : "print".toList.length = 5 := rfl
  have h3 : "mem".toList.length = 3 := rfl
  have hlen : ("print".toList ++ ' ' :: ("mem".toList ++ ' ' :: ':' :: ' ' :: (Nat.toDigits 10 b ++ []))).length + 1
      = ((Nat.toDigits 10 b).length + 5) + 1 + 1 + 1 + 1 + 1 + 1 + 1 + 1 := by
    simp only [List.length_append, List.length_cons, List.length_nil, h5, h3]; omega
  rw [hlen, lexP_print, lexP_blank, lexP_mem, lexP_blank, lexP_colon, lexP_blank,
    lexP_digits _ _ [] _ (toDigits_ne_nil b) (digits_all b) trivial, lexP_end]
  rfl

/-- **`print mem : n`** -/
theorem print_dsSpan_accepted (n : Nat) (hn : n < 2 ^ 64) :
    parsePrint ("print mem : " ++ toString n) = some (.dsSpan (n % MB)) := by
  have nb := num_of_render n hn
  simp only at nb
  simp only [parsePrint, lexPrint_dsSpan, nb, bind, Option.bind, pure]

/-- the texts above are the assembler model's templates -/
theorem emitted_range (a b : Nat) : s!"print mem {a} -> {b}" = "print mem " ++ toString a ++ " -> " ++ toString b := rfl
theorem emitted_span (a b : Nat) : s!"print mem {a} : {b}" = "print mem " ++ toString a ++ " : " ++ toString b := rfl

end Emu8086.Props.C10Text
