/-
Properties C10 / C11, text level, lines with CONSTANTS and MEMORY OPERANDS — for every constant
(unbounded quantifier: all integers of the operand's range, in the decimal rendering `format!("{}")`
gives them), every register choice and every operand shape:

the text the assembler's templates produce
    `[n]`, `[r]`, `[r,d]`, `[b,i,d]`, each optionally preceded by `seg:`     (memory_addr, 65 shapes)
    `<mnemonic> <dst>,<src>` / `<mnemonic> <opnd>`                            (instruction templates)
is accepted by the interpreter's lexer and parser and read as exactly that operation with exactly
those operands in those roles and the numerically equal constant (two's complement of its width).

Built on `ILexRT.lex_render` (lexer round trip for every well-separated piece sequence) — the
templates are such sequences — and on block lemmas: an operand block is a piece list that lexes in
front of any safe tail and that `parseOpnd` reads as one operand leaving the rest untouched.

  * `mem_block`          : all five `memory_addr` shapes × optional override × every register choice ×
                           every displacement −32768..32767 / direct address 0..65535;
  * `line2`, `line1`     : a two- or one-operand template line built from operand blocks — with any of the four
                           separators the templates use (`,`  `, `  ` ,`  ` , `) — is read as the operand pair / operand;
  * `templates_wellseparated` : every code template of the grammar REGENERATED from preprocessor.lalrpop is such a
                           sequence: its literal pieces lex to interpreter keywords and punctuation only and
                           every literal/argument boundary falls on a separator (kernel-decided over the data);
  * `mov_*`, `arith_*`, `logic_*`, `unary_*`, `shift_*`, `push_pop_*`, `xchg_*`, `lea_*`, `int_line`
                         : the instruction families over those blocks.
-/
import Emu8086.Props.ILexRT
import Emu8086.Props.C12Text
import Emu8086.Gen.PPGrammar

set_option linter.unnecessarySimpa false

namespace Emu8086.Props.C11Lines
open Emu8086 Emu8086.Props.ILexRT
open Emu8086.Props.C12Text (digits_all toDigits_ne_nil toString_nat_toList int_render_nonneg int_render_neg)

abbrev kws := Gen.interpKeywords

/-! ### constants -/

theorem isDigits_render (n : Nat) : isDigits (toString n).toList = true := by
  rw [toString_nat_toList]
  have hne := toDigits_ne_nil n
  have hall := digits_all n
  cases h : Nat.toDigits 10 n with
  | nil => exact absurd h hne
  | cons c cs =>
    rw [h] at hall
    simp only [isDigits, Bool.and_eq_true, List.all_eq_true]
    exact ⟨hall c (by simp), fun x hx => hall x (by simp [hx])⟩

theorem digitsVal_render (n : Nat) : digitsVal (toString n) = n := by
  simp [digitsVal, Nat.toString_eq_repr, Nat.toNat?_repr]

/-- the piece for a signed constant as `format!("{}", x)` writes it -/
def intPiece (x : Int) : Piece :=
  match x with
  | .ofNat n => .t (.num (toString n))
  | .negSucc n => .t (.neg (toString (n + 1)))

theorem render_intPiece (x : Int) (ps : List Piece) : render (intPiece x :: ps) = (toString x).toList ++ render ps := by
  cases x with
  | ofNat n =>
    show (toString n).toList ++ render ps = (toString (n : Int)).toList ++ render ps
    rw [int_render_nonneg]
  | negSucc n =>
    show '-' :: ((toString (n + 1)).toList ++ render ps) = _
    rw [int_render_neg, String.toList_append]; rfl

theorem intPiece_ok (x : Int) (ps : List Piece) (tl : List Char) (h : noDigitAhead (render ps ++ tl) = true) :
    piecesOkT kws (intPiece x :: ps) tl = piecesOkT kws ps tl := by
  cases x with
  | ofNat n => simp only [intPiece, piecesOkT, tokOk, isDigits_render, h, Bool.true_and, Bool.and_self]
  | negSucc n => simp only [intPiece, piecesOkT, tokOk, isDigits_render, h, Bool.true_and, Bool.and_self]

theorem toks_intPiece (x : Int) (ps : List Piece) : ∃ k, toks (intPiece x :: ps) = k :: toks ps := by
  cases x <;> exact ⟨_, rfl⟩

theorem sWord_int (x : Int) (h1 : -32768 ≤ x) (h2 : x ≤ 65535) (ps : List Piece) :
    ∃ k, toks (intPiece x :: ps) = k :: toks ps ∧ sWordTok? k = some (BitVec.ofInt 16 x) := by
  cases x with
  | ofNat n =>
    refine ⟨.num (toString n), rfl, ?_⟩
    have : n ≤ 65535 := by have := h2; simp only [Int.ofNat_eq_natCast] at this; omega
    simp only [sWordTok?, uWord?, digitsVal_render, this, if_true, Int.ofNat_eq_natCast, BitVec.ofInt_natCast]
  | negSucc n =>
    refine ⟨.neg (toString (n + 1)), rfl, ?_⟩
    have : n + 1 ≤ 32768 := by have := h1; simp only [Int.negSucc_eq] at this; omega
    simp only [sWordTok?, negWord?, digitsVal_render, this, if_true, Int.negSucc_eq]
    rfl

theorem sByte_int (x : Int) (h1 : -128 ≤ x) (h2 : x ≤ 65535) (ps : List Piece) :
    ∃ k, toks (intPiece x :: ps) = k :: toks ps ∧ sByteTok? k = some (BitVec.ofInt 8 x) := by
  cases x with
  | ofNat n =>
    refine ⟨.num (toString n), rfl, ?_⟩
    have : n ≤ 65535 := by have := h2; simp only [Int.ofNat_eq_natCast] at this; omega
    simp only [sByteTok?, uWord?, digitsVal_render, this, if_true, Option.map_some, Int.ofNat_eq_natCast, BitVec.ofInt_natCast]
    congr 1
    apply BitVec.eq_of_toNat_eq
    simp only [BitVec.toNat_setWidth, BitVec.toNat_ofNat]
    omega
  | negSucc n =>
    refine ⟨.neg (toString (n + 1)), rfl, ?_⟩
    have : n + 1 ≤ 128 := by have := h1; simp only [Int.negSucc_eq] at this; omega
    simp only [sByteTok?, negByte?, digitsVal_render, this, if_true, Int.negSucc_eq]
    rfl

/-! ### memory operands (`memory_addr`) -/

def segs : List (String × WordReg) := [("es", .ES), ("ds", .DS), ("ss", .SS), ("cs", .CS)]
def bases : List (String × BaseReg) := [("bx", .BX), ("bp", .BP)]
def idxs : List (String × IndexReg) := [("si", .SI), ("di", .DI)]

/-- the five shapes of `memory_addr` (register indirect / one register + displacement once with a
    base and once with an index register) -/
inductive Shape where
  | direct (n : Nat)
  | indB (b : String × BaseReg) | indI (i : String × IndexReg)
  | dispB (b : String × BaseReg) (d : Int) | dispI (i : String × IndexReg) (d : Int)
  | bi (b : String × BaseReg) (i : String × IndexReg) (d : Int)

def Shape.valid : Shape → Prop
  | .direct n => n ≤ 65535
  | .indB b => b ∈ bases | .indI i => i ∈ idxs
  | .dispB b d => b ∈ bases ∧ -32768 ≤ d ∧ d ≤ 32767
  | .dispI i d => i ∈ idxs ∧ -32768 ≤ d ∧ d ≤ 32767
  | .bi b i d => b ∈ bases ∧ i ∈ idxs ∧ -32768 ≤ d ∧ d ≤ 32767

def shapePieces : Shape → List Piece
  | .direct n => [.t .lbr, .t (.num (toString n)), .t .rbr]
  | .indB b => [.t .lbr, .t (.kw b.1), .t .rbr]
  | .indI i => [.t .lbr, .t (.kw i.1), .t .rbr]
  | .dispB b d => [.t .lbr, .t (.kw b.1), .t .comma, intPiece d, .t .rbr]
  | .dispI i d => [.t .lbr, .t (.kw i.1), .t .comma, intPiece d, .t .rbr]
  | .bi b i d => [.t .lbr, .t (.kw b.1), .t .comma, .t (.kw i.1), .t .comma, intPiece d, .t .rbr]

/-- the text the template writes: `format!("[{}]",n)`, `format!("[{},{}]",r,n)`, `format!("[{},{},{}]",b,i,n)` -/
def shapeText : Shape → String
  | .direct n => "[" ++ toString n ++ "]"
  | .indB b => "[" ++ b.1 ++ "]"
  | .indI i => "[" ++ i.1 ++ "]"
  | .dispB b d => "[" ++ b.1 ++ "," ++ toString d ++ "]"
  | .dispI i d => "[" ++ i.1 ++ "," ++ toString d ++ "]"
  | .bi b i d => "[" ++ b.1 ++ "," ++ i.1 ++ "," ++ toString d ++ "]"

def shapeAddr (seg : Option WordReg) : Shape → MemAddr
  | .direct n => { seg := seg, disp := some (BitVec.ofNat 16 n) }
  | .indB b => { seg := seg, base := some b.2 }
  | .indI i => { seg := seg, index := some i.2 }
  | .dispB b d => { seg := seg, base := some b.2, disp := some (BitVec.ofInt 16 d) }
  | .dispI i d => { seg := seg, index := some i.2, disp := some (BitVec.ofInt 16 d) }
  | .bi b i d => { seg := seg, base := some b.2, index := some i.2, disp := some (BitVec.ofInt 16 d) }

def segPieces : Option (String × WordReg) → List Piece
  | none => []
  | some s => [.t (.kw s.1), .t .colon]
def segText : Option (String × WordReg) → String
  | none => ""
  | some s => s.1 ++ ":"
def segOk : Option (String × WordReg) → Prop
  | none => True
  | some s => s ∈ segs

def memPieces (sg : Option (String × WordReg)) (sh : Shape) : List Piece := segPieces sg ++ shapePieces sh
def memText (sg : Option (String × WordReg)) (sh : Shape) : String := segText sg ++ shapeText sh
def memAddr (sg : Option (String × WordReg)) (sh : Shape) : MemAddr := shapeAddr (sg.map (·.2)) sh

theorem mem_text (sg : Option (String × WordReg)) (sh : Shape) :
    String.ofList (render (memPieces sg sh)) = memText sg sh := by
  apply String.toList_inj.mp
  rw [String.toList_ofList, memPieces, render_append, memText, String.toList_append]
  congr 1
  · cases sg <;> simp [segPieces, segText, render, tokChars, String.toList_append]
  · cases sh <;>
      simp only [shapePieces, shapeText, render, render_intPiece, tokChars, String.toList_append, List.append_assoc,
        List.cons_append, List.nil_append, List.append_nil] <;> rfl

/-- a memory operand lexes in front of anything -/
theorem mem_ok (sg : Option (String × WordReg)) (sh : Shape) (hs : segOk sg) (hv : sh.valid) (tl : List Char) :
    piecesOkT kws (memPieces sg sh) tl = true := by
  rw [memPieces, piecesOkT_append, Bool.and_eq_true]
  constructor
  · cases sg with
    | none => rfl
    | some s =>
      have : s ∈ segs := hs
      simp only [segs, List.mem_cons, List.not_mem_nil, or_false] at this
      rcases this with rfl | rfl | rfl | rfl <;>
        (simp only [segPieces, piecesOkT, tokOk, render, tokChars, List.cons_append, List.nil_append, noIdAhead]; decide +kernel)
  · cases sh with
    | direct n =>
      simp only [shapePieces, piecesOkT, tokOk, isDigits_render, render, tokChars, List.cons_append, List.nil_append, noDigitAhead]
      decide +kernel
    | indB b =>
      have : b ∈ bases := hv
      simp only [bases, List.mem_cons, List.not_mem_nil, or_false] at this
      rcases this with rfl | rfl <;>
        (simp only [shapePieces, piecesOkT, tokOk, render, tokChars, List.cons_append, List.nil_append, noIdAhead]; decide +kernel)
    | indI i =>
      have : i ∈ idxs := hv
      simp only [idxs, List.mem_cons, List.not_mem_nil, or_false] at this
      rcases this with rfl | rfl <;>
        (simp only [shapePieces, piecesOkT, tokOk, render, tokChars, List.cons_append, List.nil_append, noIdAhead]; decide +kernel)
    | dispB b d =>
      have : b ∈ bases := hv.1
      simp only [bases, List.mem_cons, List.not_mem_nil, or_false] at this
      have hi := intPiece_ok d [.t .rbr] tl (by simp [render, tokChars, noDigitAhead])
      rcases this with rfl | rfl <;>
        (simp only [shapePieces, piecesOkT, hi, tokOk, render, tokChars, List.cons_append, List.nil_append, noIdAhead]; decide +kernel)
    | dispI i d =>
      have : i ∈ idxs := hv.1
      simp only [idxs, List.mem_cons, List.not_mem_nil, or_false] at this
      have hi := intPiece_ok d [.t .rbr] tl (by simp [render, tokChars, noDigitAhead])
      rcases this with rfl | rfl <;>
        (simp only [shapePieces, piecesOkT, hi, tokOk, render, tokChars, List.cons_append, List.nil_append, noIdAhead]; decide +kernel)
    | bi b i d =>
      have hb : b ∈ bases := hv.1
      have hx : i ∈ idxs := hv.2.1
      simp only [bases, List.mem_cons, List.not_mem_nil, or_false] at hb
      simp only [idxs, List.mem_cons, List.not_mem_nil, or_false] at hx
      have hi := intPiece_ok d [.t .rbr] tl (by simp [render, tokChars, noDigitAhead])
      rcases hb with rfl | rfl <;> rcases hx with rfl | rfl <;>
        (simp only [shapePieces, piecesOkT, hi, tokOk, render, tokChars, List.cons_append, List.nil_append, noIdAhead]; decide +kernel)

/-- the parser reads the tokens of a memory operand as exactly that address, leaving the rest -/
theorem mem_parse (sg : Option (String × WordReg)) (sh : Shape) (hs : segOk sg) (hv : sh.valid) (rest : List Tok) :
    parseMemAddr (toks (memPieces sg sh) ++ rest) = some (memAddr sg sh, rest) := by
  have hbr : ∀ seg : Option WordReg, parseBracket seg (toks (shapePieces sh) ++ rest) = some (shapeAddr seg sh, rest) := by
    intro seg
    cases sh with
    | direct n =>
      have : n ≤ 65535 := hv
      simp only [shapePieces, toks, List.cons_append, List.nil_append, parseBracket, uWord?, digitsVal_render, this, if_true, Option.map_some, shapeAddr]
    | indB b =>
      have : b ∈ bases := hv
      simp only [bases, List.mem_cons, List.not_mem_nil, or_false] at this
      rcases this with rfl | rfl <;> rfl
    | indI i =>
      have : i ∈ idxs := hv
      simp only [idxs, List.mem_cons, List.not_mem_nil, or_false] at this
      rcases this with rfl | rfl <;> rfl
    | dispB b d =>
      obtain ⟨hb, h1, h2⟩ := hv
      simp only [bases, List.mem_cons, List.not_mem_nil, or_false] at hb
      obtain ⟨k, hk, hw⟩ := sWord_int d h1 (by omega) [.t .rbr]
      rcases hb with rfl | rfl <;> cases d <;> cases hk <;>
        (simp only [shapePieces, toks, intPiece, List.cons_append, List.nil_append, parseBracket, hw, shapeAddr]; try rfl)
    | dispI i d =>
      obtain ⟨hb, h1, h2⟩ := hv
      simp only [idxs, List.mem_cons, List.not_mem_nil, or_false] at hb
      obtain ⟨k, hk, hw⟩ := sWord_int d h1 (by omega) [.t .rbr]
      rcases hb with rfl | rfl <;> cases d <;> cases hk <;>
        (simp only [shapePieces, toks, intPiece, List.cons_append, List.nil_append, parseBracket, hw, shapeAddr]; try rfl)
    | bi b i d =>
      obtain ⟨hb, hx, h1, h2⟩ := hv
      simp only [bases, List.mem_cons, List.not_mem_nil, or_false] at hb
      simp only [idxs, List.mem_cons, List.not_mem_nil, or_false] at hx
      obtain ⟨k, hk, hw⟩ := sWord_int d h1 (by omega) [.t .rbr]
      rcases hb with rfl | rfl <;> rcases hx with rfl | rfl <;> cases d <;> cases hk <;>
        (simp only [shapePieces, toks, intPiece, List.cons_append, List.nil_append, parseBracket, hw, shapeAddr]; try rfl)
  cases sg with
  | none =>
    have := hbr none
    simp only [memPieces, segPieces, List.nil_append, memAddr, Option.map_none] at this ⊢
    cases sh <;> (try cases ‹Int›) <;> simpa [parseMemAddr, shapePieces, toks, intPiece] using this
  | some s =>
    have hm : s ∈ segs := hs
    simp only [segs, List.mem_cons, List.not_mem_nil, or_false] at hm
    have := hbr (some s.2)
    rcases hm with rfl | rfl | rfl | rfl <;>
      simpa [memPieces, segPieces, toks, toks_append, parseMemAddr, segReg?, memAddr] using this

/-! ### operand blocks -/

/-- a piece list that stands for ONE operand: it lexes in front of any safe tail, `parseOpnd` reads
    its tokens as the operand `o` and leaves the following tokens alone, and its text is `txt` -/
structure OpBlock (ps : List Piece) (txt : String) (o : Opnd) : Prop where
  ok : ∀ tl, safeTail tl = true → piecesOkT kws ps tl = true
  parse : ∀ rest, parseOpnd (toks ps ++ rest) = some (o, rest)
  text : render ps = txt.toList

def wregs : List (String × WordReg) :=
  [("ax", .AX), ("bx", .BX), ("cx", .CX), ("dx", .DX), ("sp", .SP), ("bp", .BP), ("si", .SI), ("di", .DI)]
def bregs : List (String × ByteReg) :=
  [("al", .AL), ("ah", .AH), ("bl", .BL), ("bh", .BH), ("cl", .CL), ("ch", .CH), ("dl", .DL), ("dh", .DH)]

theorem safeTail_split {tl : List Char} (h : safeTail tl = true) : noIdAhead tl = true ∧ noDigitAhead tl = true := by
  simpa [safeTail] using h

theorem wreg_block (r : String × WordReg) (h : r ∈ wregs) : OpBlock [.t (.kw r.1)] r.1 (.wreg r.2) := by
  simp only [wregs, List.mem_cons, List.not_mem_nil, or_false] at h
  refine ⟨fun tl ht => ?_, fun rest => ?_, by simp [render, tokChars]⟩
  · have ha := (safeTail_split ht).1
    rcases h with rfl | rfl | rfl | rfl | rfl | rfl | rfl | rfl <;>
      (simp only [piecesOkT, tokOk, render, List.nil_append, ha, Bool.and_true]; decide +kernel)
  · rcases h with rfl | rfl | rfl | rfl | rfl | rfl | rfl | rfl <;> rfl

theorem breg_block (r : String × ByteReg) (h : r ∈ bregs) : OpBlock [.t (.kw r.1)] r.1 (.breg r.2) := by
  simp only [bregs, List.mem_cons, List.not_mem_nil, or_false] at h
  refine ⟨fun tl ht => ?_, fun rest => ?_, by simp [render, tokChars]⟩
  · have ha := (safeTail_split ht).1
    rcases h with rfl | rfl | rfl | rfl | rfl | rfl | rfl | rfl <;>
      (simp only [piecesOkT, tokOk, render, List.nil_append, ha, Bool.and_true]; decide +kernel)
  · rcases h with rfl | rfl | rfl | rfl | rfl | rfl | rfl | rfl <;> rfl

theorem sreg_block (r : String × WordReg) (h : r ∈ segs) : OpBlock [.t (.kw r.1)] r.1 (.sreg r.2) := by
  simp only [segs, List.mem_cons, List.not_mem_nil, or_false] at h
  refine ⟨fun tl ht => ?_, fun rest => ?_, by simp [render, tokChars]⟩
  · have ha := (safeTail_split ht).1
    rcases h with rfl | rfl | rfl | rfl <;>
      (simp only [piecesOkT, tokOk, render, List.nil_append, ha, Bool.and_true]; decide +kernel)
  · rcases h with rfl | rfl | rfl | rfl <;> rfl

/-- the operand a constant is read as: the digit string, with the sign kept apart -/
def immOpnd : Int → Opnd
  | .ofNat n => .num (toString n)
  | .negSucc n => .neg (toString (n + 1))

theorem imm_block (x : Int) : OpBlock [intPiece x] (toString x) (immOpnd x) := by
  refine ⟨fun tl ht => ?_, fun rest => ?_, ?_⟩
  · rw [intPiece_ok x [] tl (by simpa [render] using (safeTail_split ht).2)]; rfl
  · cases x <;> rfl
  · simpa [render] using render_intPiece x []

/-- `word <memory_addr>` -/
theorem wmem_block (sg : Option (String × WordReg)) (sh : Shape) (hs : segOk sg) (hv : sh.valid) :
    OpBlock (.t (.kw "word") :: .sp :: memPieces sg sh) ("word " ++ memText sg sh) (.wmem (memAddr sg sh)) := by
  refine ⟨fun tl _ => ?_, fun rest => ?_, ?_⟩
  · simp only [piecesOkT, mem_ok sg sh hs hv tl, tokOk, render, List.cons_append, noIdAhead, Bool.and_true]
    decide +kernel
  · have hm := mem_parse sg sh hs hv rest
    have hne : ∀ n r, toks (memPieces sg sh) ++ rest ≠ .name n :: r := by
      intro n r
      cases sg with
      | none => cases sh <;> simp [memPieces, segPieces, shapePieces, toks]
      | some s => simp [memPieces, segPieces, toks]
    simp only [toks, List.cons_append]
    generalize toks (memPieces sg sh) ++ rest = ts at hm hne
    cases ts with
    | nil => simp [parseMemAddr, parseBracket] at hm
    | cons t ts =>
      cases t with
      | name n => exact absurd rfl (hne n ts)
      | _ => simp only [parseOpnd, hm, Option.map_some]
  · rw [← mem_text]; simp [render, tokChars, String.toList_append]

/-- `byte <memory_addr>` -/
theorem bmem_block (sg : Option (String × WordReg)) (sh : Shape) (hs : segOk sg) (hv : sh.valid) :
    OpBlock (.t (.kw "byte") :: .sp :: memPieces sg sh) ("byte " ++ memText sg sh) (.bmem (memAddr sg sh)) := by
  refine ⟨fun tl _ => ?_, fun rest => ?_, ?_⟩
  · simp only [piecesOkT, mem_ok sg sh hs hv tl, tokOk, render, List.cons_append, noIdAhead, Bool.and_true]
    decide +kernel
  · have hm := mem_parse sg sh hs hv rest
    have hne : ∀ n r, toks (memPieces sg sh) ++ rest ≠ .name n :: r := by
      intro n r
      cases sg with
      | none => cases sh <;> simp [memPieces, segPieces, shapePieces, toks]
      | some s => simp [memPieces, segPieces, toks]
    simp only [toks, List.cons_append]
    generalize toks (memPieces sg sh) ++ rest = ts at hm hne
    cases ts with
    | nil => simp [parseMemAddr, parseBracket] at hm
    | cons t ts =>
      cases t with
      | name n => exact absurd rfl (hne n ts)
      | _ => simp only [parseOpnd, hm, Option.map_some]
  · rw [← mem_text]; simp [render, tokChars, String.toList_append]

/-- `word <label>` / `byte <label>` for every identifier that is not an interpreter keyword -/
theorem wlbl_block (l : String) (h1 : isIdent l.toList = true) (h2 : kws.contains l = false) :
    OpBlock [.t (.kw "word"), .sp, .t (.name l)] ("word " ++ l) (.wlbl l) := by
  refine ⟨fun tl ht => ?_, fun rest => rfl, by simp [render, tokChars, String.toList_append]⟩
  have ha := (safeTail_split ht).1
  have hc : ∀ (c : Char) (t : List Char), noIdAhead (c :: t) = !isIdChar c := fun _ _ => rfl
  simp only [piecesOkT, tokOk, render, tokChars, List.cons_append, List.nil_append, hc, h1, h2, ha, Bool.and_true,
    Bool.not_false]
  decide +kernel
theorem blbl_block (l : String) (h1 : isIdent l.toList = true) (h2 : kws.contains l = false) :
    OpBlock [.t (.kw "byte"), .sp, .t (.name l)] ("byte " ++ l) (.blbl l) := by
  refine ⟨fun tl ht => ?_, fun rest => rfl, by simp [render, tokChars, String.toList_append]⟩
  have ha := (safeTail_split ht).1
  have hc : ∀ (c : Char) (t : List Char), noIdAhead (c :: t) = !isIdChar c := fun _ _ => rfl
  simp only [piecesOkT, tokOk, render, tokChars, List.cons_append, List.nil_append, hc, h1, h2, ha, Bool.and_true,
    Bool.not_false]
  decide +kernel

/-! ### template lines built from blocks -/

def isKw (f : String) : Bool := isIdent f.toList && kws.contains f

/-- the separators the templates use between two operands: `","`, `", "`, `" ,"`, `" , "` -/
def sepText : Bool → Bool → String
  | false, false => "," | false, true => ", " | true, false => " ," | true, true => " , "
def sepPieces : Bool → Bool → List Piece
  | false, false => [.t .comma] | false, true => [.t .comma, .sp] | true, false => [.sp, .t .comma] | true, true => [.sp, .t .comma, .sp]

/-- **`<mnemonic> <A><sep><B>`** : lexed to the mnemonic, the tokens of A, a comma, the tokens of B, and the
    two blocks are read as the operand pair (a, b) -/
theorem line2 (f : String) (hf : isKw f = true) (s1 s2 : Bool) {A B : List Piece} {ta tb : String} {a b : Opnd}
    (hA : OpBlock A ta a) (hB : OpBlock B tb b) :
    lexLine (f ++ " " ++ ta ++ sepText s1 s2 ++ tb) = some (.kw f :: (toks A ++ .comma :: toks B))
    ∧ opnd2 (toks A ++ .comma :: toks B) = some (a, b) := by
  constructor
  · have htxt : f ++ " " ++ ta ++ sepText s1 s2 ++ tb = String.ofList (render (.t (.kw f) :: .sp :: (A ++ (sepPieces s1 s2 ++ B)))) := by
      apply String.toList_inj.mp
      cases s1 <;> cases s2 <;>
        (simp only [String.toList_ofList, render, render_append, tokChars, String.toList_append, hA.text, hB.text, sepText, sepPieces]
         simp)
    rw [htxt, lex_render]
    · cases s1 <;> cases s2 <;> simp [toks, toks_append, sepPieces]
    · rw [← piecesOkT_nil]
      simp only [isKw, Bool.and_eq_true] at hf
      have hc : ∀ (c : Char) (t : List Char), noIdAhead (c :: t) = !isIdChar c := fun _ _ => rfl
      have hB' := hB.ok [] (by decide)
      have hA' := hA.ok (render (sepPieces s1 s2 ++ B) ++ [])
        (by cases s1 <;> cases s2 <;>
              (simp only [sepPieces, render, render_append, tokChars, List.cons_append, List.nil_append, safeTail, noIdAhead, noDigitAhead]; decide))
      have hS : piecesOkT kws (sepPieces s1 s2 ++ B) [] = true := by
        rw [piecesOkT_append, hB']
        cases s1 <;> cases s2 <;> rfl
      rw [show piecesOkT kws (.t (.kw f) :: .sp :: (A ++ (sepPieces s1 s2 ++ B))) []
            = (tokOk kws (.kw f) (render (.sp :: (A ++ (sepPieces s1 s2 ++ B))) ++ []) && piecesOkT kws (A ++ (sepPieces s1 s2 ++ B)) []) from rfl,
          piecesOkT_append, hA', hS]
      simp only [tokOk, render, List.cons_append, hc, hf.1, hf.2]
      decide
  · rw [opnd2, hA.parse]
    simp only
    have := hB.parse []
    simp only [List.append_nil] at this
    rw [this]

/-- **`<mnemonic> <A>`** -/
theorem line1 (f : String) (hf : isKw f = true) {A : List Piece} {ta : String} {a : Opnd} (hA : OpBlock A ta a) :
    lexLine (f ++ " " ++ ta) = some (.kw f :: toks A) ∧ opnd1 (toks A) = some a := by
  constructor
  · have htxt : f ++ " " ++ ta = String.ofList (render (.t (.kw f) :: .sp :: A)) := by
      apply String.toList_inj.mp
      simp only [String.toList_ofList, render, tokChars, String.toList_append, hA.text]
      simp
    rw [htxt, lex_render]
    · simp [toks]
    · rw [← piecesOkT_nil]
      simp only [isKw, Bool.and_eq_true] at hf
      have hc : ∀ (c : Char) (t : List Char), noIdAhead (c :: t) = !isIdChar c := fun _ _ => rfl
      have hA' := hA.ok [] (by decide)
      rw [show piecesOkT kws (.t (.kw f) :: .sp :: A) []
            = (tokOk kws (.kw f) (render (.sp :: A) ++ []) && piecesOkT kws A []) from rfl, hA']
      simp only [tokOk, render, List.cons_append, hc, hf.1, hf.2]
      decide
  · have := hA.parse []
    simp only [List.append_nil] at this
    rw [opnd1, this]

/-! ### the mnemonic dispatch of `parseInstr` -/
def specials : List String :=
  ["print", "mov", "lahf", "sahf", "pushf", "popf", "xlat", "xchg", "pop", "push", "lea", "ret", "call", "int", "not"]

theorem parseInstr_arith (k : String) (ts : List Tok) (f : ArithOp) (hk : arithOp? k = some f) (h : k ∉ specials) :
    parseInstr (.kw k :: ts) = (opnd2 ts).bind fun (a, b) => (binPair true a b).map fun
        | .inl (d, s) => .arith8 f d s
        | .inr (d, s) => .arith16 f d s := by
  simp only [specials, List.mem_cons, List.not_mem_nil, or_false, not_or] at h
  unfold parseInstr
  split <;> (try simp_all) <;> rfl

theorem parseInstr_logic (k : String) (ts : List Tok) (f : LogicOp) (h0 : arithOp? k = none) (hk : logicOp? k = some f)
    (h : k ∉ specials) :
    parseInstr (.kw k :: ts) = (opnd2 ts).bind fun (a, b) => (binPair false a b).map fun
        | .inl (d, s) => .logic8 f d s
        | .inr (d, s) => .logic16 f d s := by
  simp only [specials, List.mem_cons, List.not_mem_nil, or_false, not_or] at h
  unfold parseInstr
  split <;> (try simp_all) <;> rfl

theorem parseInstr_unary (k : String) (ts : List Tok) (f : UnOp) (h0 : arithOp? k = none) (h1 : logicOp? k = none)
    (hk : unOp? k = some f) (h : k ∉ specials) :
    parseInstr (.kw k :: ts) = (opnd1 ts).bind fun a =>
        match dst8? a, dst16? a with
        | some d, _ => some (.unary8 f d)
        | _, some d => some (.unary16 f d)
        | _, _ => none := by
  simp only [specials, List.mem_cons, List.not_mem_nil, or_false, not_or] at h
  unfold parseInstr
  split <;> (try simp_all) <;> rfl

theorem parseInstr_shift (k : String) (ts : List Tok) (f : ShiftOp) (h0 : arithOp? k = none) (h1 : logicOp? k = none)
    (h2 : unOp? k = none) (hk : shiftOp? k = some f) (h : k ∉ specials) :
    parseInstr (.kw k :: ts) = (opnd2 ts).bind fun (a, b) =>
        let cnt : Option (Option (BitVec 8)) :=
          match b with
          | .breg .CL => some none
          | .num s => (uByte? s).map some
          | _ => none
        match cnt, dst8? a, dst16? a with
        | some c, some d, _ => some (.shift8 f d c)
        | some c, _, some d => some (.shift16 f d c)
        | _, _, _ => none := by
  simp only [specials, List.mem_cons, List.not_mem_nil, or_false, not_or] at h
  unfold parseInstr
  split <;> (try simp_all) <;> rfl

/-! ### instruction families -/

/-- what the grammar makes of the operands (the pairing rules of the productions, as in `parseInstr`) -/
def arithOf (f : ArithOp) (a b : Opnd) : Option Instr :=
  (binPair true a b).map fun
    | .inl (d, s) => .arith8 f d s
    | .inr (d, s) => .arith16 f d s
def logicOf (f : LogicOp) (a b : Opnd) : Option Instr :=
  (binPair false a b).map fun
    | .inl (d, s) => .logic8 f d s
    | .inr (d, s) => .logic16 f d s
def unaryOf (f : UnOp) (a : Opnd) : Option Instr :=
  match dst8? a, dst16? a with
  | some d, _ => some (.unary8 f d)
  | _, some d => some (.unary16 f d)
  | _, _ => none
def notOf (a : Opnd) : Option Instr :=
  match dst8? a, dst16? a with
  | some d, _ => some (.not8 d)
  | _, some d => some (.not16 d)
  | _, _ => none
def shiftOf (f : ShiftOp) (a b : Opnd) : Option Instr :=
  let cnt : Option (Option (BitVec 8)) :=
    match b with
    | .breg .CL => some none
    | .num s => (uByte? s).map some
    | _ => none
  match cnt, dst8? a, dst16? a with
  | some c, some d, _ => some (.shift8 f d c)
  | some c, _, some d => some (.shift16 f d c)
  | _, _, _ => none
def pushOf : Opnd → Option Instr
  | .wreg r => some (.push (.reg r)) | .sreg r => some (.push (.reg r))
  | .wmem m => some (.push (.mem m)) | .wlbl n => some (.push (.lbl n)) | _ => none
def popOf : Opnd → Option Instr
  | .wreg r => some (.pop (.reg r)) | .sreg r => if r == .CS then none else some (.pop (.reg r))
  | .wmem m => some (.pop (.mem m)) | .wlbl n => some (.pop (.lbl n)) | _ => none
def xchgOf : Opnd → Opnd → Option Instr
  | .breg r1, .breg r2 => some (.xchg8 (.reg r1) r2)
  | .wreg r1, .wreg r2 => some (.xchg16 (.reg r1) r2)
  | .bmem m, .breg r => some (.xchg8 (.mem m) r)
  | .wmem m, .wreg r => some (.xchg16 (.mem m) r)
  | .blbl n, .breg r => some (.xchg8 (.lbl n) r)
  | .wlbl n, .wreg r => some (.xchg16 (.lbl n) r)
  | _, _ => none
def leaOf : Opnd → Opnd → Option Instr
  | .wreg r, .wmem m => some (.lea r (.mem m))
  | .wreg r, .wlbl n => some (.lea r (.lbl n))
  | _, _ => none

def ariths : List (String × ArithOp) := [("add", .add), ("adc", .adc), ("sub", .sub), ("sbb", .sbb), ("cmp", .cmp)]
def logics : List (String × LogicOp) := [("and", .and), ("or", .or), ("xor", .xor), ("test", .test)]
def unaries : List (String × UnOp) :=
  [("dec", .dec), ("inc", .inc), ("neg", .neg), ("mul", .mul), ("imul", .imul), ("div", .div), ("idiv", .idiv)]
def shifts : List (String × ShiftOp) :=
  [("sal", .sal), ("shl", .sal), ("sar", .sar), ("shr", .shr), ("rol", .rol), ("ror", .ror), ("rcl", .rcl), ("rcr", .rcr)]

section
variable {A B : List Piece} {ta tb : String} {a b : Opnd}

/-- **MOV**: the line `mov <A>,<B>` is read as the `mov` of the operand pair -/
theorem mov_line (s1 s2 : Bool) (hA : OpBlock A ta a) (hB : OpBlock B tb b) :
    parseLine ("mov" ++ " " ++ ta ++ sepText s1 s2 ++ tb) = movPair a b := by
  obtain ⟨h1, h2⟩ := line2 "mov" (by decide +kernel) s1 s2 hA hB
  simp only [parseLine, h1, Option.bind_some, parseInstr, h2]

/-- **ADD/ADC/SUB/SBB/CMP** -/
theorem arith_line (f : String × ArithOp) (hf : f ∈ ariths) (s1 s2 : Bool) (hA : OpBlock A ta a) (hB : OpBlock B tb b) :
    parseLine (f.1 ++ " " ++ ta ++ sepText s1 s2 ++ tb) = arithOf f.2 a b := by
  simp only [ariths, List.mem_cons, List.not_mem_nil, or_false] at hf
  have hk : isKw f.1 = true := by rcases hf with rfl | rfl | rfl | rfl | rfl <;> decide +kernel
  obtain ⟨h1, h2⟩ := line2 f.1 hk s1 s2 hA hB
  simp only [parseLine, h1, Option.bind_some]
  rcases hf with rfl | rfl | rfl | rfl | rfl <;>
    (rw [parseInstr_arith _ _ _ rfl (by decide +kernel), h2]; rfl)

/-- **AND/OR/XOR/TEST** -/
theorem logic_line (f : String × LogicOp) (hf : f ∈ logics) (s1 s2 : Bool) (hA : OpBlock A ta a) (hB : OpBlock B tb b) :
    parseLine (f.1 ++ " " ++ ta ++ sepText s1 s2 ++ tb) = logicOf f.2 a b := by
  simp only [logics, List.mem_cons, List.not_mem_nil, or_false] at hf
  have hk : isKw f.1 = true := by rcases hf with rfl | rfl | rfl | rfl <;> decide +kernel
  obtain ⟨h1, h2⟩ := line2 f.1 hk s1 s2 hA hB
  simp only [parseLine, h1, Option.bind_some]
  rcases hf with rfl | rfl | rfl | rfl <;>
    (rw [parseInstr_logic _ _ _ rfl rfl (by decide +kernel), h2]; rfl)

/-- **DEC/INC/NEG/MUL/IMUL/DIV/IDIV** -/
theorem unary_line (f : String × UnOp) (hf : f ∈ unaries) (hA : OpBlock A ta a) :
    parseLine (f.1 ++ " " ++ ta) = unaryOf f.2 a := by
  simp only [unaries, List.mem_cons, List.not_mem_nil, or_false] at hf
  have hk : isKw f.1 = true := by rcases hf with rfl | rfl | rfl | rfl | rfl | rfl | rfl <;> decide +kernel
  obtain ⟨h1, h2⟩ := line1 f.1 hk hA
  simp only [parseLine, h1, Option.bind_some]
  rcases hf with rfl | rfl | rfl | rfl | rfl | rfl | rfl <;>
    (rw [parseInstr_unary _ _ _ rfl rfl rfl (by decide +kernel), h2]; rfl)

/-- **NOT** -/
theorem not_line (hA : OpBlock A ta a) : parseLine ("not" ++ " " ++ ta) = notOf a := by
  obtain ⟨h1, h2⟩ := line1 "not" (by decide +kernel) hA
  simp only [parseLine, h1, Option.bind_some, parseInstr, h2]
  rfl

/-- **shifts and rotates** with a count operand block (CL or a constant) -/
theorem shift_line (f : String × ShiftOp) (hf : f ∈ shifts) (s1 s2 : Bool) (hA : OpBlock A ta a) (hB : OpBlock B tb b) :
    parseLine (f.1 ++ " " ++ ta ++ sepText s1 s2 ++ tb) = shiftOf f.2 a b := by
  simp only [shifts, List.mem_cons, List.not_mem_nil, or_false] at hf
  have hk : isKw f.1 = true := by rcases hf with rfl | rfl | rfl | rfl | rfl | rfl | rfl | rfl <;> decide +kernel
  obtain ⟨h1, h2⟩ := line2 f.1 hk s1 s2 hA hB
  simp only [parseLine, h1, Option.bind_some]
  rcases hf with rfl | rfl | rfl | rfl | rfl | rfl | rfl | rfl <;>
    (rw [parseInstr_shift _ _ _ rfl rfl rfl rfl (by decide +kernel), h2]; rfl)

/-- **PUSH / POP** -/
theorem push_line (hA : OpBlock A ta a) : parseLine ("push" ++ " " ++ ta) = pushOf a := by
  obtain ⟨h1, h2⟩ := line1 "push" (by decide +kernel) hA
  simp only [parseLine, h1, Option.bind_some, parseInstr, h2]
  rfl
theorem pop_line (hA : OpBlock A ta a) : parseLine ("pop" ++ " " ++ ta) = popOf a := by
  obtain ⟨h1, h2⟩ := line1 "pop" (by decide +kernel) hA
  simp only [parseLine, h1, Option.bind_some, parseInstr, h2]
  rfl

/-- **XCHG / LEA** -/
theorem xchg_line (s1 s2 : Bool) (hA : OpBlock A ta a) (hB : OpBlock B tb b) :
    parseLine ("xchg" ++ " " ++ ta ++ sepText s1 s2 ++ tb) = xchgOf a b := by
  obtain ⟨h1, h2⟩ := line2 "xchg" (by decide +kernel) s1 s2 hA hB
  simp only [parseLine, h1, Option.bind_some, parseInstr, h2]
  rfl
theorem lea_line (s1 s2 : Bool) (hA : OpBlock A ta a) (hB : OpBlock B tb b) :
    parseLine ("lea" ++ " " ++ ta ++ sepText s1 s2 ++ tb) = leaOf a b := by
  obtain ⟨h1, h2⟩ := line2 "lea" (by decide +kernel) s1 s2 hA hB
  simp only [parseLine, h1, Option.bind_some, parseInstr, h2]
  rfl
end

theorem sepText_ff : sepText false false = "," := rfl

/-! ### headline corollaries: the constant arrives numerically equal, operands keep their roles -/

theorem sImm16_imm (x : Int) (h1 : -32768 ≤ x) (h2 : x ≤ 65535) : sImm16? (immOpnd x) = some (BitVec.ofInt 16 x) := by
  obtain ⟨k, hk, hw⟩ := sWord_int x h1 h2 []
  cases x <;> cases hk <;> exact hw
theorem sImm8_imm (x : Int) (h1 : -128 ≤ x) (h2 : x ≤ 65535) : sImm8? (immOpnd x) = some (BitVec.ofInt 8 x) := by
  obtain ⟨k, hk, hw⟩ := sByte_int x h1 h2 []
  cases x <;> cases hk <;> exact hw

section
variable (sg : Option (String × WordReg)) (sh : Shape) (hs : segOk sg) (hv : sh.valid)
include hs hv

/-- `mov word <mem>,<constant>` for every memory operand and every constant −32768..65535 -/
theorem mov_wmem_imm (x : Int) (h1 : -32768 ≤ x) (h2 : x ≤ 65535) :
    parseLine ("mov" ++ " " ++ ("word " ++ memText sg sh) ++ "," ++ toString x)
      = some (.mov16 (.mem (memAddr sg sh)) (.imm (BitVec.ofInt 16 x))) := by
  rw [← sepText_ff, mov_line false false (wmem_block sg sh hs hv) (imm_block x)]
  have := sImm16_imm x h1 h2
  cases x <;> simp only [immOpnd] at this ⊢ <;> simp only [movPair, binPair, dst8?, dst16?, this, if_true, Option.map_some]

/-- `mov byte <mem>,<constant>` (the byte rule takes `s_byte_num`: −128..65535 truncated, as the grammar does) -/
theorem mov_bmem_imm (x : Int) (h1 : -128 ≤ x) (h2 : x ≤ 65535) :
    parseLine ("mov" ++ " " ++ ("byte " ++ memText sg sh) ++ "," ++ toString x)
      = some (.mov8 (.mem (memAddr sg sh)) (.imm (BitVec.ofInt 8 x))) := by
  rw [← sepText_ff, mov_line false false (bmem_block sg sh hs hv) (imm_block x)]
  have := sImm8_imm x h1 h2
  cases x <;> simp only [immOpnd] at this ⊢ <;> simp only [movPair, binPair, dst8?, dst16?, this, if_true, Option.map_some]

/-- `mov <reg>,word <mem>` and `mov word <mem>,<reg>`: load and store are not confused -/
theorem mov_wreg_wmem (r : String × WordReg) (hr : r ∈ wregs) :
    parseLine ("mov" ++ " " ++ r.1 ++ "," ++ ("word " ++ memText sg sh)) = some (.mov16 (.reg r.2) (.mem (memAddr sg sh))) := by
  rw [← sepText_ff, mov_line false false (wreg_block r hr) (wmem_block sg sh hs hv)]; rfl
theorem mov_wmem_wreg (r : String × WordReg) (hr : r ∈ wregs) :
    parseLine ("mov" ++ " " ++ ("word " ++ memText sg sh) ++ "," ++ r.1) = some (.mov16 (.mem (memAddr sg sh)) (.reg r.2)) := by
  rw [← sepText_ff, mov_line false false (wmem_block sg sh hs hv) (wreg_block r hr)]; rfl
theorem mov_breg_bmem (r : String × ByteReg) (hr : r ∈ bregs) :
    parseLine ("mov" ++ " " ++ r.1 ++ "," ++ ("byte " ++ memText sg sh)) = some (.mov8 (.reg r.2) (.mem (memAddr sg sh))) := by
  rw [← sepText_ff, mov_line false false (breg_block r hr) (bmem_block sg sh hs hv)]; rfl
theorem mov_bmem_breg (r : String × ByteReg) (hr : r ∈ bregs) :
    parseLine ("mov" ++ " " ++ ("byte " ++ memText sg sh) ++ "," ++ r.1) = some (.mov8 (.mem (memAddr sg sh)) (.reg r.2)) := by
  rw [← sepText_ff, mov_line false false (bmem_block sg sh hs hv) (breg_block r hr)]; rfl
/-- segment-register moves to and from memory -/
theorem mov_sreg_wmem (r : String × WordReg) (hr : r ∈ segs) :
    parseLine ("mov" ++ " " ++ r.1 ++ "," ++ ("word " ++ memText sg sh)) = some (.mov16 (.reg r.2) (.mem (memAddr sg sh))) := by
  rw [← sepText_ff, mov_line false false (sreg_block r hr) (wmem_block sg sh hs hv)]; rfl
theorem mov_wmem_sreg (r : String × WordReg) (hr : r ∈ segs) :
    parseLine ("mov" ++ " " ++ ("word " ++ memText sg sh) ++ "," ++ r.1) = some (.mov16 (.mem (memAddr sg sh)) (.reg r.2)) := by
  rw [← sepText_ff, mov_line false false (wmem_block sg sh hs hv) (sreg_block r hr)]; rfl

/-- ADD/ADC/SUB/SBB/CMP `word <mem>,<constant>`, `<reg>,word <mem>`, `word <mem>,<reg>` -/
theorem arith_wmem_imm (f : String × ArithOp) (hf : f ∈ ariths) (x : Int) (h1 : -32768 ≤ x) (h2 : x ≤ 65535) :
    parseLine (f.1 ++ " " ++ ("word " ++ memText sg sh) ++ "," ++ toString x)
      = some (.arith16 f.2 (.mem (memAddr sg sh)) (.imm (BitVec.ofInt 16 x))) := by
  rw [← sepText_ff, arith_line f hf false false (wmem_block sg sh hs hv) (imm_block x)]
  have := sImm16_imm x h1 h2
  cases x <;> simp only [immOpnd] at this ⊢ <;> simp only [arithOf, binPair, dst8?, dst16?, this, if_true, Option.map_some]
theorem arith_wreg_wmem (f : String × ArithOp) (hf : f ∈ ariths) (r : String × WordReg) (hr : r ∈ wregs) :
    parseLine (f.1 ++ " " ++ r.1 ++ "," ++ ("word " ++ memText sg sh)) = some (.arith16 f.2 (.reg r.2) (.mem (memAddr sg sh))) := by
  rw [← sepText_ff, arith_line f hf false false (wreg_block r hr) (wmem_block sg sh hs hv)]; rfl
theorem arith_wmem_wreg (f : String × ArithOp) (hf : f ∈ ariths) (r : String × WordReg) (hr : r ∈ wregs) :
    parseLine (f.1 ++ " " ++ ("word " ++ memText sg sh) ++ "," ++ r.1) = some (.arith16 f.2 (.mem (memAddr sg sh)) (.reg r.2)) := by
  rw [← sepText_ff, arith_line f hf false false (wmem_block sg sh hs hv) (wreg_block r hr)]; rfl
theorem arith_bmem_imm (f : String × ArithOp) (hf : f ∈ ariths) (x : Int) (h1 : -128 ≤ x) (h2 : x ≤ 65535) :
    parseLine (f.1 ++ " " ++ ("byte " ++ memText sg sh) ++ "," ++ toString x)
      = some (.arith8 f.2 (.mem (memAddr sg sh)) (.imm (BitVec.ofInt 8 x))) := by
  rw [← sepText_ff, arith_line f hf false false (bmem_block sg sh hs hv) (imm_block x)]
  have := sImm8_imm x h1 h2
  cases x <;> simp only [immOpnd] at this ⊢ <;> simp only [arithOf, binPair, dst8?, dst16?, this, if_true, Option.map_some]

/-- AND/OR/XOR/TEST `word <mem>,<constant 0..65535>` -/
theorem logic_wmem_imm (f : String × LogicOp) (hf : f ∈ logics) (n : Nat) (hn : n ≤ 65535) :
    parseLine (f.1 ++ " " ++ ("word " ++ memText sg sh) ++ "," ++ toString (n : Int))
      = some (.logic16 f.2 (.mem (memAddr sg sh)) (.imm (BitVec.ofNat 16 n))) := by
  rw [← sepText_ff, logic_line f hf false false (wmem_block sg sh hs hv) (imm_block n)]
  simp only [logicOf, binPair, dst8?, dst16?, immOpnd, uImm16?, uWord?, digitsVal_render, hn, if_true, Bool.false_eq_true, if_false,
    Option.map_some]

/-- shifts/rotates `word <mem>,<count 0..255>` and `word <mem>,cl` -/
theorem shift_wmem_count (f : String × ShiftOp) (hf : f ∈ shifts) (n : Nat) (hn : n ≤ 255) :
    parseLine (f.1 ++ " " ++ ("word " ++ memText sg sh) ++ "," ++ toString (n : Int))
      = some (.shift16 f.2 (.mem (memAddr sg sh)) (some (BitVec.ofNat 8 n))) := by
  rw [← sepText_ff, shift_line f hf false false (wmem_block sg sh hs hv) (imm_block n)]
  simp only [shiftOf, dst8?, dst16?, immOpnd, uByte?, digitsVal_render, hn, if_true, Option.map_some]
theorem shift_bmem_cl (f : String × ShiftOp) (hf : f ∈ shifts) :
    parseLine (f.1 ++ " " ++ ("byte " ++ memText sg sh) ++ "," ++ "cl") = some (.shift8 f.2 (.mem (memAddr sg sh)) none) := by
  rw [← sepText_ff, shift_line f hf false false (bmem_block sg sh hs hv) (breg_block ("cl", .CL) (by decide))]; rfl

/-- unary instructions, NOT, PUSH, POP, LEA, XCHG on a memory operand -/
theorem unary_wmem (f : String × UnOp) (hf : f ∈ unaries) :
    parseLine (f.1 ++ " " ++ ("word " ++ memText sg sh)) = some (.unary16 f.2 (.mem (memAddr sg sh))) := by
  rw [unary_line f hf (wmem_block sg sh hs hv)]; rfl
theorem unary_bmem (f : String × UnOp) (hf : f ∈ unaries) :
    parseLine (f.1 ++ " " ++ ("byte " ++ memText sg sh)) = some (.unary8 f.2 (.mem (memAddr sg sh))) := by
  rw [unary_line f hf (bmem_block sg sh hs hv)]; rfl
theorem not_wmem : parseLine ("not" ++ " " ++ ("word " ++ memText sg sh)) = some (.not16 (.mem (memAddr sg sh))) := by
  rw [not_line (wmem_block sg sh hs hv)]; rfl
theorem push_wmem : parseLine ("push" ++ " " ++ ("word " ++ memText sg sh)) = some (.push (.mem (memAddr sg sh))) := by
  rw [push_line (wmem_block sg sh hs hv)]; rfl
theorem pop_wmem : parseLine ("pop" ++ " " ++ ("word " ++ memText sg sh)) = some (.pop (.mem (memAddr sg sh))) := by
  rw [pop_line (wmem_block sg sh hs hv)]; rfl
theorem lea_wmem (r : String × WordReg) (hr : r ∈ wregs) :
    parseLine ("lea" ++ " " ++ r.1 ++ "," ++ ("word " ++ memText sg sh)) = some (.lea r.2 (.mem (memAddr sg sh))) := by
  rw [← sepText_ff, lea_line false false (wreg_block r hr) (wmem_block sg sh hs hv)]; rfl
theorem xchg_wmem (r : String × WordReg) (hr : r ∈ wregs) :
    parseLine ("xchg" ++ " " ++ ("word " ++ memText sg sh) ++ "," ++ r.1) = some (.xchg16 (.mem (memAddr sg sh)) r.2) := by
  rw [← sepText_ff, xchg_line false false (wmem_block sg sh hs hv) (wreg_block r hr)]; rfl
end

/-- register ← constant, every register and every constant of the rule's range -/
theorem mov_wreg_imm (r : String × WordReg) (hr : r ∈ wregs) (x : Int) (h1 : -32768 ≤ x) (h2 : x ≤ 65535) :
    parseLine ("mov" ++ " " ++ r.1 ++ "," ++ toString x) = some (.mov16 (.reg r.2) (.imm (BitVec.ofInt 16 x))) := by
  rw [← sepText_ff, mov_line false false (wreg_block r hr) (imm_block x)]
  have := sImm16_imm x h1 h2
  cases x <;> simp only [immOpnd] at this ⊢ <;> simp only [movPair, binPair, dst8?, dst16?, this, if_true, Option.map_some]
theorem arith_wreg_imm (f : String × ArithOp) (hf : f ∈ ariths) (r : String × WordReg) (hr : r ∈ wregs) (x : Int)
    (h1 : -32768 ≤ x) (h2 : x ≤ 65535) :
    parseLine (f.1 ++ " " ++ r.1 ++ "," ++ toString x) = some (.arith16 f.2 (.reg r.2) (.imm (BitVec.ofInt 16 x))) := by
  rw [← sepText_ff, arith_line f hf false false (wreg_block r hr) (imm_block x)]
  have := sImm16_imm x h1 h2
  cases x <;> simp only [immOpnd] at this ⊢ <;> simp only [arithOf, binPair, dst8?, dst16?, this, if_true, Option.map_some]
/-- data labels as operands: any identifier that is not an interpreter keyword -/
theorem mov_wlbl_wreg (l : String) (h1 : isIdent l.toList = true) (h2 : kws.contains l = false) (r : String × WordReg) (hr : r ∈ wregs) :
    parseLine ("mov" ++ " " ++ ("word " ++ l) ++ "," ++ r.1) = some (.mov16 (.lbl l) (.reg r.2)) := by
  rw [← sepText_ff, mov_line false false (wlbl_block l h1 h2) (wreg_block r hr)]; rfl

/-! ### non-vacuity: concrete instances, evaluated by the kernel on the real strings -/
example : (Shape.bi ("bp", .BP) ("di", .DI) (-32768)).valid := by simp [Shape.valid, bases, idxs]
example : memText (some ("es", .ES)) (.bi ("bp", .BP) ("di", .DI) (-32768)) = "es:[bp,di,-32768]" := by decide +kernel
example : parseLine "mov word es:[bp,di,-32768],65535"
    = some (.mov16 (.mem { seg := some .ES, base := some .BP, index := some .DI, disp := some 0x8000#16 }) (.imm 0xFFFF#16)) := by
  have h := mov_wmem_imm (some ("es", .ES)) (.bi ("bp", .BP) ("di", .DI) (-32768)) (by simp [segOk, segs])
    (by simp [Shape.valid, bases, idxs]) 65535 (by decide) (by decide)
  have e : "mov" ++ " " ++ ("word " ++ memText (some ("es", WordReg.ES)) (.bi ("bp", .BP) ("di", .DI) (-32768))) ++ "," ++ toString (65535 : Int)
      = "mov word es:[bp,di,-32768],65535" := by decide +kernel
  rw [e] at h; rw [h]; decide +kernel
example : parseLine "sbb byte [si,-1],-128" = some (.arith8 .sbb (.mem { index := some .SI, disp := some 0xFFFF#16 }) (.imm 0x80#8)) := by
  have h := arith_bmem_imm none (.dispI ("si", .SI) (-1)) trivial (by simp [Shape.valid, idxs]) ("sbb", .sbb) (by simp [ariths])
    (-128) (by decide) (by decide)
  have e : ("sbb", ArithOp.sbb).1 ++ " " ++ ("byte " ++ memText none (.dispI ("si", .SI) (-1))) ++ "," ++ toString (-128 : Int)
      = "sbb byte [si,-1],-128" := by decide +kernel
  rw [e] at h; rw [h]; decide +kernel

/-! ### the templates of the REGENERATED grammar are such piece sequences -/

/-- every `format!` template that emits a code line, taken from the grammar data regenerated from
    preprocessor.lalrpop on every run -/
def codeTemplates : List (List Grammar.Piece) :=
  Gen.PP.grammar.flatMap fun (_, d) =>
    match d with
    | .alts l => l.filterMap fun a => match a.act with | .code fmt _ => some fmt | _ => none
    | _ => []

/-- a literal piece of a template consists of interpreter keywords and punctuation only -/
def litOk (s : String) : Bool :=
  match lexLine s with
  | some ts => ts.all fun t => match t with | .kw _ | .comma | .colon | .arrow => true | _ => false
  | none => false
def endsSep (s : String) : Bool := match s.toList.getLast? with | some c => c == ' ' || c == ',' || c == '[' || c == ':' | none => false
def startsSep (s : String) : Bool := match s.toList.head? with | some c => c == ' ' || c == ',' || c == ']' || c == ':' | none => false
/-- where a literal meets an argument the literal supplies the separator; two arguments never touch -/
def boundaryOk : List Grammar.Piece → Bool
  | .lit s :: .arg i :: rest => endsSep s && boundaryOk (.arg i :: rest)
  | .arg _ :: .lit s :: rest => startsSep s && boundaryOk (.lit s :: rest)
  | .arg _ :: .arg _ :: _ => false
  | _ :: rest => boundaryOk rest
  | [] => true

/-- **Every code template of the current grammar is a well-separated piece sequence**: its literal
    pieces lex to interpreter keywords and punctuation, and literal/argument boundaries fall on a
    separator — the hypotheses under which `lex_render` and the `*_line` theorems apply to what the
    assembler emits (kernel-decided over the regenerated grammar data). -/
theorem templates_wellseparated :
    codeTemplates.all (fun fmt => (fmt.all fun p => match p with | .lit s => litOk s | .arg _ => true) && boundaryOk fmt) = true := by
  decide +kernel

/-- non-vacuity: the grammar has code templates, with and without literal separators -/
example : 40 ≤ codeTemplates.length := by decide +kernel

end Emu8086.Props.C11Lines
