/-
Property C08, composed over whole code sections: for EVERY item list (labels, instruction-emitting
productions, procedure headers, closing braces) assembled outside macro expansions,
  * `jump_lands_after_label` : a taken jump (any of the 23 mnemonics) to a label continues with the
    instruction that FOLLOWS the label in the source — the first later item that emits an
    instruction, whatever lies in between (other labels, procedure headers) — in the context the
    driver builds from the assembled program;
  * `call_lands_in_body`     : CALL of a procedure continues with the first instruction after its
    header and pushes the index after the call.
Built from `C08.label_index` (label ↦ number of instructions emitted before it), `C16Map.smap_index`
(the k-th emitted line is the k-th emitting item's line) and the interpreter's jump/call rule.
-/
import Emu8086.Props.C16Map

namespace Emu8086.Props.C08Flow
open Emu8086 Emu8086.Asm Emu8086.Driver Emu8086.Props.C08 Emu8086.Props.C16Map

/-- the interpreter context the driver builds from an assembled program -/
def ctxOf (st : St) : Ctx :=
  { fnMap := st.fns, labelMap := st.labels.map fun (k, v) => (k, labelOfP v), callStack := [] }

theorem lookup_map_labels (l : List (String × PLabel)) (n : String) :
    (l.map fun (k, v) => (k, labelOfP v)).lookup n = (l.lookup n).map labelOfP := by
  induction l with
  | nil => rfl
  | cons x xs ih =>
    obtain ⟨k, v⟩ := x
    simp only [List.map_cons, List.lookup]
    cases n == k <;> simp [ih]

theorem sum_take_split (l : List Nat) (j k : Nat) (h : j ≤ k) :
    (l.take k).sum = (l.take j).sum + ((l.take k).drop j).sum := by
  have : l.take k = (l.take k).take j ++ (l.take k).drop j := (List.take_append_drop j _).symm
  rw [List.take_take, Nat.min_eq_left h] at this
  conv => lhs; rw [this]
  rw [List.sum_append]

/-- **A taken jump to a label lands on the instruction that follows the label in the source.** -/
theorem jump_lands_after_label (items : List Item) (s s' : St) (hinv : Inv s) (hrun : runItems items s = .ok (⟨⟩, s'))
    (j k : Nat) (t : String) (start : Nat) (it : Item) (line : String) (pos : Nat)
    (hj : items[j]? = some (.label t start)) (hjk : j ≤ k) (hk : items[k]? = some it) (hrec : Item.record it = some (line, pos))
    (hbetween : (((items.map Item.emits).take k).drop j).sum = 0)
    (cur : Nat) (m : Machine) (op : JmpOp) :
    ∃ idx m', exec cur m (ctxOf s') (.jcc op (nameOf t)) = .ok (if (jumpCond m op).2 then .JMP idx else .NEXT, m', ctxOf s')
      ∧ s'.code[idx]? = some line ∧ s'.smap[idx]? = some pos := by
  obtain ⟨_, _, hlab⟩ := label_index items s s' hrun
  obtain ⟨_, _, hrec'⟩ := smap_index items s s' hinv hrun
  have h1 := hlab j t start hj
  have h2 := hrec' k it line pos hk hrec
  have hsum : ((items.take k).map Item.emits).sum = ((items.take j).map Item.emits).sum := by
    rw [List.map_take, List.map_take, sum_take_split (items.map Item.emits) j k hjk, hbetween, Nat.add_zero]
  rw [hsum] at h2
  have hl : (ctxOf s').labelMap.lookup (nameOf t) = some ⟨.CODE, s.code.size + ((items.take j).map Item.emits).sum⟩ := by
    simp only [ctxOf, lookup_map_labels]
    simp only [St.label?] at h1
    rw [h1]; rfl
  obtain ⟨m', hm'⟩ := jump_target cur m (ctxOf s') op (nameOf t) _ hl
  exact ⟨_, m', hm', h2.2, h2.1⟩

/-- one item and the procedure map: existing bindings survive, a header binds its name to the index
    of the next instruction -/
theorem applyItem_fns (it : Item) (s s' : St) (h : applyItem it s = .ok (⟨⟩, s')) :
    (∀ n i, s.fns.lookup n = some i → s'.fns.lookup n = some i)
    ∧ (∀ n a b, it = .procBegin n a b → s'.fns.lookup n = some s.code.size) := by
  cases it with
  | label t start =>
    cases hlk : s.labels.lookup (String.ofList (t.toList.take (t.length - 1))) with
    | some l => simp [applyItem, labelAction, St.label?, hlk] at h
    | none =>
      simp only [applyItem, labelAction, bind_apply, get_apply, set_apply, pure_apply, St.label?, hlk,
        Except.ok.injEq, Prod.mk.injEq, true_and] at h
      subst h
      exact ⟨fun n i hn => hn, by intro n a b e; cases e⟩
  | procBegin n a b =>
    cases hlk : s.fns.lookup n with
    | some l => simp [applyItem, procDefAction, hlk] at h
    | none =>
      simp only [applyItem, procDefAction, bind_apply, get_apply, set_apply, pure_apply, hlk,
        Except.ok.injEq, Prod.mk.injEq, true_and] at h
      subst h
      refine ⟨?_, ?_⟩
      · intro n' i hn
        have hne : n' ≠ n := by intro e; rw [e, hlk] at hn; cases hn
        simp only
        rw [lookup_insertAssoc_ne _ _ _ _ hne]; exact hn
      · intro n' a' b' e
        cases e
        simp [insertAssoc, List.lookup]
  | instr line pos =>
    simp only [applyItem, pushCode_apply] at h
    split at h <;> (simp only [Except.ok.injEq, Prod.mk.injEq, true_and] at h; subst h; exact ⟨fun n i hn => hn, by intro n a b e; cases e⟩)
  | procEnd stop =>
    simp only [applyItem, procedureAction, bind_apply, pushCode_apply, pure_apply] at h
    split at h <;> (simp only [Except.ok.injEq, Prod.mk.injEq, true_and] at h; subst h; exact ⟨fun n i hn => hn, by intro n a b e; cases e⟩)

/-- a procedure name is bound to the number of instructions emitted before its header -/
theorem fn_index (items : List Item) : ∀ (s s' : St), runItems items s = .ok (⟨⟩, s') →
    (∀ n i, s.fns.lookup n = some i → s'.fns.lookup n = some i)
    ∧ (∀ j n a b, items[j]? = some (.procBegin n a b) →
        s'.fns.lookup n = some (s.code.size + ((items.take j).map Item.emits).sum)) := by
  induction items with
  | nil =>
    intro s s' h
    simp only [runItems, pure_apply, Except.ok.injEq, Prod.mk.injEq, true_and] at h
    subst h
    exact ⟨fun n i hn => hn, by intro j n a b hj; simp at hj⟩
  | cons it rest ih =>
    intro s s' h
    simp only [runItems, bind_apply] at h
    cases h1 : applyItem it s with
    | error e => simp [h1] at h
    | ok r =>
      obtain ⟨⟨⟩, s1⟩ := r
      simp only [h1] at h
      obtain ⟨hkeep1, hb1⟩ := applyItem_fns it s s1 h1
      have hsz1 := applyItem_size it s s1 h1
      obtain ⟨hkeep, hb⟩ := ih s1 s' h
      refine ⟨fun n i hn => hkeep n i (hkeep1 n i hn), ?_⟩
      intro j n a b hj
      cases j with
      | zero =>
        simp only [List.getElem?_cons_zero, Option.some.injEq] at hj
        have := hb1 n a b hj
        simpa using hkeep _ _ this
      | succ j =>
        simp only [List.getElem?_cons_succ] at hj
        have := hb j n a b hj
        simp only [List.take_succ_cons, List.map_cons, List.sum_cons]
        rw [hsz1] at this
        rw [show s.code.size + (it.emits + ((rest.take j).map Item.emits).sum) = s.code.size + it.emits + ((rest.take j).map Item.emits).sum by omega]
        exact this

/-- **CALL lands on the first instruction of the procedure's body** (the first emitting item after
    the header) and pushes the index after the call -/
theorem call_lands_in_body (items : List Item) (s s' : St) (hinv : Inv s) (hrun : runItems items s = .ok (⟨⟩, s'))
    (j k : Nat) (n : String) (a b : Nat) (it : Item) (line : String) (pos : Nat)
    (hj : items[j]? = some (.procBegin n a b)) (hjk : j ≤ k) (hk : items[k]? = some it) (hrec : Item.record it = some (line, pos))
    (hbetween : (((items.map Item.emits).take k).drop j).sum = 0)
    (cur : Nat) (m : Machine) (stack : List Nat) :
    ∃ idx, exec cur m { ctxOf s' with callStack := stack } (.call n)
        = .ok (.JMP idx, m, { ctxOf s' with callStack := stack ++ [cur + 1] })
      ∧ s'.code[idx]? = some line ∧ s'.smap[idx]? = some pos := by
  obtain ⟨_, hfn⟩ := fn_index items s s' hrun
  obtain ⟨_, _, hrec'⟩ := smap_index items s s' hinv hrun
  have h1 := hfn j n a b hj
  have h2 := hrec' k it line pos hk hrec
  have hsum : ((items.take k).map Item.emits).sum = ((items.take j).map Item.emits).sum := by
    rw [List.map_take, List.map_take, sum_take_split (items.map Item.emits) j k hjk, hbetween, Nat.add_zero]
  rw [hsum] at h2
  refine ⟨_, ?_, h2.2, h2.1⟩
  exact call_pushes cur m { ctxOf s' with callStack := stack } n _ (by simpa [ctxOf] using h1)

/-- **CALL … RET comes back to the instruction after the CALL** and restores the return stack,
    whatever the body did to the machine in between (`m'` arbitrary) -/
theorem call_ret_roundtrip (items : List Item) (s s' : St) (hrun : runItems items s = .ok (⟨⟩, s'))
    (j : Nat) (n : String) (a b : Nat) (hj : items[j]? = some (.procBegin n a b))
    (cur curRet : Nat) (m m' : Machine) (stack : List Nat) :
    ∃ idx, exec cur m { ctxOf s' with callStack := stack } (.call n)
        = .ok (.JMP idx, m, { ctxOf s' with callStack := stack ++ [cur + 1] })
      ∧ exec curRet m' { ctxOf s' with callStack := stack ++ [cur + 1] } .ret
        = .ok (.JMP (cur + 1), m', { ctxOf s' with callStack := stack }) := by
  obtain ⟨_, hfn⟩ := fn_index items s s' hrun
  have h1 := hfn j n a b hj
  refine ⟨_, call_pushes cur m { ctxOf s' with callStack := stack } n _ (by simpa [ctxOf] using h1), ?_⟩
  exact ret_pops curRet m' (ctxOf s') stack (cur + 1)

end Emu8086.Props.C08Flow
