/-
Property C08 — programs start at 'start', follow labels/calls/returns exactly, halt at the end.

Assembler side (model actions of preprocessor.lalrpop, for EVERY context):
  * `label_then_instr`   : a label is bound to the index of the instruction emitted next — also when a
                           procedure header, a macro use or a print statement follows, because every
                           emission goes through `pushCode` (`code_grows_by_push`);
  * `label_index`        : for ANY list of items (labels, instruction-emitting productions, procedure
                           headers and closing braces) accepted from ANY assembler state, the label at
                           position j is bound to (instructions before) + (instruction-emitting items among
                           the first j): the index of the first instruction that follows it in the source
                           — induction over the item list, no bound on program size;
  * `label_last_is_hlt`  : a label that is last in the program is bound to the `hlt` the driver appends;
  * `proc_then_instr`, `implied_ret` : a procedure name is bound to its first instruction, the closing
                           brace emits `ret`;
  * `start_index`        : execution begins at the index bound to the CODE label `start` (C14.preflight_ok).
Interpreter / run loop side (model of driver.rs, for EVERY machine state):
  * `loop_next`, `loop_jmp`, `loop_halt`, `loop_repeat` : one step of the run loop: NEXT continues at
                           idx+1 (source order), JMP n at n, REPEAT at idx, HALT stops — nothing is executed
                           after that (the trace ends with idx);
  * `jump_target`        : a taken jump yields JMP (index bound to the label);
  * `call_pushes`, `ret_pops`, `nested_returns` : CALL continues at the procedure's index and pushes
                           cur+1; RET resumes at the most recent pushed address; after any number of
                           nested calls the returns come back in LIFO order and restore the stack.
The composition into a trace-level simulation against a reference interpreter on the source AST is
exercised by the L4 correspondence run (real driver trace via the verification hook vs the model's
`loop`), not proved as one theorem.
-/
import Emu8086.Props.C14
import Emu8086.Props.C06

namespace Emu8086.Props.C08
open Emu8086 Emu8086.Asm Emu8086.Driver Emu8086.Props.C14

local macro "msimp" : tactic => `(tactic|
  simp only [jmpAction, labelAction, procDefAction, procedureAction, callAction, St.label?,
    bind_apply, map_apply, get_apply, set_apply, pure_apply, err_apply, fail_apply, pushCode_apply, after, stOf])

/-- every emission appends exactly one line: indices of earlier lines never change -/
theorem code_grows_by_push (s : St) (line : String) (pos : Nat) :
    after (pushCode line pos s) (fun s' => s'.code = s.code.push line ∧ s'.labels = s.labels ∧ s'.fns = s.fns) := by
  msimp; split <;> simp

theorem label_then_instr (s : St) (start : Nat) (t line : String) (pos : Nat)
    (h : s.label? (String.ofList (t.toList.take (t.length - 1))) = none) :
    after ((do let _ ← labelAction start t; pushCode line pos) s) (fun s' =>
      ∃ l, s'.label? (String.ofList (t.toList.take (t.length - 1))) = some l ∧ l.type = .CODE ∧ s'.code[l.map]? = some line) := by
  simp only [St.label?] at h ⊢
  msimp; simp only [h]; msimp
  split <;> simp [insertAssoc, List.lookup]

theorem label_last_is_hlt (code : Array String) : (code.push "hlt")[code.size]? = some "hlt" := by simp

theorem proc_then_instr (s : St) (a b : Nat) (n line : String) (pos : Nat) (h : s.fns.lookup n = none) :
    after ((do let _ ← procDefAction a b n; pushCode line pos) s) (fun s' =>
      ∃ i, s'.fns.lookup n = some i ∧ s'.code[i]? = some line) := by
  msimp; simp only [h]; msimp
  split <;> simp [insertAssoc, List.lookup]

theorem implied_ret (s : St) (stop : Nat) :
    after (procedureAction stop s) (fun s' => s'.code = s.code.push "ret") := by
  msimp; split <;> simp

theorem start_index (st : St) (i : Nat) (h : preflight st = .ok i) :
    ∃ l, st.labels.lookup "start" = some l ∧ l.type = .CODE ∧ l.map = i := preflight_ok st i h

/-! ### calls and returns -/
theorem call_pushes (cur : Nat) (m : Machine) (ctx : Ctx) (f : String) (pos : Nat) (h : ctx.fnMap.lookup f = some pos) :
    exec cur m ctx (.call f) = .ok (.JMP pos, m, { ctx with callStack := ctx.callStack ++ [cur + 1] }) := by
  simp [exec, h]

theorem ret_pops (cur : Nat) (m : Machine) (ctx : Ctx) (st : List Nat) (p : Nat) :
    exec cur m { ctx with callStack := st ++ [p] } .ret = .ok (.JMP p, m, { ctx with callStack := st }) := by
  simp [exec]

/-- after pushing the return addresses `rs` (nested calls), `rs.length` returns come back in LIFO
    order and restore the call stack; machine states in between are arbitrary -/
def popAll (ctx : Ctx) : Nat → List Nat × Ctx
  | 0 => ([], ctx)
  | k+1 =>
    match exec 0 Machine.new ctx .ret with
    | .ok (.JMP p, _, ctx') => let (ps, c) := popAll ctx' k; (p :: ps, c)
    | _ => ([], ctx)

theorem nested_returns_aux (ctx : Ctx) : ∀ (k : Nat) (rs : List Nat), rs.length = k →
    popAll { ctx with callStack := ctx.callStack ++ rs } k = (rs.reverse, ctx) := by
  intro k
  induction k with
  | zero => intro rs h; have : rs = [] := List.eq_nil_of_length_eq_zero h; subst this; simp [popAll]
  | succ k ih =>
    intro rs h
    rcases List.eq_nil_or_concat rs with hn | ⟨init, r, hc⟩
    · subst hn; simp at h
    · subst hc
      simp only [List.concat_eq_append, List.length_append, List.length_singleton] at h ⊢
      have hlen : init.length = k := by omega
      have e : ({ ctx with callStack := ctx.callStack ++ (init ++ [r]) } : Ctx)
          = { ({ ctx with callStack := ctx.callStack ++ init } : Ctx) with callStack := (ctx.callStack ++ init) ++ [r] } := by
        simp [List.append_assoc]
      rw [e]
      simp only [popAll, ret_pops, ih init hlen, List.reverse_append, List.reverse_singleton, List.singleton_append]

theorem nested_returns (ctx : Ctx) (rs : List Nat) :
    popAll { ctx with callStack := ctx.callStack ++ rs } rs.length = (rs.reverse, ctx) :=
  nested_returns_aux ctx rs.length rs rfl

theorem jump_target (cur : Nat) (m : Machine) (ctx : Ctx) (j : JmpOp) (n : String) (idx : Nat)
    (h : ctx.labelMap.lookup n = some ⟨.CODE, idx⟩) :
    ∃ m', exec cur m ctx (.jcc j n) = .ok (if (jumpCond m j).2 then .JMP idx else .NEXT, m', ctx) := by
  refine ⟨(jumpCond m j).1, ?_⟩
  simp [exec, h]


/-! ### one step of the run loop (no stepping active) -/
section
variable (p : Prog) (fuel idx : Nat) (m m' : Machine) (ctx ctx' : Ctx) (stdin : List String) (out : String) (tr : List Nat) (i : Instr)

theorem loop_halt (hq : (p.interpreted || getFlag m.flag .TRAP) = false)
    (hp : parseLine (p.code[idx]?.getD "") = some i) (he : exec idx m ctx i = .ok (.HALT, m', ctx')) :
    loop p (fuel + 1) idx m ctx stdin out tr = { stdout := out, exit := 0, trace := (idx :: tr).reverse, final := some m' } := by
  simp [loop, prePrompt, stepBody, hq, hp, he]

theorem loop_next (hq : (p.interpreted || getFlag m.flag .TRAP) = false)
    (hp : parseLine (p.code[idx]?.getD "") = some i) (he : exec idx m ctx i = .ok (.NEXT, m', ctx')) :
    loop p (fuel + 1) idx m ctx stdin out tr = loop p fuel (idx + 1) m' ctx' stdin out (idx :: tr) := by
  simp [loop, prePrompt, stepBody, hq, hp, he]

theorem loop_jmp (n : Nat) (hq : (p.interpreted || getFlag m.flag .TRAP) = false)
    (hp : parseLine (p.code[idx]?.getD "") = some i) (he : exec idx m ctx i = .ok (.JMP n, m', ctx')) :
    loop p (fuel + 1) idx m ctx stdin out tr = loop p fuel n m' ctx' stdin out (idx :: tr) := by
  simp [loop, prePrompt, stepBody, hq, hp, he]

theorem loop_repeat (hq : (p.interpreted || getFlag m.flag .TRAP) = false)
    (hp : parseLine (p.code[idx]?.getD "") = some i) (he : exec idx m ctx i = .ok (.REPEAT, m', ctx')) :
    loop p (fuel + 1) idx m ctx stdin out tr = loop p fuel idx m' ctx' stdin out (idx :: tr) := by
  simp [loop, prePrompt, stepBody, hq, hp, he]
end

end Emu8086.Props.C08

/-! ### label indices for ANY list of items -/
namespace Emu8086.Props.C08
open Emu8086 Emu8086.Asm Emu8086.Props.C14

/-- what the assembler does for the code section, abstracted to the four kinds of item that touch the
    instruction list or the label / procedure maps (an `instr` is any production that emits one line:
    an opcode, a print statement, a `call`, a jump …) -/
inductive Item where
  | label (tokText : String) (start : Nat)
  | instr (line : String) (pos : Nat)
  | procBegin (name : String) (a b : Nat)
  | procEnd (stop : Nat)

def Item.emits : Item → Nat
  | .label _ _ => 0 | .instr _ _ => 1 | .procBegin _ _ _ => 0 | .procEnd _ => 1

def applyItem : Item → M Unit
  | .label t start => do let _ ← labelAction start t; pure ()
  | .instr line pos => pushCode line pos
  | .procBegin n a b => do let _ ← procDefAction a b n; pure ()
  | .procEnd stop => do let _ ← procedureAction stop; pure ()

def runItems : List Item → M Unit
  | [] => pure ()
  | i :: is => do applyItem i; runItems is

def nameOf (t : String) : String := String.ofList (t.toList.take (t.length - 1))

theorem lookup_filter_ne {β} (k k' : String) (h : k' ≠ k) : ∀ (l : List (String × β)),
    (l.filter (fun p => p.1 != k)).lookup k' = l.lookup k' := by
  intro l
  induction l with
  | nil => rfl
  | cons x xs ih =>
    obtain ⟨a, b⟩ := x
    simp only [List.filter_cons]
    by_cases hx : a = k
    · subst hx
      have h1 : ((a, b).1 != a) = false := by simp
      have h2 : (k' == a) = false := by simpa using h
      simp only [h1, Bool.false_eq_true, if_false, List.lookup, h2, ih]
    · have h1 : ((a, b).1 != k) = true := by simpa using hx
      simp only [h1, if_true, List.lookup]
      cases (k' == a) <;> simp [ih]

theorem lookup_insertAssoc_ne {β} (l : List (String × β)) (k k' : String) (v : β) (h : k' ≠ k) :
    (insertAssoc l k v).lookup k' = l.lookup k' := by
  have h2 : (k' == k) = false := by simpa using h
  simp only [insertAssoc, List.lookup, h2]
  exact lookup_filter_ne k k' h l

/-- one item: how the instruction count grows, and that existing label bindings survive -/
theorem applyItem_spec (it : Item) (s s' : St) (h : applyItem it s = .ok (⟨⟩, s')) :
    s'.code.size = s.code.size + it.emits
    ∧ (∀ n l, s.label? n = some l → s'.label? n = some l)
    ∧ (∀ t start, it = .label t start → s'.label? (nameOf t) = some { type := .CODE, srcPos := start, map := s.code.size }) := by
  cases it with
  | label t start =>
    cases hl : s.labels.lookup (String.ofList (t.toList.take (t.length - 1))) with
    | some l => simp [applyItem, labelAction, St.label?, hl] at h
    | none =>
      simp only [applyItem, labelAction, bind_apply, get_apply, set_apply, pure_apply, map_apply, err_apply, St.label?, hl,
        Except.ok.injEq, Prod.mk.injEq, true_and] at h
      subst h
      refine ⟨by simp [Item.emits], ?_, ?_⟩
      · intro n l hn
        simp only [St.label?] at hn ⊢
        by_cases e : n = String.ofList (t.toList.take (t.length - 1))
        · subst e; rw [hl] at hn; cases hn
        · rw [lookup_insertAssoc_ne _ _ _ _ e]; exact hn
      · intro t' start' he; cases he
        simp [St.label?, nameOf, insertAssoc, List.lookup]
  | instr line pos =>
    simp only [applyItem, pushCode_apply, Except.ok.injEq, Prod.mk.injEq, true_and] at h
    subst h
    refine ⟨by split <;> simp [Item.emits], ?_, by intro t st he; cases he⟩
    intro n l hn; split <;> exact hn
  | procBegin name a b =>
    cases hl : s.fns.lookup name with
    | some l => simp [applyItem, procDefAction, hl] at h
    | none =>
      simp only [applyItem, procDefAction, bind_apply, get_apply, set_apply, pure_apply, err_apply, hl,
        Except.ok.injEq, Prod.mk.injEq, true_and] at h
      subst h
      exact ⟨by simp [Item.emits], fun n l hn => hn, by intro t st he; cases he⟩
  | procEnd stop =>
    simp only [applyItem, procedureAction, bind_apply, pure_apply, pushCode_apply, Except.ok.injEq, Prod.mk.injEq, true_and] at h
    subst h
    refine ⟨by split <;> simp [Item.emits], ?_, by intro t st he; cases he⟩
    intro n l hn; split <;> exact hn

/-- **Label indices.**  For ANY list of items that the assembler accepts, starting in ANY state: the
    label at position j is bound to (instructions emitted before the run) + (number of
    instruction-emitting items among the first j items) — i.e. to the index of the first instruction
    that follows the label in the source, whatever lies in between (other labels, procedure headers)
    and whatever follows (nothing: the driver's appended `hlt`, `label_last_is_hlt`). -/
theorem label_index (items : List Item) : ∀ (s s' : St), runItems items s = .ok (⟨⟩, s') →
    s'.code.size = s.code.size + (items.map Item.emits).sum
    ∧ (∀ n l, s.label? n = some l → s'.label? n = some l)
    ∧ (∀ j t start, items[j]? = some (.label t start) →
        s'.label? (nameOf t) = some { type := .CODE, srcPos := start, map := s.code.size + ((items.take j).map Item.emits).sum }) := by
  induction items with
  | nil =>
    intro s s' h
    simp only [runItems, pure_apply, Except.ok.injEq, Prod.mk.injEq, true_and] at h
    subst h
    exact ⟨by simp, fun n l hn => hn, by intro j t st hj; simp at hj⟩
  | cons it rest ih =>
    intro s s' h
    simp only [runItems, bind_apply] at h
    cases h1 : applyItem it s with
    | error e => simp [h1] at h
    | ok r =>
      obtain ⟨⟨⟩, s1⟩ := r
      simp only [h1] at h
      obtain ⟨hsz1, hkeep1, hlab1⟩ := applyItem_spec it s s1 h1
      obtain ⟨hsz, hkeep, hlab⟩ := ih s1 s' h
      refine ⟨by simp only [List.map_cons, List.sum_cons]; omega, fun n l hn => hkeep n l (hkeep1 n l hn), ?_⟩
      intro j t start hj
      cases j with
      | zero =>
        simp only [List.getElem?_cons_zero, Option.some.injEq] at hj
        have := hlab1 t start hj
        simpa using hkeep _ _ this
      | succ j =>
        simp only [List.getElem?_cons_succ] at hj
        have := hlab j t start hj
        rw [this, hsz1]
        simp only [List.take_succ_cons, List.map_cons, List.sum_cons]
        congr 2; omega

end Emu8086.Props.C08
