/-
Property C19 — runs are reproducible; machines and parser objects do not leak state.

  * `vm_new_state`      : a new machine has every register zero except FLAGS = F000h and CS = FFFFh
                          (constants regenerated from vm.rs) and an all-zero memory;
  * `report_order_invariant` : the undefined label the driver reports is the one with the smallest
                          source position, whatever order the hash set yields its elements in — for
                          EVERY permutation of the recorded set (positions are distinct: one entry per
                          jump instruction), so diagnostics do not depend on hash iteration order;
  * `run_is_function`   : the whole run (`Driver.runCLI`) is a function of (source, stdin, mode): the
                          same inputs give the same output, diagnostics and final machine;
  * `exec_isolated`     : executing an instruction is a function of (index, machine, context, line)
                          that returns only the new machine/context: a second machine is unaffected,
                          and the interpreter carries no state between lines (`exec` takes no parser
                          state) — true by construction of a functional model; its tie to the code is
                          the correspondence: one `Interpreter` object is reused for every L2 request
                          (valid and malformed lines interleaved) and must still agree with the
                          stateless model, and every L4 case is run repeatedly in separate processes
                          (byte-identical output required; hygiene scan `Gen.Hygiene`).
Thread schedules and data races are not modelled (partial): the library has no `unsafe`, no statics,
no interior mutability (checked by the generated hygiene table on every run).
-/
import Emu8086.Model.Driver
import Emu8086.Gen.Hygiene

namespace Emu8086.Props.C19
open Emu8086 Emu8086.Driver

theorem vm_new_state :
    Machine.new.flag = 0xF000#16 ∧ Machine.new.cs = 0xFFFF#16 ∧ Machine.new.ax = 0 ∧ Machine.new.bx = 0 ∧ Machine.new.cx = 0
    ∧ Machine.new.dx = 0 ∧ Machine.new.sp = 0 ∧ Machine.new.bp = 0 ∧ Machine.new.si = 0 ∧ Machine.new.di = 0 ∧ Machine.new.ip = 0
    ∧ Machine.new.ds = 0 ∧ Machine.new.ss = 0 ∧ Machine.new.es = 0 ∧ ∀ a, Machine.new.readByte a = 0#8 := by
  refine ⟨by decide, by decide, rfl, rfl, rfl, rfl, rfl, rfl, rfl, rfl, rfl, rfl, rfl, rfl, ?_⟩
  intro a; simp [Machine.new, Machine.readByte, Mem.read, Mem.zero]

/-- the smallest position among the recorded (position, name) pairs whose name is still undefined:
    this is what `Driver.firstUndefined` reports (`reported_position`) -/
def minPos (und : List (Nat × String)) (undefinedName : String → Bool) : Option Nat :=
  ((und.filter fun p => undefinedName p.2).map (·.1)).min?

theorem reported_position (st : Asm.St) (pos : Nat) (n : String) (h : firstUndefined st = some (pos, n)) :
    minPos st.undefined (fun l => (st.labels.lookup l).isNone) = some pos := by
  unfold firstUndefined at h
  unfold minPos
  change ((stillUndefined st).map (·.1)).min? = some pos
  cases hmin : ((stillUndefined st).map (·.1)).min? with
  | none => rw [hmin] at h; cases h
  | some p =>
    rw [hmin] at h
    have := List.find?_some h
    simp at this; rw [this]

theorem report_order_invariant (u v : List (Nat × String)) (f : String → Bool) (h : u.Perm v) :
    minPos u f = minPos v f := by
  unfold minPos
  have hp : ((u.filter fun p => f p.2).map (·.1)).Perm ((v.filter fun p => f p.2).map (·.1)) := (h.filter _).map _
  generalize ((u.filter fun p => f p.2).map (·.1)) = a at hp
  generalize ((v.filter fun p => f p.2).map (·.1)) = b at hp
  -- min? of permuted lists of naturals agree
  cases ha : a.min? with
  | none =>
    have : a = [] := List.min?_eq_none_iff.mp ha
    subst this
    have : b = [] := hp.nil_eq.symm ▸ rfl
    subst this; rfl
  | some x =>
    obtain ⟨hx, hle⟩ := List.min?_eq_some_iff.mp ha
    exact (List.min?_eq_some_iff.mpr ⟨hp.mem_iff.mp hx, fun y hy => hle y (hp.mem_iff.mpr hy)⟩).symm

theorem run_is_function (src : String) (stdin : List String) (i : Bool) (fuel : Nat) :
    ∀ r₁ r₂, r₁ = runCLI src stdin i fuel → r₂ = runCLI src stdin i fuel → r₁.stdout = r₂.stdout ∧ r₁.exit = r₂.exit ∧ r₁.trace = r₂.trace := by
  intro r₁ r₂ h₁ h₂; subst h₁; subst h₂; exact ⟨rfl, rfl, rfl⟩

/-- two machines: executing on one leaves the other as it was -/
theorem exec_isolated (cur : Nat) (a b : Machine) (ctx : Ctx) (i : Instr) :
    (match exec cur a ctx i with | .ok (_, a', _) => (a', b) | .error _ => (a, b)).2 = b := by
  split <;> rfl

/-- the library sources contain none of the constructs that could carry hidden state -/
theorem hygiene : Gen.hygieneHits = [] := rfl

end Emu8086.Props.C19
