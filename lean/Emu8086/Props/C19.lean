/-
Property C19 — runs are reproducible; machines and parser objects do not leak state.

  * `vm_new_state`      : a new machine has every register zero except FLAGS = F000h and CS = FFFFh
                          (constants regenerated from vm.rs) and an all-zero memory;
  * `report_order_invariant` : the undefined label the driver reports is the one with the smallest
                          source position, whatever order the hash set yields its elements in — for
                          EVERY permutation of the recorded set (positions are distinct: one entry per
                          jump instruction), so diagnostics do not depend on hash iteration order;
  * `run_is_function`   : the whole run (`Driver.runCLI`) is a function of (source, stdin, mode): the
                          same inputs give the same output, diagnostics and final machine;
  * `exec_isolated`     : executing an instruction is a function of (index, machine, context, line)
                          that returns only the new machine/context: a second machine is unaffected,
                          and the interpreter carries no state between lines (`exec` takes no parser
                          state) — true by construction of a functional model; its tie to the code is
                          the correspondence: one `Interpreter` object is reused for every L2 request
                          (valid and malformed lines interleaved) and must still agree with the
                          stateless model, and every L4 case is run repeatedly in separate processes
                          (byte-identical output required; hygiene scan `Gen.Hygiene`).
Thread schedules and data races are not modelled (partial): the library has no `unsafe`, no statics,
no interior mutability (checked by the generated hygiene table on every run).
-/
import Emu8086.Model.Driver
import Emu8086.Gen.Hygiene

namespace Emu8086.Props.C19
open Emu8086 Emu8086.Driver

theorem vm_new_state :
    Machine.new.flag = 0xF000#16 ∧ Machine.new.cs = 0xFFFF#16 ∧ Machine.new.ax = 0 ∧ Machine.new.bx = 0 ∧ Machine.new.cx = 0
    ∧ Machine.new.dx = 0 ∧ Machine.new.sp = 0 ∧ Machine.new.bp = 0 ∧ Machine.new.si = 0 ∧ Machine.new.di = 0 ∧ Machine.new.ip = 0
    ∧ Machine.new.ds = 0 ∧ Machine.new.ss = 0 ∧ Machine.new.es = 0 ∧ ∀ a, Machine.new.readByte a = 0#8 := by
  refine ⟨by decide, by decide, rfl, rfl, rfl, rfl, rfl, rfl, rfl, rfl, rfl, rfl, rfl, rfl, ?_⟩
  intro a; simp [Machine.new, Machine.readByte, Mem.read, Mem.zero]

/-- the smallest position among the recorded (position, name) pairs whose name is still undefined:
    this is what `Driver.firstUndefined` reports (`reported_position`) -/
def minPos (und : List (Nat × String)) (undefinedName : String → Bool) : Option Nat :=
  ((und.filter fun p => undefinedName p.2).map (·.1)).min?

theorem reported_position (st : Asm.St) (pos : Nat) (n : String) (h : firstUndefined st = some (pos, n)) :
    minPos st.undefined (fun l => (st.labels.lookup l).isNone) = some pos := by
  unfold firstUndefined at h
  unfold minPos
  change ((stillUndefined st).map (·.1)).min? = some pos
  cases hmin : ((stillUndefined st).map (·.1)).min? with
  | none => rw [hmin] at h; cases h
  | some p =>
    rw [hmin] at h
    simp only at h
    split at h
    · cases h
    · cases h; rfl

theorem report_order_invariant (u v : List (Nat × String)) (f : String → Bool) (h : u.Perm v) :
    minPos u f = minPos v f := by
  unfold minPos
  have hp : ((u.filter fun p => f p.2).map (·.1)).Perm ((v.filter fun p => f p.2).map (·.1)) := (h.filter _).map _
  generalize ((u.filter fun p => f p.2).map (·.1)) = a at hp
  generalize ((v.filter fun p => f p.2).map (·.1)) = b at hp
  -- min? of permuted lists of naturals agree
  cases ha : a.min? with
  | none =>
    have : a = [] := List.min?_eq_none_iff.mp ha
    subst this
    have : b = [] := hp.nil_eq.symm ▸ rfl
    subst this; rfl
  | some x =>
    obtain ⟨hx, hle⟩ := List.min?_eq_some_iff.mp ha
    exact (List.min?_eq_some_iff.mpr ⟨hp.mem_iff.mp hx, fun y hy => hle y (hp.mem_iff.mpr hy)⟩).symm

/-! the NAME reported at that position does not depend on the order of the recorded set either -/

theorem foldl_min_spec (l : List String) (a : String) :
    let m := l.foldl (fun m x => if x < m then x else m) a
    (m = a ∨ m ∈ l) ∧ m ≤ a ∧ ∀ x ∈ l, m ≤ x := by
  induction l generalizing a with
  | nil => exact ⟨Or.inl rfl, Std.le_refl a, fun _ h => by cases h⟩
  | cons b l ih =>
    simp only [List.foldl_cons]
    by_cases hb : b < a
    · rw [if_pos hb]
      obtain ⟨h1, h2, h3⟩ := ih b
      refine ⟨?_, Std.le_trans h2 (Std.le_of_lt hb), ?_⟩
      · rcases h1 with h | h
        · exact Or.inr (by rw [h]; simp)
        · exact Or.inr (by simp [h])
      · intro x hx
        rcases List.mem_cons.mp hx with e | e
        · rw [e]; exact h2
        · exact h3 x e
    · rw [if_neg hb]
      obtain ⟨h1, h2, h3⟩ := ih a
      refine ⟨?_, h2, ?_⟩
      · rcases h1 with h | h
        · exact Or.inl h
        · exact Or.inr (by simp [h])
      · intro x hx
        rcases List.mem_cons.mp hx with e | e
        · rw [e]; exact Std.le_trans h2 (Std.not_lt.mp hb)
        · exact h3 x e

theorem minName_spec (l : List String) (m : String) (h : minName l = some m) : m ∈ l ∧ ∀ x ∈ l, m ≤ x := by
  cases l with
  | nil => cases h
  | cons a as =>
    simp only [minName, Option.some.injEq] at h
    obtain ⟨h1, h2, h3⟩ := foldl_min_spec as a
    rw [h] at h1 h2 h3
    refine ⟨?_, ?_⟩
    · rcases h1 with e | e
      · simp [e]
      · simp [e]
    · intro x hx
      rcases List.mem_cons.mp hx with e | e
      · rw [e]; exact h2
      · exact h3 x e

theorem minName_perm (u v : List String) (h : u.Perm v) : minName u = minName v := by
  cases hu : minName u with
  | none =>
    cases u with
    | cons a as => simp [minName] at hu
    | nil => rw [← h.nil_eq]; rfl
  | some m =>
    cases hv : minName v with
    | none =>
      cases v with
      | cons a as => simp [minName] at hv
      | nil => rw [h.eq_nil] at hu; cases hu
    | some m' =>
      obtain ⟨hm, hle⟩ := minName_spec u m hu
      obtain ⟨hm', hle'⟩ := minName_spec v m' hv
      have h1 : m ≤ m' := hle m' (h.mem_iff.mpr hm')
      have h2 : m' ≤ m := hle' m (h.mem_iff.mp hm)
      rw [Std.le_antisymm h1 h2]

/-- the pair the driver reports, as a function of the recorded SET: any two orders of the same
    pairs (the iteration order of the hash set) give the same (position, name) -/
def reportedOf (und : List (Nat × String)) (f : String → Bool) : Option (Nat × String) :=
  match minPos und f with
  | none => none
  | some p => (minName (((und.filter fun q => f q.2).filter (·.1 == p)).map (·.2))).map fun n => (p, n)

theorem reported_pair_invariant (u v : List (Nat × String)) (f : String → Bool) (h : u.Perm v) :
    reportedOf u f = reportedOf v f := by
  unfold reportedOf
  rw [report_order_invariant u v f h]
  cases minPos v f with
  | none => rfl
  | some p =>
    simp only
    rw [minName_perm _ _ (((h.filter _).filter _).map _)]

theorem firstUndefined_eq_reportedOf (st : Asm.St) :
    firstUndefined st = reportedOf st.undefined (fun l => (st.labels.lookup l).isNone) := by
  unfold firstUndefined reportedOf minPos stillUndefined
  cases ((st.undefined.filter fun p => (st.labels.lookup p.2).isNone).map (·.1)).min? with
  | none => rfl
  | some p =>
    simp only
    cases minName (((st.undefined.filter fun p => (st.labels.lookup p.2).isNone).filter (·.1 == p)).map (·.2)) <;> rfl

theorem run_is_function (src : String) (stdin : List String) (i : Bool) (fuel : Nat) :
    ∀ r₁ r₂, r₁ = runCLI src stdin i fuel → r₂ = runCLI src stdin i fuel → r₁.stdout = r₂.stdout ∧ r₁.exit = r₂.exit ∧ r₁.trace = r₂.trace := by
  intro r₁ r₂ h₁ h₂; subst h₁; subst h₂; exact ⟨rfl, rfl, rfl⟩

/-- two machines: executing on one leaves the other as it was -/
theorem exec_isolated (cur : Nat) (a b : Machine) (ctx : Ctx) (i : Instr) :
    (match exec cur a ctx i with | .ok (_, a', _) => (a', b) | .error _ => (a, b)).2 = b := by
  split <;> rfl

/-- the library sources contain none of the constructs that could carry hidden state -/
theorem hygiene : Gen.hygieneHits = [] := rfl

end Emu8086.Props.C19
