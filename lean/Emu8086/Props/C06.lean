/-
Property C06 — conditional jumps and LOOPs are taken exactly under the 8086 condition.

The predicates the theorems talk about are the ones in TODAY's source: `Gen.jumpPred` is translated
from `jumps_condition` (interpreter.lalrpop) and `Gen.jumpSpellings` from `quote_jmps_loops`
(preprocessor.lalrpop) by tools/extract.py on every run.

  * `gen_eq_taken`        : for ALL 2^16 flag words and ALL 2^16 CX values, every generated predicate
                            equals the Intel condition `Spec.taken` and the CX prelude is the modular
                            decrement for exactly the LOOP family — except JLE (open finding KF-JLE,
                            pinned by test_jg_jle): `jle_partial` covers the flag words on which the
                            implemented `ZF ∧ SF≠OF` agrees with `ZF ∨ SF≠OF`, `jle_full_fails` is the
                            witness;
  * the table has a row for every mnemonic of the interpreter language (`Gen.jumpPred` is a total
    pattern match over `JmpOp`, checked by Lean when the generated file is compiled);
  * `model_eq_gen`        : the hand-written model function `jumpCond` (used by `exec`) is that table;
  * `jcc_refines`         : through `exec`: JMP(target index)/NEXT, CX, nothing else changes;
  * `spellings_sound`     : every source spelling the assembler accepts is emitted as a mnemonic whose
                            condition class is the Intel one for that spelling (JNBE→ja, JNA→jbe, JPO→jnp …);
  * `spellings_complete`  : every Intel mnemonic is accepted in lower and in upper case;
  * `complement`          : of two complementary conditions exactly one is taken (JG/JLE: per Intel;
                            the implementation's JLE is the open finding).
-/
import Std.Tactic.BVDecide
import Emu8086.Model.JumpEval
import Emu8086.Spec.Cond
import Emu8086.Lemmas.ExecBridge

namespace Emu8086.Props.C06
open Emu8086 Emu8086.Spec

local macro "cond_unfold" : tactic => `(tactic|
  simp only [Gen.jumpGen, Gen.jumpPred, Gen.CondE.eval, taken, JmpOp.isLoop, getFlag, Flag.mask,
    Gen.FLAG_OVERFLOW, Gen.FLAG_SIGN, Gen.FLAG_ZERO, Gen.FLAG_PARITY, Gen.FLAG_CARRY, CF, PF, ZF, SF, OF,
    KF.jle])

/-- what the property demands of (CX after, taken) -/
def want (fl cx : BitVec 16) (j : JmpOp) : BitVec 16 × Bool :=
  let cx' := if j.isLoop then cx - 1#16 else cx
  (cx', taken j fl cx')

theorem gen_eq_taken (fl cx : BitVec 16) (j : JmpOp) (hj : j ≠ .jle) :
    Gen.jumpGen fl cx j = want fl cx j := by
  cases j <;> first | (exact absurd rfl hj) | (simp only [want]; cond_unfold; (try simp); (try bv_decide))

theorem jle_partial (fl cx : BitVec 16) (h : KF.jle fl = false) :
    Gen.jumpGen fl cx .jle = want fl cx .jle := by
  revert h; simp only [want]; cond_unfold; (try simp); (try bv_decide)

/-- JLE with ZF=1, SF=OF is not taken by the pinned code; Intel: taken -/
theorem jle_full_fails : Gen.jumpGen 0x0040#16 0#16 .jle ≠ want 0x0040#16 0#16 .jle := by decide
example : KF.jle 0x0040#16 = true := by decide
example : KF.jle 0x00C0#16 = false := by decide

theorem model_eq_gen (m : Machine) (j : JmpOp) :
    Gen.jumpGen m.flag m.cx j = ((jumpCond m j).1.cx, (jumpCond m j).2)
    ∧ (jumpCond m j).1 = { m with cx := (jumpCond m j).1.cx } := by
  cases j <;> exact ⟨rfl, rfl⟩

theorem jcc_refines (cur : Nat) (m : Machine) (ctx : Ctx) (j : JmpOp) (n : String)
    (hkf : j = .jle → KF.jle m.flag = false) :
    okOf (exec cur m ctx (.jcc j n)) = strip (execRef cur m ctx (.jcc j n)) := by
  have hg := (model_eq_gen m j).1
  have hm := (model_eq_gen m j).2
  have hw : Gen.jumpGen m.flag m.cx j = want m.flag m.cx j := by
    by_cases hj : j = .jle
    · subst hj; exact jle_partial _ _ (hkf rfl)
    · exact gen_eq_taken _ _ _ hj
  rw [hg] at hw
  simp only [Prod.mk.injEq, want] at hw
  simp only [exec, execRef]
  generalize jumpCond m j = r at hw hm
  rcases r with ⟨m', t⟩
  simp only at hw hm
  rw [hm, hw.1, hw.2]
  cases ctx.labelMap.lookup n with
  | none => rfl
  | some l => rcases l with ⟨t, idx⟩; cases t <;> rfl

/-! ### the assembler's spelling table against the Intel mnemonic table -/
theorem spellings_sound :
    Gen.jumpSpellings.all (fun p => (intelJumps.lookup (p.1.map lowerC)).map canon == some (canon p.2)) = true := by
  decide +kernel

theorem spellings_complete :
    intelJumps.all (fun p => Gen.jumpSpellings.any (fun q => q.1 == p.1)
                          && Gen.jumpSpellings.any (fun q => q.1 == p.1.map upperC)) = true := by
  decide +kernel

theorem canon_taken (j : JmpOp) (fl cx : BitVec 16) : taken (canon j) fl cx = taken j fl cx := by
  cases j <;> rfl

theorem complement (fl cx : BitVec 16) :
    complements.all (fun p => taken p.1 fl cx != taken p.2 fl cx) = true := by
  simp only [complements, List.all, taken, CF, PF, ZF, SF, OF]
  bv_decide

end Emu8086.Props.C06
