/-
Property C11 / C10, text level, register forms (a finite domain, decided by the kernel over the
WHOLE domain): the line the assembler's templates produce for an instruction whose operands are
registers — `format!("{} {},{}", mnemonic, r1, r2)` and its one-operand and no-operand relatives —
is read by the interpreter as exactly that operation with exactly those registers in those roles,
for every mnemonic of the family and every register (pair).
-/
import Emu8086.Model.ILex

namespace Emu8086.Props.C11Text
open Emu8086

def wregs : List (String × WordReg) :=
  [("ax", .AX), ("bx", .BX), ("cx", .CX), ("dx", .DX), ("sp", .SP), ("bp", .BP), ("si", .SI), ("di", .DI)]
def bregs : List (String × ByteReg) :=
  [("al", .AL), ("ah", .AH), ("bl", .BL), ("bh", .BH), ("cl", .CL), ("ch", .CH), ("dl", .DL), ("dh", .DH)]
def sregs : List (String × WordReg) := [("es", .ES), ("ds", .DS), ("ss", .SS), ("cs", .CS)]
def ariths : List (String × ArithOp) := [("add", .add), ("adc", .adc), ("sub", .sub), ("sbb", .sbb), ("cmp", .cmp)]
def logics : List (String × LogicOp) := [("and", .and), ("or", .or), ("xor", .xor), ("test", .test)]
def unaries : List (String × UnOp) :=
  [("dec", .dec), ("inc", .inc), ("neg", .neg), ("mul", .mul), ("imul", .imul), ("div", .div), ("idiv", .idiv)]
def shifts : List (String × ShiftOp) :=
  [("sal", .sal), ("sar", .sar), ("shr", .shr), ("rol", .rol), ("ror", .ror), ("rcl", .rcl), ("rcr", .rcr)]

/-- ADD/ADC/SUB/SBB/CMP word register, word register — all 5 × 8 × 8 lines -/
theorem arith16_reg_reg :
    ariths.all (fun f => wregs.all fun a => wregs.all fun b =>
      parseLine (f.1 ++ " " ++ a.1 ++ "," ++ b.1) == some (.arith16 f.2 (.reg a.2) (.reg b.2))) = true := by
  decide +kernel
theorem arith8_reg_reg :
    ariths.all (fun f => bregs.all fun a => bregs.all fun b =>
      parseLine (f.1 ++ " " ++ a.1 ++ "," ++ b.1) == some (.arith8 f.2 (.reg a.2) (.reg b.2))) = true := by
  decide +kernel
theorem logic16_reg_reg :
    logics.all (fun f => wregs.all fun a => wregs.all fun b =>
      parseLine (f.1 ++ " " ++ a.1 ++ "," ++ b.1) == some (.logic16 f.2 (.reg a.2) (.reg b.2))) = true := by
  decide +kernel
theorem logic8_reg_reg :
    logics.all (fun f => bregs.all fun a => bregs.all fun b =>
      parseLine (f.1 ++ " " ++ a.1 ++ "," ++ b.1) == some (.logic8 f.2 (.reg a.2) (.reg b.2))) = true := by
  decide +kernel
theorem mov16_reg_reg :
    (wregs.all fun a => wregs.all fun b => parseLine ("mov " ++ a.1 ++ "," ++ b.1) == some (.mov16 (.reg a.2) (.reg b.2))) = true := by
  decide +kernel
theorem mov8_reg_reg :
    (bregs.all fun a => bregs.all fun b => parseLine ("mov " ++ a.1 ++ "," ++ b.1) == some (.mov8 (.reg a.2) (.reg b.2))) = true := by
  decide +kernel
/-- segment register moves, both directions -/
theorem mov_seg :
    (sregs.all fun s => wregs.all fun b =>
      parseLine ("mov " ++ s.1 ++ "," ++ b.1) == some (.mov16 (.reg s.2) (.reg b.2))
      && parseLine ("mov " ++ b.1 ++ "," ++ s.1) == some (.mov16 (.reg b.2) (.reg s.2))) = true := by
  decide +kernel
theorem unary_reg :
    unaries.all (fun f => (wregs.all fun a => parseLine (f.1 ++ " " ++ a.1) == some (.unary16 f.2 (.reg a.2)))
                       && (bregs.all fun a => parseLine (f.1 ++ " " ++ a.1) == some (.unary8 f.2 (.reg a.2)))) = true := by
  decide +kernel
theorem not_reg :
    ((wregs.all fun a => parseLine ("not " ++ a.1) == some (.not16 (.reg a.2)))
     && (bregs.all fun a => parseLine ("not " ++ a.1) == some (.not8 (.reg a.2)))) = true := by
  decide +kernel
theorem push_pop_reg :
    ((wregs ++ sregs).all fun a => parseLine ("push " ++ a.1) == some (.push (.reg a.2))
      && (a.1 == "cs" || parseLine ("pop " ++ a.1) == some (.pop (.reg a.2)))) = true := by
  decide +kernel
/-- shifts and rotates by CL -/
theorem shift_reg_cl :
    shifts.all (fun f => (wregs.all fun a => parseLine (f.1 ++ " " ++ a.1 ++ ", cl") == some (.shift16 f.2 (.reg a.2) none))
                      && (bregs.all fun a => parseLine (f.1 ++ " " ++ a.1 ++ ", cl") == some (.shift8 f.2 (.reg a.2) none))) = true := by
  decide +kernel

/-- instructions without operands -/
theorem no_operand_lines :
    ([("stc", Instr.ctl .stc), ("clc", .ctl .clc), ("cmc", .ctl .cmc), ("std", .ctl .std), ("cld", .ctl .cld), ("sti", .ctl .sti),
      ("cli", .ctl .cli), ("hlt", .ctl .hlt), ("nop", .ctl .nop), ("lahf", .lahf), ("sahf", .sahf), ("pushf", .pushf), ("popf", .popf),
      ("xlat", .xlat), ("ret", .ret), ("aaa", .single .aaa), ("aad", .single .aad), ("aam", .single .aam), ("aas", .single .aas),
      ("daa", .single .daa), ("das", .single .das), ("cbw", .single .cbw), ("cwd", .single .cwd)].all
      fun p => parseLine p.1 == some p.2) = true := by
  decide +kernel

def jumps : List (String × JmpOp) :=
  [("jmp", .jmp), ("ja", .ja), ("jae", .jae), ("jb", .jb), ("jbe", .jbe), ("jc", .jc), ("je", .je), ("jg", .jg), ("jge", .jge),
   ("jl", .jl), ("jle", .jle), ("jnc", .jnc), ("jne", .jne), ("jno", .jno), ("jnp", .jnp), ("jns", .jns), ("jo", .jo), ("jp", .jp),
   ("js", .js), ("jcxz", .jcxz), ("loop", .loop), ("loope", .loope), ("loopne", .loopne)]

/-- every jump / loop mnemonic of the interpreter with a label operand; CALL; INT -/
theorem jump_lines :
    (jumps.all (fun j => parseLine (j.1 ++ " target_1") == some (.jcc j.2 "target_1"))
     && parseLine "call proc_a" == some (.call "proc_a")) = true := by
  decide +kernel

def strops : List (String × StrOp) := [("movs", .movs), ("lods", .lods), ("stos", .stos), ("cmps", .cmps), ("scas", .scas)]
def prefixes : List (String × Option RepPrefix) := [("", none), ("rep ", some .rep), ("repz ", some .repz), ("repnz ", some .repnz)]

/-- string instructions × width × prefix -/
theorem string_lines :
    strops.all (fun o => prefixes.all fun p =>
      parseLine (p.1 ++ o.1 ++ " byte") == some (.str p.2 o.2 false) && parseLine (p.1 ++ o.1 ++ " word") == some (.str p.2 o.2 true)) = true := by
  decide +kernel

end Emu8086.Props.C11Text
