/-
Property C01 — ADD/ADC/SUB/SBB/CMP/INC/DEC/NEG give the 8086 result and all six status flags.

Function level: every `byte_*`/`word_*` model function (mirror of arithmetic.rs) equals the
specification for ALL operand values and ALL 2^16 incoming flag words (so "no other flag bit
changes" is part of the equality).  Instruction level (operand forms, frame) is in C01Exec.

Open findings (the pinned test-suite asserts the wrong behaviour, see known_findings.jsonl):
  KF-INC-CF   : INC overwrites CF with the carry of the addition
  KF-NEG0-SF  : NEG of 0 keeps the previous SF
The full statements are kept (`*_full_fails` shows them false at a concrete witness); the proved
ones are `*_partial` under the negation of the decidable class predicate.
-/
import Std.Tactic.BVDecide
import Emu8086.Model.Alu
import Emu8086.Spec.Arith
import Emu8086.KnownFindings

namespace Emu8086.Props.C01
open Emu8086 Emu8086.Spec

local macro "alu_unfold" : tactic => `(tactic|
  simp only [byteAdd, byteAdc, byteSub, byteSbb, byteCmp, wordAdd, wordAdc, wordSub, wordSbb, wordCmp,
    byteDec, byteInc, byteNeg, wordDec, wordInc, wordNeg,
    setAllFlags, setFlagHelper, putFlag, setFlag, unsetFlag, getFlag, Flag.mask, hasEvenParity,
    Gen.FLAG_OVERFLOW, Gen.FLAG_SIGN, Gen.FLAG_ZERO, Gen.FLAG_AUX_CARRY, Gen.FLAG_PARITY, Gen.FLAG_CARRY,
    ADD, ADC, SUB, SBB, CMP, INC, DEC, NEG, add, sub, withStatus, cfOf, bit, zf, sf, pf, parityEven,
    Prod.mk.injEq, Option.some.injEq, AluState.mk.injEq])

theorem byteAdd_eq (fl : BitVec 16) (a b : BitVec 8) : byteAdd fl a b = ADD fl a b := by
  alu_unfold; bv_decide
theorem byteAdc_eq (fl : BitVec 16) (a b : BitVec 8) : byteAdc fl a b = ADC fl a b := by
  alu_unfold; bv_decide
theorem byteSub_eq (fl : BitVec 16) (a b : BitVec 8) : byteSub fl a b = SUB fl a b := by
  alu_unfold; bv_decide
theorem byteSbb_eq (fl : BitVec 16) (a b : BitVec 8) : byteSbb fl a b = SBB fl a b := by
  alu_unfold; bv_decide
theorem byteCmp_eq (fl : BitVec 16) (a b : BitVec 8) : byteCmp fl a b = CMP fl a b := by
  alu_unfold; bv_decide
theorem wordAdd_eq (fl : BitVec 16) (a b : BitVec 16) : wordAdd fl a b = ADD fl a b := by
  alu_unfold; bv_decide
theorem wordAdc_eq (fl : BitVec 16) (a b : BitVec 16) : wordAdc fl a b = ADC fl a b := by
  alu_unfold; bv_decide
theorem wordSub_eq (fl : BitVec 16) (a b : BitVec 16) : wordSub fl a b = SUB fl a b := by
  alu_unfold; bv_decide
theorem wordSbb_eq (fl : BitVec 16) (a b : BitVec 16) : wordSbb fl a b = SBB fl a b := by
  alu_unfold; bv_decide
theorem wordCmp_eq (fl : BitVec 16) (a b : BitVec 16) : wordCmp fl a b = CMP fl a b := by
  alu_unfold; bv_decide


/-! ### DEC (CF untouched) -/
theorem byteDec_eq (s : AluState) (a : BitVec 8) :
    byteDec s a = some ({ s with flag := (DEC s.flag a).2 }, (DEC s.flag a).1) := by
  alu_unfold; bv_decide
theorem wordDec_eq (s : AluState) (a : BitVec 16) :
    wordDec s a = some ({ s with flag := (DEC s.flag a).2 }, (DEC s.flag a).1) := by
  alu_unfold; bv_decide

/-! ### INC — open finding KF-INC-CF -/
/-- the inputs on which the implementation's INC is wrong: the carry of `a+1` differs from CF -/
abbrev KF_inc {w} (fl : BitVec 16) (a : BitVec w) : Bool := KF.inc fl a

theorem byteInc_partial (s : AluState) (a : BitVec 8) (h : KF_inc s.flag a = false) :
    byteInc s a = some ({ s with flag := (INC s.flag a).2 }, (INC s.flag a).1) := by
  revert h; simp only [KF_inc, KF.inc]; alu_unfold; bv_decide
theorem wordInc_partial (s : AluState) (a : BitVec 16) (h : KF_inc s.flag a = false) :
    wordInc s a = some ({ s with flag := (INC s.flag a).2 }, (INC s.flag a).1) := by
  revert h; simp only [KF_inc, KF.inc]; alu_unfold; bv_decide
/-- everything except CF is right for every input -/
theorem byteInc_except_cf (s : AluState) (a : BitVec 8) :
    ∃ fl', byteInc s a = some ({ s with flag := fl' }, (INC s.flag a).1) ∧
      fl' &&& ~~~ 1#16 = (INC s.flag a).2 &&& ~~~ 1#16 := by
  refine ⟨(byteAdd s.flag a 1#8).2, ?_, ?_⟩
  · alu_unfold; bv_decide
  · alu_unfold; bv_decide
theorem wordInc_except_cf (s : AluState) (a : BitVec 16) :
    ∃ fl', wordInc s a = some ({ s with flag := fl' }, (INC s.flag a).1) ∧
      fl' &&& ~~~ 1#16 = (INC s.flag a).2 &&& ~~~ 1#16 := by
  refine ⟨(wordAdd s.flag a 1#16).2, ?_, ?_⟩
  · alu_unfold; bv_decide
  · alu_unfold; bv_decide
/-- the full statement is false on the pinned code: witness `inc` of 0xFF with CF clear -/
theorem byteInc_full_fails :
    byteInc ⟨0xF000#16, 0#16, 0#16⟩ 0xFF#8 ≠
      some ({ (⟨0xF000#16, 0#16, 0#16⟩ : AluState) with flag := (INC 0xF000#16 0xFF#8).2 }, (INC 0xF000#16 0xFF#8).1) := by
  decide
example : KF_inc 0xF000#16 0xFF#8 = true := by decide
example : KF_inc 0xF000#16 0x12#8 = false := by decide   -- the partial theorem's hypothesis is satisfiable

/-! ### NEG — open finding KF-NEG0-SF -/
/-- the inputs on which NEG is wrong: operand 0 with SF set on entry -/
abbrev KF_neg {w} (fl : BitVec 16) (a : BitVec w) : Bool := KF.neg fl a

theorem byteNeg_partial (s : AluState) (a : BitVec 8) (h : KF_neg s.flag a = false) :
    byteNeg s a = some ({ s with flag := (NEG s.flag a).2 }, (NEG s.flag a).1) := by
  revert h; simp only [KF_neg, KF.neg]; alu_unfold; bv_decide
theorem wordNeg_partial (s : AluState) (a : BitVec 16) (h : KF_neg s.flag a = false) :
    wordNeg s a = some ({ s with flag := (NEG s.flag a).2 }, (NEG s.flag a).1) := by
  revert h; simp only [KF_neg, KF.neg]; alu_unfold; bv_decide
theorem byteNeg_full_fails :
    byteNeg ⟨0xF080#16, 0#16, 0#16⟩ 0#8 ≠
      some ({ (⟨0xF080#16, 0#16, 0#16⟩ : AluState) with flag := (NEG 0xF080#16 0#8).2 }, (NEG 0xF080#16 0#8).1) := by
  decide
example : KF_neg 0xF000#16 0#8 = false := by decide
example : KF_neg 0xF080#16 5#8 = false := by decide

/-! ### the parity helper against a direct count of one bits (all 256 values) -/
theorem hasEvenParity_eq (v : BitVec 8) : hasEvenParity v = parityEven v := by
  simp only [hasEvenParity, parityEven]; bv_decide

end Emu8086.Props.C01
