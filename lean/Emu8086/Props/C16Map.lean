/-
Property C16, the source map for whole code sections: for EVERY list of code items (labels,
instruction-emitting productions, procedure headers and closing braces) assembled outside macro
expansions, the k-th emitted instruction is associated with exactly the position of the item that
emitted it — an instruction with its own position, a procedure's implied `ret` with its closing
brace — and the emitted line is that item's line; whatever lies before, between and after.
(`smap_index`, by induction over the item list; `Props.C16.mapper_locked` gives the rule inside
macro expansions: the outermost use.)  Together with `getErrPos_correct` (position → line) this is
"messages cite the line that produced the instruction".
-/
import Emu8086.Props.C08
import Emu8086.Props.C16

namespace Emu8086.Props.C16Map
open Emu8086 Emu8086.Asm Emu8086.Props.C08

/-- the bookkeeping invariant: stepping not inside a macro, one map entry per instruction -/
def Inv (s : St) : Prop := s.lock = 0 ∧ s.smap.size = s.code.size

/-- what an item records for the instruction it emits (if any) -/
def Item.record : Item → Option (String × Nat)
  | .instr line pos => some (line, pos)
  | .procEnd stop => some ("ret", stop - 1)
  | _ => none

theorem applyItem_map (it : Item) (s s' : St) (hinv : Inv s) (h : applyItem it s = .ok (⟨⟩, s')) :
    Inv s'
    ∧ (∀ i, i < s.code.size → s'.smap[i]? = s.smap[i]? ∧ s'.code[i]? = s.code[i]?)
    ∧ (∀ line pos, Item.record it = some (line, pos) → s'.smap[s.code.size]? = some pos ∧ s'.code[s.code.size]? = some line) := by
  obtain ⟨hl, hsz⟩ := hinv
  have hl' : (s.lock != 0) = false := by simp [hl]
  cases it with
  | label t start =>
    cases hlk : s.labels.lookup (String.ofList (t.toList.take (t.length - 1))) with
    | some l => simp [applyItem, labelAction, St.label?, hlk] at h
    | none =>
      simp only [applyItem, labelAction, bind_apply, get_apply, set_apply, pure_apply, map_apply, err_apply, St.label?, hlk,
        Except.ok.injEq, Prod.mk.injEq, true_and] at h
      subst h
      exact ⟨⟨hl, hsz⟩, fun i _ => ⟨rfl, rfl⟩, by intro line pos hr; simp [Item.record] at hr⟩
  | procBegin n a b =>
    cases hlk : s.fns.lookup n with
    | some l => simp [applyItem, procDefAction, hlk] at h
    | none =>
      simp only [applyItem, procDefAction, bind_apply, get_apply, set_apply, pure_apply, map_apply, err_apply, hlk,
        Except.ok.injEq, Prod.mk.injEq, true_and] at h
      subst h
      exact ⟨⟨hl, hsz⟩, fun i _ => ⟨rfl, rfl⟩, by intro line pos hr; simp [Item.record] at hr⟩
  | instr line pos =>
    simp only [applyItem, pushCode_apply, hl', Bool.false_eq_true, if_false, Except.ok.injEq, Prod.mk.injEq, true_and] at h
    subst h
    refine ⟨⟨hl, by simp [hsz]⟩, ?_, ?_⟩
    · intro i hi
      exact ⟨by simp [Array.getElem?_push, show i ≠ s.smap.size by omega], by simp [Array.getElem?_push, show i ≠ s.code.size by omega]⟩
    · intro l p hr
      simp only [Item.record, Option.some.injEq, Prod.mk.injEq] at hr
      obtain ⟨rfl, rfl⟩ := hr
      exact ⟨by rw [← hsz]; simp [Array.getElem?_push], by simp [Array.getElem?_push]⟩
  | procEnd stop =>
    simp only [applyItem, procedureAction, bind_apply, pushCode_apply, hl', Bool.false_eq_true, if_false, pure_apply,
      Except.ok.injEq, Prod.mk.injEq, true_and] at h
    subst h
    refine ⟨⟨hl, by simp [hsz]⟩, ?_, ?_⟩
    · intro i hi
      exact ⟨by simp [Array.getElem?_push, show i ≠ s.smap.size by omega], by simp [Array.getElem?_push, show i ≠ s.code.size by omega]⟩
    · intro l p hr
      simp only [Item.record, Option.some.injEq, Prod.mk.injEq] at hr
      obtain ⟨rfl, rfl⟩ := hr
      exact ⟨by rw [← hsz]; simp [Array.getElem?_push], by simp [Array.getElem?_push]⟩

theorem applyItem_size (it : Item) (s s' : St) (h : applyItem it s = .ok (⟨⟩, s')) : s'.code.size = s.code.size + it.emits :=
  (applyItem_spec it s s' h).1

/-- **The source map of a whole code section.**  For every item list run from a state satisfying the
    bookkeeping invariant: the invariant still holds, earlier entries are untouched, and the
    instruction emitted by the j-th item sits at index (instructions before the list) + (instructions
    emitted by the items before j) with exactly that item's line and position. -/
theorem smap_index (items : List Item) : ∀ (s s' : St), Inv s → runItems items s = .ok (⟨⟩, s') →
    Inv s'
    ∧ (∀ i, i < s.code.size → s'.smap[i]? = s.smap[i]? ∧ s'.code[i]? = s.code[i]?)
    ∧ (∀ j it line pos, items[j]? = some it → Item.record it = some (line, pos) →
        s'.smap[s.code.size + ((items.take j).map Item.emits).sum]? = some pos
        ∧ s'.code[s.code.size + ((items.take j).map Item.emits).sum]? = some line) := by
  induction items with
  | nil =>
    intro s s' hinv h
    simp only [runItems, pure_apply, Except.ok.injEq, Prod.mk.injEq, true_and] at h
    subst h
    exact ⟨hinv, fun i _ => ⟨rfl, rfl⟩, by intro j it line pos hj; simp at hj⟩
  | cons it rest ih =>
    intro s s' hinv h
    simp only [runItems, bind_apply] at h
    cases h1 : applyItem it s with
    | error e => simp [h1] at h
    | ok r =>
      obtain ⟨⟨⟩, s1⟩ := r
      simp only [h1] at h
      obtain ⟨hinv1, hkeep1, hrec1⟩ := applyItem_map it s s1 hinv h1
      have hsz1 := applyItem_size it s s1 h1
      obtain ⟨hinv', hkeep, hrec⟩ := ih s1 s' hinv1 h
      refine ⟨hinv', ?_, ?_⟩
      · intro i hi
        have a := hkeep i (by omega)
        have b := hkeep1 i hi
        exact ⟨a.1.trans b.1, a.2.trans b.2⟩
      · intro j it' line pos hj hr
        cases j with
        | zero =>
          simp only [List.getElem?_cons_zero, Option.some.injEq] at hj
          subst hj
          have hr1 := hrec1 line pos hr
          have hem : it.emits = 1 := by
            cases it <;> simp [Item.record] at hr <;> rfl
          have a := hkeep s.code.size (by omega)
          simp only [List.take_zero, List.map_nil, List.sum_nil, Nat.add_zero]
          exact ⟨a.1.trans hr1.1, a.2.trans hr1.2⟩
        | succ j =>
          simp only [List.getElem?_cons_succ] at hj
          have := hrec j it' line pos hj hr
          simp only [List.take_succ_cons, List.map_cons, List.sum_cons]
          rw [hsz1] at this
          rw [show s.code.size + (it.emits + ((rest.take j).map Item.emits).sum) = s.code.size + it.emits + ((rest.take j).map Item.emits).sum by omega]
          exact this

theorem applyItem_lists (it : Item) (s s' : St) (hinv : Inv s) (h : applyItem it s = .ok (⟨⟩, s')) :
    s'.code.toList = s.code.toList ++ ((Item.record it).map (·.1)).toList
    ∧ s'.smap.toList = s.smap.toList ++ ((Item.record it).map (·.2)).toList := by
  obtain ⟨hl, hsz⟩ := hinv
  have hl' : (s.lock != 0) = false := by simp [hl]
  cases it with
  | label t start =>
    cases hlk : s.labels.lookup (String.ofList (t.toList.take (t.length - 1))) with
    | some l => simp [applyItem, labelAction, St.label?, hlk] at h
    | none =>
      simp only [applyItem, labelAction, bind_apply, get_apply, set_apply, pure_apply, St.label?, hlk,
        Except.ok.injEq, Prod.mk.injEq, true_and] at h
      subst h; simp [Item.record]
  | procBegin n a b =>
    cases hlk : s.fns.lookup n with
    | some l => simp [applyItem, procDefAction, hlk] at h
    | none =>
      simp only [applyItem, procDefAction, bind_apply, get_apply, set_apply, pure_apply, hlk,
        Except.ok.injEq, Prod.mk.injEq, true_and] at h
      subst h; simp [Item.record]
  | instr line pos =>
    simp only [applyItem, pushCode_apply, hl', Bool.false_eq_true, if_false, Except.ok.injEq, Prod.mk.injEq, true_and] at h
    subst h; simp [Item.record]
  | procEnd stop =>
    simp only [applyItem, procedureAction, bind_apply, pushCode_apply, hl', Bool.false_eq_true, if_false, pure_apply,
      Except.ok.injEq, Prod.mk.injEq, true_and] at h
    subst h; simp [Item.record]

/-- **Source order is preserved** (C11): the instruction list is extended by exactly the lines of the
    emitting items, in the order of the items, and the source map by their positions -/
theorem emitted_in_source_order (items : List Item) : ∀ (s s' : St), Inv s → runItems items s = .ok (⟨⟩, s') →
    s'.code.toList = s.code.toList ++ (items.filterMap Item.record).map (·.1)
    ∧ s'.smap.toList = s.smap.toList ++ (items.filterMap Item.record).map (·.2) := by
  induction items with
  | nil =>
    intro s s' _ h
    simp only [runItems, pure_apply, Except.ok.injEq, Prod.mk.injEq, true_and] at h
    subst h; simp
  | cons it rest ih =>
    intro s s' hinv h
    simp only [runItems, bind_apply] at h
    cases h1 : applyItem it s with
    | error e => simp [h1] at h
    | ok r =>
      obtain ⟨⟨⟩, s1⟩ := r
      simp only [h1] at h
      obtain ⟨hinv1, _, _⟩ := applyItem_map it s s1 hinv h1
      obtain ⟨hc1, hm1⟩ := applyItem_lists it s s1 hinv h1
      obtain ⟨hc, hm⟩ := ih s1 s' hinv1 h
      rw [hc, hm, hc1, hm1]
      cases hr : Item.record it <;> simp [List.filterMap_cons, hr]

/-- **The line a message cites for an emitted instruction is the line that contains the item's
    position**: the source map entry of the instruction emitted by item j is the item's position
    (`smap_index`), and the driver's look-up of a position returns the 1-based number of the first line
    break after it with bounds enclosing it (`C16.getErrPos_correct`) — for every item list, every
    sorted newline table with a line break after the position. -/
theorem message_cites_item_line (items : List Item) (s s' : St) (hinv : Inv s) (hrun : runItems items s = .ok (⟨⟩, s'))
    (j : Nat) (it : Item) (line : String) (pos : Nat) (hj : items[j]? = some it) (hrec : Item.record it = some (line, pos))
    (nl : List Nat) (hs : nl.Pairwise (· < ·)) (hex : ∃ w ∈ nl, w > pos) (hnn : pos ∉ nl) :
    ∃ k v st, s'.smap[s.code.size + ((items.take j).map Item.emits).sum]? = some pos
      ∧ Driver.getErrPos nl pos = some (k + 1, st, v) ∧ nl[k]? = some v ∧ st ≤ pos ∧ pos < v := by
  obtain ⟨_, _, hrec'⟩ := smap_index items s s' hinv hrun
  obtain ⟨k, v, st, h1, h2, h3, h4, _, _⟩ := Emu8086.Props.C16.getErrPos_correct nl hs pos hex hnn
  exact ⟨k, v, st, (hrec' j it line pos hj hrec).1, h1, h2, h3, h4⟩

/-- non-vacuity: a start state of the assembler satisfies the invariant -/
example : Inv ({} : St) := ⟨rfl, rfl⟩

end Emu8086.Props.C16Map
