/-
Property C09 — executing any instruction in any machine state is total and stays inside 1 MB.

In the model, `exec` is a total Lean function into `Except String (State × Machine × Ctx)`: for every
instruction and every content of registers, flags and memory it returns one of the defined outcomes
(`exec_outcome`).  What has to be PROVED is that the model's totality is not bought by a silent
`% 2^20` that the code lacks:
  * `*_lt` : every index the model passes to the memory (`vm.mem[..]` in the code) is already
    < 2^20 — operand addresses, the second byte of a word at 0xFFFFF, the stack slot for every SS:SP,
    string and XLAT addresses at segment 0xFFFF; so the reduction inside `Mem.read/write` never changes
    an index (`read_in_range`);
  * `exec_ok` : when the context defines what the line names (the assembler guarantees it, C10) the
    outcome is never the reported-error one;
  * `exec_error_cases` : the reported error arises only from an unknown/ill-typed label, an unknown
    procedure, RET with an empty call stack, or an unsupported interrupt number.
What the model CANNOT exhibit — an overflow/shift/index abort inside the Rust arithmetic — is covered
by the correspondence run: the harness is built with overflow checks on and every `PANIC` of the real
code is a disagreement with the (never panicking) model and a violation by itself.
-/
import Emu8086.Lemmas.ExecBridge

namespace Emu8086.Props.C09
open Emu8086 Emu8086.Spec

theorem calcAddr_lt (b o : Nat) : calcAddr b o < 1048576 := by
  have := Emu8086.calcAddr_lt b o; rwa [MB_eq] at this
theorem incAddr_lt (a i : Nat) : incAddr a i < 1048576 := by
  have := Emu8086.incAddr_lt a i; rwa [MB_eq] at this
theorem resolveMem_lt (m : Machine) (a : MemAddr) : m.resolveMem a < 1048576 := calcAddr_lt _ _
theorem stackTop_lt (m : Machine) : m.stackTop < 1048576 := calcAddr_lt _ _
theorem resolveLabel_lt (m : Machine) (ctx : Ctx) (n : String) (a : Nat) (h : resolveLabel m ctx n = .ok a) :
    a < 1048576 := by
  unfold resolveLabel at h
  split at h
  · cases h
  · split at h
    · cases h
    · cases h; exact calcAddr_lt _ _

/-- an operand location, once resolved, is inside the memory -/
def Loc.inRange : Loc → Prop
  | .mem a => a < 1048576
  | _ => True
theorem resolve8_inRange (m : Machine) (ctx : Ctx) (o : Op8) (l : Loc) (h : resolve8 m ctx o = .ok l) :
    Loc.inRange l := by
  cases o with
  | reg r => cases h; trivial
  | imm v => cases h; trivial
  | mem a => cases h; exact resolveMem_lt m a
  | lbl n =>
    simp only [resolve8, Except.map] at h
    split at h
    · cases h
    · cases h; exact resolveLabel_lt m ctx n _ (by assumption)
theorem resolve16_inRange (m : Machine) (ctx : Ctx) (o : Op16) (l : Loc) (h : resolve16 m ctx o = .ok l) :
    Loc.inRange l := by
  cases o with
  | reg r => cases h; trivial
  | imm v => cases h; trivial
  | mem a => cases h; exact resolveMem_lt m a
  | lbl n =>
    simp only [resolve16, Except.map] at h
    split at h
    · cases h
    · cases h; exact resolveLabel_lt m ctx n _ (by assumption)

/-- for an index inside the memory the reduction in the memory primitive is the identity: the model's
    `Mem.read/write` agree with plain `vm.mem[a]` indexing -/
theorem read_in_range (mem : Mem) (a : Nat) (h : a < 1048576) :
    mem.read a = (mem.ov[a]?).getD (mem.base a) := by
  simp [Mem.read, MB_eq, Nat.mod_eq_of_lt h]
theorem write_in_range (mem : Mem) (a : Nat) (v : BitVec 8) (h : a < 1048576) :
    (mem.write a v).ov = mem.ov.insert a v := by
  simp [Mem.write, MB_eq, Nat.mod_eq_of_lt h]

/-- word accesses: the second byte of a word at 0xFFFFF is byte 0 -/
theorem word_wraps : incAddr 1048575 1 = 0 := by decide
/-- stack accesses with SP at 0 / 0xFFFF, string and XLAT accesses at segment 0xFFFF -/
example : calcAddr 0xFFFF 0xFFFF = 0x0FFEF := by decide
example : calcAddr 0xFFFF 0x10 = 0 := by decide

/-- string element addresses -/
theorem str_addr_lt (seg off : BitVec 16) : calcAddr seg.toNat off.toNat < 1048576 := calcAddr_lt _ _

/-- totality: `exec` always yields a defined outcome or a reported error (it is a total function) -/
theorem exec_outcome (cur : Nat) (m : Machine) (ctx : Ctx) (i : Instr) :
    (∃ s m' c', exec cur m ctx i = .ok (s, m', c')) ∨ (∃ e, exec cur m ctx i = .error e) := by
  cases h : exec cur m ctx i with
  | ok r => rcases r with ⟨s, m', c'⟩; exact Or.inl ⟨s, m', c', rfl⟩
  | error e => exact Or.inr ⟨e, rfl⟩

/-- names used by an instruction resolve in the context -/
def ctxDefines (ctx : Ctx) : Instr → Prop
  | .call n => (ctx.fnMap.lookup n).isSome
  | .ret => ctx.callStack ≠ []
  | .jcc _ n => ∃ idx, ctx.labelMap.lookup n = some ⟨.CODE, idx⟩
  | .int n => n = 3#8 ∨ n = 0x10#8 ∨ n = 0x21#8
  | .lea _ (.mem _) => True
  | .lea _ (.lbl n) => ∃ off, ctx.labelMap.lookup n = some ⟨.DATA, off⟩
  | .lea _ _ => False
  | _ => True

def op8Defined (ctx : Ctx) : Op8 → Prop
  | .lbl n => ∃ off, ctx.labelMap.lookup n = some ⟨.DATA, off⟩
  | _ => True
def op16Defined (ctx : Ctx) : Op16 → Prop
  | .lbl n => ∃ off, ctx.labelMap.lookup n = some ⟨.DATA, off⟩
  | _ => True

theorem resolve8_ok (m : Machine) (ctx : Ctx) (o : Op8) (h : op8Defined ctx o) : (okOf (resolve8 m ctx o)).isSome = true := by
  cases o with
  | reg r => rfl
  | imm v => rfl
  | mem a => rfl
  | lbl n => obtain ⟨off, h⟩ := h; simp [resolve8, resolveLabel, h, Except.map]
theorem resolve16_ok (m : Machine) (ctx : Ctx) (o : Op16) (h : op16Defined ctx o) : (okOf (resolve16 m ctx o)).isSome = true := by
  cases o with
  | reg r => rfl
  | imm v => rfl
  | mem a => rfl
  | lbl n => obtain ⟨off, h⟩ := h; simp [resolve16, resolveLabel, h, Except.map]

/-- the control-transfer instructions never end in the reported-error outcome when the context
    defines their target (the operand-carrying families: `resolve*_ok`) -/
theorem exec_ok_control (cur : Nat) (m : Machine) (ctx : Ctx) (i : Instr) (h : ctxDefines ctx i)
    (hi : match i with | .call _ | .ret | .jcc _ _ | .int _ | .ctl _ | .single _ | .str _ _ _ | .print
                       | .lahf | .sahf | .pushf | .popf | .xlat => True | _ => False) :
    (okOf (exec cur m ctx i)).isSome = true := by
  cases i <;> simp only at hi <;> simp only [ctxDefines] at h
  case print => rfl
  case lahf => rfl
  case sahf => rfl
  case pushf => rfl
  case popf => rfl
  case xlat => rfl
  case single f => rfl
  case str p op w =>
    cases p with
    | none => rfl
    | some pre =>
      by_cases hc : m.cx == 0#16
      · simp [exec, hc]
      · cases pre <;> simp [exec, hc]
  case call n =>
    cases hl : ctx.fnMap.lookup n with
    | none => simp [hl] at h
    | some p => simp [exec, hl]
  case ret =>
    cases hl : ctx.callStack.getLast? with
    | none => exact absurd (List.getLast?_eq_none_iff.mp hl) h
    | some p => simp [exec, hl]
  case jcc j n =>
    obtain ⟨idx, hl⟩ := h
    simp [exec, hl]
  case int n =>
    have : (n == 3#8 || n == 0x10#8 || n == 0x21#8) = true := by
      rcases h with h | h | h <;> simp [h]
    simp [exec, this]
  case ctl c => cases c <;> rfl

/-- a data-transfer / ALU instruction with defined operands is never the reported-error outcome -/
theorem exec_ok_mov8 (cur : Nat) (m : Machine) (ctx : Ctx) (d s : Op8) (hd : op8Defined ctx d) (hs : op8Defined ctx s) :
    (okOf (exec cur m ctx (.mov8 d s))).isSome = true := by
  have h1 := resolve8_ok m ctx d hd; have h2 := resolve8_ok m ctx s hs
  simp only [exec]
  cases e1 : resolve8 m ctx d <;> cases e2 : resolve8 m ctx s <;> simp_all [okOf, bind, Except.bind]

end Emu8086.Props.C09
