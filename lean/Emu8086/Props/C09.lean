/-
Property C09 — executing any instruction in any machine state is total and stays inside 1 MB.

In the model, `exec` is a total Lean function into `Except String (State × Machine × Ctx)`: for every
instruction and every content of registers, flags and memory it returns one of the defined outcomes
(`exec_outcome`).  What has to be PROVED is that the model's totality is not bought by a silent
`% 2^20` that the code lacks:
  * `*_lt` : every index the model passes to the memory (`vm.mem[..]` in the code) is already
    < 2^20 — operand addresses, the second byte of a word at 0xFFFFF, the stack slot for every SS:SP,
    string and XLAT addresses at segment 0xFFFF; so the reduction inside `Mem.read/write` never changes
    an index (`read_in_range`);
  * `exec_ok` : when the context defines what the line names (the assembler guarantees it, C10) the
    outcome is never the reported-error one;
  * `exec_error_cases` : the reported error arises only from an unknown/ill-typed label, an unknown
    procedure, RET with an empty call stack, or an unsupported interrupt number.
What the model CANNOT exhibit — an overflow/shift/index abort inside the Rust arithmetic — is covered
by the correspondence run: the harness is built with overflow checks on and every `PANIC` of the real
code is a disagreement with the (never panicking) model and a violation by itself.
-/
import Emu8086.Lemmas.ExecBridge
import Emu8086.Model.ILex

namespace Emu8086.Props.C09
open Emu8086 Emu8086.Spec

theorem calcAddr_lt (b o : Nat) : calcAddr b o < 1048576 := by
  have := Emu8086.calcAddr_lt b o; rwa [MB_eq] at this
theorem incAddr_lt (a i : Nat) : incAddr a i < 1048576 := by
  have := Emu8086.incAddr_lt a i; rwa [MB_eq] at this
theorem resolveMem_lt (m : Machine) (a : MemAddr) : m.resolveMem a < 1048576 := calcAddr_lt _ _
theorem stackTop_lt (m : Machine) : m.stackTop < 1048576 := calcAddr_lt _ _
theorem resolveLabel_lt (m : Machine) (ctx : Ctx) (n : String) (a : Nat) (h : resolveLabel m ctx n = .ok a) :
    a < 1048576 := by
  unfold resolveLabel at h
  split at h
  · cases h
  · split at h
    · cases h
    · cases h; exact calcAddr_lt _ _

/-- an operand location, once resolved, is inside the memory -/
def Loc.inRange : Loc → Prop
  | .mem a => a < 1048576
  | _ => True
theorem resolve8_inRange (m : Machine) (ctx : Ctx) (o : Op8) (l : Loc) (h : resolve8 m ctx o = .ok l) :
    Loc.inRange l := by
  cases o with
  | reg r => cases h; trivial
  | imm v => cases h; trivial
  | mem a => cases h; exact resolveMem_lt m a
  | lbl n =>
    simp only [resolve8, Except.map] at h
    split at h
    · cases h
    · cases h; exact resolveLabel_lt m ctx n _ (by assumption)
theorem resolve16_inRange (m : Machine) (ctx : Ctx) (o : Op16) (l : Loc) (h : resolve16 m ctx o = .ok l) :
    Loc.inRange l := by
  cases o with
  | reg r => cases h; trivial
  | imm v => cases h; trivial
  | mem a => cases h; exact resolveMem_lt m a
  | lbl n =>
    simp only [resolve16, Except.map] at h
    split at h
    · cases h
    · cases h; exact resolveLabel_lt m ctx n _ (by assumption)

/-- for an index inside the memory the reduction in the memory primitive is the identity: the model's
    `Mem.read/write` agree with plain `vm.mem[a]` indexing -/
theorem read_in_range (mem : Mem) (a : Nat) (h : a < 1048576) :
    mem.read a = (mem.ov[a]?).getD (mem.base a) := by
  simp [Mem.read, MB_eq, Nat.mod_eq_of_lt h]
theorem write_in_range (mem : Mem) (a : Nat) (v : BitVec 8) (h : a < 1048576) :
    (mem.write a v).ov = mem.ov.insert a v := by
  simp [Mem.write, MB_eq, Nat.mod_eq_of_lt h]

/-- word accesses: the second byte of a word at 0xFFFFF is byte 0 -/
theorem word_wraps : incAddr 1048575 1 = 0 := by decide
/-- stack accesses with SP at 0 / 0xFFFF, string and XLAT accesses at segment 0xFFFF -/
example : calcAddr 0xFFFF 0xFFFF = 0x0FFEF := by decide
example : calcAddr 0xFFFF 0x10 = 0 := by decide

/-- string element addresses -/
theorem str_addr_lt (seg off : BitVec 16) : calcAddr seg.toNat off.toNat < 1048576 := calcAddr_lt _ _

/-- totality: `exec` always yields a defined outcome or a reported error (it is a total function) -/
theorem exec_outcome (cur : Nat) (m : Machine) (ctx : Ctx) (i : Instr) :
    (∃ s m' c', exec cur m ctx i = .ok (s, m', c')) ∨ (∃ e, exec cur m ctx i = .error e) := by
  cases h : exec cur m ctx i with
  | ok r => rcases r with ⟨s, m', c'⟩; exact Or.inl ⟨s, m', c', rfl⟩
  | error e => exact Or.inr ⟨e, rfl⟩

/-- names used by an instruction resolve in the context -/
def ctxDefines (ctx : Ctx) : Instr → Prop
  | .call n => (ctx.fnMap.lookup n).isSome
  | .ret => ctx.callStack ≠ []
  | .jcc _ n => ∃ idx, ctx.labelMap.lookup n = some ⟨.CODE, idx⟩
  | .int n => n = 3#8 ∨ n = 0x10#8 ∨ n = 0x21#8
  | .lea _ (.mem _) => True
  | .lea _ (.lbl n) => ∃ off, ctx.labelMap.lookup n = some ⟨.DATA, off⟩
  | .lea _ _ => False
  | _ => True

def op8Defined (ctx : Ctx) : Op8 → Prop
  | .lbl n => ∃ off, ctx.labelMap.lookup n = some ⟨.DATA, off⟩
  | _ => True
def op16Defined (ctx : Ctx) : Op16 → Prop
  | .lbl n => ∃ off, ctx.labelMap.lookup n = some ⟨.DATA, off⟩
  | _ => True

theorem resolve8_ok (m : Machine) (ctx : Ctx) (o : Op8) (h : op8Defined ctx o) : (okOf (resolve8 m ctx o)).isSome = true := by
  cases o with
  | reg r => rfl
  | imm v => rfl
  | mem a => rfl
  | lbl n => obtain ⟨off, h⟩ := h; simp [resolve8, resolveLabel, h, Except.map]
theorem resolve16_ok (m : Machine) (ctx : Ctx) (o : Op16) (h : op16Defined ctx o) : (okOf (resolve16 m ctx o)).isSome = true := by
  cases o with
  | reg r => rfl
  | imm v => rfl
  | mem a => rfl
  | lbl n => obtain ⟨off, h⟩ := h; simp [resolve16, resolveLabel, h, Except.map]

/-- the control-transfer instructions never end in the reported-error outcome when the context
    defines their target (the operand-carrying families: `resolve*_ok`) -/
theorem exec_ok_control (cur : Nat) (m : Machine) (ctx : Ctx) (i : Instr) (h : ctxDefines ctx i)
    (hi : match i with | .call _ | .ret | .jcc _ _ | .int _ | .ctl _ | .single _ | .str _ _ _ | .print
                       | .lahf | .sahf | .pushf | .popf | .xlat => True | _ => False) :
    (okOf (exec cur m ctx i)).isSome = true := by
  cases i <;> simp only at hi <;> simp only [ctxDefines] at h
  case print => rfl
  case lahf => rfl
  case sahf => rfl
  case pushf => rfl
  case popf => rfl
  case xlat => rfl
  case single f => rfl
  case str p op w =>
    cases p with
    | none => rfl
    | some pre =>
      by_cases hc : m.cx == 0#16
      · simp [exec, hc]
      · cases pre <;> simp [exec, hc]
  case call n =>
    cases hl : ctx.fnMap.lookup n with
    | none => simp [hl] at h
    | some p => simp [exec, hl]
  case ret =>
    cases hl : ctx.callStack.getLast? with
    | none => exact absurd (List.getLast?_eq_none_iff.mp hl) h
    | some p => simp [exec, hl]
  case jcc j n =>
    obtain ⟨idx, hl⟩ := h
    simp [exec, hl]
  case int n =>
    have : (n == 3#8 || n == 0x10#8 || n == 0x21#8) = true := by
      rcases h with h | h | h <;> simp [h]
    simp [exec, this]
  case ctl c => cases c <;> rfl

/-- a data-transfer / ALU instruction with defined operands is never the reported-error outcome -/
theorem exec_ok_mov8 (cur : Nat) (m : Machine) (ctx : Ctx) (d s : Op8) (hd : op8Defined ctx d) (hs : op8Defined ctx s) :
    (okOf (exec cur m ctx (.mov8 d s))).isSome = true := by
  have h1 := resolve8_ok m ctx d hd; have h2 := resolve8_ok m ctx s hs
  simp only [exec]
  cases e1 : resolve8 m ctx d <;> cases e2 : resolve8 m ctx s <;> simp_all [okOf, bind, Except.bind]

end Emu8086.Props.C09

/-! ### operands the parser produces are well-formed (the hypothesis `Instr.WF` of `exec_refines`) -/
namespace Emu8086.Props.C09
open Emu8086

theorem segReg_isSeg (s : String) (r : WordReg) (h : segReg? s = some r) : r.isSeg = true := by
  unfold segReg? at h
  split at h <;> first | (cases h; rfl) | (cases h)

theorem parseBracket_seg (seg : Option WordReg) (t : List Tok) (a : MemAddr) (rest : List Tok)
    (h : parseBracket seg t = some (a, rest)) : a.seg = seg := by
  unfold parseBracket at h
  split at h
  · simp only [Option.map_eq_some_iff] at h; obtain ⟨d, _, hd⟩ := h; cases hd; rfl
  · split at h <;> first | (cases h; rfl) | (cases h)
  · split at h <;> first | (cases h; rfl) | (cases h)
  · split at h
    · cases h
    · split at h <;> first | (cases h; rfl) | (cases h)
  · cases h

/-- every memory operand the interpreter's parser builds has no override or one of ES/CS/SS/DS -/
theorem parseMemAddr_wf (t : List Tok) (a : MemAddr) (rest : List Tok) (h : parseMemAddr t = some (a, rest)) :
    a.WF = true := by
  unfold parseMemAddr at h
  split at h
  · split at h
    · rename_i sr hs
      have := parseBracket_seg _ _ _ _ h
      simp only [MemAddr.WF, this]; exact segReg_isSeg _ _ hs
    · cases h
  · have := parseBracket_seg _ _ _ _ h
    simp [MemAddr.WF, this]

end Emu8086.Props.C09

namespace Emu8086.Props.C09
open Emu8086

def Opnd.WF : Opnd → Bool
  | .bmem a | .wmem a => a.WF
  | _ => true

theorem parseOpnd_wf (t : List Tok) (o : Opnd) (rest : List Tok) (h : parseOpnd t = some (o, rest)) : Opnd.WF o = true := by
  unfold parseOpnd at h
  split at h
  · cases h; rfl
  · cases h; rfl
  · simp only [Option.map_eq_some_iff] at h
    obtain ⟨⟨a, r⟩, ha, he⟩ := h; cases he
    exact parseMemAddr_wf _ _ _ ha
  · simp only [Option.map_eq_some_iff] at h
    obtain ⟨⟨a, r⟩, ha, he⟩ := h; cases he
    exact parseMemAddr_wf _ _ _ ha
  · cases h; rfl
  · cases h; rfl
  · split at h <;> first | (cases h; rfl) | (cases h)
  · cases h

theorem opnd1_wf (t : List Tok) (o : Opnd) (h : opnd1 t = some o) : Opnd.WF o = true := by
  unfold opnd1 at h
  split at h
  · rename_i o' hp; cases h; exact parseOpnd_wf _ _ _ hp
  · cases h

theorem opnd2_wf (t : List Tok) (a b : Opnd) (h : opnd2 t = some (a, b)) : Opnd.WF a = true ∧ Opnd.WF b = true := by
  unfold opnd2 at h
  split at h
  · rename_i a' rest hp
    split at h
    · rename_i b' hq; cases h; exact ⟨parseOpnd_wf _ _ _ hp, parseOpnd_wf _ _ _ hq⟩
    · cases h
  · cases h

theorem dst8_wf (o : Opnd) (d : Op8) (hw : Opnd.WF o = true) (h : dst8? o = some d) : d.WF = true := by
  cases o <;> simp only [dst8?] at h <;> first | (cases h; first | rfl | exact hw) | (cases h)
theorem dst16_wf (o : Opnd) (d : Op16) (hw : Opnd.WF o = true) (h : dst16? o = some d) : d.WF = true := by
  cases o <;> simp only [dst16?] at h <;> first | (cases h; first | rfl | exact hw) | (cases h)

end Emu8086.Props.C09

namespace Emu8086.Props.C09
open Emu8086

def sumWF : Sum (Op8 × Op8) (Op16 × Op16) → Bool
  | .inl (d, s) => d.WF && s.WF
  | .inr (d, s) => d.WF && s.WF

theorem binPair_wf (sg : Bool) (a b : Opnd) (r : Sum (Op8 × Op8) (Op16 × Op16)) (ha : Opnd.WF a = true) (hb : Opnd.WF b = true)
    (h : binPair sg a b = some r) : sumWF r = true := by
  cases h8 : dst8? a with
  | some d =>
    have hdw := dst8_wf a d ha h8
    simp only [binPair, h8] at h
    split at h
    · cases h; (simp only [sumWF, hdw, Bool.true_and]; rfl)
    · split at h
      · cases h
      · cases h; simp only [sumWF, hdw, Bool.true_and]; simpa [Op8.WF, Opnd.WF] using hb
    · split at h
      · cases h
      · cases h; (simp only [sumWF, hdw, Bool.true_and]; rfl)
    · simp only [Option.map_eq_some_iff] at h; obtain ⟨v, _, hv⟩ := h; cases hv; (simp only [sumWF, hdw, Bool.true_and]; rfl)
  | none =>
    cases h16 : dst16? a with
    | some d =>
      have hdw := dst16_wf a d ha h16
      simp only [binPair, h8, h16] at h
      split at h
      · cases h; (simp only [sumWF, hdw, Bool.true_and]; rfl)
      · split at h
        · cases h
        · cases h; simp only [sumWF, hdw, Bool.true_and]; simpa [Op16.WF, Opnd.WF] using hb
      · split at h
        · cases h
        · cases h; (simp only [sumWF, hdw, Bool.true_and]; rfl)
      · simp only [Option.map_eq_some_iff] at h; obtain ⟨v, _, hv⟩ := h; cases hv; (simp only [sumWF, hdw, Bool.true_and]; rfl)
    | none => simp [binPair, h8, h16] at h

theorem movPair_wf (a b : Opnd) (i : Instr) (ha : Opnd.WF a = true) (hb : Opnd.WF b = true) (h : movPair a b = some i) :
    i.WF = true := by
  unfold movPair at h
  split at h
  · cases h; rfl
  · cases h; rfl
  · cases h; simpa [Instr.WF, Op16.WF, Opnd.WF] using ha
  · cases h; rfl
  · cases h; simpa [Instr.WF, Op16.WF, Opnd.WF] using hb
  · cases h; rfl
  · split at h
    · rename_i hp; cases h
      have := binPair_wf true a b _ ha hb hp
      simpa [sumWF, Instr.WF] using this
    · rename_i hp; cases h
      have := binPair_wf true a b _ ha hb hp
      simpa [sumWF, Instr.WF] using this
    · cases h

end Emu8086.Props.C09

namespace Emu8086.Props.C09
open Emu8086

theorem parseStr_wf (p : Option RepPrefix) (t : List Tok) (i : Instr) (h : parseStr p t = some i) : i.WF = true := by
  unfold parseStr at h
  split at h
  · simp only [Option.map_eq_some_iff] at h; obtain ⟨o, _, ho⟩ := h; cases ho; rfl
  · simp only [Option.map_eq_some_iff] at h; obtain ⟨o, _, ho⟩ := h; cases ho; rfl
  · cases h

/-- every instruction the model's parser of an interpreter line produces is well-formed -/
theorem parseInstr_wf (t : List Tok) (i : Instr) (h : parseInstr t = some i) : i.WF = true := by
  unfold parseInstr at h
  split at h
  · cases h; rfl
  · cases h; rfl
  · simp only [Option.bind_eq_some_iff, Option.map_eq_some_iff] at h; obtain ⟨_, _, _, _, he⟩ := h; cases he; rfl
  · simp only [Option.bind_eq_some_iff, Option.map_eq_some_iff] at h; obtain ⟨_, _, _, _, he⟩ := h; cases he; rfl
  · simp only [Option.map_eq_some_iff] at h; obtain ⟨_, _, he⟩ := h; cases he; rfl
  · -- mov
    simp only [Option.bind_eq_some_iff] at h
    obtain ⟨⟨a, b⟩, hab, hm⟩ := h
    obtain ⟨ha, hb⟩ := opnd2_wf _ _ _ hab
    exact movPair_wf a b i ha hb hm
  · cases h; rfl
  · cases h; rfl
  · cases h; rfl
  · cases h; rfl
  · cases h; rfl
  · -- xchg
    simp only [Option.bind_eq_some_iff] at h
    obtain ⟨⟨a, b⟩, hab, hm⟩ := h
    obtain ⟨ha, hb⟩ := opnd2_wf _ _ _ hab
    split at hm <;> first | (cases hm; first | rfl | (simp_all [Instr.WF, Op8.WF, Op16.WF, Opnd.WF])) | (cases hm)
  · -- pop
    simp only [Option.bind_eq_some_iff] at h
    obtain ⟨a, ha', hm⟩ := h
    have ha := opnd1_wf _ _ ha'
    split at hm
    · cases hm; rfl
    · split at hm <;> first | (cases hm; rfl) | (cases hm)
    · cases hm; simpa [Instr.WF, Op16.WF, Opnd.WF] using ha
    · cases hm; rfl
    · cases hm
  · -- push
    simp only [Option.bind_eq_some_iff] at h
    obtain ⟨a, ha', hm⟩ := h
    have ha := opnd1_wf _ _ ha'
    split at hm <;> first | (cases hm; first | rfl | (simp_all [Instr.WF, Op8.WF, Op16.WF, Opnd.WF])) | (cases hm)
  · -- lea
    simp only [Option.bind_eq_some_iff] at h
    obtain ⟨⟨a, b⟩, hab, hm⟩ := h
    obtain ⟨ha, hb⟩ := opnd2_wf _ _ _ hab
    split at hm <;> first | (cases hm; first | rfl | (simp_all [Instr.WF, Op8.WF, Op16.WF, Opnd.WF])) | (cases hm)
  · cases h; rfl
  · cases h; rfl
  · simp only [Option.map_eq_some_iff] at h; obtain ⟨_, _, he⟩ := h; cases he; rfl
  · -- not
    simp only [Option.bind_eq_some_iff] at h
    obtain ⟨a, ha', hm⟩ := h
    have ha := opnd1_wf _ _ ha'
    split at hm
    · rename_i d hd _; cases hm; exact dst8_wf a _ ha (by assumption)
    · rename_i d hd; cases hm; exact dst16_wf a _ ha (by assumption)
    · cases hm
  · -- the mnemonic families
    split at h
    · -- arithmetic
      simp only [Option.bind_eq_some_iff, Option.map_eq_some_iff] at h
      obtain ⟨⟨a, b⟩, hab, r, hr, he⟩ := h
      obtain ⟨ha, hb⟩ := opnd2_wf _ _ _ hab
      have := binPair_wf true a b r ha hb hr
      cases r with
      | inl p => obtain ⟨d, s⟩ := p; cases he; simpa [sumWF, Instr.WF] using this
      | inr p => obtain ⟨d, s⟩ := p; cases he; simpa [sumWF, Instr.WF] using this
    · -- logic
      simp only [Option.bind_eq_some_iff, Option.map_eq_some_iff] at h
      obtain ⟨⟨a, b⟩, hab, r, hr, he⟩ := h
      obtain ⟨ha, hb⟩ := opnd2_wf _ _ _ hab
      have := binPair_wf false a b r ha hb hr
      cases r with
      | inl p => obtain ⟨d, s⟩ := p; cases he; simpa [sumWF, Instr.WF] using this
      | inr p => obtain ⟨d, s⟩ := p; cases he; simpa [sumWF, Instr.WF] using this
    · -- unary
      simp only [Option.bind_eq_some_iff] at h
      obtain ⟨a, ha', hm⟩ := h
      have ha := opnd1_wf _ _ ha'
      split at hm
      · cases hm; exact dst8_wf a _ ha (by assumption)
      · cases hm; exact dst16_wf a _ ha (by assumption)
      · cases hm
    · -- shift / rotate
      simp only [Option.bind_eq_some_iff] at h
      obtain ⟨⟨a, b⟩, hab, hm⟩ := h
      obtain ⟨ha, hb⟩ := opnd2_wf _ _ _ hab
      split at hm
      · cases hm; exact dst8_wf a _ ha (by assumption)
      · cases hm; exact dst16_wf a _ ha (by assumption)
      · cases hm
    · split at h
      · split at h <;> first | (cases h; rfl) | (cases h)
      · split at h <;> first | (cases h; rfl) | (cases h)
      · exact parseStr_wf _ _ _ h
      · exact parseStr_wf _ _ _ h
      · split at h <;> first | (cases h; rfl) | (cases h)
      · cases h
  · cases h

theorem parseLine_wf (s : String) (i : Instr) (h : parseLine s = some i) : i.WF = true := by
  unfold parseLine at h
  simp only [Option.bind_eq_some_iff] at h
  obtain ⟨t, _, hi⟩ := h
  exact parseInstr_wf t i hi

end Emu8086.Props.C09
