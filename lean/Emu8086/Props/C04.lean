/-
Property C04 — every operand form resolves to the architecturally correct location.

For ALL register, segment and displacement values (incl. sums crossing 0xFFFF and 0xFFFFF):
  * `resolveMem_eq_ea`   : the address the interpreter's `memory_addr` action computes (model
    `Machine.resolveMem`, mirror of interpreter.lalrpop) is (segment*16 + offset) mod 2^20 with offset
    the 16-bit wrapping sum of base, index and displacement, default segment SS for a BP base and DS
    otherwise, an override replacing the default;
  * `label_eq`           : a data label is DS*16 + its offset (mod 2^20);
  * `readWord_le`, `writeWord_le` : words are the two consecutive bytes, low first, second byte at
    (a+1) mod 2^20; a word write changes exactly those two cells;
  * `byteReg_*`          : byte registers alias exactly their half of the 16-bit register;
  * `lea_partial`, `lea_label` : LEA loads the 16-bit offset and touches neither memory nor flags —
    proved for operands whose segment is DS (or differs from it by a multiple of 2^12); the full
    statement fails on the pinned code (open finding KF-LEA-SEG, `lea_full_fails`).
Every other instruction theorem (C01, C02, C03, C05) is stated over `Spec.ea`, so a wrong resolution
breaks them as well.
-/
import Emu8086.Lemmas.Mem
import Emu8086.Model.Norm

namespace Emu8086.Props.C04
open Emu8086 Emu8086.Spec

/-- the five addressing shapes × optional override, all register values -/
theorem resolve_eq (m : Machine) (a : MemAddr) (h : a.WF = true) :
    m.resolveMem a = ((segVal m a).toNat * 16 + (off16 m a).toNat) % 1048576 := by
  rw [Emu8086.resolveMem_eq_ea m a h]; rfl

/-- `off16` is the wrapping 16-bit sum of the parts present -/
theorem off16_sum (m : Machine) (b : Option BaseReg) (i : Option IndexReg) (d : Option (BitVec 16)) (s : Option WordReg) :
    (off16 m ⟨s, b, i, d⟩).toNat =
      ((match b with | some .BX => m.bx.toNat | some .BP => m.bp.toNat | none => 0)
       + (match i with | some .SI => m.si.toNat | some .DI => m.di.toNat | none => 0)
       + (match d with | some d => d.toNat | none => 0)) % 65536 := by
  unfold off16
  cases b with
  | none => cases i with
    | none => cases d <;> (simp [BitVec.toNat_add] <;> bv_omega)
    | some i => cases i <;> cases d <;> (simp [BitVec.toNat_add] <;> bv_omega)
  | some b => cases b <;> (cases i with
    | none => cases d <;> (simp [BitVec.toNat_add] <;> bv_omega)
    | some i => cases i <;> cases d <;> (simp [BitVec.toNat_add] <;> bv_omega))

/-- default segment: SS exactly when BP is the base, DS otherwise; an override replaces it -/
theorem seg_default_bp (m : Machine) (i : Option IndexReg) (d : Option (BitVec 16)) :
    segVal m ⟨none, some .BP, i, d⟩ = m.ss := rfl
theorem seg_default_bx (m : Machine) (i : Option IndexReg) (d : Option (BitVec 16)) :
    segVal m ⟨none, some .BX, i, d⟩ = m.ds := rfl
theorem seg_default_nobase (m : Machine) (i : Option IndexReg) (d : Option (BitVec 16)) :
    segVal m ⟨none, none, i, d⟩ = m.ds := rfl
theorem seg_override (m : Machine) (b : Option BaseReg) (i : Option IndexReg) (d : Option (BitVec 16)) :
    segVal m ⟨some .ES, b, i, d⟩ = m.es ∧ segVal m ⟨some .CS, b, i, d⟩ = m.cs ∧
    segVal m ⟨some .SS, b, i, d⟩ = m.ss ∧ segVal m ⟨some .DS, b, i, d⟩ = m.ds := ⟨rfl, rfl, rfl, rfl⟩

/-- a data label resolves to DS*16 + offset (mod 2^20) -/
theorem label_eq (m : Machine) (ctx : Ctx) (n : String) (off : Nat) (hoff : off < 65536)
    (h : ctx.labelMap.lookup n = some ⟨.DATA, off⟩) :
    resolveLabel m ctx n = .ok ((m.ds.toNat * 16 + off) % 1048576) := by
  simp [resolveLabel, h, calcAddr, makeValid, MB_eq]

/-- word read: low byte at `a`, high byte at (a+1) mod 2^20 -/
theorem readWord_le (m : Machine) (a : Nat) :
    m.readWord a = (m.readByte ((a + 1) % 1048576)).setWidth 16 <<< 8 ||| (m.readByte a).setWidth 16 := by
  rw [readWord_eq_wordAt, readByte_eq_byteAt, readByte_eq_byteAt]; rfl

/-- word write: afterwards the cell `a` holds the low byte, the cell (a+1) mod 2^20 the high byte,
    and every other cell is unchanged -/
theorem writeWord_le (m : Machine) (a : Nat) (v : BitVec 16) (b : Nat) :
    (m.writeWord a v).readByte b =
      if b % 1048576 = (a + 1) % 1048576 then (v >>> 8).setWidth 8
      else if b % 1048576 = a % 1048576 then v.setWidth 8
      else m.readByte b := by
  rw [writeWord_eq_putWord, readByte_eq_byteAt, readByte_eq_byteAt]
  simp only [putWord, byteAt_putByte, M20, Nat.mod_mod]
  by_cases h1 : b % 1048576 = (a + 1) % 1048576
  · simp [h1]
  · by_cases h2 : b % 1048576 = a % 1048576
    · have h3 : ¬ (a + 1) % 1048576 = a % 1048576 := by omega
      have h4 : ¬ a % 1048576 = (a + 1) % 1048576 := by omega
      simp [h2, h3, h4]
    · simp [h1, h2, Ne.symm h1, Ne.symm h2]

/-- word write touches registers and flags not at all -/
theorem writeWord_regs (m : Machine) (a : Nat) (v : BitVec 16) :
    let m' := m.writeWord a v
    m'.flag = m.flag ∧ m'.ax = m.ax ∧ m'.bx = m.bx ∧ m'.cx = m.cx ∧ m'.dx = m.dx ∧ m'.sp = m.sp ∧ m'.bp = m.bp
    ∧ m'.si = m.si ∧ m'.di = m.di ∧ m'.cs = m.cs ∧ m'.ds = m.ds ∧ m'.ss = m.ss ∧ m'.es = m.es := by
  simp [Machine.writeWord, Machine.writeByte]

/-! ### byte registers are the halves of the word registers -/
def parent : ByteReg → WordReg
  | .AL | .AH => .AX | .BL | .BH => .BX | .CL | .CH => .CX | .DL | .DH => .DX
def isHigh : ByteReg → Bool
  | .AH | .BH | .CH | .DH => true | _ => false

theorem byteReg_get (m : Machine) (r : ByteReg) :
    m.getByteReg r = if isHigh r then ((m.getWordReg (parent r)) >>> 8).setWidth 8 else (m.getWordReg (parent r)).setWidth 8 := by
  cases r <;> simp [Machine.getByteReg, Machine.getWordReg, parent, isHigh, lowByte_eq, highByte_eq]

theorem byteReg_get_set (m : Machine) (r : ByteReg) (v : BitVec 8) : (m.setByteReg r v).getByteReg r = v := by
  cases r <;> simp only [Machine.getByteReg, Machine.setByteReg, lowByte, highByte, withLow, withHigh] <;> bv_decide

/-- writing one half leaves the other half of the same register alone -/
theorem byteReg_other_half (m : Machine) (r r' : ByteReg) (v : BitVec 8) (h : r ≠ r') :
    (m.setByteReg r v).getByteReg r' = m.getByteReg r' := by
  cases r <;> cases r' <;> first | (exact absurd rfl h) | rfl | skip
  all_goals (simp only [Machine.getByteReg, Machine.setByteReg, lowByte, highByte, withLow, withHigh]; bv_decide)

/-- and every other word register, the flags and the memory -/
theorem byteReg_frame (m : Machine) (r : ByteReg) (v : BitVec 8) (w : WordReg) (h : w ≠ parent r) :
    (m.setByteReg r v).getWordReg w = m.getWordReg w ∧ (m.setByteReg r v).flag = m.flag
    ∧ (m.setByteReg r v).mem.ov = m.mem.ov := by
  cases r <;> cases w <;> first | (exact absurd rfl h) | (exact ⟨rfl, rfl, rfl⟩)

/-! ### LEA -/
theorem lea_arith (seg ds off : BitVec 16) (h : ((seg - ds) <<< 4) = 0#16) :
    BitVec.ofInt 16 ((((seg.toNat * 16 + off.toNat) % 1048576 : Nat) : Int) - (ds.toNat : Int) * 16) = off := by
  apply BitVec.eq_of_toNat_eq
  have h' := congrArg BitVec.toNat h
  simp only [BitVec.toNat_shiftLeft, BitVec.toNat_sub, BitVec.toNat_ofNat, Nat.shiftLeft_eq] at h'
  simp only [BitVec.toNat_ofInt]
  have h1 := seg.isLt; have h2 := ds.isLt; have h3 := off.isLt
  omega

theorem lea_partial (cur : Nat) (m : Machine) (ctx : Ctx) (r : WordReg) (a : MemAddr) (h : a.WF = true)
    (hkf : KF.lea m.ds (segVal m a) = false) :
    exec cur m ctx (.lea r (.mem a)) = .ok (.NEXT, set16 m r (off16 m a), ctx) := by
  have hk : ((segVal m a - m.ds) <<< 4) = 0#16 := by simpa [KF.lea] using hkf
  simp only [exec, resolve16, bind, Except.bind, Emu8086.resolveMem_eq_ea m a h, setWordReg_eq]
  have := lea_arith (segVal m a) m.ds (off16 m a) hk
  simp only [ea, phys, M20] at this ⊢
  rw [this]

/-- LEA of a data label loads the label's offset -/
theorem lea_label (cur : Nat) (m : Machine) (ctx : Ctx) (r : WordReg) (n : String) (off : Nat) (hoff : off < 65536)
    (h : ctx.labelMap.lookup n = some ⟨.DATA, off⟩) :
    exec cur m ctx (.lea r (.lbl n)) = .ok (.NEXT, set16 m r (BitVec.ofNat 16 off), ctx) := by
  have hk : ((m.ds - m.ds) <<< 4) = 0#16 := by simp
  have := lea_arith m.ds m.ds (BitVec.ofNat 16 off) hk
  simp only [BitVec.toNat_ofNat, Nat.mod_eq_of_lt hoff] at this
  simp only [exec, resolve16, resolveLabel, h, bind, Except.bind, Except.map, calcAddr, makeValid, MB_eq, setWordReg_eq]
  rw [this]

/-- in both cases nothing but the destination register changes (memory and flags in particular) -/
theorem set16_frame (m : Machine) (r : WordReg) (v : BitVec 16) :
    (set16 m r v).flag = m.flag ∧ (set16 m r v).mem.ov = m.mem.ov
    ∧ ∀ w, w ≠ r → get16 (set16 m r v) w = get16 m w := by
  refine ⟨by cases r <;> rfl, by cases r <;> rfl, ?_⟩
  intro w hw; cases r <;> cases w <;> first | (exact absurd rfl hw) | rfl

/-- the full statement (any segment) is false on the pinned code: `lea ax, word [bp]` with SS=1,
    DS=0, BP=6 yields 0x16, not 6 (test_lea pins this behaviour) -/
theorem lea_full_fails :
    let m : Machine := { Machine.new with ss := 1#16, bp := 6#16 }
    (match exec 0 m {} (.lea .AX (.mem ⟨none, some .BP, none, none⟩)) with
      | .ok (_, m', _) => m'.ax | .error _ => 0#16) ≠ off16 m ⟨none, some .BP, none, none⟩ := by
  decide

example : KF.lea 0#16 1#16 = true := by decide
example : KF.lea 5#16 5#16 = false := by decide

end Emu8086.Props.C04

/-! ### normal form of operands (used by the source-level operand correspondence, request `opnd`) -/
namespace Emu8086.Props.C04
open Emu8086

theorem segOf_norm (m : Machine) (a : MemAddr) : m.segOf a.norm = m.segOf a := by
  obtain ⟨seg, base, index, disp⟩ := a
  cases seg with
  | some s => rfl
  | none =>
    cases base with
    | none => rfl
    | some b => cases b <;> rfl

theorem offsetOf_norm (m : Machine) (a : MemAddr) : m.offsetOf a.norm = m.offsetOf a := by
  obtain ⟨seg, base, index, disp⟩ := a
  cases disp <;> rfl

theorem resolveMem_norm (m : Machine) (a : MemAddr) : m.resolveMem a.norm = m.resolveMem a := by
  simp only [Machine.resolveMem, segOf_norm, offsetOf_norm]

theorem resolve8_norm (m : Machine) (ctx : Ctx) (o : Op8) : resolve8 m ctx o.norm = resolve8 m ctx o := by
  cases o <;> simp [Op8.norm, resolve8, resolveMem_norm]
theorem resolve16_norm (m : Machine) (ctx : Ctx) (o : Op16) : resolve16 m ctx o.norm = resolve16 m ctx o := by
  cases o <;> simp [Op16.norm, resolve16, resolveMem_norm]

/-- writing the default segment out (and a missing displacement as 0) never changes execution -/
theorem exec_norm (cur : Nat) (m : Machine) (ctx : Ctx) (i : Instr) : exec cur m ctx i.norm = exec cur m ctx i := by
  cases i <;> simp only [Instr.norm, exec, resolve8_norm, resolve16_norm]

/-- and the normal form says which segment is used: the override, else SS for BP, else DS -/
theorem norm_seg (a : MemAddr) :
    a.norm.seg = some (match a.seg with | some s => s | none => if a.base = some .BP then .SS else .DS) := by
  obtain ⟨seg, base, index, disp⟩ := a
  cases seg <;> simp [MemAddr.norm]
  cases base <;> simp
  rename_i b; cases b <;> simp

end Emu8086.Props.C04
