/-
Property C10 — whatever the assembler accepts, the data loader, interpreter and printer can run.

The assembler model IS the current source: `Gen.PP.grammar` (every production, spelling and `format!`
template of preprocessor.lalrpop) is regenerated on every run and interpreted by Model/Asm.lean.
Kernel-checked obligations over the regenerated tables:
  * `specials_pinned`          : the 42 irregular actions modelled by hand are, text for text (hash of
                                 the normalised source), the ones in the source today;
  * `emitted_words_known`      : every keyword-shaped word that can reach an emitted code line — every
                                 canonical mnemonic / register spelling returned by a `quote_*` table
                                 and every literal word of a code template — is a keyword of the
                                 INTERPRETER grammar (so `jna`-style unknown mnemonics cannot be emitted);
  * `interp_keywords_reserved` : every interpreter keyword is a keyword of the assembler, hence a
                                 user-chosen name (label, procedure) can never lex as an interpreter keyword;
  * context consistency        : C14 (`call` only to declared procedures, jumps only to code labels,
                                 data operands only on data labels, `int` only 3/10h/21h) and the
                                 driver's pre-flight check make every name in an emitted line resolve.
That every template, instantiated with every operand shape, PARSES downstream is decided by the
correspondence runs, which are exhaustive over shapes: every alternative x every mnemonic spelling is
assembled by the real assembler and executed by the real binary (real DataParser / Interpreter /
PrintParser are the judges: any "Internal Error" line is a violation).
-/
import Emu8086.Model.Asm
import Emu8086.Gen.ILiterals

namespace Emu8086.Props.C10
open Emu8086

theorem specials_pinned : Gen.PP.specials = Asm.expectedSpecials := rfl

theorem emitted_words_known :
    Gen.PP.emittedWords.all (fun w => Gen.interpKeywordsC.contains w) = true := by decide +kernel

theorem interp_keywords_reserved :
    Gen.interpKeywordsC.all (fun w => Gen.PP.keywordsC.contains w) = true := by decide +kernel

/-- non-vacuity: the tables are populated -/
example : Gen.PP.emittedWords.length > 90 ∧ Gen.interpKeywordsC.length > 100 := by decide +kernel

end Emu8086.Props.C10
