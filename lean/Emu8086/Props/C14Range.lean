/-
Property C14 (constants outside the range of their operand are refused) at the level of the
assembler model's number actions — the five hand-modelled (hash-pinned) `special` actions that every
constant of every instruction, directive and print statement goes through.  For EVERY token (any
digit string, any radix prefix), any context and any state:

  * `u_word_range`, `u_byte_range`, `raw_addr_range` : the unsigned rules return the value exactly
        when it is ≤ 65535 / ≤ 255 / ≤ 2^32−1 (reduced mod 1 MiB for addresses) and otherwise end
        with the range diagnostic — never a truncated value;
  * `s_word_neg_range`, `s_byte_neg_range`           : the negative-decimal rules return −n exactly
        when n ≤ 32768 / n ≤ 128 and otherwise the diagnostic;
  * `offset_as_byte_range`                           : OFFSET of a label used where a byte constant is
        required is refused when the offset exceeds 255;
  * `*_rejected` / `*_state_unchanged`               : corollaries in the property's words — an
        out-of-range constant produces a diagnostic with a non-empty message and leaves the
        assembler state (emitted code, data, labels) untouched.
-/
import Emu8086.Model.Asm

set_option linter.unusedSimpArgs false

namespace Emu8086.Props.C14Range
open Emu8086 Emu8086.Asm

variable (reparse : String → M Unit) (kids : List Tree) (vals : List Val) (s : St)

/-- the token of a number rule (second child: between the two position markers) -/
abbrev tok (kids : List Tree) : PTok := tokOf (kids.getD 1 default)
/-- `-ddd`: the digits after the sign -/
abbrev negDigits (kids : List Tree) : Nat := natOfDigits 10 ((tok kids).text.toList.drop 1)
abbrev p0 (vals : List Val) : Nat := posOf (vals.getD 0 .unit)
abbrev p2 (vals : List Val) : Nat := posOf (vals.getD 2 .unit)

theorem u_word_range (alt : Nat) (halt : alt ≠ 3) :
    special reparse "u_word_num" alt kids vals s =
      (if unsignedOf (tok kids) ≤ 65535 then .ok (.num (unsignedOf (tok kids)), s)
       else .error (.custom (p0 vals) (p2 vals) "Invalid Value, must be between 0-65535")) := by
  unfold special
  split <;> simp_all
  all_goals (split <;> rename_i hc <;> (try simp only [tok, p0, p2, negDigits, List.getD_eq_getElem?_getD, List.drop_one, hc, if_true, if_false]) <;> rfl)

theorem u_byte_range (alt : Nat) (halt : alt ≠ 3) :
    special reparse "u_byte_num" alt kids vals s =
      (if unsignedOf (tok kids) ≤ 255 then .ok (.num (unsignedOf (tok kids)), s)
       else .error (.custom (p0 vals) (p2 vals) "Invalid Value, must be between 0-255")) := by
  unfold special
  split <;> simp_all
  all_goals (split <;> rename_i hc <;> (try simp only [tok, p0, p2, negDigits, List.getD_eq_getElem?_getD, List.drop_one, hc, if_true, if_false]) <;> rfl)

theorem raw_addr_range (alt : Nat) (halt : alt ≠ 3) :
    special reparse "raw_addr" alt kids vals s =
      (if unsignedOf (tok kids) ≤ 4294967295 then .ok (.num ((unsignedOf (tok kids) % MB : Nat)), s)
       else .error (.custom (p0 vals) (p2 vals) "Invalid Value, must be between 0-1048576")) := by
  unfold special
  split <;> simp_all
  all_goals (split <;> rename_i hc <;> (try simp only [tok, p0, p2, negDigits, List.getD_eq_getElem?_getD, List.drop_one, hc, if_true, if_false]) <;> rfl)

theorem s_word_neg_range :
    special reparse "s_word_num" 0 kids vals s =
      (if negDigits kids ≤ 32768 then .ok (.num (-(negDigits kids : Int)), s)
       else .error (.custom (p0 vals) (p2 vals) "Invalid Value, must be between 0-65535")) := by
  unfold special
  split <;> simp_all
  all_goals (split <;> rename_i hc <;> (try simp only [tok, p0, p2, negDigits, List.getD_eq_getElem?_getD, List.drop_one, hc, if_true, if_false]) <;> rfl)

theorem s_byte_neg_range :
    special reparse "s_byte_num" 0 kids vals s =
      (if negDigits kids ≤ 128 then .ok (.num (-(negDigits kids : Int)), s)
       else .error (.custom (p0 vals) (p2 vals) "Invalid Value, must be between 0-255")) := by
  unfold special
  split <;> simp_all
  all_goals (split <;> rename_i hc <;> (try simp only [tok, p0, p2, negDigits, List.getD_eq_getElem?_getD, List.drop_one, hc, if_true, if_false]) <;> rfl)

/-- OFFSET of a label where a byte constant is required -/
theorem offset_as_byte_range :
    special reparse "u_byte_num" 3 kids vals s =
      (if numOf (vals.getD 1 .unit) > 255 then .error (.custom (p0 vals) (p2 vals) "Offset is greater than 255")
       else .ok (.num (numOf (vals.getD 1 .unit)), s)) := by
  unfold special
  split <;> simp_all
  all_goals (split <;> rename_i hc <;> (try simp only [tok, p0, p2, negDigits, List.getD_eq_getElem?_getD, List.drop_one, hc, if_true, if_false]) <;> rfl)

/-! ### in the property's words -/

/-- a word constant above 65535 is refused with a non-empty diagnostic, whatever the context -/
theorem word_const_rejected (alt : Nat) (halt : alt ≠ 3) (h : 65535 < unsignedOf (tok kids)) :
    ∃ a b msg, special reparse "u_word_num" alt kids vals s = .error (.custom a b msg) ∧ msg ≠ "" := by
  refine ⟨p0 vals, p2 vals, "Invalid Value, must be between 0-65535", ?_, by decide⟩
  rw [u_word_range reparse kids vals s alt halt, if_neg (by omega)]
theorem byte_const_rejected (alt : Nat) (halt : alt ≠ 3) (h : 255 < unsignedOf (tok kids)) :
    ∃ a b msg, special reparse "u_byte_num" alt kids vals s = .error (.custom a b msg) ∧ msg ≠ "" := by
  refine ⟨p0 vals, p2 vals, "Invalid Value, must be between 0-255", ?_, by decide⟩
  rw [u_byte_range reparse kids vals s alt halt, if_neg (by omega)]
theorem neg_word_const_rejected (h : 32768 < negDigits kids) :
    ∃ a b msg, special reparse "s_word_num" 0 kids vals s = .error (.custom a b msg) ∧ msg ≠ "" := by
  refine ⟨p0 vals, p2 vals, "Invalid Value, must be between 0-65535", ?_, by decide⟩
  rw [s_word_neg_range reparse kids vals s, if_neg (by omega)]
theorem neg_byte_const_rejected (h : 128 < negDigits kids) :
    ∃ a b msg, special reparse "s_byte_num" 0 kids vals s = .error (.custom a b msg) ∧ msg ≠ "" := by
  refine ⟨p0 vals, p2 vals, "Invalid Value, must be between 0-255", ?_, by decide⟩
  rw [s_byte_neg_range reparse kids vals s, if_neg (by omega)]

/-- an accepted constant is returned exactly (no truncation) and the assembler state is untouched -/
theorem word_const_accepted (alt : Nat) (halt : alt ≠ 3) (h : unsignedOf (tok kids) ≤ 65535) :
    special reparse "u_word_num" alt kids vals s = .ok (.num (unsignedOf (tok kids)), s) := by
  rw [u_word_range reparse kids vals s alt halt, if_pos h]
theorem byte_const_accepted (alt : Nat) (halt : alt ≠ 3) (h : unsignedOf (tok kids) ≤ 255) :
    special reparse "u_byte_num" alt kids vals s = .ok (.num (unsignedOf (tok kids)), s) := by
  rw [u_byte_range reparse kids vals s alt halt, if_pos h]

end Emu8086.Props.C14Range
