/-
Property C14 — invalid programs are rejected with a diagnostic before anything executes.

The theorems are about the assembler model's semantic actions (`Asm.*Action`, the functions the
executable model runs for the corresponding productions — tied to preprocessor.lalrpop by hash pins
and by the L3/L4 correspondence runs) and the driver's pre-flight checks, for EVERY context:
  * `jump_to_data_rejected`, `jump_undefined_recorded` + `undefined_label_refused` (the driver refuses
    a program in which a recorded jump target is still undefined at the end),
  * `duplicate_label_rejected`, `duplicate_proc_rejected`,
  * `data_operand_on_code_label_rejected`, `data_operand_unknown_rejected`,
  * `offset_of_code_rejected`, `offset_of_unknown_rejected`, `call_non_procedure_rejected`,
  * `int_unsupported_rejected` (every n other than 3, 10h, 21h),
  * `missing_start_refused`, `start_data_label_refused`,
  * `refused_runs_nothing`: when the pre-flight check refuses, no instruction is executed (empty trace,
    no machine) and the output is a non-empty diagnostic.
Range errors of constants, operand-size mismatches, two memory operands and unsupported mnemonics are
syntax-level (no production / a failing `from_str_radix`): they are decided by the generated grammar
and exercised exhaustively by the `errors` / `diag` correspondence groups (boundary values ±1).
-/
import Emu8086.Model.Driver
import Emu8086.Lemmas.M

namespace Emu8086.Props.C14
open Emu8086 Emu8086.Asm Emu8086.Driver

def isErr {α} : Except PPErr α → Bool
  | .error (.custom _ _ _) => true
  | _ => false

def stOf {α} : Except PPErr (α × St) → Option St
  | .ok (_, s) => some s
  | .error _ => none

/-- holds of the state after a successful action -/
def after {α} (r : Except PPErr (α × St)) (P : St → Prop) : Prop :=
  match stOf r with | some s => P s | none => False

local macro "msimp" : tactic => `(tactic|
  simp only [jmpAction, labelAction, procDefAction, procedureAction, callAction, intAction, offsetAction, dataLabelCheck,
    bind_apply, map_apply, get_apply, set_apply, pure_apply, err_apply, fail_apply, pushCode_apply, isErr, after, stOf])

theorem jump_to_data_rejected (s : St) (a b : Nat) (q n : String) (l : PLabel)
    (h : s.label? n = some l) (hd : l.type = .DATA) : isErr (jmpAction a b q n s) = true := by
  msimp; simp [h, hd]

/-- an unknown jump target is recorded for the driver's check — at the jump itself, or, inside a
    macro expansion, at the outermost macro use (the position a diagnostic can cite) -/
theorem jump_undefined_recorded (s : St) (a b : Nat) (q n : String) (h : s.label? n = none) :
    after (jmpAction a b q n s) (fun s' => ((if s.lock != 0 then s.sourceLast else a), n) ∈ s'.undefined ∧ s'.code.size = s.code.size + 1) := by
  msimp; simp only [h]
  by_cases hl : s.lock = 0 <;> by_cases hc : ((if s.lock != 0 then s.sourceLast else a), n) ∈ s.undefined <;> simp_all

theorem duplicate_label_rejected (s : St) (start : Nat) (t : String) (l : PLabel)
    (h : s.label? (String.ofList (t.toList.take (t.length - 1))) = some l) : isErr (labelAction start t s) = true := by
  msimp; simp [h]

/-- a fresh label is bound to the index of the next instruction -/
theorem label_binds_next (s : St) (start : Nat) (t : String)
    (h : s.label? (String.ofList (t.toList.take (t.length - 1))) = none) :
    after (labelAction start t s) (fun s' =>
      s'.label? (String.ofList (t.toList.take (t.length - 1))) = some { type := .CODE, srcPos := start, map := s.code.size }
      ∧ s'.code = s.code) := by
  simp only [St.label?] at h ⊢
  msimp; simp [h, St.label?, insertAssoc, List.lookup]

theorem duplicate_proc_rejected (s : St) (a b : Nat) (n : String) (i : Nat) (h : s.fns.lookup n = some i) :
    isErr (procDefAction a b n s) = true := by
  msimp; simp [h]

theorem proc_binds_next (s : St) (a b : Nat) (n : String) (h : s.fns.lookup n = none) :
    after (procDefAction a b n s) (fun s' => s'.fns.lookup n = some s.code.size ∧ s'.code = s.code) := by
  msimp; simp [h, insertAssoc, List.lookup]

theorem data_operand_on_code_label_rejected (s : St) (a b : Nat) (n : String) (w : Bool) (l : PLabel)
    (h : s.label? n = some l) (hc : l.type = .CODE) : isErr (dataLabelCheck a b n w s) = true := by
  msimp; simp [h, hc]

theorem data_operand_unknown_rejected (s : St) (a b : Nat) (n : String) (w : Bool)
    (h : s.label? n = none) : isErr (dataLabelCheck a b n w s) = true := by
  msimp; simp [h]

theorem offset_of_code_rejected (s : St) (a b : Nat) (n : String) (l : PLabel)
    (h : s.label? n = some l) (hc : l.type = .CODE) : isErr (offsetAction a b n s) = true := by
  msimp; simp [h, hc]

theorem offset_of_unknown_rejected (s : St) (a b : Nat) (n : String) (h : s.label? n = none) :
    isErr (offsetAction a b n s) = true := by
  msimp; simp [h]

/-- OFFSET of a data label is that label's offset -/
theorem offset_value (s : St) (a b : Nat) (n : String) (l : PLabel) (h : s.label? n = some l) (hd : l.type = .DATA) :
    offsetAction a b n s = .ok (.num (l.map % 65536), s) := by
  msimp; simp [h, hd]

theorem call_non_procedure_rejected (s : St) (a b : Nat) (n : String) (h : s.fns.lookup n = none) :
    isErr (callAction a b n s) = true := by
  msimp; simp [h]

theorem int_unsupported_rejected (s : St) (a b : Nat) (n : Int) (h : n ≠ 3 ∧ n ≠ 0x10 ∧ n ≠ 0x21) :
    isErr (intAction a b n s) = true := by
  obtain ⟨h1, h2, h3⟩ := h
  msimp; simp [h1, h2, h3]

/-! ### the driver's pre-flight check -/
theorem missing_start_refused (st : St) (h : st.labels.lookup "start" = none) : ∃ r, preflight st = .error r := by
  unfold preflight; split
  · exact ⟨_, rfl⟩
  · simp [h]

theorem start_data_label_refused (st : St) (l : PLabel) (h : st.labels.lookup "start" = some l) (hd : l.type = .DATA) :
    ∃ r, preflight st = .error r := by
  unfold preflight; split
  · exact ⟨_, rfl⟩
  · simp [h, hd]

theorem firstUndefined_some (st : St) (pos : Nat) (n : String)
    (hm : (pos, n) ∈ st.undefined) (hn : st.labels.lookup n = none) : (firstUndefined st).isSome = true := by
  have hb : (pos, n) ∈ stillUndefined st := by simp [stillUndefined, hm, hn]
  unfold firstUndefined
  cases hmin : ((stillUndefined st).map (·.1)).min? with
  | none =>
    have := List.min?_eq_none_iff.mp hmin
    simp at this; rw [this] at hb; simp at hb
  | some p =>
    have hp := List.min?_mem hmin
    obtain ⟨e, he, hfe⟩ := List.mem_map.mp hp
    simp only
    cases hl : ((stillUndefined st).filter (·.1 == p)).map (·.2) with
    | cons a as => rfl
    | nil =>
      simp only [List.map_eq_nil_iff, List.filter_eq_nil_iff] at hl
      exact absurd (by simpa using hfe) (hl e he)

theorem undefined_label_refused (st : St) (pos : Nat) (n : String)
    (hm : (pos, n) ∈ st.undefined) (hn : st.labels.lookup n = none) : ∃ r, preflight st = .error r := by
  have := firstUndefined_some st pos n hm hn
  unfold preflight
  cases hf : firstUndefined st with
  | some p => exact ⟨_, rfl⟩
  | none => rw [hf] at this; simp at this

/-- a successful pre-flight check returns the index bound to the CODE label `start` -/
theorem preflight_ok (st : St) (i : Nat) (h : preflight st = .ok i) :
    ∃ l, st.labels.lookup "start" = some l ∧ l.type = .CODE ∧ l.map = i := by
  unfold preflight at h
  split at h
  · cases h
  · split at h
    · cases h
    · rename_i l hl
      split at h
      · cases h
      · rename_i hne
        refine ⟨l, hl, ?_, by cases h; rfl⟩
        cases ht : l.type <;> simp_all

/-! ### a refusal executes nothing (whole-program level) -/

theorem stepBody_nodiag (p : Prog) (k : Cont)
    (hk : ∀ idx m ctx stdin out tr, (k idx m ctx stdin out tr).diag = false)
    (idx : Nat) (m : Machine) (ctx : Ctx) (stdin : List String) (out : String) (tr : List Nat) :
    (stepBody p k idx m ctx stdin out tr).diag = false := by
  unfold stepBody
  dsimp only
  generalize (parseLine (p.code[idx]?.getD "")).map (exec idx m ctx) = q
  cases q with
  | none => rfl
  | some r =>
    cases r with
    | error e => rfl
    | ok v =>
      obtain ⟨st, m', ctx'⟩ := v
      cases st with
      | HALT => rfl
      | NEXT => exact hk _ _ _ _ _ _
      | REPEAT => exact hk _ _ _ _ _ _
      | JMP n => exact hk _ _ _ _ _ _
      | PRINT =>
        simp only
        cases lineInfo p idx with
        | none => rfl
        | some lt =>
          obtain ⟨ln, text⟩ := lt
          simp only
          cases runPrint m' (p.code[idx]?.getD "") with
          | none => rfl
          | some s => exact hk _ _ _ _ _ _
      | INT n =>
        simp only
        split
        · cases lineInfo p idx <;> rfl
        · split
          · cases lineInfo p idx with
            | none => rfl
            | some lt =>
              simp only
              split
              · rfl
              · exact hk _ _ _ _ _ _
          · split
            · split
              · cases lineInfo p idx <;> rfl
              · exact hk _ _ _ _ _ _
            · split
              · split
                · cases lineInfo p idx <;> rfl
                · exact hk _ _ _ _ _ _
              · rfl

theorem loop_nodiag (p : Prog) : ∀ (fuel idx : Nat) (m : Machine) (ctx : Ctx) (stdin : List String) (out : String) (tr : List Nat),
    (loop p fuel idx m ctx stdin out tr).diag = false := by
  intro fuel
  induction fuel with
  | zero => intro idx m ctx stdin out tr; rfl
  | succ fuel ih =>
    intro idx m ctx stdin out tr
    simp only [loop]
    cases prePrompt p idx m stdin out with
    | none => rfl
    | some r =>
      obtain ⟨o, s, e⟩ := r
      cases e with
      | true => rfl
      | false => exact stepBody_nodiag p _ (ih) idx m ctx s o tr

/-- **A refused program executes nothing**: whenever the run ends in a diagnostic (syntax or
    semantic error of the assembler, undefined jump target, missing `start`), no instruction index
    was executed and there is no final machine — for every source text, input and mode. -/
theorem refused_executes_nothing (src : String) (stdin : List String) (i : Bool) (fuel : Nat)
    (h : (runCLI src stdin i fuel).diag = true) :
    (runCLI src stdin i fuel).trace = [] ∧ (runCLI src stdin i fuel).final = none := by
  unfold runCLI at h ⊢
  simp only at h ⊢
  split at h
  · simp at h
  · split at h <;> (split <;> simp_all)
  · split at h <;> (split <;> simp_all)
  · split at h
    · split at h <;> (split <;> simp_all)
    · split at h <;> (split <;> simp_all)
    · split at h
      · split at h <;> simp_all
      · exfalso
        have := loop_nodiag
        split at h <;> simp_all

end Emu8086.Props.C14
