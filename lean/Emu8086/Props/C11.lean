/-
Property C11 — the assembler's output means what the source says, independent of spelling.

Kernel-checked over the regenerated tables (`Gen.PP.retTables`: every `"X" => "x".to_owned()` table,
`Gen.PP.pureTables`: every keyword table without a value):
  * `tables_case_closed`  : every spelling is entirely upper or entirely lower case, its other-case
                            twin is in the same table and maps to the SAME canonical string — so the
                            emitted line cannot depend on the case of a mnemonic, register or keyword;
  * `pure_tables_case_closed` : the same for the value-less keyword tables (MOV/mov, DB/db, …);
  * `neg_bitpattern16/8`  : a negative decimal and the unsigned constant with the same bit pattern
                            yield the same value (`-k` and `2^w - k`), so they emit the same text;
  * `radix_value_*`       : decimal, hexadecimal and binary digit strings denote the value of their
                            digits (Horner form), leading zeros do not matter;
  * `strip_keeps_line_count` : comment stripping keeps the number of line breaks, so line numbers of
                            diagnostics refer to the user's file;
Order preservation and one-line-per-instruction are structural in the model: every emission is a
`pushCode` in reduction (= source) order (C08.code_grows_by_push).  Spelling invariance of whole
programs and the independent decoding of emitted lines are exercised by the `spell` correspondence
group (two renderings of the same program must assemble to identical lists).
-/
import Emu8086.Model.Driver
import Emu8086.Spec.Cond

namespace Emu8086.Props.C11
open Emu8086 Emu8086.Spec

def isLowerWord (w : List Char) : Bool := w.all (fun c => upperC c != c || lowerC c == c) && w == w.map lowerC
def isUpperWord (w : List Char) : Bool := w == w.map upperC

def tableCaseClosed (t : List (List Char × List Char)) : Bool :=
  t.all (fun p => (isLowerWord p.1 || isUpperWord p.1)
    && t.any (fun q => q.1 == p.1.map upperC && q.2 == p.2)
    && t.any (fun q => q.1 == p.1.map lowerC && q.2 == p.2))

theorem tables_case_closed : Gen.PP.retTables.all (fun t => tableCaseClosed t.2) = true := by decide +kernel

theorem pure_tables_case_closed :
    Gen.PP.pureTables.all (fun t => t.2.all (fun w => (isLowerWord w || isUpperWord w)
      && t.2.contains (w.map upperC) && t.2.contains (w.map lowerC))) = true := by decide +kernel

example : Gen.PP.retTables.length > 15 ∧ Gen.PP.pureTables.length > 15 := by decide +kernel

/-- `-k` (as i16) and the u16 constant 65536-k cast to i16 are the same value -/
theorem neg_bitpattern16 (k : Nat) (h1 : 1 ≤ k) (h2 : k ≤ 32768) : Asm.wrapI 16 (65536 - k) = -(k : Int) := by
  unfold Asm.wrapI
  have : (65536 - k) % 2 ^ 16 = 65536 - k := Nat.mod_eq_of_lt (by omega)
  simp only [this]
  split <;> omega
theorem neg_bitpattern8 (k : Nat) (h1 : 1 ≤ k) (h2 : k ≤ 128) : Asm.wrapI 8 (256 - k) = -(k : Int) := by
  unfold Asm.wrapI
  have : (256 - k) % 2 ^ 8 = 256 - k := Nat.mod_eq_of_lt (by omega)
  simp only [this]
  split <;> omega
/-- a non-negative constant below 2^(w-1) is itself -/
theorem small_const16 (n : Nat) (h : n < 32768) : Asm.wrapI 16 n = n := by
  unfold Asm.wrapI
  have : n % 2 ^ 16 = n := Nat.mod_eq_of_lt (by omega)
  simp only [this]
  split <;> omega

/-- Horner: appending a digit multiplies by the radix and adds the digit -/
theorem natOfDigits_append (r : Nat) (ds : List Char) (d : Char) :
    Asm.natOfDigits r (ds ++ [d]) = Asm.natOfDigits r ds * r + Asm.digitVal d := by
  simp [Asm.natOfDigits, List.foldl_append]

/-- leading zeros do not change the value -/
theorem natOfDigits_leading_zero (r : Nat) (ds : List Char) : Asm.natOfDigits r ('0' :: ds) = Asm.natOfDigits r ds := by
  have h0 : Asm.digitVal '0' = 0 := by decide
  simp only [Asm.natOfDigits, List.foldl_cons, h0, Nat.zero_mul, Nat.add_zero]

/-- hex digits are case-insensitive -/
theorem digitVal_case : ['a', 'b', 'c', 'd', 'e', 'f'].all (fun c => Asm.digitVal c == Asm.digitVal (upperC c)) = true := by
  decide

/-- does the text end inside a comment that has no line break after it? -/
def endsInComment : Bool → List Char → Bool
  | b, [] => b
  | false, ';' :: cs => endsInComment true cs
  | false, _ :: cs => endsInComment false cs
  | true, '\n' :: cs => endsInComment false cs
  | true, _ :: cs => endsInComment true cs

theorem strip_count (cs : List Char) : ∀ b : Bool,
    (Driver.stripAux b cs).count '\n' + (if b then 1 else 0) = cs.count '\n' + (if endsInComment b cs then 1 else 0) := by
  induction cs with
  | nil => intro b; cases b <;> simp [Driver.stripAux, endsInComment]
  | cons c cs ih =>
    intro b
    cases b with
    | false =>
      by_cases h1 : c = ';'
      · subst h1
        have := ih true
        simp only [Driver.stripAux, endsInComment, List.count_cons] at this ⊢
        simp at this ⊢; omega
      · have := ih false
        have e1 : Driver.stripAux false (c :: cs) = c :: Driver.stripAux false cs := by
          simp [Driver.stripAux, h1]
        have e2 : endsInComment false (c :: cs) = endsInComment false cs := by
          simp [endsInComment, h1]
        rw [e1, e2]
        simp only [List.count_cons] at this ⊢
        simp at this ⊢; omega
    | true =>
      by_cases h1 : c = '\n'
      · subst h1
        have := ih false
        simp only [Driver.stripAux, endsInComment, List.count_cons] at this ⊢
        simp at this ⊢; omega
      · have := ih true
        have e1 : Driver.stripAux true (c :: cs) = Driver.stripAux true cs := by
          simp [Driver.stripAux, h1]
        have e2 : endsInComment true (c :: cs) = endsInComment true cs := by
          simp [endsInComment, h1]
        rw [e1, e2]
        simp only [List.count_cons] at this ⊢
        simp [h1] at this ⊢; omega

/-- comment stripping keeps the number of line breaks (one is added only when the file ends inside
    a comment without a final line break) -/
theorem strip_keeps_line_count (cs : List Char) (h : endsInComment false cs = false) :
    (Driver.stripComments cs).count '\n' = cs.count '\n' := by
  have := strip_count cs false
  simpa [Driver.stripComments, h] using this

/-! ### what a spelling table may answer -/

/-- the documented synonyms (Intel manual / syntax.md): the only spellings whose canonical form is not
    the spelling itself in lower case -/
def synonyms : List (List Char × List Char) :=
  [("repe".toList, "repz".toList), ("repne".toList, "repnz".toList), ("shl".toList, "sal".toList),
   ("jna".toList, "jbe".toList), ("jnae".toList, "jb".toList), ("jnb".toList, "jae".toList), ("jnbe".toList, "ja".toList),
   ("jng".toList, "jle".toList), ("jnge".toList, "jl".toList), ("jnl".toList, "jge".toList), ("jnle".toList, "jg".toList),
   ("jnz".toList, "jne".toList), ("jpe".toList, "jp".toList), ("jpo".toList, "jnp".toList), ("jz".toList, "je".toList),
   ("loopnz".toList, "loopne".toList), ("loopz".toList, "loope".toList)]

/-- **Every entry of every spelling table of the CURRENT grammar** answers the spelling itself in
    lower case, or the canonical form of a documented synonym — nothing else (a table row can
    neither turn `HLT` into `cli` nor `SS` into `ds`). -/
theorem tables_identity_or_synonym :
    Gen.PP.retTables.all (fun t => t.2.all fun e =>
      e.2 == e.1.map lowerC || synonyms.contains (e.1.map lowerC, e.2)) = true := by
  decide +kernel

/-! ### the emission templates use their operands completely and in source order -/

def argsOf (fmt : List Grammar.Piece) : List Nat := fmt.filterMap fun | .arg i => some i | _ => none

def increasing : List Nat → Bool
  | a :: b :: rest => a < b && increasing (b :: rest)
  | _ => true

/-- symbols that carry a value the emitted line must contain: every non-terminal / optional / regex
    symbol except the fixed keywords (`quote_*` tables of one word such as `quote_mov`, `reg_cl`, `cs_reg`) -/
noncomputable def valueBearing (tables : List (List Char)) : Grammar.Sym → Bool
  | .nt n => !(n == "reg_cl" || n == "cs_reg") && (!(n.startsWith "quote_") || tables.contains n.toList)
  | .opt _ => true
  | .re _ => true
  | _ => false

/-- mnemonic tables whose value IS part of the line (the canonical mnemonic): all `quote_*` tables
    with more than one canonical output -/
noncomputable def mnemonicTables : List (List Char) :=
  (Gen.PP.retTables.filter fun t => (t.2.map (·.2)).eraseDups.length > 1).map (·.1)

noncomputable def templateOk (name : String) (a : Grammar.Alt) : Bool :=
  match a.act with
  | .code fmt pos =>
    pos == 0
    && (increasing (argsOf fmt) || name == "xchg")
    && ((List.range a.syms.length).all fun i => !(valueBearing mnemonicTables (a.syms.getD i .locL)) || (argsOf fmt).contains i)
  | _ => true

/-- **Every instruction template of the CURRENT grammar** records the instruction's own start
    position, contains every operand of its alternative, and (XCHG apart, which is symmetric) in the
    order in which the source gives them — so no operand is dropped, duplicated into another's place
    or swapped.  Decided by the kernel over the regenerated grammar data. -/
theorem templates_complete_and_ordered :
    Gen.PP.grammar.all (fun p => match p.2 with
      | .alts as => as.all (templateOk p.1)
      | .plus _ => true) = true := by
  decide +kernel

/-- non-vacuity: the mnemonic tables are among the value-bearing symbols -/
example : (mnemonicTables.contains "quote_binary_arithmetic".toList && mnemonicTables.contains "quote_jmps_loops".toList
           && !mnemonicTables.contains "quote_mov".toList) = true := by decide +kernel

end Emu8086.Props.C11
