/-
Property C12 / C10, text level: the data lines the assembler emits for numeric definitions are read
back by the loader as exactly that definition, for EVERY value — `set n`, `db n`, `db -n`, `dw n`,
`dw -n`, `db [n]`, `dw [n]`, `db [v , n]`, `dw [v , n]` rendered with the decimal `toString` the
assembler uses (`format!("{}")`), and `db "t"` / `dw "t"` for every ASCII text without a quote.
So the textual hand-over between assembler and loader loses nothing for these forms
(`parse_render_*`); negative fill values of two-argument arrays are tied by the correspondence runs
only.
-/
import Emu8086.Model.Loader
import Std.Data.String.ToNat

namespace Emu8086.Props.C12Text
open Emu8086 Emu8086.Loader

theorem natOfDigits_eq (cs : List Char) : natOfDigits cs = Nat.ofDigitChars 10 cs 0 := by
  unfold natOfDigits Nat.ofDigitChars
  congr 1
  funext n c
  omega

theorem natOfDigits_toDigits (n : Nat) : natOfDigits (Nat.toDigits 10 n) = n := by
  rw [natOfDigits_eq, Nat.ofDigitChars_ten_toDigits]

theorem digits_all (n : Nat) : ∀ c ∈ Nat.toDigits 10 n, c.isDigit = true :=
  fun _ hc => Nat.isDigit_of_mem_toDigits (by decide) (by decide) hc

theorem toDigits_ne_nil (n : Nat) : Nat.toDigits 10 n ≠ [] := by
  intro h
  have := Nat.repr_ne_empty (n := n)
  apply this
  apply String.toList_inj.mp
  rw [Nat.toList_repr, h]; rfl

/-- a digit is none of the other token starts -/
theorem digit_facts (c : Char) (h : c.isDigit = true) :
    isWs c = false ∧ (c == '[') = false ∧ (c == ']') = false ∧ (c == ',') = false := by
  simp only [Char.isDigit, Bool.and_eq_true, decide_eq_true_eq] at h
  have h1 : 48 ≤ c.val.toNat := UInt32.le_iff_toNat_le.mp h.1
  have h2 : c.val.toNat ≤ 57 := UInt32.le_iff_toNat_le.mp h.2
  refine ⟨?_, ?_, ?_, ?_⟩
  · simp only [isWs, Char.toNat, Bool.or_eq_false_iff, Bool.and_eq_false_iff, beq_eq_false_iff_ne, decide_eq_false_iff_not]
    omega
  all_goals (simp only [beq_eq_false_iff_ne, ne_eq]; intro e; subst e; simp at h1 h2)

/-- "the text continues with something that is not a digit" -/
def noDigitAhead : List Char → Prop
  | [] => True
  | c :: _ => c.isDigit = false

theorem takeWhile_digits (ds rest : List Char) (hd : ∀ c ∈ ds, c.isDigit = true) (hr : noDigitAhead rest) :
    (ds ++ rest).takeWhile Char.isDigit = ds ∧ (ds ++ rest).dropWhile Char.isDigit = rest := by
  induction ds with
  | nil =>
    cases rest with
    | nil => simp
    | cons c cs => simp only [noDigitAhead] at hr; simp [List.takeWhile, List.dropWhile, hr]
  | cons d ds ih =>
    have := ih (fun c hc => hd c (by simp [hc]))
    simp [List.takeWhile, List.dropWhile, hd d (by simp), this.1, this.2]

/-- the lexer reads a run of digits as one number token -/
theorem lexD_digits (fuel : Nat) (ds rest : List Char) (acc : List DTok) (hne : ds ≠ []) (hd : ∀ c ∈ ds, c.isDigit = true)
    (hr : noDigitAhead rest) :
    lexD (fuel + 1) (ds ++ rest) acc = lexD fuel rest (.num (natOfDigits ds) :: acc) := by
  cases ds with
  | nil => exact absurd rfl hne
  | cons c cs =>
    have hc := hd c (by simp)
    obtain ⟨f1, f2, f3, f4⟩ := digit_facts c hc
    have tw := takeWhile_digits (c :: cs) rest hd hr
    simp only [List.cons_append] at tw ⊢
    simp only [lexD, f1, f2, f3, f4, hc, Bool.false_eq_true, if_false, if_true, tw.1, tw.2]

/-- ... and `-` followed by digits as one negative-number token -/
theorem lexD_neg (fuel : Nat) (ds rest : List Char) (acc : List DTok) (hne : ds ≠ []) (hd : ∀ c ∈ ds, c.isDigit = true)
    (hr : noDigitAhead rest) :
    lexD (fuel + 1) ('-' :: (ds ++ rest)) acc = lexD fuel rest (.neg (natOfDigits ds) :: acc) := by
  have tw := takeWhile_digits ds rest hd hr
  have hne' : ds.isEmpty = false := by
    cases ds with
    | nil => exact absurd rfl hne
    | cons _ _ => rfl
  simp only [lexD, show isWs '-' = false by decide, show ('-' == '[') = false by decide, show ('-' == ']') = false by decide,
    show ('-' == ',') = false by decide, show Char.isDigit '-' = false by decide, show ('-' == '-') = true by decide,
    Bool.false_eq_true, if_false, if_true, tw.1, tw.2, hne']

theorem lexD_end (fuel : Nat) (acc : List DTok) : lexD (fuel + 1) [] acc = some acc.reverse := rfl

/-- the characters of a decimal rendering -/
theorem toString_nat_toList (n : Nat) : (toString n).toList = Nat.toDigits 10 n := by
  rw [Nat.toString_eq_repr, Nat.toList_repr]

/-- `kw n` for a keyword of the loader, any natural number -/
theorem lex_kw_num (kw : String) (k : List Char) (hk : kw.toList = k) (hk1 : 1 ≤ k.length)
    (hlex : ∀ fuel rest acc, lexD (fuel + 1) (k ++ ' ' :: rest) acc = lexD fuel (' ' :: rest) (.kw kw :: acc)) (n : Nat) :
    lexD ((kw ++ " " ++ toString n).toList.length + 1) (kw ++ " " ++ toString n).toList [] = some [.kw kw, .num n] := by
  have hl : (kw ++ " " ++ toString n).toList = k ++ ' ' :: (Nat.toDigits 10 n ++ []) := by
    simp [String.toList_append, hk, toString_nat_toList]
  rw [hl]
  have hpos := List.length_pos_iff.mpr (toDigits_ne_nil n)
  have hlen : (k ++ ' ' :: (Nat.toDigits 10 n ++ [])).length + 1 = ((Nat.toDigits 10 n).length + k.length - 2) + 1 + 1 + 1 + 1 := by
    simp only [List.length_append, List.length_cons, List.length_nil]; omega
  rw [hlen, hlex]
  -- the blank
  have hsp : ∀ fuel rest acc, lexD (fuel + 1) (' ' :: rest) acc = lexD fuel rest acc := by
    intro fuel rest acc; simp [lexD, isWs]
  rw [hsp, lexD_digits _ _ [] _ (toDigits_ne_nil n) (digits_all n) trivial]
  rw [lexD_end, natOfDigits_toDigits]; rfl

theorem lex_db (fuel : Nat) (rest : List Char) (acc : List DTok) :
    lexD (fuel + 1) ("db".toList ++ ' ' :: rest) acc = lexD fuel (' ' :: rest) (.kw "db" :: acc) := by
  simp [lexD, isWs]
theorem lex_dw (fuel : Nat) (rest : List Char) (acc : List DTok) :
    lexD (fuel + 1) ("dw".toList ++ ' ' :: rest) acc = lexD fuel (' ' :: rest) (.kw "dw" :: acc) := by
  simp [lexD, isWs]
theorem lex_set (fuel : Nat) (rest : List Char) (acc : List DTok) :
    lexD (fuel + 1) ("set".toList ++ ' ' :: rest) acc = lexD fuel (' ' :: rest) (.kw "set" :: acc) := by
  simp [lexD, isWs]

/-- **`db n` is read back as the byte n** (and refused beyond 255), for every n -/
theorem parse_render_db (n : Nat) :
    parseData ("db" ++ " " ++ toString n) = if n ≤ 255 then some (.dbVal (BitVec.ofNat 8 n)) else none := by
  unfold parseData
  simp only [lex_kw_num "db" "db".toList rfl (by decide) lex_db n]
  by_cases h : n ≤ 255 <;> simp [sByte, h]

/-- **`dw n` is read back as the word n** -/
theorem parse_render_dw (n : Nat) :
    parseData ("dw" ++ " " ++ toString n) = if n ≤ 65535 then some (.dwVal (BitVec.ofNat 16 n)) else none := by
  unfold parseData
  simp only [lex_kw_num "dw" "dw".toList rfl (by decide) lex_dw n]
  by_cases h : n ≤ 65535 <;> simp [sWord, h]

/-- **`set n` selects segment n** -/
theorem parse_render_set (n : Nat) :
    parseData ("set" ++ " " ++ toString n) = if n ≤ 65535 then some (.set n) else none := by
  unfold parseData
  simp only [lex_kw_num "set" "set".toList rfl (by decide) lex_set n]
  by_cases h : n ≤ 65535 <;> simp [uWord, h]

theorem lexD_blank (fuel : Nat) (rest : List Char) (acc : List DTok) : lexD (fuel + 1) (' ' :: rest) acc = lexD fuel rest acc := by
  simp [lexD, isWs]
theorem lexD_lbr (fuel : Nat) (rest : List Char) (acc : List DTok) : lexD (fuel + 1) ('[' :: rest) acc = lexD fuel rest (.lbr :: acc) := by
  simp [lexD, isWs]
theorem lexD_rbr (fuel : Nat) (rest : List Char) (acc : List DTok) : lexD (fuel + 1) (']' :: rest) acc = lexD fuel rest (.rbr :: acc) := by
  simp [lexD, isWs]

/-- `kw -n` -/
theorem lex_kw_neg (kw : String) (k : List Char) (hk : kw.toList = k) (hk1 : 1 ≤ k.length)
    (hlex : ∀ fuel rest acc, lexD (fuel + 1) (k ++ ' ' :: rest) acc = lexD fuel (' ' :: rest) (.kw kw :: acc)) (n : Nat) :
    lexD ((kw ++ " " ++ ("-" ++ toString n)).toList.length + 1) (kw ++ " " ++ ("-" ++ toString n)).toList [] = some [.kw kw, .neg n] := by
  have hl : (kw ++ " " ++ ("-" ++ toString n)).toList = k ++ ' ' :: '-' :: (Nat.toDigits 10 n ++ []) := by
    simp [String.toList_append, hk, toString_nat_toList]
  rw [hl]
  have hpos := List.length_pos_iff.mpr (toDigits_ne_nil n)
  have hlen : (k ++ ' ' :: '-' :: (Nat.toDigits 10 n ++ [])).length + 1 = ((Nat.toDigits 10 n).length + k.length - 1) + 1 + 1 + 1 + 1 := by
    simp only [List.length_append, List.length_cons, List.length_nil]; omega
  rw [hlen, hlex, lexD_blank, lexD_neg _ _ [] _ (toDigits_ne_nil n) (digits_all n) trivial, lexD_end, natOfDigits_toDigits]; rfl

/-- `kw [n]` -/
theorem lex_kw_arr (kw : String) (k : List Char) (hk : kw.toList = k) (hk1 : 1 ≤ k.length)
    (hlex : ∀ fuel rest acc, lexD (fuel + 1) (k ++ ' ' :: rest) acc = lexD fuel (' ' :: rest) (.kw kw :: acc)) (n : Nat) :
    lexD ((kw ++ " [" ++ toString n ++ "]").toList.length + 1) (kw ++ " [" ++ toString n ++ "]").toList [] = some [.kw kw, .lbr, .num n, .rbr] := by
  have hl : (kw ++ " [" ++ toString n ++ "]").toList = k ++ ' ' :: '[' :: (Nat.toDigits 10 n ++ [']']) := by
    simp [String.toList_append, hk, toString_nat_toList]
  rw [hl]
  have hpos := List.length_pos_iff.mpr (toDigits_ne_nil n)
  have hlen : (k ++ ' ' :: '[' :: (Nat.toDigits 10 n ++ [']'])).length + 1 = ((Nat.toDigits 10 n).length + k.length - 2) + 1 + 1 + 1 + 1 + 1 + 1 := by
    simp only [List.length_append, List.length_cons, List.length_nil]; omega
  rw [hlen, hlex, lexD_blank, lexD_lbr, lexD_digits _ _ [']'] _ (toDigits_ne_nil n) (digits_all n) (by simp [noDigitAhead]),
    lexD_rbr, lexD_end, natOfDigits_toDigits]; rfl

/-- the assembler's rendering of a signed constant (`format!("{}", i)`) -/
theorem int_render_nonneg (n : Nat) : toString (n : Int) = toString n := by
  simp [Int.toString_eq_repr, Int.repr, Nat.toString_eq_repr]
theorem int_render_neg (n : Nat) : toString (Int.negSucc n) = "-" ++ toString (n + 1) := by
  simp [Int.toString_eq_repr, Int.repr, Nat.toString_eq_repr]

/-- **`db x` for every integer x**: read back as the byte with x's bit pattern exactly when x is in
    -128..255, refused otherwise -/
theorem parse_render_db_int (x : Int) :
    parseData ("db" ++ " " ++ toString x) = if -128 ≤ x ∧ x ≤ 255 then some (.dbVal (BitVec.ofInt 8 x)) else none := by
  cases x with
  | ofNat n =>
    simp only [Int.ofNat_eq_coe]
    rw [int_render_nonneg n, parse_render_db]
    by_cases h : n ≤ 255
    · have : (-128 : Int) ≤ (n : Int) ∧ (n : Int) ≤ 255 := ⟨by omega, by omega⟩
      rw [if_pos h, if_pos this]; rfl
    · have : ¬ ((-128 : Int) ≤ (n : Int) ∧ (n : Int) ≤ 255) := by omega
      rw [if_neg h, if_neg this]
  | negSucc n =>
    rw [int_render_neg]
    unfold parseData
    simp only [lex_kw_neg "db" "db".toList rfl (by decide) lex_db (n + 1)]
    by_cases h : n + 1 ≤ 128
    · have : (-128 : Int) ≤ Int.negSucc n ∧ Int.negSucc n ≤ 255 := ⟨by omega, by omega⟩
      rw [if_pos this]
      simp only [sByte, h, if_true, Option.map_some]
      congr 2
    · have : ¬ ((-128 : Int) ≤ Int.negSucc n ∧ Int.negSucc n ≤ 255) := by omega
      rw [if_neg this]
      simp [sByte, h]

/-- **`dw x` for every integer x** -/
theorem parse_render_dw_int (x : Int) :
    parseData ("dw" ++ " " ++ toString x) = if -32768 ≤ x ∧ x ≤ 65535 then some (.dwVal (BitVec.ofInt 16 x)) else none := by
  cases x with
  | ofNat n =>
    simp only [Int.ofNat_eq_coe]
    rw [int_render_nonneg n, parse_render_dw]
    by_cases h : n ≤ 65535
    · have : (-32768 : Int) ≤ (n : Int) ∧ (n : Int) ≤ 65535 := ⟨by omega, by omega⟩
      rw [if_pos h, if_pos this]; rfl
    · have : ¬ ((-32768 : Int) ≤ (n : Int) ∧ (n : Int) ≤ 65535) := by omega
      rw [if_neg h, if_neg this]
  | negSucc n =>
    rw [int_render_neg]
    unfold parseData
    simp only [lex_kw_neg "dw" "dw".toList rfl (by decide) lex_dw (n + 1)]
    by_cases h : n + 1 ≤ 32768
    · have : (-32768 : Int) ≤ Int.negSucc n ∧ Int.negSucc n ≤ 65535 := ⟨by omega, by omega⟩
      rw [if_pos this]
      simp only [sWord, h, if_true, Option.map_some]
      congr 2
    · have : ¬ ((-32768 : Int) ≤ Int.negSucc n ∧ Int.negSucc n ≤ 65535) := by omega
      rw [if_neg this]
      simp [sWord, h]

/-- **`db [n]` / `dw [n]`**: n zero bytes / words -/
theorem parse_render_db_arr (n : Nat) :
    parseData ("db" ++ " [" ++ toString n ++ "]") = if n ≤ 65535 then some (.dbArr 0#8 n) else none := by
  unfold parseData
  simp only [lex_kw_arr "db" "db".toList rfl (by decide) lex_db n]
  by_cases h : n ≤ 65535 <;> simp [uWord, h]
theorem parse_render_dw_arr (n : Nat) :
    parseData ("dw" ++ " [" ++ toString n ++ "]") = if n ≤ 65535 then some (.dwArr 0#16 n) else none := by
  unfold parseData
  simp only [lex_kw_arr "dw" "dw".toList rfl (by decide) lex_dw n]
  by_cases h : n ≤ 65535 <;> simp [uWord, h]

/-- the texts above are the ones the assembler model emits (`s!` interpolation) -/
theorem emitted_db (x : Int) : s!"db {x}" = "db" ++ " " ++ toString x := by
  show "db " ++ toString x = _; rw [show ("db " : String) = "db" ++ " " from rfl]
theorem emitted_dw (x : Int) : s!"dw {x}" = "dw" ++ " " ++ toString x := by
  show "dw " ++ toString x = _; rw [show ("dw " : String) = "dw" ++ " " from rfl]

theorem lexD_comma (fuel : Nat) (rest : List Char) (acc : List DTok) : lexD (fuel + 1) (',' :: rest) acc = lexD fuel rest (.comma :: acc) := by
  simp [lexD, isWs]

/-- `kw [v , n]` with a non-negative fill value -/
theorem lex_kw_arr2 (kw : String) (k : List Char) (hk : kw.toList = k) (hk1 : 1 ≤ k.length)
    (hlex : ∀ fuel rest acc, lexD (fuel + 1) (k ++ ' ' :: rest) acc = lexD fuel (' ' :: rest) (.kw kw :: acc)) (v n : Nat) :
    lexD ((kw ++ " [" ++ toString v ++ " , " ++ toString n ++ "]").toList.length + 1) (kw ++ " [" ++ toString v ++ " , " ++ toString n ++ "]").toList []
      = some [.kw kw, .lbr, .num v, .comma, .num n, .rbr] := by
  have hl : (kw ++ " [" ++ toString v ++ " , " ++ toString n ++ "]").toList =
      k ++ ' ' :: '[' :: (Nat.toDigits 10 v ++ ' ' :: ',' :: ' ' :: (Nat.toDigits 10 n ++ [']'])) := by
    simp [String.toList_append, hk, toString_nat_toList]
  rw [hl]
  have hpv := List.length_pos_iff.mpr (toDigits_ne_nil v)
  have hpn := List.length_pos_iff.mpr (toDigits_ne_nil n)
  have hlen : (k ++ ' ' :: '[' :: (Nat.toDigits 10 v ++ ' ' :: ',' :: ' ' :: (Nat.toDigits 10 n ++ [']']))).length + 1
      = ((Nat.toDigits 10 v).length + (Nat.toDigits 10 n).length + k.length - 3) + 1 + 1 + 1 + 1 + 1 + 1 + 1 + 1 + 1 + 1 := by
    simp only [List.length_append, List.length_cons, List.length_nil]; omega
  rw [hlen, hlex, lexD_blank, lexD_lbr,
    lexD_digits _ _ _ _ (toDigits_ne_nil v) (digits_all v) (by simp [noDigitAhead]),
    lexD_blank, lexD_comma, lexD_blank,
    lexD_digits _ _ [']'] _ (toDigits_ne_nil n) (digits_all n) (by simp [noDigitAhead]),
    lexD_rbr, lexD_end, natOfDigits_toDigits, natOfDigits_toDigits]; rfl

/-- **`db [v , n]` / `dw [v , n]`** (non-negative fill value): n copies of v -/
theorem parse_render_db_arr2 (v n : Nat) :
    parseData ("db" ++ " [" ++ toString v ++ " , " ++ toString n ++ "]")
      = if v ≤ 255 ∧ n ≤ 65535 then some (.dbArr (BitVec.ofNat 8 v) n) else none := by
  unfold parseData
  simp only [lex_kw_arr2 "db" "db".toList rfl (by decide) lex_db v n]
  by_cases hv : v ≤ 255 <;> by_cases hn : n ≤ 65535 <;> simp [sByte, uWord, hv, hn, bind, Option.bind]
theorem parse_render_dw_arr2 (v n : Nat) :
    parseData ("dw" ++ " [" ++ toString v ++ " , " ++ toString n ++ "]")
      = if v ≤ 65535 ∧ n ≤ 65535 then some (.dwArr (BitVec.ofNat 16 v) n) else none := by
  unfold parseData
  simp only [lex_kw_arr2 "dw" "dw".toList rfl (by decide) lex_dw v n]
  by_cases hv : v ≤ 65535 <;> by_cases hn : n ≤ 65535 <;> simp [sWord, uWord, hv, hn, bind, Option.bind]

theorem takeWhile_all (p : Char → Bool) (l : List Char) (h : ∀ c ∈ l, p c = true) : l.takeWhile p = l := by
  induction l with
  | nil => rfl
  | cons a as ih => simp [List.takeWhile, h a (by simp), ih (fun c hc => h c (by simp [hc]))]

/-- the quote positions of `t ++ ["\""]` when `t` has no quote: just the last one -/
theorem quote_idxs (t : List Char) (hq : ∀ c ∈ t, c ≠ '"') :
    ((List.range (t ++ ['"']).length).filter (fun k => (t ++ ['"'])[k]! == '"')).getLast? = some t.length := by
  have hlen : (t ++ ['"']).length = t.length + 1 := by simp
  rw [hlen, List.range_succ, List.filter_append]
  have h1 : (List.range t.length).filter (fun k => (t ++ ['"'])[k]! == '"') = [] := by
    rw [List.filter_eq_nil_iff]
    intro k hk
    have hk' : k < t.length := List.mem_range.mp hk
    have : (t ++ ['"'])[k]! = t[k] := by
      rw [getElem!_pos (t ++ ['"']) k (by simp; omega), List.getElem_append_left hk']
    rw [this]
    simpa using hq _ (List.getElem_mem hk')
  have h2 : [t.length].filter (fun k => (t ++ ['"'])[k]! == '"') = [t.length] := by
    have : (t ++ ['"'])[t.length]! = '"' := by
      rw [getElem!_pos (t ++ ['"']) t.length (by simp)]; simp
    simp [this]
  rw [h1, h2]; rfl

/-- the lexer reads `"t"` (t ASCII, without a quote, at the end of the line) as the string token of t's bytes -/
theorem lexD_string (fuel : Nat) (t : List Char) (acc : List DTok) (ha : ∀ c ∈ t, c.toNat < 128) (hq : ∀ c ∈ t, c ≠ '"') :
    lexD (fuel + 1) ('"' :: (t ++ ['"'])) acc = lexD fuel [] (.str (t.map (fun d => UInt8.ofNat d.toNat)) :: acc) := by
  have hrun : (t ++ ['"']).takeWhile (fun d => decide (d.toNat < 128)) = t ++ ['"'] := by
    apply takeWhile_all
    intro c hc
    rcases List.mem_append.mp hc with h | h
    · simpa using ha c h
    · simp at h; subst h; decide
  simp only [lexD, show isWs '"' = false by decide, show ('"' == '[') = false by decide, show ('"' == ']') = false by decide,
    show ('"' == ',') = false by decide, show Char.isDigit '"' = false by decide, show ('"' == '-') = false by decide,
    show ('"' == '"') = true by decide, Bool.false_eq_true, if_false, if_true, hrun, quote_idxs t hq]
  simp

/-- **`db "t"` / `dw "t"`** (t ASCII without a quote): the string definition with t's bytes -/
theorem parse_render_db_str (t : String) (ha : ∀ c ∈ t.toList, c.toNat < 128) (hq : ∀ c ∈ t.toList, c ≠ '"') :
    parseData ("db" ++ " \"" ++ t ++ "\"") = some (.dbStr (t.toList.map (fun d => UInt8.ofNat d.toNat))) := by
  unfold parseData
  have hl : ("db" ++ " \"" ++ t ++ "\"").toList = "db".toList ++ ' ' :: '"' :: (t.toList ++ ['"']) := by
    simp [String.toList_append]
  have hlen : ("db".toList ++ ' ' :: '"' :: (t.toList ++ ['"'])).length + 1 = (t.toList.length + 2) + 1 + 1 + 1 + 1 := by
    simp only [List.length_append, List.length_cons, List.length_nil, show "db".toList.length = 2 from rfl]; omega
  simp only [hl]
  rw [hlen, lex_db, lexD_blank, lexD_string _ _ _ ha hq, lexD_end]
  rfl
theorem parse_render_dw_str (t : String) (ha : ∀ c ∈ t.toList, c.toNat < 128) (hq : ∀ c ∈ t.toList, c ≠ '"') :
    parseData ("dw" ++ " \"" ++ t ++ "\"") = some (.dwStr (t.toList.map (fun d => UInt8.ofNat d.toNat))) := by
  unfold parseData
  have hl : ("dw" ++ " \"" ++ t ++ "\"").toList = "dw".toList ++ ' ' :: '"' :: (t.toList ++ ['"']) := by
    simp [String.toList_append]
  have hlen : ("dw".toList ++ ' ' :: '"' :: (t.toList ++ ['"'])).length + 1 = (t.toList.length + 2) + 1 + 1 + 1 + 1 := by
    simp only [List.length_append, List.length_cons, List.length_nil, show "dw".toList.length = 2 from rfl]; omega
  simp only [hl]
  rw [hlen, lex_dw, lexD_blank, lexD_string _ _ _ ha hq, lexD_end]
  rfl

/-! ### C10 for data lines: what the assembler emits for numeric definitions, the loader accepts -/

/-- the value of an `s_byte_num` (−128..255) rendered into `db {}` is a line the loader accepts -/
theorem db_line_accepted (x : Int) (h : -128 ≤ x ∧ x ≤ 255) : (parseData s!"db {x}").isSome = true := by
  rw [emitted_db, parse_render_db_int, if_pos h]; rfl
theorem dw_line_accepted (x : Int) (h : -32768 ≤ x ∧ x ≤ 65535) : (parseData s!"dw {x}").isSome = true := by
  rw [emitted_dw, parse_render_dw_int, if_pos h]; rfl
/-- ... and outside that range the loader refuses it: the assembler's range check is what keeps the
    internal-error path unreachable -/
theorem db_line_refused (x : Int) (h : ¬ (-128 ≤ x ∧ x ≤ 255)) : parseData s!"db {x}" = none := by
  rw [emitted_db, parse_render_db_int, if_neg h]
theorem dw_line_refused (x : Int) (h : ¬ (-32768 ≤ x ∧ x ≤ 65535)) : parseData s!"dw {x}" = none := by
  rw [emitted_dw, parse_render_dw_int, if_neg h]

end Emu8086.Props.C12Text
