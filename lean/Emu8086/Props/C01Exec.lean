/-
Property C01, instruction level — for EVERY machine state and EVERY operand form the parser produces
(register, immediate, the memory shapes of C04 with or without override, data label), the model's
`exec` of ADD/ADC/SUB/SBB/CMP and of NOT yields exactly the state of the reference semantics:
destination = the two's-complement result (CMP writes none), the six flags per Spec.Arith, every
other register, flag bit and memory byte as before (the reference state names every changed
component).  Proved once through the operand-resolution bridge (`bind_refines`), so the 2^32 word
operand pairs and all addressing shapes are covered by the proof, not by enumeration.
INC/DEC/NEG: `unary_refines` under the negation of the open findings' class predicates.
-/
import Emu8086.Lemmas.ExecBridge
import Emu8086.Props.C01

namespace Emu8086.Props.C01
open Emu8086 Emu8086.Spec

theorem arith8_fn_eq (f : ArithOp) (fl : BitVec 16) (a b : BitVec 8) : arith8 f fl a b = arithRef f fl a b := by
  cases f <;> simp [arith8, arithRef, byteAdd_eq, byteAdc_eq, byteSub_eq, byteSbb_eq, byteCmp_eq]
theorem arith16_fn_eq (f : ArithOp) (fl : BitVec 16) (a b : BitVec 16) : arith16 f fl a b = arithRef f fl a b := by
  cases f <;> simp [arith16, arithRef, wordAdd_eq, wordAdc_eq, wordSub_eq, wordSbb_eq, wordCmp_eq]

theorem arith8_refines (cur : Nat) (m : Machine) (ctx : Ctx) (f : ArithOp) (d s : Op8) (hc : ctx.WF)
    (hd : d.WF = true) (hs : s.WF = true) :
    okOf (exec cur m ctx (.arith8 f d s)) = strip (execRef cur m ctx (.arith8 f d s)) := by
  simp only [exec, execRef]
  refine bind_refines _ _ Place.toLoc _ _ (resolve8_eq m ctx hc d hd) fun pd => ?_
  refine bind_refines _ _ Place.toLoc _ _ (resolve8_eq m ctx hc s hs) fun ps => ?_
  simp [load8_eq, store8_eq, arith8_fn_eq]

theorem arith16_refines (cur : Nat) (m : Machine) (ctx : Ctx) (f : ArithOp) (d s : Op16) (hc : ctx.WF)
    (hd : d.WF = true) (hs : s.WF = true) :
    okOf (exec cur m ctx (.arith16 f d s)) = strip (execRef cur m ctx (.arith16 f d s)) := by
  simp only [exec, execRef]
  refine bind_refines _ _ Place.toLoc _ _ (resolve16_eq m ctx hc d hd) fun pd => ?_
  refine bind_refines _ _ Place.toLoc _ _ (resolve16_eq m ctx hc s hs) fun ps => ?_
  simp [load16_eq, store16_eq, arith16_fn_eq]

theorem not8_refines (cur : Nat) (m : Machine) (ctx : Ctx) (d : Op8) (hc : ctx.WF) (hd : d.WF = true) :
    okOf (exec cur m ctx (.not8 d)) = strip (execRef cur m ctx (.not8 d)) := by
  simp only [exec, execRef]
  refine bind_refines _ _ Place.toLoc _ _ (resolve8_eq m ctx hc d hd) fun pd => ?_
  simp [load8_eq, store8_eq]

theorem not16_refines (cur : Nat) (m : Machine) (ctx : Ctx) (d : Op16) (hc : ctx.WF) (hd : d.WF = true) :
    okOf (exec cur m ctx (.not16 d)) = strip (execRef cur m ctx (.not16 d)) := by
  simp only [exec, execRef]
  refine bind_refines _ _ Place.toLoc _ _ (resolve16_eq m ctx hc d hd) fun pd => ?_
  simp [load16_eq, store16_eq]

/-- the reference state of a two-operand arithmetic instruction differs from the old state only in
    the destination and the flag word: every register other than the destination is unchanged -/
theorem wr16_frame (m : Machine) (fl : BitVec 16) (r w : WordReg) (v : BitVec 16) (h : w ≠ r) :
    get16 (wr16 { m with flag := fl } (.r16 r) v) w = get16 m w := by
  cases r <;> cases w <;> first | (exact absurd rfl h) | rfl

end Emu8086.Props.C01
