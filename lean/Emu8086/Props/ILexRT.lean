/-
Lexer round trip for the interpreter's line lexer (`ILex.lexAux`), for EVERY token list:

  `lex_render` : if a line is written as a sequence of pieces — tokens and blanks — in which every
                 token is well formed (a keyword is an identifier of the keyword list, a name an
                 identifier outside it, a number a non-empty digit string) and no two adjacent
                 tokens can merge (an identifier is not directly followed by an identifier character,
                 a number not by a digit), then the lexer returns exactly the tokens of that
                 sequence.  Unbounded: any number of pieces, identifiers and digit strings of any
                 length (induction over the piece list; fuel is shown to suffice).

This is the bridge the text-level theorems of `C11Lines` stand on: the assembler's templates are
such piece sequences, with the decimal rendering of a constant in the number slots.
-/
import Emu8086.Model.ILex

set_option linter.unnecessarySimpa false

namespace Emu8086.Props.ILexRT
open Emu8086

inductive Piece where
  | t (k : Tok) | sp
  deriving Repr

def tokChars : Tok → List Char
  | .kw s => s.toList | .name s => s.toList | .num d => d.toList | .neg d => '-' :: d.toList
  | .comma => [','] | .lbr => ['['] | .rbr => [']'] | .colon => [':'] | .arrow => ['-', '>']

def render : List Piece → List Char
  | [] => []
  | .sp :: ps => ' ' :: render ps
  | .t k :: ps => tokChars k ++ render ps

def toks : List Piece → List Tok
  | [] => []
  | .sp :: ps => toks ps
  | .t k :: ps => k :: toks ps

def isIdent : List Char → Bool
  | [] => false
  | c :: cs => isIdStart c && cs.all isIdChar
def isDigits : List Char → Bool
  | [] => false
  | c :: cs => c.isDigit && cs.all Char.isDigit

def noIdAhead : List Char → Bool
  | [] => true
  | c :: _ => !isIdChar c
def noDigitAhead : List Char → Bool
  | [] => true
  | c :: _ => !c.isDigit

/-- a token is well formed and cannot merge with what follows it -/
def tokOk (kws : List String) (k : Tok) (rest : List Char) : Bool :=
  match k with
  | .kw s => isIdent s.toList && kws.contains s && noIdAhead rest
  | .name s => isIdent s.toList && !kws.contains s && noIdAhead rest
  | .num d => isDigits d.toList && noDigitAhead rest
  | .neg d => isDigits d.toList && noDigitAhead rest
  | _ => true

def piecesOk (kws : List String) : List Piece → Bool
  | [] => true
  | .sp :: ps => piecesOk kws ps
  | .t k :: ps => tokOk kws k (render ps) && piecesOk kws ps

/-! ### character classes -/
theorem idStart_not_space (c : Char) (h : isIdStart c = true) : isSpace c = false := by
  simp only [isIdStart, Char.isAlpha, Char.isUpper, Char.isLower, Bool.or_eq_true, decide_eq_true_eq, beq_iff_eq] at h
  simp only [isSpace, Bool.or_eq_false_iff, beq_eq_false_iff_ne, ne_eq]
  refine ⟨⟨⟨⟨⟨?_, ?_⟩, ?_⟩, ?_⟩, ?_⟩, ?_⟩ <;> (intro e; subst e; revert h; decide)

theorem digit_range (c : Char) (h : c.isDigit = true) : 48 ≤ c.val.toNat ∧ c.val.toNat ≤ 57 := by
  simp only [Char.isDigit, Bool.and_eq_true, decide_eq_true_eq] at h
  exact ⟨UInt32.le_iff_toNat_le.mp h.1, UInt32.le_iff_toNat_le.mp h.2⟩

theorem digit_not_space (c : Char) (h : c.isDigit = true) : isSpace c = false := by
  have ⟨h1, h2⟩ := digit_range c h
  simp only [isSpace, Bool.or_eq_false_iff, beq_eq_false_iff_ne, ne_eq]
  refine ⟨⟨⟨⟨⟨?_, ?_⟩, ?_⟩, ?_⟩, ?_⟩, ?_⟩ <;> (intro e; subst e; simp at h1 h2)

theorem digit_not_idStart (c : Char) (h : c.isDigit = true) : isIdStart c = false := by
  have ⟨h1, h2⟩ := digit_range c h
  have eA : (65 : UInt32).toNat = 65 := rfl
  have ea : (97 : UInt32).toNat = 97 := rfl
  have h3 : ¬ ((65 : UInt32) ≤ c.val) := by intro ha; have := UInt32.le_iff_toNat_le.mp ha; rw [eA] at this; omega
  have h4 : ¬ ((97 : UInt32) ≤ c.val) := by intro ha; have := UInt32.le_iff_toNat_le.mp ha; rw [ea] at this; omega
  have h5 : c ≠ '_' := by intro e; subst e; simp at h1 h2
  simp [isIdStart, Char.isAlpha, Char.isUpper, Char.isLower, h5]
  exact ⟨fun ha => absurd ha h3, fun ha => absurd ha h4⟩

/-! ### takeWhile / dropWhile over `w ++ rest` -/
theorem takeDrop (p : Char → Bool) (w rest : List Char) (hw : w.all p = true)
    (hr : (match rest with | [] => true | c :: _ => !p c) = true) :
    (w ++ rest).takeWhile p = w ∧ (w ++ rest).dropWhile p = rest := by
  induction w with
  | nil =>
    cases rest with
    | nil => simp
    | cons c cs =>
      have : p c = false := by simpa using hr
      simp [this]
  | cons d ds ih =>
    simp only [List.all_cons, Bool.and_eq_true] at hw
    have := ih hw.2
    simp [hw.1, this.1, this.2]

theorem idStart_idChar (c : Char) (h : isIdStart c = true) : isIdChar c = true := by
  simp only [isIdStart, Bool.or_eq_true, beq_iff_eq] at h
  simp only [isIdChar, Char.isAlphanum, Bool.or_eq_true, beq_iff_eq]
  rcases h with h | h
  · exact Or.inl (Or.inl h)
  · exact Or.inr h

/-! ### one token -/
section
variable (kws : List String)

theorem lex_ident (fuel : Nat) (w rest : List Char) (acc : List Tok) (hw : isIdent w = true) (hr : noIdAhead rest = true) :
    lexAux kws (fuel + 1) (w ++ rest) acc =
      lexAux kws fuel rest ((if kws.contains (String.ofList w) then Tok.kw (String.ofList w) else Tok.name (String.ofList w)) :: acc) := by
  cases w with
  | nil => simp [isIdent] at hw
  | cons c cs =>
    simp only [isIdent, Bool.and_eq_true] at hw
    have hall : (c :: cs).all isIdChar = true := by simp [List.all_cons, idStart_idChar c hw.1, hw.2]
    have td := takeDrop isIdChar (c :: cs) rest hall (by cases rest <;> simpa [noIdAhead] using hr)
    simp only [List.cons_append] at td ⊢
    simp only [lexAux, idStart_not_space c hw.1, hw.1, Bool.false_eq_true, if_false, if_true, td.1, td.2]

theorem lex_digits (fuel : Nat) (w rest : List Char) (acc : List Tok) (hw : isDigits w = true) (hr : noDigitAhead rest = true) :
    lexAux kws (fuel + 1) (w ++ rest) acc = lexAux kws fuel rest (Tok.num (String.ofList w) :: acc) := by
  cases w with
  | nil => simp [isDigits] at hw
  | cons c cs =>
    simp only [isDigits, Bool.and_eq_true] at hw
    have hall : (c :: cs).all Char.isDigit = true := by simp [List.all_cons, hw.1, hw.2]
    have td := takeDrop Char.isDigit (c :: cs) rest hall (by cases rest <;> simpa [noDigitAhead] using hr)
    simp only [List.cons_append] at td ⊢
    simp only [lexAux, digit_not_space c hw.1, digit_not_idStart c hw.1, hw.1, Bool.false_eq_true, if_false, if_true, td.1, td.2]

theorem lex_neg (fuel : Nat) (w rest : List Char) (acc : List Tok) (hw : isDigits w = true) (hr : noDigitAhead rest = true) :
    lexAux kws (fuel + 1) ('-' :: (w ++ rest)) acc = lexAux kws fuel rest (Tok.neg (String.ofList w) :: acc) := by
  cases w with
  | nil => simp [isDigits] at hw
  | cons c cs =>
    simp only [isDigits, Bool.and_eq_true] at hw
    have hall : (c :: cs).all Char.isDigit = true := by simp [List.all_cons, hw.1, hw.2]
    have td := takeDrop Char.isDigit (c :: cs) rest hall (by cases rest <;> simpa [noDigitAhead] using hr)
    have hne : c ≠ '>' := by
      intro e; subst e; exact absurd hw.1 (by decide)
    simp only [List.cons_append] at td ⊢
    have e1 : isSpace '-' = false := by decide
    have e2 : isIdStart '-' = false := by decide
    have e3 : Char.isDigit '-' = false := by decide
    simp only [lexAux, e1, e2, e3, Bool.false_eq_true, if_false, beq_self_eq_true, if_true, hw.1, td.1, td.2]
end

/-! ### the round trip -/
theorem lexAux_render (kws : List String) : ∀ (ps : List Piece) (fuel : Nat) (acc : List Tok),
    piecesOk kws ps = true → (render ps).length < fuel →
    lexAux kws fuel (render ps) acc = some (acc.reverse ++ toks ps) := by
  intro ps
  induction ps with
  | nil =>
    intro fuel acc _ hf
    obtain ⟨f, rfl⟩ : ∃ f, fuel = f + 1 := ⟨fuel - 1, by simp [render] at hf; omega⟩
    simp [render, toks, lexAux]
  | cons p ps ih =>
    intro fuel acc hok hf
    cases p with
    | sp =>
      simp only [render, List.length_cons] at hf ⊢
      obtain ⟨f, rfl⟩ : ∃ f, fuel = f + 1 := ⟨fuel - 1, by omega⟩
      simp only [piecesOk] at hok
      have := ih f acc hok (by omega)
      simp only [toks]
      rw [← this]
      simp [lexAux, isSpace]
    | t k =>
      simp only [piecesOk, Bool.and_eq_true] at hok
      obtain ⟨hk, hps⟩ := hok
      simp only [render, toks, List.length_append] at hf ⊢
      cases k with
      | kw s =>
        simp only [tokOk, Bool.and_eq_true] at hk
        have hpos : 0 < (tokChars (.kw s)).length := by
          simp only [tokChars]; cases h : s.toList with
          | nil => rw [h] at hk; simp [isIdent] at hk
          | cons _ _ => simp
        obtain ⟨f, rfl⟩ : ∃ f, fuel = f + 1 := ⟨fuel - 1, by omega⟩
        simp only [tokChars] at hf hpos ⊢
        rw [lex_ident kws f _ _ acc hk.1.1 hk.2, String.ofList_toList, if_pos hk.1.2, ih f _ hps (by omega)]
        simp
      | name s =>
        simp only [tokOk, Bool.and_eq_true, Bool.not_eq_true'] at hk
        have hpos : 0 < (tokChars (.name s)).length := by
          simp only [tokChars]; cases h : s.toList with
          | nil => rw [h] at hk; simp [isIdent] at hk
          | cons _ _ => simp
        obtain ⟨f, rfl⟩ : ∃ f, fuel = f + 1 := ⟨fuel - 1, by omega⟩
        simp only [tokChars] at hf hpos ⊢
        rw [lex_ident kws f _ _ acc hk.1.1 hk.2, String.ofList_toList, if_neg (by simpa using hk.1.2), ih f _ hps (by omega)]
        simp
      | num d =>
        simp only [tokOk, Bool.and_eq_true] at hk
        have hpos : 0 < (tokChars (.num d)).length := by
          simp only [tokChars]; cases h : d.toList with
          | nil => rw [h] at hk; simp [isDigits] at hk
          | cons _ _ => simp
        obtain ⟨f, rfl⟩ : ∃ f, fuel = f + 1 := ⟨fuel - 1, by omega⟩
        simp only [tokChars] at hf hpos ⊢
        rw [lex_digits kws f _ _ acc hk.1 hk.2, String.ofList_toList, ih f _ hps (by omega)]
        simp
      | neg d =>
        simp only [tokOk, Bool.and_eq_true] at hk
        obtain ⟨f, rfl⟩ : ∃ f, fuel = f + 1 := ⟨fuel - 1, by omega⟩
        simp only [tokChars, List.cons_append, List.length_cons] at hf ⊢
        rw [lex_neg kws f _ _ acc hk.1 hk.2, String.ofList_toList, ih f _ hps (by omega)]
        simp
      | comma =>
        obtain ⟨f, rfl⟩ : ∃ f, fuel = f + 1 := ⟨fuel - 1, by omega⟩
        simp only [tokChars, List.cons_append, List.nil_append, List.length_cons, List.length_nil] at hf ⊢
        have := ih f (.comma :: acc) hps (by omega)
        simp only [List.reverse_cons, List.append_assoc, List.singleton_append] at this
        rw [← this]; simp [lexAux, isSpace, isIdStart]
      | lbr =>
        obtain ⟨f, rfl⟩ : ∃ f, fuel = f + 1 := ⟨fuel - 1, by omega⟩
        simp only [tokChars, List.cons_append, List.nil_append, List.length_cons, List.length_nil] at hf ⊢
        have := ih f (.lbr :: acc) hps (by omega)
        simp only [List.reverse_cons, List.append_assoc, List.singleton_append] at this
        rw [← this]; simp [lexAux, isSpace, isIdStart]
      | rbr =>
        obtain ⟨f, rfl⟩ : ∃ f, fuel = f + 1 := ⟨fuel - 1, by omega⟩
        simp only [tokChars, List.cons_append, List.nil_append, List.length_cons, List.length_nil] at hf ⊢
        have := ih f (.rbr :: acc) hps (by omega)
        simp only [List.reverse_cons, List.append_assoc, List.singleton_append] at this
        rw [← this]; simp [lexAux, isSpace, isIdStart]
      | colon =>
        obtain ⟨f, rfl⟩ : ∃ f, fuel = f + 1 := ⟨fuel - 1, by omega⟩
        simp only [tokChars, List.cons_append, List.nil_append, List.length_cons, List.length_nil] at hf ⊢
        have := ih f (.colon :: acc) hps (by omega)
        simp only [List.reverse_cons, List.append_assoc, List.singleton_append] at this
        rw [← this]; simp [lexAux, isSpace, isIdStart]
      | arrow =>
        obtain ⟨f, rfl⟩ : ∃ f, fuel = f + 1 := ⟨fuel - 1, by omega⟩
        simp only [tokChars, List.cons_append, List.nil_append, List.length_cons, List.length_nil] at hf ⊢
        have := ih f (.arrow :: acc) hps (by omega)
        simp only [List.reverse_cons, List.append_assoc, List.singleton_append] at this
        rw [← this]; simp [lexAux, isSpace, isIdStart]


/-! ### composing lines from blocks -/

/-- `piecesOk` relative to the text that follows the pieces -/
def piecesOkT (kws : List String) : List Piece → List Char → Bool
  | [], _ => true
  | .sp :: ps, tl => piecesOkT kws ps tl
  | .t k :: ps, tl => tokOk kws k (render ps ++ tl) && piecesOkT kws ps tl

theorem piecesOkT_nil (kws : List String) (ps : List Piece) : piecesOkT kws ps [] = piecesOk kws ps := by
  induction ps with
  | nil => rfl
  | cons p ps ih => cases p <;> simp [piecesOkT, piecesOk, ih]

theorem render_append (ps qs : List Piece) : render (ps ++ qs) = render ps ++ render qs := by
  induction ps with
  | nil => rfl
  | cons p ps ih => cases p <;> simp [render, ih]

theorem toks_append (ps qs : List Piece) : toks (ps ++ qs) = toks ps ++ toks qs := by
  induction ps with
  | nil => rfl
  | cons p ps ih => cases p <;> simp [toks, ih]

theorem piecesOkT_append (kws : List String) (ps qs : List Piece) (tl : List Char) :
    piecesOkT kws (ps ++ qs) tl = (piecesOkT kws ps (render qs ++ tl) && piecesOkT kws qs tl) := by
  induction ps with
  | nil => simp [piecesOkT]
  | cons p ps ih => cases p <;> simp [piecesOkT, ih, render_append, Bool.and_assoc]

/-- what may follow an operand: neither an identifier character nor a digit (`,`, `]`, a blank, the end) -/
def safeTail (tl : List Char) : Bool := noIdAhead tl && noDigitAhead tl

/-- **Lexer round trip**: a well-separated sequence of well-formed tokens and blanks is lexed to
    exactly its tokens. -/
theorem lex_render (ps : List Piece) (h : piecesOk Gen.interpKeywords ps = true) :
    lexLine (String.ofList (render ps)) = some (toks ps) := by
  simp only [lexLine, String.toList_ofList]
  have := lexAux_render Gen.interpKeywords ps ((render ps).length + 1) [] h (by omega)
  simpa using this

/-- non-vacuity: a mixed line (kernel-evaluated both ways) -/
example : piecesOk Gen.interpKeywords
    [.t (.kw "mov"), .sp, .t (.kw "word"), .sp, .t (.kw "es"), .t .colon, .t .lbr, .t (.kw "bx"), .t .comma, .t (.kw "si"),
     .t .comma, .t (.neg "12"), .t .rbr, .t .comma, .t (.num "65535")] = true := by decide +kernel
example : String.ofList (render
    [.t (.kw "mov"), .sp, .t (.kw "word"), .sp, .t (.kw "es"), .t .colon, .t .lbr, .t (.kw "bx"), .t .comma, .t (.kw "si"),
     .t .comma, .t (.neg "12"), .t .rbr, .t .comma, .t (.num "65535")]) = "mov word es:[bx,si,-12],65535" := by decide +kernel

end Emu8086.Props.ILexRT
