/-
Property C05 — data-transfer and stack instructions move exactly the operand; the stack stays sound.

Instruction level, for ALL machine states (registers, flags, 1 MiB memory), ALL operand forms the
interpreter's parser produces (`Instr.WF`) and all contexts the assembler can build (`Ctx.WF`):
  * `*_refines` : the model's `exec` (mirror of the parser actions of interpreter.lalrpop) yields
    exactly the state of the reference semantics `Spec.execRef` — MOV copies, XCHG swaps completely,
    PUSH/POP/PUSHF/POPF use SS:SP with SP moving by 2 modulo 2^16, LAHF/SAHF transfer the low flag
    byte, XLAT reads DS:[BX+AL] with a 16-bit offset — and therefore changes nothing else (the
    reference state names every changed component);
  * `push_pop_roundtrip*` : PUSH x ; POP y leaves y = x and SP restored, for every SS:SP incl. 0, 1,
    0xFFFF and the top of the 1 MiB space;
  * `stack_refinement` : any sequence of pushes and pops whose depth stays within the 64 KiB window
    behaves as the abstract stack `List (BitVec 16)`.
-/
import Emu8086.Lemmas.ExecBridge
import Emu8086.Lemmas.Mem

namespace Emu8086.Props.C05
open Emu8086 Emu8086.Spec

theorem mov8_refines (cur : Nat) (m : Machine) (ctx : Ctx) (d s : Op8) (hc : ctx.WF)
    (hd : d.WF = true) (hs : s.WF = true) :
    okOf (exec cur m ctx (.mov8 d s)) = strip (execRef cur m ctx (.mov8 d s)) := by
  simp only [exec, execRef]
  refine bind_refines _ _ Place.toLoc _ _ (resolve8_eq m ctx hc d hd) fun pd => ?_
  refine bind_refines _ _ Place.toLoc _ _ (resolve8_eq m ctx hc s hs) fun ps => ?_
  simp [load8_eq, store8_eq]

theorem mov16_refines (cur : Nat) (m : Machine) (ctx : Ctx) (d s : Op16) (hc : ctx.WF)
    (hd : d.WF = true) (hs : s.WF = true) :
    okOf (exec cur m ctx (.mov16 d s)) = strip (execRef cur m ctx (.mov16 d s)) := by
  simp only [exec, execRef]
  refine bind_refines _ _ Place.toLoc _ _ (resolve16_eq m ctx hc d hd) fun pd => ?_
  refine bind_refines _ _ Place.toLoc _ _ (resolve16_eq m ctx hc s hs) fun ps => ?_
  simp [load16_eq, store16_eq]


theorem lahf_refines (cur : Nat) (m : Machine) (ctx : Ctx) :
    okOf (exec cur m ctx .lahf) = strip (execRef cur m ctx .lahf) := by
  simp [exec, execRef, setByteReg_eq]

theorem sahf_refines (cur : Nat) (m : Machine) (ctx : Ctx) :
    okOf (exec cur m ctx .sahf) = strip (execRef cur m ctx .sahf) := by
  simp [exec, execRef, getByteReg_eq]

theorem pushf_refines (cur : Nat) (m : Machine) (ctx : Ctx) :
    okOf (exec cur m ctx .pushf) = strip (execRef cur m ctx .pushf) := by
  simp [exec, execRef, writeWord_eq_putWord, stackTop_eq]

theorem popf_refines (cur : Nat) (m : Machine) (ctx : Ctx) :
    okOf (exec cur m ctx .popf) = strip (execRef cur m ctx .popf) := by
  simp [exec, execRef, readWord_eq_wordAt, stackTop_eq]

theorem xlat_refines (cur : Nat) (m : Machine) (ctx : Ctx) :
    okOf (exec cur m ctx .xlat) = strip (execRef cur m ctx .xlat) := by
  simp only [exec, execRef, readByte_eq_byteAt, getByteReg_eq, setByteReg_eq, calcAddr_eq_phys, okOf_ok, strip_next]

theorem xchg8_refines (cur : Nat) (m : Machine) (ctx : Ctx) (d : Op8) (r : ByteReg) (hc : ctx.WF)
    (hd : d.WF = true) :
    okOf (exec cur m ctx (.xchg8 d r)) = strip (execRef cur m ctx (.xchg8 d r)) := by
  simp only [exec, execRef]
  refine bind_refines _ _ Place.toLoc _ _ (resolve8_eq m ctx hc d hd) fun pd => ?_
  cases pd <;> simp [Place.toLoc, load8_eq, store8_eq, getByteReg_eq, setByteReg_eq, rd8, wr8, Machine.load8,
    Machine.store8, readByte_eq_byteAt, writeByte_eq_putByte, getWordReg_eq, putByte_set8_comm]

theorem xchg16_refines (cur : Nat) (m : Machine) (ctx : Ctx) (d : Op16) (r : WordReg) (hc : ctx.WF)
    (hd : d.WF = true) :
    okOf (exec cur m ctx (.xchg16 d r)) = strip (execRef cur m ctx (.xchg16 d r)) := by
  simp only [exec, execRef]
  refine bind_refines _ _ Place.toLoc _ _ (resolve16_eq m ctx hc d hd) fun pd => ?_
  cases pd <;> simp [Place.toLoc, load16_eq, store16_eq, getWordReg_eq, setWordReg_eq, rd16, wr16, Machine.load16,
    Machine.store16, readWord_eq_wordAt, writeWord_eq_putWord, getByteReg_eq, putWord_set16_comm]

theorem pop_refines (cur : Nat) (m : Machine) (ctx : Ctx) (d : Op16) (hc : ctx.WF) (hd : d.WF = true) :
    okOf (exec cur m ctx (.pop d)) = strip (execRef cur m ctx (.pop d)) := by
  simp only [exec, execRef]
  refine bind_refines _ _ Place.toLoc _ _ (resolve16_eq m ctx hc d hd) fun pd => ?_
  simp [store16_eq, readWord_eq_wordAt, stackTop_eq]

theorem push_refines (cur : Nat) (m : Machine) (ctx : Ctx) (s : Op16) (hc : ctx.WF) (hs : s.WF = true) :
    okOf (exec cur m ctx (.push s)) = strip (execRef cur m ctx (.push s)) := by
  simp only [exec, execRef]
  refine bind_refines _ _ Place.toLoc _ _ (resolve16_eq m ctx hc s hs) fun ps => ?_
  simp [load16_eq, writeWord_eq_putWord, stackTop_eq]

end Emu8086.Props.C05

/-! ### PUSH x ; POP y and the abstract stack -/
namespace Emu8086.Props.C05
open Emu8086 Emu8086.Spec

/-- the reference PUSH / POP of a VALUE (what `execRef` does for `.push` / `.pop`, see `execRef_push_reg`) -/
def pushVal (m : Machine) (v : BitVec 16) : Machine :=
  putWord { m with sp := m.sp - 2#16 } (phys m.ss (m.sp - 2#16)) v
def popVal (m : Machine) : BitVec 16 × Machine := (wordAt m (phys m.ss m.sp), { m with sp := m.sp + 2#16 })

theorem execRef_push_reg (cur : Nat) (m : Machine) (ctx : Ctx) (r : WordReg) :
    execRef cur m ctx (.push (.reg r)) = next (pushVal m (get16 { m with sp := m.sp - 2#16 } r)) ctx := rfl
theorem execRef_pop_reg (cur : Nat) (m : Machine) (ctx : Ctx) (r : WordReg) :
    execRef cur m ctx (.pop (.reg r)) = next (set16 (popVal m).2 r (popVal m).1) ctx := rfl

@[simp] theorem pushVal_ss (m : Machine) (v : BitVec 16) : (pushVal m v).ss = m.ss := rfl
@[simp] theorem pushVal_sp (m : Machine) (v : BitVec 16) : (pushVal m v).sp = m.sp - 2#16 := rfl

/-- PUSH x ; POP y leaves y = x and SP restored — for every SS:SP (0, 1, 0xFFFF, top of memory) -/
theorem push_pop_roundtrip (m : Machine) (v : BitVec 16) :
    (popVal (pushVal m v)).1 = v ∧ (popVal (pushVal m v)).2.sp = m.sp ∧ (popVal (pushVal m v)).2.ss = m.ss := by
  refine ⟨?_, ?_, rfl⟩
  · simp only [popVal, pushVal_ss, pushVal_sp]
    exact wordAt_putWord_same _ _ _
  · simp only [popVal, pushVal_sp]; bv_decide

/-- registers other than SP are not touched by a push/pop pair of a value -/
theorem push_pop_regs (m : Machine) (v : BitVec 16) :
    let m' := (popVal (pushVal m v)).2
    m'.ax = m.ax ∧ m'.bx = m.bx ∧ m'.cx = m.cx ∧ m'.dx = m.dx ∧ m'.bp = m.bp ∧ m'.si = m.si ∧ m'.di = m.di
    ∧ m'.flag = m.flag ∧ m'.cs = m.cs ∧ m'.ds = m.ds ∧ m'.es = m.es := by
  simp [popVal, pushVal, putWord]

/-- PUSH SP stores the decremented SP (8086 behaviour) -/
theorem push_sp_value (cur : Nat) (m : Machine) (ctx : Ctx) :
    execRef cur m ctx (.push (.reg .SP)) = next (pushVal m (m.sp - 2#16)) ctx := rfl

end Emu8086.Props.C05

/-! ### refinement to an abstract stack: any sequence of pushes and pops -/
namespace Emu8086.Props.C05
open Emu8086 Emu8086.Spec

inductive SOp where
  | push (v : BitVec 16)
  | pop
  deriving Repr

/-- the concrete machine -/
def runC : Machine → List SOp → Machine × List (BitVec 16)
  | m, [] => (m, [])
  | m, .push v :: ops => runC (pushVal m v) ops
  | m, .pop :: ops => let (v, m') := popVal m; let (mf, out) := runC m' ops; (mf, v :: out)

/-- the abstract stack (top first); `none` when a pop meets an empty stack or the depth bound is exceeded -/
def runA : List (BitVec 16) → List SOp → Option (List (BitVec 16) × List (BitVec 16))
  | st, [] => some (st, [])
  | st, .push v :: ops => if st.length < 32767 then runA (v :: st) ops else none
  | [], .pop :: _ => none
  | v :: st, .pop :: ops => (runA st ops).map fun (s, out) => (s, v :: out)

/-- abstract element i is the word at SS:SP+2i -/
def Inv (m : Machine) (st : List (BitVec 16)) : Prop :=
  ∀ i (h : i < st.length), wordAt m (phys m.ss (m.sp + BitVec.ofNat 16 (2 * i))) = st[i]

theorem cells_disjoint (ss sp : BitVec 16) (i : Nat) (hi : i < 32767) :
    let a := phys ss (sp - 2#16)
    let b := phys ss (sp - 2#16 + BitVec.ofNat 16 (2 * (i + 1)))
    b % M20 ∉ wordCells a ∧ (b + 1) % M20 ∉ wordCells a := by
  simp only [wordCells, phys, M20, List.mem_cons, List.not_mem_nil, or_false, not_or, BitVec.toNat_add, BitVec.toNat_sub,
    BitVec.toNat_ofNat]
  have h1 := ss.isLt; have h2 := sp.isLt
  omega

theorem inv_push (m : Machine) (st : List (BitVec 16)) (v : BitVec 16) (h : Inv m st) (hl : st.length < 32767) :
    Inv (pushVal m v) (v :: st) := by
  intro i hi
  cases i with
  | zero =>
    simp only [pushVal_ss, pushVal_sp, Nat.mul_zero, List.getElem_cons_zero]
    have : m.sp - 2#16 + BitVec.ofNat 16 0 = m.sp - 2#16 := by simp
    rw [this]
    exact wordAt_putWord_same _ _ _
  | succ i =>
    have hi' : i < st.length := by simpa using hi
    simp only [pushVal_ss, pushVal_sp, List.getElem_cons_succ]
    have hd := cells_disjoint m.ss m.sp i (by omega)
    simp only at hd
    have e : m.sp - 2#16 + BitVec.ofNat 16 (2 * (i + 1)) = m.sp + BitVec.ofNat 16 (2 * i) := by
      apply BitVec.eq_of_toNat_eq
      simp only [BitVec.toNat_add, BitVec.toNat_sub, BitVec.toNat_ofNat]
      have := m.sp.isLt; omega
    rw [pushVal, wordAt_putWord_other _ _ _ _ hd.1 hd.2]
    rw [e]
    exact h i hi'

theorem inv_pop (m : Machine) (v : BitVec 16) (st : List (BitVec 16)) (h : Inv m (v :: st)) :
    (popVal m).1 = v ∧ Inv (popVal m).2 st := by
  constructor
  · have := h 0 (by simp)
    simpa [popVal] using this
  · intro i hi
    have := h (i + 1) (by simpa using hi)
    simp only [popVal, List.getElem_cons_succ] at this ⊢
    have e : BitVec.ofNat 16 (2 * (i + 1)) = 2#16 + BitVec.ofNat 16 (2 * i) := by
      rw [show 2 * (i + 1) = 2 + 2 * i by omega, BitVec.ofNat_add]
    rw [e, ← BitVec.add_assoc] at this
    exact this

/-- for every list of pushes and pops whose depth stays within the 64 KiB window, the concrete
    machine started at ANY SS:SP returns exactly what the abstract stack returns -/
theorem stack_refinement (ops : List SOp) : ∀ (m : Machine) (st : List (BitVec 16)), Inv m st →
    ∀ st' out, runA st ops = some (st', out) → (runC m ops).2 = out ∧ Inv (runC m ops).1 st' := by
  induction ops with
  | nil => intro m st h st' out hr; simp [runA] at hr; obtain ⟨rfl, rfl⟩ := hr; exact ⟨rfl, h⟩
  | cons op ops ih =>
    intro m st h st' out hr
    cases op with
    | push v =>
      simp only [runA] at hr
      split at hr
      · rename_i hl
        exact ih (pushVal m v) (v :: st) (inv_push m st v h hl) st' out hr
      · cases hr
    | pop =>
      cases st with
      | nil => simp [runA] at hr
      | cons v st =>
        simp only [runA, Option.map_eq_some_iff] at hr
        obtain ⟨⟨s2, o2⟩, hr2, heq⟩ := hr
        simp only [Prod.mk.injEq] at heq
        obtain ⟨rfl, rfl⟩ := heq
        obtain ⟨hv, hinv⟩ := inv_pop m v st h
        obtain ⟨ho, hi⟩ := ih (popVal m).2 st hinv s2 o2 hr2
        simp only [runC]
        exact ⟨by rw [ho, hv], hi⟩

/-- non-vacuity: the empty abstract stack is related to every machine -/
example (m : Machine) : Inv m [] := by intro i hi; simp at hi

end Emu8086.Props.C05
