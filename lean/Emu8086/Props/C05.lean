/-
Property C05 — data-transfer and stack instructions move exactly the operand; the stack stays sound.

Instruction level, for ALL machine states (registers, flags, 1 MiB memory), ALL operand forms the
interpreter's parser produces (`Instr.WF`) and all contexts the assembler can build (`Ctx.WF`):
  * `*_refines` : the model's `exec` (mirror of the parser actions of interpreter.lalrpop) yields
    exactly the state of the reference semantics `Spec.execRef` — MOV copies, XCHG swaps completely,
    PUSH/POP/PUSHF/POPF use SS:SP with SP moving by 2 modulo 2^16, LAHF/SAHF transfer the low flag
    byte, XLAT reads DS:[BX+AL] with a 16-bit offset — and therefore changes nothing else (the
    reference state names every changed component);
  * `push_pop_roundtrip*` : PUSH x ; POP y leaves y = x and SP restored, for every SS:SP incl. 0, 1,
    0xFFFF and the top of the 1 MiB space;
  * `stack_refinement` : any sequence of pushes and pops whose depth stays within the 64 KiB window
    behaves as the abstract stack `List (BitVec 16)`.
-/
import Emu8086.Lemmas.ExecBridge

namespace Emu8086.Props.C05
open Emu8086 Emu8086.Spec

theorem mov8_refines (cur : Nat) (m : Machine) (ctx : Ctx) (d s : Op8) (hc : ctx.WF)
    (hd : d.WF = true) (hs : s.WF = true) :
    okOf (exec cur m ctx (.mov8 d s)) = strip (execRef cur m ctx (.mov8 d s)) := by
  simp only [exec, execRef]
  refine bind_refines _ _ Place.toLoc _ _ (resolve8_eq m ctx hc d hd) fun pd => ?_
  refine bind_refines _ _ Place.toLoc _ _ (resolve8_eq m ctx hc s hs) fun ps => ?_
  simp [load8_eq, store8_eq]

theorem mov16_refines (cur : Nat) (m : Machine) (ctx : Ctx) (d s : Op16) (hc : ctx.WF)
    (hd : d.WF = true) (hs : s.WF = true) :
    okOf (exec cur m ctx (.mov16 d s)) = strip (execRef cur m ctx (.mov16 d s)) := by
  simp only [exec, execRef]
  refine bind_refines _ _ Place.toLoc _ _ (resolve16_eq m ctx hc d hd) fun pd => ?_
  refine bind_refines _ _ Place.toLoc _ _ (resolve16_eq m ctx hc s hs) fun ps => ?_
  simp [load16_eq, store16_eq]


theorem lahf_refines (cur : Nat) (m : Machine) (ctx : Ctx) :
    okOf (exec cur m ctx .lahf) = strip (execRef cur m ctx .lahf) := by
  simp [exec, execRef, setByteReg_eq]

theorem sahf_refines (cur : Nat) (m : Machine) (ctx : Ctx) :
    okOf (exec cur m ctx .sahf) = strip (execRef cur m ctx .sahf) := by
  simp [exec, execRef, getByteReg_eq]

theorem pushf_refines (cur : Nat) (m : Machine) (ctx : Ctx) :
    okOf (exec cur m ctx .pushf) = strip (execRef cur m ctx .pushf) := by
  simp [exec, execRef, writeWord_eq_putWord, stackTop_eq]

theorem popf_refines (cur : Nat) (m : Machine) (ctx : Ctx) :
    okOf (exec cur m ctx .popf) = strip (execRef cur m ctx .popf) := by
  simp [exec, execRef, readWord_eq_wordAt, stackTop_eq]

theorem xlat_refines (cur : Nat) (m : Machine) (ctx : Ctx) :
    okOf (exec cur m ctx .xlat) = strip (execRef cur m ctx .xlat) := by
  simp only [exec, execRef, readByte_eq_byteAt, getByteReg_eq, setByteReg_eq, calcAddr_eq_phys, okOf_ok, strip_next]

theorem xchg8_refines (cur : Nat) (m : Machine) (ctx : Ctx) (d : Op8) (r : ByteReg) (hc : ctx.WF)
    (hd : d.WF = true) :
    okOf (exec cur m ctx (.xchg8 d r)) = strip (execRef cur m ctx (.xchg8 d r)) := by
  simp only [exec, execRef]
  refine bind_refines _ _ Place.toLoc _ _ (resolve8_eq m ctx hc d hd) fun pd => ?_
  cases pd <;> simp [Place.toLoc, load8_eq, store8_eq, getByteReg_eq, setByteReg_eq, rd8, wr8, Machine.load8,
    Machine.store8, readByte_eq_byteAt, writeByte_eq_putByte, getWordReg_eq, putByte_set8_comm]

theorem xchg16_refines (cur : Nat) (m : Machine) (ctx : Ctx) (d : Op16) (r : WordReg) (hc : ctx.WF)
    (hd : d.WF = true) :
    okOf (exec cur m ctx (.xchg16 d r)) = strip (execRef cur m ctx (.xchg16 d r)) := by
  simp only [exec, execRef]
  refine bind_refines _ _ Place.toLoc _ _ (resolve16_eq m ctx hc d hd) fun pd => ?_
  cases pd <;> simp [Place.toLoc, load16_eq, store16_eq, getWordReg_eq, setWordReg_eq, rd16, wr16, Machine.load16,
    Machine.store16, readWord_eq_wordAt, writeWord_eq_putWord, getByteReg_eq, putWord_set16_comm]

theorem pop_refines (cur : Nat) (m : Machine) (ctx : Ctx) (d : Op16) (hc : ctx.WF) (hd : d.WF = true) :
    okOf (exec cur m ctx (.pop d)) = strip (execRef cur m ctx (.pop d)) := by
  simp only [exec, execRef]
  refine bind_refines _ _ Place.toLoc _ _ (resolve16_eq m ctx hc d hd) fun pd => ?_
  simp [store16_eq, readWord_eq_wordAt, stackTop_eq]

theorem push_refines (cur : Nat) (m : Machine) (ctx : Ctx) (s : Op16) (hc : ctx.WF) (hs : s.WF = true) :
    okOf (exec cur m ctx (.push s)) = strip (execRef cur m ctx (.push s)) := by
  simp only [exec, execRef]
  refine bind_refines _ _ Place.toLoc _ _ (resolve16_eq m ctx hc s hs) fun ps => ?_
  simp [load16_eq, writeWord_eq_putWord, stackTop_eq]

end Emu8086.Props.C05
