/-
Property C02 — logic, shift and rotate instructions match the 8086 for every value and count.

Function level.  For each of the 14 shift/rotate functions (mirrors of bit_manipulation.rs):
  `*_ok : ∀ fl v (n : BitVec 8), shiftOk op fl v n.toNat (f fl v n) = true`
i.e. for EVERY count 0..255 the function behaves as that many single-bit 8086 steps (result, CF),
SF/ZF/PF from the result for shifts only, OF as defined for a count of 1, count 0 changes nothing,
no other flag bit changes.  Proof: `*_step` (count n+1 = one step after count n, symbolic n, by
bit-blasting) lifted by induction on the count (`iter_of_step`).  The functions are total in the
model; that the Rust code never aborts is checked by the correspondence run (all 256 counts).
-/
import Std.Tactic.BVDecide
import Emu8086.Model.Bits
import Emu8086.Spec.Bits
import Emu8086.Lemmas.Basic

namespace Emu8086.Props.C02
open Emu8086 Emu8086.Spec

/-- (result, CF) produced by a model function whose count has type `BitVec m` (u8 or u16) -/
def rc {w m} (f : BitVec 16 → BitVec w → BitVec m → BitVec w × BitVec 16) (fl : BitVec 16) (v : BitVec w)
    (n : BitVec m) : BitVec w × Bool :=
  ((f fl v n).1, cfOf (f fl v n).2)

/-- `(flag & FLAG_CARRY) as u32`, folded before the mask becomes a literal (works around a slow
    ground-term simproc on `setWidth 32 (fl &&& 1#16)`) -/
theorem carry32 (fl : BitVec 16) :
    (fl &&& Flag.CARRY.mask).setWidth 32 <<< 16 = (if getFlag fl .CARRY then 0x10000#32 else 0#32) := by
  simp only [Flag.mask, Gen.FLAG_CARRY, getFlag]; bv_decide

local macro "bits_unfold" : tactic => `(tactic|
  (
  simp only [rc, byteSal, byteSar, byteShr, byteRol, byteRor, byteRcl, byteRcr,
    wordSal, wordSar, wordShr, wordRol, wordRor, wordRcl, wordRcr, szp8, szp16, rotOF8, rotOF16,
    byteAnd, byteOr, byteXor, byteTest, wordAnd, wordOr, wordXor, wordTest, logicFlags8, logicFlags16,
    setFlagHelper, putFlag, setFlag, unsetFlag, getFlag, Flag.mask, hasEvenParity,
    Gen.FLAG_OVERFLOW, Gen.FLAG_SIGN, Gen.FLAG_ZERO, Gen.FLAG_AUX_CARRY, Gen.FLAG_PARITY, Gen.FLAG_CARRY,
    step1, cfOf, bit, zf, sf, pf, parityEven, of1, ShOp.isShift, shiftMayChange, rotateMayChange,
    logicOk, logicVal,
    Prod.mk.injEq, fst_ite, snd_ite]))

theorem ofNat_succ {m} (k : Nat) : BitVec.ofNat m (k+1) = BitVec.ofNat m k + 1#m := by
  apply BitVec.eq_of_toNat_eq; simp [BitVec.toNat_add]

theorem iter_of_step {w m} (hm : 8 ≤ m) (f : BitVec 16 → BitVec w → BitVec m → BitVec w × BitVec 16) (op : ShOp)
    (h0 : ∀ fl v, rc f fl v 0#m = (v, cfOf fl))
    (hs : ∀ fl v n, n < 255#m → rc f fl v (n + 1#m) = step1 op (rc f fl v n))
    (fl : BitVec 16) (v : BitVec w) (k : Nat) (hk : k ≤ 255) :
    rc f fl v (BitVec.ofNat m k) = iter (step1 op) k (v, cfOf fl) := by
  have h256 : 256 ≤ 2 ^ m := by
    calc 256 = 2 ^ 8 := by decide
      _ ≤ 2 ^ m := Nat.pow_le_pow_right (by omega) hm
  induction k with
  | zero => simpa [iter] using h0 fl v
  | succ k ih =>
    have hk' : k ≤ 255 := by omega
    have hlt : BitVec.ofNat m k < 255#m := by
      simp only [BitVec.lt_def, BitVec.toNat_ofNat]
      rw [Nat.mod_eq_of_lt (by omega), Nat.mod_eq_of_lt (by omega)]; omega
    rw [ofNat_succ, hs fl v _ hlt, ih hk']; rfl

/-- from the step lemma to the full statement -/
theorem ok_of_step {w m} (hm : 8 ≤ m) (f : BitVec 16 → BitVec w → BitVec m → BitVec w × BitVec 16) (op : ShOp)
    (h0 : ∀ fl v, f fl v 0#m = (v, fl))
    (hs : ∀ fl v n, n < 255#m → rc f fl v (n + 1#m) = step1 op (rc f fl v n))
    (hrest : ∀ fl v n, n ≠ 0#m →
      (if op.isShift then
          (f fl v n).2.getLsbD 6 == zf (f fl v n).1 && (f fl v n).2.getLsbD 7 == sf (f fl v n).1
          && (f fl v n).2.getLsbD 2 == pf (f fl v n).1
          && ((f fl v n).2 &&& ~~~ shiftMayChange) == (fl &&& ~~~ shiftMayChange)
        else ((f fl v n).2 &&& ~~~ rotateMayChange) == (fl &&& ~~~ rotateMayChange)) = true)
    (hof : ∀ fl v, (f fl v 1#m).2.getLsbD 11 = of1 op v (f fl v 1#m).1 (cfOf (f fl v 1#m).2))
    (fl : BitVec 16) (v : BitVec w) (n : BitVec m) (hn255 : n.toNat ≤ 255) :
    shiftOk op fl v n.toNat (f fl v n) = true := by
  have hit := iter_of_step hm f op (by intro fl v; simp [rc, h0]) hs fl v n.toNat hn255
  simp only [BitVec.ofNat_toNat, BitVec.setWidth_eq] at hit
  have h1 : (1#m).toNat = 1 := by
    simp only [BitVec.toNat_ofNat]; apply Nat.mod_eq_of_lt
    calc 1 < 2 ^ 8 := by decide
      _ ≤ 2 ^ m := Nat.pow_le_pow_right (by omega) hm
  unfold shiftOk
  rw [← hit]
  simp only [rc]
  by_cases hn0 : n = 0#m
  · subst hn0; simp [h0]
  · have hn : n.toNat ≠ 0 := by
      intro h; apply hn0; apply BitVec.eq_of_toNat_eq; simpa using h
    have hr := hrest fl v n hn0
    by_cases hn1 : n = 1#m
    · subst hn1
      have := hof fl v
      simp only [h1, hn, ↓reduceIte, beq_self_eq_true, Bool.true_and, hr, this, cfOf, Nat.succ_ne_zero,
        Nat.one_ne_zero] 
    · have hn1' : n.toNat ≠ 1 := by
        intro h; apply hn1; apply BitVec.eq_of_toNat_eq; rw [h, h1]
      simp only [hn1', hn, ↓reduceIte, beq_self_eq_true, Bool.true_and, hr, cfOf, Bool.and_self]

local macro "shift_thm" nm:ident f:term "," op:term "," m:term : command => do
  let stepN := Lean.mkIdent (nm.getId.appendAfter "_step")
  let okN := Lean.mkIdent (nm.getId.appendAfter "_ok'")
  `(theorem $stepN (fl : BitVec 16) (v : _) (n : BitVec $m) (h : n < 255#$m) :
        rc $f fl v (n + 1#$m) = step1 $op (rc $f fl v n) := by
      bits_unfold; bv_decide
    theorem $okN (fl : BitVec 16) (v : _) (n : BitVec $m) (hn : n.toNat ≤ 255) :
        shiftOk $op fl v n.toNat ($f fl v n) = true := by
      apply ok_of_step (by decide) $f $op
      · intro fl v; bits_unfold; simp
      · exact $stepN
      · intro fl v n hn; revert hn; bits_unfold; bv_decide
      · intro fl v; bits_unfold; bv_decide
      · exact hn)

shift_thm byteSal byteSal, .shl, 8
shift_thm byteShr byteShr, .shr, 8
shift_thm byteSar byteSar, .sar, 8
shift_thm byteRol byteRol, .rol, 8
shift_thm byteRor byteRor, .ror, 8
shift_thm byteRcl byteRcl, .rcl, 8
shift_thm byteRcr byteRcr, .rcr, 8
shift_thm wordSal wordSal, .shl, 16
shift_thm wordShr wordShr, .shr, 16
shift_thm wordSar wordSar, .sar, 16
shift_thm wordRol wordRol, .rol, 16
shift_thm wordRor wordRor, .ror, 16
shift_thm wordRcl wordRcl, .rcl, 16
shift_thm wordRcr wordRcr, .rcr, 16

/-! The property statements: every value, every incoming flag word, EVERY count `n : u8` (0..255). -/
local macro "byte_final" nm:ident f:term "," op:term : command => do
  let okN := Lean.mkIdent (nm.getId.appendAfter "_ok")
  let ok' := Lean.mkIdent (nm.getId.appendAfter "_ok'")
  `(theorem $okN (fl : BitVec 16) (v n : BitVec 8) : shiftOk $op fl v n.toNat ($f fl v n) = true :=
      $ok' fl v n (by omega))
local macro "word_final" nm:ident f:term "," op:term : command => do
  let okN := Lean.mkIdent (nm.getId.appendAfter "_ok")
  let ok' := Lean.mkIdent (nm.getId.appendAfter "_ok'")
  `(theorem $okN (fl : BitVec 16) (v : BitVec 16) (n : BitVec 8) :
        shiftOk $op fl v n.toNat ($f fl v (n.setWidth 16)) = true := by
      have h : (n.setWidth 16).toNat = n.toNat := by
        simp only [BitVec.toNat_setWidth]; apply Nat.mod_eq_of_lt; omega
      have := $ok' fl v (n.setWidth 16) (by omega)
      rw [h] at this; exact this)

byte_final byteSal byteSal, .shl
byte_final byteShr byteShr, .shr
byte_final byteSar byteSar, .sar
byte_final byteRol byteRol, .rol
byte_final byteRor byteRor, .ror
byte_final byteRcl byteRcl, .rcl
byte_final byteRcr byteRcr, .rcr
word_final wordSal wordSal, .shl
word_final wordShr wordShr, .shr
word_final wordSar wordSar, .sar
word_final wordRol wordRol, .rol
word_final wordRor wordRor, .ror
word_final wordRcl wordRcl, .rcl
word_final wordRcr wordRcr, .rcr

/-! ### logic: every operand pair, every incoming flag word -/
theorem byteAnd_ok (fl : BitVec 16) (a b : BitVec 8) : logicOk .and fl a b (byteAnd fl a b) = true := by
  bits_unfold; bv_decide
theorem byteOr_ok (fl : BitVec 16) (a b : BitVec 8) : logicOk .or fl a b (byteOr fl a b) = true := by
  bits_unfold; bv_decide
theorem byteXor_ok (fl : BitVec 16) (a b : BitVec 8) : logicOk .xor fl a b (byteXor fl a b) = true := by
  bits_unfold; bv_decide
theorem byteTest_ok (fl : BitVec 16) (a b : BitVec 8) : logicOk .test fl a b (byteTest fl a b) = true := by
  bits_unfold; bv_decide
theorem wordAnd_ok (fl : BitVec 16) (a b : BitVec 16) : logicOk .and fl a b (wordAnd fl a b) = true := by
  bits_unfold; bv_decide
theorem wordOr_ok (fl : BitVec 16) (a b : BitVec 16) : logicOk .or fl a b (wordOr fl a b) = true := by
  bits_unfold; bv_decide
theorem wordXor_ok (fl : BitVec 16) (a b : BitVec 16) : logicOk .xor fl a b (wordXor fl a b) = true := by
  bits_unfold; bv_decide
theorem wordTest_ok (fl : BitVec 16) (a b : BitVec 16) : logicOk .test fl a b (wordTest fl a b) = true := by
  bits_unfold; bv_decide

/-- non-vacuity: a concrete multi-bit rotate through carry satisfies the statement's reading -/
example : byteRcl 0x0001#16 0x81#8 3#8 = (0x0E#8, 0x0800#16) := by decide

end Emu8086.Props.C02
