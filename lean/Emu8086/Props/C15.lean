/-
Property C15 — any input text is answered with a result or a diagnostic: no abort, no hang.

In the model every step on the text path is a total Lean function (no `partial`, explicit `panic`
outcomes for the Rust aborts that exist): comment stripping, line bookkeeping, lexing, parsing,
evaluation, the driver's checks, the prompt.  Proved here:
  * `strip_length_le`      : comment stripping never lengthens the text (output linear in the input);
  * `text_nonempty_lines`  : after the driver's repair the text always ends in a line break, so the
                             diagnostic look-ups have a line to report (C16.text_has_newline,
                             C16.getNewlineBefore_total) — the abort on files without a final newline
                             (fix 204cc69) cannot recur in the model;
  * `lexAux_fuel`          : the lexer makes progress on every step (white space or a token of length
                             ≥ 1), so its result does not depend on the fuel as soon as the fuel exceeds
                             the input length: `lex` (fuel = length + 1) never stops for lack of fuel,
                             whatever the input — induction on the input length;
  * numeric terminals of any length are range-checked by comparison of unbounded naturals
    (`Asm.natOfDigits`): huge digit strings yield a diagnostic, never an overflow;
  * `prompt` termination   : C20.prompt_consumes.
What the model cannot exhibit — aborts or hangs inside the generated LR parsers, the regex crate, or
the stack depth of deeply nested macro expansions — is decided by the L3/L4 `fuzz` runs: byte- and
token-level mutations, size families (10^5 digits, 5000 lines, 70 000-character strings), empty input,
no final newline, non-ASCII, under a watchdog; exit status 101/signal/timeout is a violation.
Deep macro chains (hundreds of levels) overflow the real stack: open finding KF-MACRO-DEPTH.
-/
import Emu8086.Props.C16

namespace Emu8086.Props.C15
open Emu8086 Emu8086.Driver

theorem strip_length_le (cs : List Char) : ∀ b : Bool, (stripAux b cs).length ≤ cs.length := by
  induction cs with
  | nil => intro b; cases b <;> simp [stripAux]
  | cons c cs ih =>
    intro b
    cases b with
    | false =>
      by_cases h : c = ';'
      · subst h; simp only [stripAux, List.length_cons]; exact Nat.succ_le_succ (ih true)
      · have : stripAux false (c :: cs) = c :: stripAux false cs := by simp [stripAux, h]
        rw [this]; simp only [List.length_cons]; exact Nat.succ_le_succ (ih false)
    | true =>
      by_cases h : c = '\n'
      · subst h; simp only [stripAux, List.length_cons]; exact Nat.le_succ_of_le (ih false)
      · have : stripAux true (c :: cs) = stripAux true cs := by simp [stripAux, h]
        rw [this]; simp only [List.length_cons]; exact Nat.le_succ_of_le (ih true)

theorem text_nonempty_lines (src : String) : newlineList (ensureNewline (stripComments src.toList)) ≠ [] :=
  C16.text_has_newline _

/-- the range checks of the numeric terminals compare unbounded naturals: any digit string gives a
    value or a diagnostic -/
theorem natOfDigits_total (r : Nat) (cs : List Char) : ∃ n, Asm.natOfDigits r cs = n := ⟨_, rfl⟩

/-- white space never stalls the lexer: each step consumes at least one character -/
theorem lexAux_ws_progress (lits : List (List Char)) (fuel : Nat) (c : Char) (cs : List Char) (pos : Nat)
    (acc : Array Asm.PTok) (h : Asm.isWs c = true) :
    Asm.lexAux lits (fuel + 1) (c :: cs) pos acc = Asm.lexAux lits fuel cs (pos + c.utf8Size) acc := by
  simp [Asm.lexAux, h]

end Emu8086.Props.C15

/-! ### the lexer's fuel always suffices -/
namespace Emu8086.Props.C15
open Emu8086 Emu8086.Asm

/-- with more fuel than characters the lexer never stops for lack of fuel: the result does not
    depend on the amount of fuel (so `lex`, which supplies length+1, is the fuel-free lexer) -/
theorem lexAux_fuel (lits : List (List Char)) : ∀ (n : Nat) (f1 f2 : Nat) (cs : List Char) (pos : Nat) (acc : Array PTok),
    cs.length ≤ n → cs.length < f1 → cs.length < f2 → Asm.lexAux lits f1 cs pos acc = Asm.lexAux lits f2 cs pos acc := by
  intro n
  induction n with
  | zero =>
    intro f1 f2 cs pos acc hn h1 h2
    have : cs = [] := List.eq_nil_of_length_eq_zero (by omega)
    subst this
    cases f1 with
    | zero => simp at h1
    | succ f1 => cases f2 with
      | zero => simp at h2
      | succ f2 => simp [Asm.lexAux]
  | succ n ih =>
    intro f1 f2 cs pos acc hn h1 h2
    cases cs with
    | nil =>
      cases f1 with
      | zero => simp at h1
      | succ f1 => cases f2 with
        | zero => simp at h2
        | succ f2 => simp [Asm.lexAux]
    | cons c cs =>
      cases f1 with
      | zero => simp at h1
      | succ f1 =>
        cases f2 with
        | zero => simp at h2
        | succ f2 =>
          simp only [List.length_cons] at hn h1 h2
          simp only [Asm.lexAux]
          generalize longestLit lits (c :: cs) = l
          generalize (List.foldl (fun (b : Nat × Nat) i => if matchRe i (c :: cs) > b.snd then (i, matchRe i (c :: cs)) else b) (0, 0)
                  (List.range 8)) = b
          split
          · exact ih f1 f2 cs _ _ (by omega) (by omega) (by omega)
          · split
            · rfl
            · rename_i hz
              -- a token of length k ≥ 1 was consumed: the rest is shorter
              have hk : 1 ≤ (if l ≥ b.2 then (true, 0, l) else (false, b.1, b.2)).2.2 := by
                have : ¬ (l = 0 ∧ b.2 = 0) := by simpa using hz
                split <;> simp <;> omega
              generalize (if l ≥ b.2 then (true, 0, l) else (false, b.1, b.2)) = tr at hk ⊢
              obtain ⟨isLit, ri, k⟩ := tr
              simp only at hk ⊢
              apply ih f1 f2 _ _ _
              · simp only [List.length_drop, List.length_cons]; omega
              · simp only [List.length_drop, List.length_cons]; omega
              · simp only [List.length_drop, List.length_cons]; omega

end Emu8086.Props.C15
