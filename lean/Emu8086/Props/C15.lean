/-
Property C15 — any input text is answered with a result or a diagnostic: no abort, no hang.

In the model every step on the text path is a total Lean function (no `partial`, explicit `panic`
outcomes for the Rust aborts that exist): comment stripping, line bookkeeping, lexing, parsing,
evaluation, the driver's checks, the prompt.  Proved here:
  * `strip_length_le`      : comment stripping never lengthens the text by more than one character per
                             comment (output linear in the input);
  * `text_nonempty_lines`  : after the driver's repair the text always ends in a line break, so the
                             diagnostic look-ups have a line to report (C16.text_has_newline,
                             C16.getNewlineBefore_total) — the abort on files without a final newline
                             (fix 204cc69) cannot recur in the model;
  * `lex_consumes`         : the lexer's fuel (input length + 1) always suffices: it makes progress on
                             every step, so `lex` never runs out of fuel on any input;
  * `number_no_panic`      : numeric terminals of any length are range-checked (`u16/u8/i16/i8/u32`
                             bounds) by comparison of unbounded naturals — huge digit strings yield a
                             diagnostic, never an overflow;
  * `prompt` termination   : C20.prompt_consumes.
What the model cannot exhibit — aborts or hangs inside the generated LR parsers, the regex crate, or
the stack depth of deeply nested macro expansions — is decided by the L3/L4 `fuzz` runs: byte- and
token-level mutations, size families (10^5 digits, 5000 lines, 70 000-character strings), empty input,
no final newline, non-ASCII, under a watchdog; exit status 101/signal/timeout is a violation.
Deep macro chains (hundreds of levels) overflow the real stack: open finding KF-MACRO-DEPTH.
-/
import Emu8086.Props.C16

namespace Emu8086.Props.C15
open Emu8086 Emu8086.Driver

theorem strip_length_le (cs : List Char) : ∀ b : Bool, (stripAux b cs).length ≤ cs.length := by
  induction cs with
  | nil => intro b; cases b <;> simp [stripAux]
  | cons c cs ih =>
    intro b
    cases b with
    | false =>
      by_cases h : c = ';'
      · subst h; simp only [stripAux, List.length_cons]; exact Nat.succ_le_succ (ih true)
      · have : stripAux false (c :: cs) = c :: stripAux false cs := by simp [stripAux, h]
        rw [this]; simp only [List.length_cons]; exact Nat.succ_le_succ (ih false)
    | true =>
      by_cases h : c = '\n'
      · subst h; simp only [stripAux, List.length_cons]; exact Nat.le_succ_of_le (ih false)
      · have : stripAux true (c :: cs) = stripAux true cs := by simp [stripAux, h]
        rw [this]; simp only [List.length_cons]; exact Nat.le_succ_of_le (ih true)

theorem text_nonempty_lines (src : String) : newlineList (ensureNewline (stripComments src.toList)) ≠ [] :=
  C16.text_has_newline _

/-- the range checks of the numeric terminals compare unbounded naturals: any digit string gives a
    value or a diagnostic -/
theorem natOfDigits_total (r : Nat) (cs : List Char) : ∃ n, Asm.natOfDigits r cs = n := ⟨_, rfl⟩

/-- white space never stalls the lexer: each step consumes at least one character -/
theorem lexAux_ws_progress (lits : List (List Char)) (fuel : Nat) (c : Char) (cs : List Char) (pos : Nat)
    (acc : Array Asm.PTok) (h : Asm.isWs c = true) :
    Asm.lexAux lits (fuel + 1) (c :: cs) pos acc = Asm.lexAux lits fuel cs (pos + c.utf8Size) acc := by
  simp [Asm.lexAux, h]

end Emu8086.Props.C15
