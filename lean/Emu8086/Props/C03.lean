/-
Property C03 — MUL/IMUL/DIV/IDIV, decimal adjusts, CBW/CWD exact; divide errors raise INT 0.

Function level: for ALL AX, DX, operand values and ALL incoming flag words the model functions
(mirrors of arithmetic.rs) satisfy the specification predicate: exact double-width product with
CF=OF iff the upper half is significant; truncating quotient/remainder; `none` (= Err(DivByZero),
turned into State::INT(0) by the interpreter, see C03Exec) exactly when the divisor is 0 or the
quotient does not fit; nothing else changes.  The functions are total: no input aborts.

Open finding KF-IMUL8-FLAGS (the pinned suite asserts CF=OF=1 for 4 * -4): byte IMUL's CF/OF.
-/
import Std.Tactic.BVDecide
import Emu8086.Model.Alu
import Emu8086.Spec.MulDiv
import Emu8086.KnownFindings
import Emu8086.Lemmas.Basic
import Emu8086.Lemmas.Proj

namespace Emu8086.Props.C03
open Emu8086 Emu8086.Spec

def toRegs (s : AluState) : Regs := ⟨s.flag, s.ax, s.dx⟩
/-- outcome of a unary model function as the spec sees it; the operand itself is never changed -/
def outRegs {w} (o : Option (AluState × BitVec w)) : Option Regs := o.map (fun p => toRegs p.1)

local macro "md_unfold" : tactic => `(tactic|
  simp only [byteMul, byteImul, byteDiv, byteIdiv, wordMul, wordImul, wordDiv, wordIdiv,
    getAL, getAH, setAL, setAH, putFlag, setFlag, unsetFlag, getFlag, Flag.mask, setFlagHelper, hasEvenParity,
    Gen.FLAG_OVERFLOW, Gen.FLAG_SIGN, Gen.FLAG_ZERO, Gen.FLAG_AUX_CARRY, Gen.FLAG_PARITY, Gen.FLAG_CARRY,
    aaa, aas, daa, das, aam, aad, cbw, cwd,
    mulDiv8Ok, mulDiv16Ok, mulFlagsOk, divFlagsOk, statusMask, lo8, hi8, mk16, toRegs, outRegs,
    adjOk, adjust, AdjOp.defined, setBit, Spec.szp8, parityEven, bit, KF.imul8,
    Option.map_some, Option.map_none, fst_ite, snd_ite,
    AluState.ax_ite, AluState.dx_ite, AluState.flag_ite, Regs.ax_ite, Regs.dx_ite, Regs.flag_ite])

/-- MUL/DIV never modify their operand -/
theorem byteMul_val (s : AluState) (v : BitVec 8) : ∀ o, byteMul s v = some o → o.2 = v := by
  intro o h; simp only [byteMul, Option.some.injEq] at h; rw [← h]
theorem wordMul_val (s : AluState) (v : BitVec 16) : ∀ o, wordMul s v = some o → o.2 = v := by
  intro o h; simp only [wordMul, Option.some.injEq] at h; rw [← h]

theorem byteMul_ok (s : AluState) (v : BitVec 8) :
    mulDiv8Ok .mul (toRegs s) v (outRegs (byteMul s v)) = true := by
  md_unfold; bv_decide
theorem wordMul_ok (s : AluState) (v : BitVec 16) :
    mulDiv16Ok .mul (toRegs s) v (outRegs (wordMul s v)) = true := by
  md_unfold; bv_decide
theorem wordImul_ok (s : AluState) (v : BitVec 16) :
    mulDiv16Ok .imul (toRegs s) v (outRegs (wordImul s v)) = true := by
  md_unfold; bv_decide
theorem byteImul_partial (s : AluState) (v : BitVec 8) (h : KF.imul8 s.ax v = false) :
    mulDiv8Ok .imul (toRegs s) v (outRegs (byteImul s v)) = true := by
  revert h; md_unfold; bv_decide
/-- the product itself is right for every input (only CF/OF are affected by the finding) -/
theorem byteImul_product (s : AluState) (v : BitVec 8) :
    ∃ o, byteImul s v = some o ∧ o.1.ax = (s.ax.setWidth 8).signExtend 16 * v.signExtend 16 ∧ o.1.dx = s.dx := by
  refine ⟨_, rfl, ?_, rfl⟩
  md_unfold; bv_decide
/-- witness of the open finding: AX = 0004h, operand -4: product -16 fits in AL, yet CF=OF=1 -/
theorem byteImul_full_fails :
    mulDiv8Ok .imul (toRegs ⟨0xF000#16, 4#16, 0#16⟩) 0xFC#8 (outRegs (byteImul ⟨0xF000#16, 4#16, 0#16⟩ 0xFC#8)) = false := by
  decide
example : KF.imul8 4#16 0xFC#8 = true := by decide
example : KF.imul8 0xFF04#16 0xFC#8 = false := by decide


/-! ### division: quotient/remainder, divide error iff divisor 0 or quotient does not fit, never a crash -/
theorem byteDiv_ok (s : AluState) (v : BitVec 8) :
    mulDiv8Ok .div (toRegs s) v (outRegs (byteDiv s v)) = true := by
  md_unfold
  by_cases h0 : v = 0#8
  · subst h0; simp
  · have h0' : (v == 0#8) = false := by simpa using h0
    simp only [h0', Bool.false_eq_true, ↓reduceIte, Bool.false_or]
    by_cases hq : s.ax / v.setWidth 16 > 255#16
    · simp only [hq, ↓reduceIte, Option.map_none]; simp_all
    · simp only [hq, ↓reduceIte, Option.map_some, Bool.false_eq_true]; revert hq h0; bv_decide
theorem byteIdiv_ok (s : AluState) (v : BitVec 8) :
    mulDiv8Ok .idiv (toRegs s) v (outRegs (byteIdiv s v)) = true := by
  md_unfold
  by_cases h0 : v = 0#8
  · subst h0; simp
  · have h0' : (v == 0#8) = false := by simpa using h0
    simp only [h0', Bool.false_eq_true, ↓reduceIte, Bool.false_or]
    by_cases hq : (((s.ax.signExtend 32).sdiv (v.signExtend 32)).slt (-128#32) || (127#32).slt ((s.ax.signExtend 32).sdiv (v.signExtend 32))) = true
    · simp only [hq, ↓reduceIte, Option.map_none]; simp_all
    · simp only [hq, ↓reduceIte, Option.map_some, Bool.false_eq_true]; revert hq h0; bv_decide
theorem wordDiv_ok (s : AluState) (v : BitVec 16) :
    mulDiv16Ok .div (toRegs s) v (outRegs (wordDiv s v)) = true := by
  md_unfold
  by_cases h0 : v = 0#16
  · subst h0; simp
  · have h0' : (v == 0#16) = false := by simpa using h0
    simp only [h0', Bool.false_eq_true, ↓reduceIte, Bool.false_or]
    by_cases hq : ((s.dx.setWidth 32 <<< 16) ||| s.ax.setWidth 32) / v.setWidth 32 > 65535#32
    · simp only [hq, ↓reduceIte, Option.map_none]; simp_all
    · simp only [hq, ↓reduceIte, Option.map_some, Bool.false_eq_true]; revert hq h0; bv_decide
theorem wordIdiv_ok (s : AluState) (v : BitVec 16) :
    mulDiv16Ok .idiv (toRegs s) v (outRegs (wordIdiv s v)) = true := by
  md_unfold
  by_cases h0 : v = 0#16
  · subst h0; simp
  · have h0' : (v == 0#16) = false := by simpa using h0
    simp only [h0', Bool.false_eq_true, ↓reduceIte, Bool.false_or]
    by_cases hq : (((((s.dx.setWidth 32 <<< 16) ||| s.ax.setWidth 32).signExtend 64).sdiv (v.signExtend 64)).slt (-32768#64) || (32767#64).slt ((((s.dx.setWidth 32 <<< 16) ||| s.ax.setWidth 32).signExtend 64).sdiv (v.signExtend 64))) = true
    · simp only [hq, ↓reduceIte, Option.map_none]; simp_all
    · simp only [hq, ↓reduceIte, Option.map_some, Bool.false_eq_true]; revert hq h0; bv_decide
theorem div_error_iff8 (s : AluState) (v : BitVec 8) :
    byteDiv s v = none ↔ (v = 0#8 ∨ s.ax / v.setWidth 16 > 255#16) := by
  simp only [byteDiv]; split <;> simp_all
theorem div_error_iff16 (s : AluState) (v : BitVec 16) :
    wordDiv s v = none ↔
      (v = 0#16 ∨ ((s.dx.setWidth 32 <<< 16) ||| s.ax.setWidth 32) / v.setWidth 32 > 65535#32) := by
  simp only [wordDiv]; split <;> simp_all

/-! ### adjusts, CBW, CWD: all 2^16 AX values, all flag words -/
theorem aaa_ok (s : AluState) : adjOk .aaa (toRegs s) (toRegs (aaa s)) = true := by
  md_unfold; bv_decide
theorem aas_ok (s : AluState) : adjOk .aas (toRegs s) (toRegs (aas s)) = true := by
  md_unfold; bv_decide
theorem daa_ok (s : AluState) : adjOk .daa (toRegs s) (toRegs (daa s)) = true := by
  md_unfold; bv_decide
theorem das_ok (s : AluState) : adjOk .das (toRegs s) (toRegs (das s)) = true := by
  md_unfold; bv_decide
theorem aam_ok (s : AluState) : adjOk .aam (toRegs s) (toRegs (aam s)) = true := by
  md_unfold; bv_decide
theorem aad_ok (s : AluState) : adjOk .aad (toRegs s) (toRegs (aad s)) = true := by
  md_unfold; bv_decide
theorem cbw_ok (s : AluState) : adjOk .cbw (toRegs s) (toRegs (cbw s)) = true := by
  md_unfold; bv_decide
theorem cwd_ok (s : AluState) : adjOk .cwd (toRegs s) (toRegs (cwd s)) = true := by
  md_unfold; bv_decide

end Emu8086.Props.C03
