/-
Model of the semantic actions of src/lib/interpreter/interpreter.lalrpop: the abstract syntax of one
interpreter line (`Instr`, one constructor family per grammar production family) and `exec`, which
does what the parser actions do to the VM and the context and returns the `State`.

LALRPOP runs actions at reduction time, innermost first: operand non-terminals (`memory_addr`,
`byte_label`, `word_label`, numbers) are reduced — and may fail with a ParseError — BEFORE the
instruction's own action runs.  `exec` therefore first resolves all operands (`resolve*`, may fail,
no side effect) and then performs the action.  The only action with a side effect that precedes a
possible failure is the CX decrement of LOOP/LOOPE/LOOPNE (`jumps_condition` is reduced before the
label lookup); on failure the whole line is an (internal) error and the driver stops.
-/
import Emu8086.Model.Machine
import Emu8086.Model.Alu
import Emu8086.Model.Bits
import Emu8086.Model.Str

namespace Emu8086

inductive State where
  | HALT | PRINT | JMP (i : Nat) | NEXT | INT (n : BitVec 8) | REPEAT
  deriving DecidableEq, Repr, Inhabited

inductive LabelType where
  | DATA | CODE
  deriving DecidableEq, Repr, Inhabited

structure Label where
  type : LabelType
  map : Nat
  deriving DecidableEq, Repr, Inhabited

/-- `interpreter_util::Context` (HashMaps as association lists: only `get` is used) -/
structure Ctx where
  fnMap : List (String × Nat) := []
  labelMap : List (String × Label) := []
  callStack : List Nat := []          -- Vec: push/pop at the END
  deriving Repr, Inhabited

inductive BaseReg where
  | BX | BP
  deriving DecidableEq, Repr, Inhabited
inductive IndexReg where
  | SI | DI
  deriving DecidableEq, Repr, Inhabited

/-- the nine `memory_addr` alternatives: optional segment override, optional base, optional index,
    optional displacement.  Shapes produced by the parser: direct (disp only), register indirect
    (one register), based / indexed (one register + disp), based indexed (both + disp). -/
structure MemAddr where
  seg : Option WordReg := none
  base : Option BaseReg := none
  index : Option IndexReg := none
  disp : Option (BitVec 16) := none
  deriving DecidableEq, Repr, Inhabited

def Machine.baseVal (m : Machine) : BaseReg → BitVec 16
  | .BX => m.bx | .BP => m.bp
def Machine.indexVal (m : Machine) : IndexReg → BitVec 16
  | .SI => m.si | .DI => m.di

/-- the 16-bit offset: wrapping sum of the parts present -/
def Machine.offsetOf (m : Machine) (a : MemAddr) : BitVec 16 :=
  (match a.base with | some b => m.baseVal b | none => 0#16)
  + (match a.index with | some i => m.indexVal i | none => 0#16)
  + (match a.disp with | some d => d | none => 0#16)

/-- segment used: the override, else SS for a BP base, else DS -/
def Machine.segOf (m : Machine) (a : MemAddr) : BitVec 16 :=
  match a.seg with
  | some s => m.getWordReg s
  | none => match a.base with
    | some .BP => m.ss
    | _ => m.ds

/-- `memory_addr` : physical address -/
def Machine.resolveMem (m : Machine) (a : MemAddr) : Nat :=
  calcAddr (m.segOf a).toNat (m.offsetOf a).toNat

inductive Op8 where
  | reg (r : ByteReg) | mem (a : MemAddr) | lbl (name : String) | imm (v : BitVec 8)
  deriving DecidableEq, Repr, Inhabited
inductive Op16 where
  | reg (r : WordReg) | mem (a : MemAddr) | lbl (name : String) | imm (v : BitVec 16)
  deriving DecidableEq, Repr, Inhabited

inductive ArithOp where
  | add | adc | sub | sbb | cmp
  deriving DecidableEq, Repr, Inhabited
inductive UnOp where
  | dec | inc | neg | mul | imul | div | idiv
  deriving DecidableEq, Repr, Inhabited
inductive SingleOp where
  | aaa | aad | aam | aas | daa | das | cbw | cwd
  deriving DecidableEq, Repr, Inhabited
inductive LogicOp where
  | and | or | xor | test
  deriving DecidableEq, Repr, Inhabited
inductive ShiftOp where
  | sal | sar | shr | rol | ror | rcl | rcr       -- "shl" is parsed to `sal` (same function in the grammar)
  deriving DecidableEq, Repr, Inhabited
inductive RepPrefix where
  | rep | repz | repnz
  deriving DecidableEq, Repr, Inhabited
inductive JmpOp where
  | jmp | ja | jae | jb | jbe | jc | je | jg | jge | jl | jle | jnc | jne | jno | jnp | jns | jo | jp | js
  | jcxz | loop | loope | loopne
  deriving DecidableEq, Repr, Inhabited
inductive CtlOp where
  | stc | clc | cmc | std | cld | sti | cli | hlt | nop
  deriving DecidableEq, Repr, Inhabited

inductive Instr where
  | print
  | mov8 (d s : Op8) | mov16 (d s : Op16)
  | lahf | sahf | pushf | popf | xlat
  | xchg8 (d : Op8) (r : ByteReg) | xchg16 (d : Op16) (r : WordReg)
  | pop (d : Op16) | push (s : Op16)
  | lea (r : WordReg) (s : Op16)
  | arith8 (f : ArithOp) (d s : Op8) | arith16 (f : ArithOp) (d s : Op16)
  | unary8 (f : UnOp) (d : Op8) | unary16 (f : UnOp) (d : Op16)
  | single (f : SingleOp)
  | str (p : Option RepPrefix) (op : StrOp) (word : Bool)
  | not8 (d : Op8) | not16 (d : Op16)
  | logic8 (f : LogicOp) (d s : Op8) | logic16 (f : LogicOp) (d s : Op16)
  | shift8 (f : ShiftOp) (d : Op8) (cnt : Option (BitVec 8))       -- `none` = CL
  | shift16 (f : ShiftOp) (d : Op16) (cnt : Option (BitVec 8))
  | call (name : String) | ret | jcc (j : JmpOp) (name : String) | int (n : BitVec 8)
  | ctl (c : CtlOp)
  deriving DecidableEq, Repr, Inhabited

/-- a resolved operand -/
inductive Loc where
  | reg8 (r : ByteReg) | reg16 (r : WordReg) | mem (a : Nat) | imm8 (v : BitVec 8) | imm16 (v : BitVec 16)
  deriving DecidableEq, Repr, Inhabited

/-- `byte_label` / `word_label`: `Address::calculate_from_offset(vm.arch.ds, l.map)` for a DATA label -/
def resolveLabel (m : Machine) (ctx : Ctx) (name : String) : Except String Nat :=
  match ctx.labelMap.lookup name with
  | none => .error s!"Internal Error : Label {name} not defined"
  | some l => match l.type with
    | .CODE => .error s!"Internal Error : Cannot use Code label {name}"
    | .DATA => .ok (calcAddr m.ds.toNat l.map)

def resolve8 (m : Machine) (ctx : Ctx) : Op8 → Except String Loc
  | .reg r => .ok (.reg8 r)
  | .mem a => .ok (.mem (m.resolveMem a))
  | .lbl n => (resolveLabel m ctx n).map .mem
  | .imm v => .ok (.imm8 v)
def resolve16 (m : Machine) (ctx : Ctx) : Op16 → Except String Loc
  | .reg r => .ok (.reg16 r)
  | .mem a => .ok (.mem (m.resolveMem a))
  | .lbl n => (resolveLabel m ctx n).map .mem
  | .imm v => .ok (.imm16 v)

def Machine.load8 (m : Machine) : Loc → BitVec 8
  | .reg8 r => m.getByteReg r
  | .mem a => m.readByte a
  | .imm8 v => v
  | .reg16 r => (m.getWordReg r).setWidth 8      -- not produced by the parser
  | .imm16 v => v.setWidth 8
def Machine.load16 (m : Machine) : Loc → BitVec 16
  | .reg16 r => m.getWordReg r
  | .mem a => m.readWord a
  | .imm16 v => v
  | .reg8 r => (m.getByteReg r).setWidth 16      -- not produced by the parser
  | .imm8 v => v.setWidth 16
def Machine.store8 (m : Machine) (l : Loc) (v : BitVec 8) : Machine :=
  match l with
  | .reg8 r => m.setByteReg r v
  | .mem a => m.writeByte a v
  | _ => m
def Machine.store16 (m : Machine) (l : Loc) (v : BitVec 16) : Machine :=
  match l with
  | .reg16 r => m.setWordReg r v
  | .mem a => m.writeWord a v
  | _ => m

def arith8 : ArithOp → BitVec 16 → BitVec 8 → BitVec 8 → BitVec 8 × BitVec 16
  | .add => byteAdd | .adc => byteAdc | .sub => byteSub | .sbb => byteSbb | .cmp => byteCmp
def arith16 : ArithOp → BitVec 16 → BitVec 16 → BitVec 16 → BitVec 16 × BitVec 16
  | .add => wordAdd | .adc => wordAdc | .sub => wordSub | .sbb => wordSbb | .cmp => wordCmp
def logic8 : LogicOp → BitVec 16 → BitVec 8 → BitVec 8 → BitVec 8 × BitVec 16
  | .and => byteAnd | .or => byteOr | .xor => byteXor | .test => byteTest
def logic16 : LogicOp → BitVec 16 → BitVec 16 → BitVec 16 → BitVec 16 × BitVec 16
  | .and => wordAnd | .or => wordOr | .xor => wordXor | .test => wordTest
def shift8 : ShiftOp → BitVec 16 → BitVec 8 → BitVec 8 → BitVec 8 × BitVec 16
  | .sal => byteSal | .sar => byteSar | .shr => byteShr | .rol => byteRol | .ror => byteRor
  | .rcl => byteRcl | .rcr => byteRcr
def shift16 : ShiftOp → BitVec 16 → BitVec 16 → BitVec 16 → BitVec 16 × BitVec 16
  | .sal => wordSal | .sar => wordSar | .shr => wordShr | .rol => wordRol | .ror => wordRor
  | .rcl => wordRcl | .rcr => wordRcr
def unary8 : UnOp → AluState → BitVec 8 → Option (AluState × BitVec 8)
  | .dec => byteDec | .inc => byteInc | .neg => byteNeg | .mul => byteMul | .imul => byteImul
  | .div => byteDiv | .idiv => byteIdiv
def unary16 : UnOp → AluState → BitVec 16 → Option (AluState × BitVec 16)
  | .dec => wordDec | .inc => wordInc | .neg => wordNeg | .mul => wordMul | .imul => wordImul
  | .div => wordDiv | .idiv => wordIdiv
def single : SingleOp → AluState → AluState
  | .aaa => aaa | .aad => aad | .aam => aam | .aas => aas | .daa => daa | .das => das | .cbw => cbw | .cwd => cwd

def Machine.alu (m : Machine) : AluState := ⟨m.flag, m.ax, m.dx⟩
def Machine.withAlu (m : Machine) (s : AluState) : Machine := { m with flag := s.flag, ax := s.ax, dx := s.dx }

/-- the stack slot: `Address::calculate_from_offset(ss, sp)` -/
def Machine.stackTop (m : Machine) : Nat := calcAddr m.ss.toNat m.sp.toNat

/-- `jumps_condition`: the CX prelude of the LOOP family and the predicate -/
def jumpCond (m : Machine) : JmpOp → Machine × Bool
  | .jmp => (m, true)
  | .ja => (m, !getFlag m.flag .CARRY && !getFlag m.flag .ZERO)
  | .jae => (m, !getFlag m.flag .CARRY)
  | .jb => (m, getFlag m.flag .CARRY)
  | .jbe => (m, getFlag m.flag .CARRY || getFlag m.flag .ZERO)
  | .jc => (m, getFlag m.flag .CARRY)
  | .je => (m, getFlag m.flag .ZERO)
  | .jg => (m, !getFlag m.flag .ZERO && (getFlag m.flag .SIGN == getFlag m.flag .OVERFLOW))
  | .jge => (m, getFlag m.flag .SIGN == getFlag m.flag .OVERFLOW)
  | .jl => (m, getFlag m.flag .SIGN != getFlag m.flag .OVERFLOW)
  | .jle => (m, getFlag m.flag .ZERO && (getFlag m.flag .SIGN != getFlag m.flag .OVERFLOW))
  | .jnc => (m, !getFlag m.flag .CARRY)
  | .jne => (m, !getFlag m.flag .ZERO)
  | .jno => (m, !getFlag m.flag .OVERFLOW)
  | .jnp => (m, !getFlag m.flag .PARITY)
  | .jns => (m, !getFlag m.flag .SIGN)
  | .jo => (m, getFlag m.flag .OVERFLOW)
  | .jp => (m, getFlag m.flag .PARITY)
  | .js => (m, getFlag m.flag .SIGN)
  | .jcxz => (m, m.cx == 0#16)
  | .loop => let m := { m with cx := m.cx - 1#16 }; (m, m.cx != 0#16)
  | .loope => let m := { m with cx := m.cx - 1#16 }; (m, m.cx != 0#16 && getFlag m.flag .ZERO)
  | .loopne => let m := { m with cx := m.cx - 1#16 }; (m, m.cx != 0#16 && !getFlag m.flag .ZERO)

/-- execute one instruction: `Interpreter::parse(current, vm, context, line)` after parsing -/
def exec (cur : Nat) (m : Machine) (ctx : Ctx) : Instr → Except String (State × Machine × Ctx)
  | .print => .ok (.PRINT, m, ctx)
  | .mov8 d s => do
    let ld ← resolve8 m ctx d; let ls ← resolve8 m ctx s
    .ok (.NEXT, m.store8 ld (m.load8 ls), ctx)
  | .mov16 d s => do
    let ld ← resolve16 m ctx d; let ls ← resolve16 m ctx s
    .ok (.NEXT, m.store16 ld (m.load16 ls), ctx)
  | .lahf => .ok (.NEXT, m.setByteReg .AH (m.flag.setWidth 8), ctx)
  | .sahf => .ok (.NEXT, { m with flag := (m.flag &&& 0xFF00#16) ||| (m.getByteReg .AH).setWidth 16 }, ctx)
  | .pushf =>
    let m := { m with sp := m.sp - 2#16 }
    .ok (.NEXT, m.writeWord m.stackTop m.flag, ctx)
  | .popf =>
    let v := m.readWord m.stackTop
    .ok (.NEXT, { m with flag := v, sp := m.sp + 2#16 }, ctx)
  | .xlat =>
    let al := m.getByteReg .AL
    let v := m.readByte (calcAddr m.ds.toNat (m.bx + al.setWidth 16).toNat)
    .ok (.NEXT, m.setByteReg .AL v, ctx)
  | .xchg8 d r => do
    let ld ← resolve8 m ctx d
    let a := m.load8 ld          -- value of the first operand
    let b := m.getByteReg r
    match ld with
    | .reg8 r1 =>
      -- new_r1 = get(r2); new_r2 = get(r1); set(r1,new_r1); set(r2,new_r2)
      .ok (.NEXT, (m.setByteReg r1 b).setByteReg r a, ctx)
    | _ =>
      -- new_reg = mem; new_mem = reg; set(reg,new_reg); mem = new_mem
      .ok (.NEXT, (m.setByteReg r a).store8 ld b, ctx)
  | .xchg16 d r => do
    let ld ← resolve16 m ctx d
    let a := m.load16 ld
    let b := m.getWordReg r
    match ld with
    | .reg16 r1 => .ok (.NEXT, (m.setWordReg r1 b).setWordReg r a, ctx)
    | _ => .ok (.NEXT, (m.setWordReg r a).store16 ld b, ctx)
  | .pop d => do
    let ld ← resolve16 m ctx d
    let v := m.readWord m.stackTop
    let m := { m with sp := m.sp + 2#16 }
    .ok (.NEXT, m.store16 ld v, ctx)
  | .push s => do
    let ls ← resolve16 m ctx s
    let m := { m with sp := m.sp - 2#16 }
    -- registers are read AFTER the decrement (`push sp` stores the new SP); memory operands were
    -- resolved before it (their address does not depend on SP)
    let v := m.load16 ls
    .ok (.NEXT, m.writeWord m.stackTop v, ctx)
  | .lea r s => do
    let ls ← resolve16 m ctx s
    match ls with
    | .mem a =>
      -- (m as isize - ds as isize * 0x10) as usize as u16
      let off : BitVec 16 := BitVec.ofInt 16 ((a : Int) - (m.ds.toNat : Int) * 16)
      .ok (.NEXT, m.setWordReg r off, ctx)
    | _ => .error "lea: not a memory operand"
  | .arith8 f d s => do
    let ld ← resolve8 m ctx d; let ls ← resolve8 m ctx s
    let (res, fl) := arith8 f m.flag (m.load8 ld) (m.load8 ls)
    .ok (.NEXT, ({ m with flag := fl }).store8 ld res, ctx)
  | .arith16 f d s => do
    let ld ← resolve16 m ctx d; let ls ← resolve16 m ctx s
    let (res, fl) := arith16 f m.flag (m.load16 ld) (m.load16 ls)
    .ok (.NEXT, ({ m with flag := fl }).store16 ld res, ctx)
  | .unary8 f d => do
    let ld ← resolve8 m ctx d
    let old := m.load8 ld
    match unary8 f m.alu old with
    | none => .ok (.INT 0#8, m, ctx)
    | some (s, v) =>
      let m := m.withAlu s
      -- register operands are written back only when the value changed (MUL/DIV keep AX/DX);
      -- memory operands are always written back
      match ld with
      | .reg8 _ => .ok (.NEXT, if v != old then m.store8 ld v else m, ctx)
      | _ => .ok (.NEXT, m.store8 ld v, ctx)
  | .unary16 f d => do
    let ld ← resolve16 m ctx d
    let old := m.load16 ld
    match unary16 f m.alu old with
    | none => .ok (.INT 0#8, m, ctx)
    | some (s, v) =>
      let m := m.withAlu s
      match ld with
      | .reg16 _ => .ok (.NEXT, if v != old then m.store16 ld v else m, ctx)
      | _ => .ok (.NEXT, m.store16 ld v, ctx)
  | .single f => .ok (.NEXT, m.withAlu (single f m.alu), ctx)
  | .str p op word =>
    match p with
    | none => .ok (.NEXT, strStep op word m, ctx)
    | some pre =>
      if m.cx == 0#16 then .ok (.NEXT, m, ctx) else
      let m := strStep op word m
      let m := { m with cx := m.cx - 1#16 }
      match pre with
      | .rep => .ok (.REPEAT, m, ctx)
      | .repz => .ok (if m.flag &&& Flag.ZERO.mask != 0#16 then .REPEAT else .NEXT, m, ctx)
      | .repnz => .ok (if m.flag &&& Flag.ZERO.mask == 0#16 then .REPEAT else .NEXT, m, ctx)
  | .not8 d => do
    let ld ← resolve8 m ctx d
    .ok (.NEXT, m.store8 ld (~~~ (m.load8 ld)), ctx)
  | .not16 d => do
    let ld ← resolve16 m ctx d
    .ok (.NEXT, m.store16 ld (~~~ (m.load16 ld)), ctx)
  | .logic8 f d s => do
    let ld ← resolve8 m ctx d; let ls ← resolve8 m ctx s
    let (res, fl) := logic8 f m.flag (m.load8 ld) (m.load8 ls)
    .ok (.NEXT, ({ m with flag := fl }).store8 ld res, ctx)
  | .logic16 f d s => do
    let ld ← resolve16 m ctx d; let ls ← resolve16 m ctx s
    let (res, fl) := logic16 f m.flag (m.load16 ld) (m.load16 ls)
    .ok (.NEXT, ({ m with flag := fl }).store16 ld res, ctx)
  | .shift8 f d cnt => do
    let ld ← resolve8 m ctx d
    let n := match cnt with | some n => n | none => m.getByteReg .CL
    let (res, fl) := shift8 f m.flag (m.load8 ld) n
    .ok (.NEXT, ({ m with flag := fl }).store8 ld res, ctx)
  | .shift16 f d cnt => do
    let ld ← resolve16 m ctx d
    let n := match cnt with | some n => n | none => m.getByteReg .CL
    let (res, fl) := shift16 f m.flag (m.load16 ld) (n.setWidth 16)
    .ok (.NEXT, ({ m with flag := fl }).store16 ld res, ctx)
  | .call name =>
    match ctx.fnMap.lookup name with
    | some pos => .ok (.JMP pos, m, { ctx with callStack := ctx.callStack ++ [cur + 1] })
    | none => .error s!"Internal Error : call to undefined procedure {name}"
  | .ret =>
    match ctx.callStack.getLast? with
    | some p => .ok (.JMP p, m, { ctx with callStack := ctx.callStack.dropLast })
    | none => .error "Error : ret is encountered without corresponding call"
  | .jcc j name =>
    let (m, take) := jumpCond m j
    match ctx.labelMap.lookup name with
    | some l => match l.type with
      | .DATA => .error s!"Internal Error : jump to data type label {name}"
      | .CODE => .ok (if take then .JMP l.map else .NEXT, m, ctx)
    | none => .error s!"Internal Error : jump to undefined label {name}"
  | .int n =>
    if n == 3#8 || n == 0x10#8 || n == 0x21#8 then .ok (.INT n, m, ctx)
    else .error s!"Internal Error : int does not support {n.toNat}"
  | .ctl c =>
    match c with
    | .stc => .ok (.NEXT, { m with flag := setFlag m.flag .CARRY }, ctx)
    | .clc => .ok (.NEXT, { m with flag := unsetFlag m.flag .CARRY }, ctx)
    | .cmc => .ok (.NEXT, { m with flag := if m.flag &&& Flag.CARRY.mask != 0#16 then m.flag &&& ~~~ Flag.CARRY.mask
                                             else m.flag ||| Flag.CARRY.mask }, ctx)
    | .std => .ok (.NEXT, { m with flag := setFlag m.flag .DIRECTION }, ctx)
    | .cld => .ok (.NEXT, { m with flag := unsetFlag m.flag .DIRECTION }, ctx)
    | .sti => .ok (.NEXT, { m with flag := setFlag m.flag .INTERRUPT }, ctx)
    | .cli => .ok (.NEXT, { m with flag := unsetFlag m.flag .INTERRUPT }, ctx)
    | .hlt => .ok (.HALT, m, ctx)
    | .nop => .ok (.NEXT, m, ctx)

end Emu8086
