/-
Model of src/lib/instructions/arithmetic.rs — one Lean function per Rust function, same order of
effects.  `fn f(vm:&mut VM, op1, op2) -> res` becomes `f fl op1 op2 = (res, fl')`; the unary family
(`fn f(vm, &mut val) -> Result<(), DivByZero>`) additionally threads AX and DX because MUL/DIV write
them: `f s val = some (s', val')` or `none` for `Err(DivByZero)`.

Rust casts: `x as u16` (from u8) = `setWidth 16`, `x as i8 as i16` = `signExtend 16`,
`x as u8` (from wider) = `setWidth 8`.  Arithmetic on widened values cannot overflow in the Rust
code that exists today (checked by the correspondence run in the overflow-checking dev profile), so
plain BitVec arithmetic is used.
-/
import Emu8086.Model.Flags

namespace Emu8086

/-- the part of the machine the unary arithmetic functions read and write besides `val` -/
structure AluState where
  flag : BitVec 16
  ax : BitVec 16
  dx : BitVec 16
  deriving DecidableEq, Repr, Inhabited

def getAL (ax : BitVec 16) : BitVec 8 := (ax &&& 255#16).setWidth 8
def getAH (ax : BitVec 16) : BitVec 8 := ((ax &&& ~~~ 255#16) >>> 8).setWidth 8
def setAL (ax : BitVec 16) (v : BitVec 8) : BitVec 16 := (ax &&& ~~~ 255#16) ||| v.setWidth 16
def setAH (ax : BitVec 16) (v : BitVec 8) : BitVec 16 := (ax &&& 255#16) ||| (v.setWidth 16 <<< 8)

/-! ### binary byte -/

def byteAdd (fl : BitVec 16) (op1 op2 : BitVec 8) : BitVec 8 × BitVec 16 :=
  let temp : BitVec 16 := op1.setWidth 16 + op2.setWidth 16
  let res := temp.setWidth 8
  let seventh := (op1 &&& 0x7f#8) + (op2 &&& 0x7f#8) > 0x7f#8
  let eighth := temp > 255#16
  (res, setAllFlags fl
    { zero := res == 0#8, overflow := (decide seventh) ^^ (decide eighth), parity := hasEvenParity res,
      sign := res &&& 0x80#8 != 0#8, carry := decide eighth,
      auxillary := decide ((op1 &&& 0xF#8) + (op2 &&& 0xF#8) > 0x0F#8) })

def byteAdc (fl : BitVec 16) (op1 op2 : BitVec 8) : BitVec 8 × BitVec 16 :=
  let c := getFlag fl .CARRY
  let temp : BitVec 16 := op1.setWidth 16 + op2.setWidth 16
  let temp := if c then temp + 1#16 else temp
  let carry : BitVec 8 := if c then 1#8 else 0#8
  let seventh := (op1 &&& 0x7f#8) + (op2 &&& 0x7f#8) + carry > 0x7f#8
  let eighth := temp > 255#16
  let res := temp.setWidth 8
  (res, setAllFlags fl
    { zero := res == 0#8, overflow := (decide seventh) ^^ (decide eighth), parity := hasEvenParity res,
      sign := res &&& 0x80#8 != 0#8, carry := decide eighth,
      auxillary := decide ((op1 &&& 0xF#8) + (op2 &&& 0xF#8) + carry > 0xF#8) })

def byteSub (fl : BitVec 16) (op1 op2 : BitVec 8) : BitVec 8 × BitVec 16 :=
  let temp : BitVec 16 := op1.setWidth 16 - op2.setWidth 16
  let res := temp.setWidth 8
  let seventh := (op1 &&& 0x7F#8) < (op2 &&& 0x7F#8)
  let eighth := op1 < op2
  (res, setAllFlags fl
    { zero := res == 0#8, overflow := (decide seventh) ^^ (decide eighth), parity := hasEvenParity res,
      sign := res &&& 0x80#8 != 0#8, carry := decide eighth,
      auxillary := decide ((op1 &&& 0xF#8) < (op2 &&& 0xF#8)) })

def byteSbb (fl : BitVec 16) (op1 op2 : BitVec 8) : BitVec 8 × BitVec 16 :=
  let c := getFlag fl .CARRY
  let temp : BitVec 16 := op1.setWidth 16 - op2.setWidth 16
  let temp := if c then temp - 1#16 else temp
  let borrow : BitVec 8 := if c then 1#8 else 0#8
  let res := temp.setWidth 8
  let seventh := (op1 &&& 0x7F#8) < (op2 &&& 0x7F#8) + borrow
  let eighth := op1.setWidth 16 < op2.setWidth 16 + borrow.setWidth 16
  (res, setAllFlags fl
    { zero := res == 0#8, overflow := (decide seventh) ^^ (decide eighth), parity := hasEvenParity res,
      sign := res &&& 0x80#8 != 0#8, carry := decide eighth,
      auxillary := decide ((op1 &&& 0xF#8) < (op2 &&& 0xF#8) + borrow) })

def byteCmp (fl : BitVec 16) (op1 op2 : BitVec 8) : BitVec 8 × BitVec 16 :=
  (op1, (byteSub fl op1 op2).2)

/-! ### binary word -/

def wordAdd (fl : BitVec 16) (op1 op2 : BitVec 16) : BitVec 16 × BitVec 16 :=
  let temp : BitVec 32 := op1.setWidth 32 + op2.setWidth 32
  let res := temp.setWidth 16
  let fifteenth := (op1 &&& 0x7fff#16) + (op2 &&& 0x7fff#16) > 0x7fff#16
  let sixteenth := temp > 65535#32
  (res, setAllFlags fl
    { zero := res == 0#16, overflow := (decide fifteenth) ^^ (decide sixteenth),
      parity := hasEvenParity (res.setWidth 8),
      sign := res &&& 0x8000#16 != 0#16, carry := decide sixteenth,
      auxillary := decide ((op1 &&& 0xF#16) + (op2 &&& 0xF#16) > 0xF#16) })

def wordAdc (fl : BitVec 16) (op1 op2 : BitVec 16) : BitVec 16 × BitVec 16 :=
  let c := getFlag fl .CARRY
  let temp : BitVec 32 := op1.setWidth 32 + op2.setWidth 32
  let temp := if c then temp + 1#32 else temp
  let carry : BitVec 16 := if c then 1#16 else 0#16
  let res := temp.setWidth 16
  let fifteenth := (op1 &&& 0x7fff#16) + (op2 &&& 0x7fff#16) + carry > 0x7fff#16
  let sixteenth := temp > 65535#32
  (res, setAllFlags fl
    { zero := res == 0#16, overflow := (decide fifteenth) ^^ (decide sixteenth),
      parity := hasEvenParity (res.setWidth 8),
      sign := res &&& 0x8000#16 != 0#16, carry := decide sixteenth,
      auxillary := decide ((op1 &&& 0xF#16) + (op2 &&& 0xF#16) + carry > 0xF#16) })

def wordSub (fl : BitVec 16) (op1 op2 : BitVec 16) : BitVec 16 × BitVec 16 :=
  let temp : BitVec 32 := op1.setWidth 32 - op2.setWidth 32
  let res := temp.setWidth 16
  let fifteenth := (op1 &&& 0x7fff#16) < (op2 &&& 0x7fff#16)
  let sixteenth := op1 < op2
  (res, setAllFlags fl
    { zero := res == 0#16, overflow := (decide fifteenth) ^^ (decide sixteenth),
      parity := hasEvenParity (res.setWidth 8),
      sign := res &&& 0x8000#16 != 0#16, carry := decide sixteenth,
      auxillary := decide ((op1 &&& 0xF#16) < (op2 &&& 0xF#16)) })

def wordSbb (fl : BitVec 16) (op1 op2 : BitVec 16) : BitVec 16 × BitVec 16 :=
  let c := getFlag fl .CARRY
  let temp : BitVec 32 := op1.setWidth 32 - op2.setWidth 32
  let temp := if c then temp - 1#32 else temp
  let borrow : BitVec 16 := if c then 1#16 else 0#16
  let res := temp.setWidth 16
  let fifteenth := (op1 &&& 0x7fff#16) < (op2 &&& 0x7fff#16) + borrow
  let sixteenth := op1.setWidth 32 < op2.setWidth 32 + borrow.setWidth 32
  (res, setAllFlags fl
    { zero := res == 0#16, overflow := (decide fifteenth) ^^ (decide sixteenth),
      parity := hasEvenParity (res.setWidth 8),
      sign := res &&& 0x8000#16 != 0#16, carry := decide sixteenth,
      auxillary := decide ((op1 &&& 0xF#16) < (op2 &&& 0xF#16) + borrow) })

def wordCmp (fl : BitVec 16) (op1 op2 : BitVec 16) : BitVec 16 × BitVec 16 :=
  (op1, (wordSub fl op1 op2).2)

/-! ### unary family (`ByteOpUnary` / `WordOpUnary`) -/

def byteDec (s : AluState) (val : BitVec 8) : Option (AluState × BitVec 8) :=
  let carry := getFlag s.flag .CARRY
  let (r, fl) := byteSub s.flag val 1#8
  some ({ s with flag := putFlag fl .CARRY carry }, r)

def byteInc (s : AluState) (val : BitVec 8) : Option (AluState × BitVec 8) :=
  let (r, fl) := byteAdd s.flag val 1#8
  some ({ s with flag := fl }, r)

def byteNeg (s : AluState) (val : BitVec 8) : Option (AluState × BitVec 8) :=
  let fl := s.flag
  let isMin := val == 0x80#8
  let res := if isMin then val else (~~~ val) + 1#8
  let fl := putFlag fl .OVERFLOW isMin
  let fl := putFlag fl .AUX_CARRY (val &&& 0xF#8 != 0#8)
  let signChange := if val == 0#8 then getFlag fl .SIGN else decide (res ≥ 0x80#8)
  let fl := putFlag fl .CARRY (!(val == 0#8))
  let fl := setFlagHelper fl signChange (res == 0#8) (hasEvenParity res)
  some ({ s with flag := fl }, res)

def byteMul (s : AluState) (val : BitVec 8) : Option (AluState × BitVec 8) :=
  let al := getAL s.ax
  let res : BitVec 16 := al.setWidth 16 * val.setWidth 16
  let ah := (res >>> 8).setWidth 8
  let c := !(ah == 0#8)
  let fl := putFlag s.flag .CARRY c
  let fl := putFlag fl .OVERFLOW c
  some ({ s with flag := fl, ax := res }, val)

def byteImul (s : AluState) (val : BitVec 8) : Option (AluState × BitVec 8) :=
  let al := getAL s.ax
  let res : BitVec 16 := al.signExtend 16 * val.signExtend 16
  let ah := getAH s.ax      -- the OLD AH (pinned by the test-suite; open finding KF-IMUL8-FLAGS)
  let c := !(ah == 255#8)
  let fl := putFlag s.flag .CARRY c
  let fl := putFlag fl .OVERFLOW c
  some ({ s with flag := fl, ax := res }, val)

def byteDiv (s : AluState) (val : BitVec 8) : Option (AluState × BitVec 8) :=
  if val == 0#8 then none else
  let dividend := s.ax
  let quotient := dividend / val.setWidth 16
  let remainder := dividend % val.setWidth 16
  if quotient > 255#16 then none else
  let ax := setAH s.ax (remainder.setWidth 8)
  let ax := setAL ax (quotient.setWidth 8)
  some ({ s with ax := ax }, val)

def byteIdiv (s : AluState) (val : BitVec 8) : Option (AluState × BitVec 8) :=
  if val == 0#8 then none else
  let dividend : BitVec 32 := s.ax.signExtend 32
  let d : BitVec 32 := val.signExtend 32
  let quotient := dividend.sdiv d
  let remainder := dividend.srem d
  if quotient.slt (-128#32) || (127#32).slt quotient then none else
  let ax := setAH s.ax (remainder.setWidth 8)
  let ax := setAL ax (quotient.setWidth 8)
  some ({ s with ax := ax }, val)

def wordDec (s : AluState) (val : BitVec 16) : Option (AluState × BitVec 16) :=
  let carry := getFlag s.flag .CARRY
  let (r, fl) := wordSub s.flag val 1#16
  some ({ s with flag := putFlag fl .CARRY carry }, r)

def wordInc (s : AluState) (val : BitVec 16) : Option (AluState × BitVec 16) :=
  let (r, fl) := wordAdd s.flag val 1#16
  some ({ s with flag := fl }, r)

def wordNeg (s : AluState) (val : BitVec 16) : Option (AluState × BitVec 16) :=
  let fl := s.flag
  let isMin := val == 0x8000#16
  let res := if isMin then val else (~~~ val) + 1#16
  let fl := putFlag fl .OVERFLOW isMin
  let fl := putFlag fl .AUX_CARRY (val &&& 0xF#16 != 0#16)
  let signChange := if val == 0#16 then getFlag fl .SIGN else decide (res ≥ 0x8000#16)
  let fl := putFlag fl .CARRY (!(val == 0#16))
  let fl := setFlagHelper fl signChange (res == 0#16) (hasEvenParity (res.setWidth 8))
  some ({ s with flag := fl }, res)

def wordMul (s : AluState) (val : BitVec 16) : Option (AluState × BitVec 16) :=
  let res : BitVec 32 := s.ax.setWidth 32 * val.setWidth 32
  let upper := ((res &&& 0xFFFF0000#32) >>> 16).setWidth 16
  let c := !(upper == 0#16)
  let fl := putFlag s.flag .CARRY c
  let fl := putFlag fl .OVERFLOW c
  some ({ flag := fl, ax := (res &&& 0x0000FFFF#32).setWidth 16, dx := upper }, val)

def wordImul (s : AluState) (val : BitVec 16) : Option (AluState × BitVec 16) :=
  let res : BitVec 32 := s.ax.signExtend 32 * val.signExtend 32
  let upper := ((res &&& 0xFFFF0000#32) >>> 16).setWidth 16
  let c := !(res == (res.setWidth 16).signExtend 32)
  let fl := putFlag s.flag .CARRY c
  let fl := putFlag fl .OVERFLOW c
  some ({ flag := fl, ax := (res &&& 0x0000FFFF#32).setWidth 16, dx := upper }, val)

def wordDiv (s : AluState) (val : BitVec 16) : Option (AluState × BitVec 16) :=
  if val == 0#16 then none else
  let dividend : BitVec 32 := (s.dx.setWidth 32 <<< 16) ||| s.ax.setWidth 32
  let quotient := dividend / val.setWidth 32
  let remainder := dividend % val.setWidth 32
  if quotient > 65535#32 then none else
  some ({ s with ax := quotient.setWidth 16, dx := remainder.setWidth 16 }, val)

def wordIdiv (s : AluState) (val : BitVec 16) : Option (AluState × BitVec 16) :=
  if val == 0#16 then none else
  let dividend : BitVec 64 := ((s.dx.setWidth 32 <<< 16) ||| s.ax.setWidth 32).signExtend 64
  let d : BitVec 64 := val.signExtend 64
  let quotient := dividend.sdiv d
  let remainder := dividend.srem d
  if quotient.slt (-32768#64) || (32767#64).slt quotient then none else
  some ({ s with ax := quotient.setWidth 16, dx := remainder.setWidth 16 }, val)

/-! ### singleton arithmetic (operate on AX/DX/flags only) -/

def aaa (s : AluState) : AluState :=
  let al := getAL s.ax
  let c := (al &&& 0x0F#8) > 9#8 || getFlag s.flag .AUX_CARRY
  -- then-branch
  let ax1 := setAL s.ax (((al.setWidth 16 + 6#16) &&& 0x0F#16).setWidth 8)
  let ah := getAH ax1
  let ax1 := setAH ax1 ((ah.setWidth 16 + 1#16).setWidth 8)
  -- else-branch
  let ax2 := setAL s.ax (al &&& 0x0F#8)
  { s with ax := if c then ax1 else ax2,
           flag := if c then setFlag (setFlag s.flag .AUX_CARRY) .CARRY
                   else unsetFlag (unsetFlag s.flag .AUX_CARRY) .CARRY }

def aad (s : AluState) : AluState :=
  let al := getAL s.ax
  let ah := getAH s.ax
  let res := ((ah.setWidth 16 * 10#16) + al.setWidth 16).setWidth 8
  let ax := setAL s.ax res
  let ax := setAH ax 0#8
  { s with ax := ax, flag := setFlagHelper s.flag (decide (res ≥ 0x80#8)) (res == 0#8) (hasEvenParity res) }

def aam (s : AluState) : AluState :=
  let al := getAL s.ax
  let ax := setAH s.ax (al / 10#8)
  let ax := setAL ax (al % 10#8)
  let res := al % 10#8
  { s with ax := ax, flag := setFlagHelper s.flag (decide (res ≥ 0x80#8)) (res == 0#8) (hasEvenParity res) }

def aas (s : AluState) : AluState :=
  let al := getAL s.ax
  let c := (al &&& 0x0F#8) > 9#8 || getFlag s.flag .AUX_CARRY
  let ah := getAH s.ax
  let ax1 := setAL s.ax ((al.setWidth 16 - 6#16).setWidth 8 &&& 0x0F#8)
  let ax1 := setAH ax1 ((ah.setWidth 16 - 1#16).setWidth 8)
  let ax2 := setAL s.ax (al &&& 0x0F#8)
  { s with ax := if c then ax1 else ax2,
           flag := if c then setFlag (setFlag s.flag .AUX_CARRY) .CARRY
                   else unsetFlag (unsetFlag s.flag .AUX_CARRY) .CARRY }

def daa (s : AluState) : AluState :=
  let al := getAL s.ax
  let c1 := (al &&& 0x0F#8) > 9#8 || getFlag s.flag .AUX_CARRY
  let ax := if c1 then setAL s.ax ((al.setWidth 16 + 6#16).setWidth 8) else s.ax
  let fl := if c1 then setFlag s.flag .AUX_CARRY else unsetFlag s.flag .AUX_CARRY
  let al := getAL ax
  let c2 := al > 0x9F#8 || getFlag fl .CARRY
  let temp := al.setWidth 16 + 0x60#16
  let overflow := c2 && decide (temp > 255#16)
  let ax := if c2 then setAL ax (temp.setWidth 8) else ax
  let fl := if c2 then setFlag fl .CARRY else unsetFlag fl .CARRY
  let res := getAL ax
  let fl := setFlagHelper fl (decide (res ≥ 0x80#8)) (res == 0#8) (hasEvenParity res)
  { s with ax := ax, flag := putFlag fl .OVERFLOW overflow }

def das (s : AluState) : AluState :=
  let al := getAL s.ax
  let c1 := (al &&& 0x0F#8) > 9#8 || getFlag s.flag .AUX_CARRY
  let ax := if c1 then setAL s.ax ((al.setWidth 16 - 6#16).setWidth 8) else s.ax
  let fl := if c1 then setFlag s.flag .AUX_CARRY else unsetFlag s.flag .AUX_CARRY
  let al := getAL ax
  let c2 := al > 0x9F#8 || getFlag fl .CARRY
  let ax := if c2 then setAL ax ((al.setWidth 16 - 0x60#16).setWidth 8) else ax
  let fl := if c2 then setFlag fl .CARRY else unsetFlag fl .CARRY
  let res := getAL ax
  { s with ax := ax, flag := setFlagHelper fl (decide (res ≥ 0x80#8)) (res == 0#8) (hasEvenParity res) }

def cbw (s : AluState) : AluState :=
  let al := getAL s.ax
  { s with ax := if al &&& 0x80#8 != 0#8 then setAH s.ax 255#8 else setAH s.ax 0#8 }

def cwd (s : AluState) : AluState :=
  { s with dx := if s.ax &&& 0x8000#16 != 0#16 then 0xFFFF#16 else 0#16 }

end Emu8086
