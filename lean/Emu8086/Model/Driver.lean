/-
Model of the binary crate: src/bin.rs (after argument parsing), src/driver/driver.rs (`CMDDriver::run`),
preprocess.rs, error_helper.rs + lexer_helper.rs (diagnostic positions), print.lalrpop (print reg /
flags / mem), interrupts.rs (INT 10h / 21h services), user_interface.rs (the prompt).

`runCLI src stdin interpreted fuel` is the whole run: stdout text, exit status, and — when the run
loop was reached — the executed-instruction trace and the final machine (what the verification hook
of the real driver dumps).  stdin is a list of lines as `read_line` returns them (terminator
included, the last one possibly without); stdout is a String (the model only prints valid UTF-8).

Not modelled: which token the generated LR parser blames for a syntax error and the list of
expected tokens (the text after `Syntax Error` is then not predicted), `clap`, file reading.
-/
import Emu8086.Model.Asm
import Emu8086.Model.Loader
import Emu8086.Model.ILex

namespace Emu8086.Driver
open Emu8086

/-! ### comment stripping: `Regex::new(r";.*\n?").replace_all(input, "\n")` -/
def stripAux : Bool → List Char → List Char
  | _, [] => []
  | false, ';' :: cs => '\n' :: stripAux true cs
  | false, c :: cs => c :: stripAux false cs
  | true, '\n' :: cs => stripAux false cs
  | true, _ :: cs => stripAux true cs
def stripComments (cs : List Char) : List Char := stripAux false cs

def ensureNewline (cs : List Char) : List Char :=
  if cs.getLast? == some '\n' then cs else cs ++ ['\n']

/-! ### LexerHelper / get_err_pos (positions are byte offsets into the uncommented text) -/
/-- chars with their byte offsets (LALRPOP positions and, since the repair, LexerHelper positions are
    byte offsets of the UTF-8 text) -/
def withOffsetsFrom : Nat → List Char → List (Char × Nat)
  | _, [] => []
  | n, c :: cs => (c, n) :: withOffsetsFrom (n + c.utf8Size) cs
def withOffsets (cs : List Char) : List (Char × Nat) := withOffsetsFrom 0 cs

def newlineList (cs : List Char) : List Nat :=
  (withOffsets cs).filterMap fun (c, i) => if c == '\n' then some i else none

/-- `get_newline_before(i)`: (index, position) of the first newline after `i`; the last one if none -/
def getNewlineBefore (nl : List Nat) (i : Nat) : Option (Nat × Nat) :=
  match (nl.zipIdx).find? (fun (v, _) => v > i) with
  | some (v, idx) => some (idx, v)
  | none => match nl.getLast? with
    | some v => some (nl.length, v)
    | none => none          -- `newline_list[max - 1]` with an empty list: abort

/-- `get_bounds(pos)` -/
def getBounds (nl : List Nat) (pos : Nat) : Option (Nat × Nat) :=
  let i := (nl.zipIdx).foldl (fun (acc : Nat × Bool) (p : Nat × Nat) =>
      if acc.2 then acc else if p.1 > pos then (acc.1, true) else (p.2, false)) (0, false)
  let i := i.1
  if i == 0 then nl.head?.map fun v => (0, v)
  else match nl[i - 1]?, nl[i]? with
    | some a, some b => some (a + 1, b)
    | _, _ => none

/-- `get_err_pos(l, pos)` = (1-based line number, start, end of the line) -/
def getErrPos (nl : List Nat) (pos : Nat) : Option (Nat × Nat × Nat) :=
  match getNewlineBefore nl pos with
  | none => none
  | some (line, p) =>
    match getBounds nl p with
    | none => none
    | some (s, e) => some (line + 1, s, e)

def sliceStr (cs : List Char) (a b : Nat) : String :=
  String.ofList (((withOffsets cs).filter fun (_, i) => a ≤ i && i < b).map (·.1))

/-! ### print commands (print.lalrpop) -/
def hexDigitU (n : Nat) : Char := if n < 10 then Char.ofNat (48 + n) else Char.ofNat (55 + n)
def hex2 (n : Nat) : String := String.ofList [hexDigitU (n / 16 % 16), hexDigitU (n % 16)]
def hex4 (n : Nat) : String := String.ofList [hexDigitU (n / 4096 % 16), hexDigitU (n / 256 % 16), hexDigitU (n / 16 % 16), hexDigitU (n % 16)]

def printFlags (m : Machine) : String :=
  let b := fun (f : Flag) => if getFlag m.flag f then "1" else "0"
  s!"OF : {b .OVERFLOW}\tDF : {b .DIRECTION}\tIF : {b .INTERRUPT}\tTF : {b .TRAP}\tSF : {b .SIGN}\t ZF : {b .ZERO}\tAF : {b .AUX_CARRY}\tPF : {b .PARITY}\tCF : {b .CARRY}\n"

def printReg (m : Machine) : String :=
  let h := fun (x : BitVec 16) => hex4 x.toNat
  s!"AX : 0x{h m.ax}\t\tSP : 0x{h m.sp}\n" ++ s!"BX : 0x{h m.bx}\t\tBP : 0x{h m.bp}\n" ++
  s!"CX : 0x{h m.cx}\t\tSI : 0x{h m.si}\n" ++ s!"DX : 0x{h m.dx}\t\tDI : 0x{h m.di}\n" ++ "\n" ++
  s!"CS : 0x{h m.cs}\t\tSS : 0x{h m.ss}\n" ++ s!"DS : 0x{h m.ds}\t\tES : 0x{h m.es}\n"

/-- the cells a memory dump shows: the bytes of the inclusive range `start..=end`, in address order -/
def dumpCells (m : Machine) (start stop : Nat) : List (BitVec 8) :=
  (List.range (stop + 1 - start)).map fun k => m.readByte (start + k)

/-- the layout loop shared by the three `print mem` forms: two upper-case hex digits and a tab per
    cell, an extra tab after every 8th, a line break after every 16th and at the end of a partial row -/
def renderCells (cells : List (BitVec 8)) : String :=
  let (s, ctr) := cells.foldl (fun (acc : String × Nat) b =>
    let (s, ctr) := acc
    let s := s ++ hex2 b.toNat ++ "\t"
    let s := if (ctr + 1) % 8 == 0 then s ++ "\t" else s
    let s := if (ctr + 1) % 16 == 0 then s ++ "\n" else s
    (s, (ctr + 1) % 16)) ("", 0)
  if ctr != 0 then s ++ "\n" else s

def dumpRange (m : Machine) (start stop : Nat) : String := renderCells (dumpCells m start stop)

inductive PrintCmd where
  | flags | reg | range (a b : Nat) | span (a n : Nat) | dsSpan (n : Nat)
  deriving Repr, Inhabited, DecidableEq

/-- the lexer LALRPOP generates for print.lalrpop: white space is skipped; the only terminals are the
    literals `print flags reg mem -> :` and `[0-9]+` (so `printreg` is the two tokens `print` `reg`) -/
def lexP : Nat → List Char → List Tok → Option (List Tok)
  | 0, _, _ => none
  | _, [], acc => some acc.reverse
  | fuel+1, c :: cs, acc =>
    if isSpace c then lexP fuel cs acc
    else if c.isDigit then
      lexP fuel ((c :: cs).dropWhile Char.isDigit) (Tok.num (String.ofList ((c :: cs).takeWhile Char.isDigit)) :: acc)
    else match c :: cs with
      | 'p' :: 'r' :: 'i' :: 'n' :: 't' :: rest => lexP fuel rest (Tok.kw "print" :: acc)
      | 'f' :: 'l' :: 'a' :: 'g' :: 's' :: rest => lexP fuel rest (Tok.kw "flags" :: acc)
      | 'r' :: 'e' :: 'g' :: rest => lexP fuel rest (Tok.kw "reg" :: acc)
      | 'm' :: 'e' :: 'm' :: rest => lexP fuel rest (Tok.kw "mem" :: acc)
      | '-' :: '>' :: rest => lexP fuel rest (Tok.arrow :: acc)
      | ':' :: rest => lexP fuel rest (Tok.colon :: acc)
      | _ => none

def lexPrint (s : String) : Option (List Tok) :=
  let cs := s.toList
  lexP (cs.length + 1) cs []

/-- PrintParser's language: literals print flags reg mem -> : and `[0-9]+` (usize, then `% MB`) -/
def parsePrint (line : String) : Option PrintCmd :=
  match lexPrint line with
  | none => none
  | some toks =>
    -- exactly the token shapes of print.lalrpop
    let num := fun (t : Tok) => match t with
      | .num d => if d.length ≤ 19 || (d.toNat?.getD (2^64) < 2^64) then d.toNat?.map (· % MB) else none
      | _ => none
    match toks with
    | [.kw "print", .kw "flags"] => some .flags
    | [.kw "print", .kw "reg"] => some .reg
    | [.kw "print", .kw "mem", a, .arrow, b] => do let a ← num a; let b ← num b; pure (.range a b)
    | [.kw "print", .kw "mem", a, .colon, b] => do let a ← num a; let b ← num b; pure (.span a b)
    | [.kw "print", .kw "mem", .colon, b] => do let b ← num b; pure (.dsSpan b)
    | _ => none

/-- `printer.parse(vm, line)`: `none` = Err -/
def runPrint (m : Machine) (line : String) : Option String :=
  match parsePrint line with
  | none => none
  | some .flags => some (printFlags m)
  | some .reg => some (printReg m)
  | some (.range a b) =>
    if a > b then some s!"Starting address is less than end address : {a} > {b}\n" else some (dumpRange m a b)
  | some (.span a n) => if a + n ≥ MB then none else some (dumpRange m a (a + n))
  | some (.dsSpan n) =>
    let start := m.ds.toNat * 16
    if start + n ≥ MB then some s!"Error : End address overflowing memory space : DS * 0x10 =  {start}, end address = {start + n}\n"
    else some (dumpRange m start (start + n))

/-! ### the prompt (user_interface.rs) -/
inductive PromptEnd where
  | next | exit
  deriving Repr, DecidableEq

def isRustWs (c : Char) : Bool := Asm.isWs c
def trimLower (s : String) : String :=
  let cs := s.toList.dropWhile isRustWs
  let cs := (cs.reverse.dropWhile isRustWs).reverse
  String.ofList (cs.map fun c => if 'A' ≤ c && c ≤ 'Z' then Char.ofNat (c.toNat + 32) else c)

/-- consumes stdin lines until `next`, `quit` or end of input; structurally recursive on stdin -/
def prompt (m : Machine) : List String → String → (String × List String × PromptEnd)
  | [], out => (out ++ ">>> " ++ "Exiting\n", [], .exit)
  | l :: rest, out =>
    let out := out ++ ">>> "
    let inp := trimLower l
    if inp == "n" || inp == "next" then (out, rest, .next)
    else if inp == "q" || inp == "quit" then (out ++ "Exiting\n", rest, .exit)
    else match runPrint m inp with
      | some s => prompt m rest (out ++ s)
      | none => prompt m rest (out ++ "Invalid input , only next/n or print commands are accepted\n")

/-! ### interrupt services (interrupts.rs) -/
def charOfByte (b : BitVec 8) : String := String.singleton (Char.ofNat b.toNat)

def int10 (m : Machine) (ah : BitVec 8) : String :=
  if ah == 0x0A#8 then String.join (List.replicate m.cx.toNat (charOfByte (m.getByteReg .AL)))
  else if ah == 0x13#8 then
    let start := m.es.toNat * 16 + m.bp.toNat
    String.join (List.replicate (m.getByteReg .DL).toNat " ") ++
      String.join ((List.range m.cx.toNat).map fun i => charOfByte (m.readByte ((start + i) % MB)))
  else ""

def trimLineEnd (s : String) : String :=
  String.ofList (s.toList.reverse.dropWhile (fun c => c == '\n' || c == '\r')).reverse

/-- (machine, stdout, remaining stdin) -/
def int21 (m : Machine) (ah : BitVec 8) (stdin : List String) : Machine × String × List String :=
  if ah == 0x01#8 then
    let (line, rest) := match stdin with | l :: r => (l, r) | [] => ("", [])
    let byte : BitVec 8 := match line.toUTF8.toList with | b :: _ => BitVec.ofNat 8 b.toNat | [] => 0#8
    (m.setByteReg .AL byte, "", rest)
  else if ah == 0x02#8 then
    let dl := m.getByteReg .DL
    (m.setByteReg .AL dl, charOfByte dl, stdin)
  else if ah == 0x0A#8 then
    let (line, rest) := match stdin with | l :: r => (l, r) | [] => ("", [])
    let start := m.ds.toNat * 16 + m.dx.toNat
    let required := (m.readByte (start % MB)).toNat
    let bytes := (trimLineEnd line).toUTF8.toList
    let mx := min bytes.length required
    let m := m.writeByte ((start + 1) % MB) (BitVec.ofNat 8 mx)
    let m := ((bytes.take mx).zipIdx).foldl (fun m (b, i) => m.writeByte ((start + 2 + i) % MB) (BitVec.ofNat 8 b.toNat)) m
    (m, "", rest)
  else (m, "", stdin)

/-! ### the run -/
structure Result where
  stdout : String
  exit : Nat                      -- 0 normal / quit, 101 abort (never produced by the model unless `panic`)
  trace : List Nat := []
  final : Option Machine := none
  budget : Bool := false          -- model fuel exhausted (the run is longer than the budget)
  diag : Bool := false            -- refused before execution (a diagnostic was printed)
  syntaxUnpredicted : Bool := false  -- stdout after "Syntax Error" is not predicted
  panic : Bool := false
  tailUnpredicted : Bool := false    -- stdout is predicted only up to the end of `stdout` (internal error text follows)

structure Prog where
  code : Array String
  ctx : Ctx
  smap : Array Nat
  nl : List Nat
  text : List Char
  interpreted : Bool

def lineInfo (p : Prog) (idx : Nat) : Option (Nat × String) :=
  match p.smap[idx]? with
  | none => none
  | some pos => (getErrPos p.nl pos).map fun (line, s, e) => (line, sliceStr p.text s e)

/-- the prompt shown before an instruction while stepping is active (interpreted mode or trap flag):
    `none` = abort (no source-map entry), `some (out, stdin, exit?)` otherwise -/
def prePrompt (p : Prog) (idx : Nat) (m : Machine) (stdin : List String) (out : String) : Option (String × List String × Bool) :=
  let tf := getFlag m.flag .TRAP
  if (p.interpreted || tf) && idx + 2 ≤ p.code.size then
    match lineInfo p idx with
    | none => none
    | some (line, text) =>
      let out := out ++ s!"About to execute line {line} : {text}\n" ++ (if tf then "Trap flag is set\n" else "")
      let (out, stdin, e) := prompt m stdin out
      some (out, stdin, e == .exit)
  else some (out, stdin, false)

abbrev Cont := Nat → Machine → Ctx → List String → String → List Nat → Result

/-- one iteration of the loop after the prompt: execute the instruction at `idx` and dispatch on the
    interpreter's answer; `k` is the rest of the run -/
def stepBody (p : Prog) (k : Cont) (idx : Nat) (m : Machine) (ctx : Ctx) (stdin : List String) (out : String) (tr : List Nat) : Result :=
  let line := p.code[idx]?.getD ""
  let tr := idx :: tr
  let done := fun (out : String) (m : Machine) => ({ stdout := out, exit := 0, trace := tr.reverse, final := some m } : Result)
  let abort := fun (m : Machine) => ({ stdout := out, exit := 101, trace := tr.reverse, final := some m, panic := true } : Result)
  match (parseLine line).map (exec idx m ctx) with
  | none => { done (out ++ "Internal Error : Should not have reached here in interpreter parser\n") m with tailUnpredicted := true }
  | some (.error _) => { done (out ++ "Internal Error : Should not have reached here in interpreter parser\n") m with tailUnpredicted := true }
  | some (.ok (st, m, ctx)) =>
    match st with
    | .HALT => done out m
    | .PRINT =>
      match lineInfo p idx with
      | none => abort m
      | some (ln, text) =>
        let out := out ++ s!"Output of line {ln} : {text} :\n"
        match runPrint m line with
        | some s => k (idx + 1) m ctx stdin (out ++ s) tr
        | none => { done (out ++ "Internal Error : Should not have reached here in print parser\n") m with tailUnpredicted := true }
    | .JMP n => k n m ctx stdin out tr
    | .NEXT => k (idx + 1) m ctx stdin out tr
    | .REPEAT => k idx m ctx stdin out tr
    | .INT n =>
      let info := lineInfo p idx
      if n == 0#8 then
        match info with
        | none => abort m
        | some (ln, text) => done (out ++ s!"Attempt to divide by 0 : int 0 at {ln} : {text}\nExiting\n") m
      else if n == 3#8 then
        match info with
        | none => abort m
        | some (ln, _) =>
          let (out, stdin, e) := prompt m stdin (out ++ s!"Int 3 at line {ln}\n")
          if e == .exit then { stdout := out, exit := 0, trace := tr.reverse, final := none }
          else k (idx + 1) m ctx stdin out tr
      else if n == 0x10#8 then
        let ah := m.getByteReg .AH
        if ah != 0x0A#8 && ah != 0x13#8 then
          match info with
          | none => abort m
          | some (ln, text) => done (out ++ s!"Error at line {ln} : {text}, value of AH = {ah.toNat} is not supported for int 0x10\nExiting\n") m
        else k (idx + 1) m ctx stdin (out ++ int10 m ah) tr
      else if n == 0x21#8 then
        let ah := m.getByteReg .AH
        if ah != 0x01#8 && ah != 0x02#8 && ah != 0x0A#8 then
          match info with
          | none => abort m
          | some (ln, text) => done (out ++ s!"Error at line {ln} : {text}, value of AH = {ah.toNat} is not supported for int 0x10\nExiting\n") m
        else
          let (m, s, stdin) := int21 m ah stdin
          k (idx + 1) m ctx stdin (out ++ s) tr
      else done (out ++ s!"Internal Error : Should not have reached here in interrupt parser\nError : int {n.toNat} not supported\n") m

/-- the loop of `CMDDriver::run`: prompt (when stepping is active), then one instruction, then the rest -/
def loop (p : Prog) : Nat → Cont
  | 0, _, m, _, _, out, tr => { stdout := out, exit := 0, trace := tr.reverse, final := some m, budget := true }
  | fuel+1, idx, m, ctx, stdin, out, tr =>
    match prePrompt p idx m stdin out with
    | none => { stdout := out, exit := 101, trace := tr.reverse, final := some m, panic := true }
    | some (out, _, true) => { stdout := out, exit := 0, trace := tr.reverse, final := none }
    | some (out, stdin, false) => stepBody p (loop p fuel) idx m ctx stdin out tr

def labelOfP (l : Asm.PLabel) : Label := ⟨if l.type == .DATA then .DATA else .CODE, l.map⟩

/-- the driver's checks between assembling and running: every jump target recorded as undefined must
    have been defined by the end (reported: the first in source order), and a CODE label `start` must
    exist.  `.ok idx` = index of the first instruction to execute. -/
inductive Refusal where
  | undefinedLabel (pos : Nat) (name : String)
  | noStart
  deriving Repr, DecidableEq

/-- the recorded jump targets that are still undefined at the end, and among them the smallest
    (position, name) pair: the driver sorts the set of pairs before reporting (several names can
    share a position when one macro use expands to several jumps) -/
def stillUndefined (st : Asm.St) : List (Nat × String) :=
  st.undefined.filter fun p => (st.labels.lookup p.2).isNone

/-- the least string of a list (`<` on `String` is the byte-wise order for ASCII names, as `Ord for String` in Rust) -/
def minName : List String → Option String
  | [] => none
  | a :: as => some (as.foldl (fun m x => if x < m then x else m) a)

def firstUndefined (st : Asm.St) : Option (Nat × String) :=
  match ((stillUndefined st).map (·.1)).min? with
  | none => none
  | some p =>
    match minName (((stillUndefined st).filter (·.1 == p)).map (·.2)) with
    | none => none
    | some n => some (p, n)

def preflight (st : Asm.St) : Except Refusal Nat :=
  match firstUndefined st with
  | some (pos, l) => .error (.undefinedLabel pos l)
  | none =>
    match st.labels.lookup "start" with
    | none => .error .noStart
    | some l => if l.type == .DATA then .error .noStart else .ok l.map

/-- `CMDDriver::run` + the final `println!()` of main -/
def runCLI (src : String) (stdin : List String) (interpreted : Bool) (fuel : Nat) : Result :=
  let text := ensureNewline (stripComments src.toList)
  let nl := newlineList text
  let diagAt := fun (pos : Nat) (f : Nat → Nat → Nat → String) =>
    match getErrPos nl pos with
    | some (line, s, e) => f line s e
    | none => "?"
  let finish := fun (r : Result) => if (r.final.isNone && r.exit == 0 && !r.diag) || r.tailUnpredicted then r else { r with stdout := r.stdout ++ "\n" }
  match Asm.assemble (String.ofList text) with
  | .error (.panic _) => { stdout := "", exit := 101, panic := true }
  | .error (.custom a _ msg) =>
    finish { stdout := diagAt a (fun line s e => s!"Syntax Error at {line}:{a - s} : {sliceStr text s e} :\n{msg}") ++ "\n", exit := 0, diag := true,
             syntaxUnpredicted := msg == "unsupported" || msg.startsWith "Error in Macro Expansion" }
  | .error _ => finish { stdout := "Syntax Error", exit := 0, diag := true, syntaxUnpredicted := true }
  | .ok st =>
    match preflight st with
    | .error (.undefinedLabel pos l) =>
      finish { stdout := diagAt pos (fun line s e => s!"Label {l} used but not defined at {line} :{pos - s} : {sliceStr text s e}") ++ "\n", exit := 0, diag := true }
    | .error .noStart => finish { stdout := "Error : necessary label 'start' is not found in code\n", exit := 0, diag := true }
    | .ok startIdx =>
      (
        let ctx : Ctx := { fnMap := st.fns, labelMap := st.labels.map fun (k, v) => (k, labelOfP v), callStack := [] }
        match Loader.loadAll Machine.new 0 st.data.toList with
        | none => finish { stdout := "Internal Error : Should not have reached here in data parser\nError : ?\n", exit := 0 }
        | some (m, _) =>
          let m := { m with ds := 0#16 }
          let p : Prog := { code := st.code.push "hlt", ctx := ctx, smap := st.smap, nl := nl, text := text, interpreted := interpreted }
          finish (loop p fuel startIdx m ctx stdin "" []))

end Emu8086.Driver
