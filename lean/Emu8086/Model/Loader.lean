/-
Model of the data loader (src/lib/data_parser/data_parser.lalrpop): one data line → effect on the
machine (bytes written at DS*16 + counter, wrapping at 1 MiB, `set` changes DS) and on the counter.
The line syntax (keywords set/db/dw, `[`, `]`, `,`, `[0-9]+`, `-[0-9]+`, `"[[:ascii:]]*"`) is parsed
by a direct recogniser; numbers carry the ranges of u16 / u8 / i16 / i8 `from_str_radix`.
-/
import Emu8086.Model.Machine

namespace Emu8086.Loader

inductive DTok where
  | kw (s : String) | num (n : Nat) | neg (n : Nat) | str (bytes : List UInt8) | lbr | rbr | comma
  deriving Repr, Inhabited, BEq

def isWs (c : Char) : Bool :=
  let n := c.toNat
  n == 0x20 || (0x09 ≤ n && n ≤ 0x0D) || n == 0x85 || n == 0xA0

def natOfDigits (cs : List Char) : Nat := cs.foldl (fun n c => n * 10 + (c.toNat - '0'.toNat)) 0

def lexD : Nat → List Char → List DTok → Option (List DTok)
  | 0, _, _ => none
  | _, [], acc => some acc.reverse
  | fuel+1, c :: cs, acc =>
    if isWs c then lexD fuel cs acc
    else if c == '[' then lexD fuel cs (.lbr :: acc)
    else if c == ']' then lexD fuel cs (.rbr :: acc)
    else if c == ',' then lexD fuel cs (.comma :: acc)
    else if c.isDigit then
      let w := (c :: cs).takeWhile Char.isDigit
      lexD fuel ((c :: cs).dropWhile Char.isDigit) (.num (natOfDigits w) :: acc)
    else if c == '-' then
      let w := cs.takeWhile Char.isDigit
      if w.isEmpty then none else lexD fuel (cs.dropWhile Char.isDigit) (.neg (natOfDigits w) :: acc)
    else if c == '"' then
      -- "[[:ascii:]]*" : greedy, up to the last quote of the ASCII run
      let run := cs.takeWhile (fun d => d.toNat < 128)
      let idxs := (List.range run.length).filter (fun k => run[k]! == '"')
      match idxs.getLast? with
      | some k => lexD fuel (cs.drop (k + 1)) (.str ((run.take k).map (fun d => UInt8.ofNat d.toNat)) :: acc)
      | none => none
    else if c == 's' || c == 'd' then
      match c :: cs with
      | 's' :: 'e' :: 't' :: rest => lexD fuel rest (.kw "set" :: acc)
      | 'd' :: 'b' :: rest => lexD fuel rest (.kw "db" :: acc)
      | 'd' :: 'w' :: rest => lexD fuel rest (.kw "dw" :: acc)
      | _ => none
    else none

/-- a data definition, after parsing -/
inductive DataLine where
  | set (seg : Nat)
  | dbVal (v : BitVec 8)
  | dbArr (v : BitVec 8) (n : Nat)
  | dbStr (bytes : List UInt8)
  | dwVal (v : BitVec 16)
  | dwArr (v : BitVec 16) (n : Nat)
  | dwStr (bytes : List UInt8)
  deriving Repr, Inhabited

/-- s_byte_num : `-[0-9]+` in i8, or `[0-9]+` in u8 (cast to i8, i.e. the same bit pattern) -/
def sByte : DTok → Option (BitVec 8)
  | .num n => if n ≤ 255 then some (BitVec.ofNat 8 n) else none
  | .neg n => if n ≤ 128 then some (BitVec.ofInt 8 (-(n : Int))) else none
  | _ => none
def sWord : DTok → Option (BitVec 16)
  | .num n => if n ≤ 65535 then some (BitVec.ofNat 16 n) else none
  | .neg n => if n ≤ 32768 then some (BitVec.ofInt 16 (-(n : Int))) else none
  | _ => none
def uWord : DTok → Option Nat
  | .num n => if n ≤ 65535 then some n else none
  | _ => none

def parseData (line : String) : Option DataLine :=
  let cs := line.toList
  match lexD (cs.length + 1) cs [] with
  | none => none
  | some toks =>
    match toks with
    | [.kw "set", n] => (uWord n).map .set
    | [.kw "db", .lbr, n, .rbr] => (uWord n).map (.dbArr 0#8)
    | [.kw "db", .lbr, v, .comma, n, .rbr] => do let v ← sByte v; let n ← uWord n; pure (.dbArr v n)
    | [.kw "db", .str b] => some (.dbStr b)
    | [.kw "db", v] => (sByte v).map .dbVal
    | [.kw "dw", .lbr, n, .rbr] => (uWord n).map (.dwArr 0#16)
    | [.kw "dw", .lbr, v, .comma, n, .rbr] => do let v ← sWord v; let n ← uWord n; pure (.dwArr v n)
    | [.kw "dw", .str b] => some (.dwStr b)
    | [.kw "dw", v] => (sWord v).map .dwVal
    | _ => none

/-- the bytes a definition occupies, in address order -/
def DataLine.bytes : DataLine → List (BitVec 8)
  | .set _ => []
  | .dbVal v => [v]
  | .dbArr v n => List.replicate n v
  | .dbStr b => b.map (fun x => BitVec.ofNat 8 x.toNat)
  | .dwVal v => [v.setWidth 8, (v >>> 8).setWidth 8]
  | .dwArr v n => (List.replicate n [v.setWidth 8, (v >>> 8).setWidth 8]).flatten
  | .dwStr b => (b.map (fun x => [BitVec.ofNat 8 x.toNat, 0#8])).flatten

/-- write bytes from `addr` upwards, wrapping with `inc_addr` -/
def writeBytes (m : Machine) (addr : Nat) : List (BitVec 8) → Machine
  | [] => m
  | b :: bs => writeBytes (m.writeByte addr b) (incAddr addr 1) bs

/-- the loader's action for one line: (machine, counter) ↦ (machine, counter) -/
def load (m : Machine) (ctr : Nat) (d : DataLine) : Machine × Nat :=
  match d with
  | .set seg => ({ m with ds := BitVec.ofNat 16 seg }, 0)
  | d =>
    let bs := d.bytes
    (writeBytes m (calcAddr m.ds.toNat ctr) bs, ctr + bs.length)

/-- all data lines of a program; `none` = a line the loader rejects -/
def loadAll (m : Machine) (ctr : Nat) : List String → Option (Machine × Nat)
  | [] => some (m, ctr)
  | l :: ls =>
    match parseData l with
    | none => none
    | some d => let (m', c') := load m ctr d; loadAll m' c' ls

end Emu8086.Loader
