/-
Model of src/lib/vm.rs, src/lib/arch.rs (registers), src/lib/util/address.rs and the register
accessors of src/lib/util/data_util.rs.

Memory is a total function address ↦ byte presented as `base` (the initial content: all zero for
`VM::new()`, a position-dependent pattern in the correspondence harness) plus an overlay of the
bytes written so far.  Every access goes through `% MB`, like `make_valid_address`.
-/
import Std.Data.HashMap
import Emu8086.Model.Flags

namespace Emu8086

def MB : Nat := Gen.MB

structure Mem where
  base : Nat → BitVec 8
  ov : Std.HashMap Nat (BitVec 8) := {}

namespace Mem
/-- `vm.mem[a]` for an address already reduced by `make_valid_address` (the model reduces again, so
    it is total) -/
def read (m : Mem) (a : Nat) : BitVec 8 := (m.ov[a % MB]?).getD (m.base (a % MB))
def write (m : Mem) (a : Nat) (v : BitVec 8) : Mem := { m with ov := m.ov.insert (a % MB) v }
def zero : Mem := { base := fun _ => 0#8 }
end Mem

/-- `make_valid_address` -/
def makeValid (v : Nat) : Nat := v % MB
/-- `inc_addr(v, inc)` -/
def incAddr (v inc : Nat) : Nat := (v + inc) % MB
/-- `Address::calculate_from_offset(base, offset)` -/
def calcAddr (base offset : Nat) : Nat := makeValid (base * 0x10 + offset)

structure Machine where
  flag : BitVec 16
  ax : BitVec 16
  bx : BitVec 16
  cx : BitVec 16
  dx : BitVec 16
  sp : BitVec 16
  bp : BitVec 16
  si : BitVec 16
  di : BitVec 16
  ip : BitVec 16
  cs : BitVec 16
  ds : BitVec 16
  ss : BitVec 16
  es : BitVec 16
  mem : Mem

/-- `VM::new()` -/
def Machine.new : Machine :=
  { flag := BitVec.ofNat 16 Gen.DEFAULT_FLAG, ax := 0, bx := 0, cx := 0, dx := 0, sp := 0, bp := 0, si := 0,
    di := 0, ip := 0, cs := BitVec.ofNat 16 Gen.CODE_SEG, ds := 0, ss := 0, es := 0, mem := Mem.zero }

inductive ByteReg where
  | AL | AH | BL | BH | CL | CH | DL | DH
  deriving DecidableEq, Repr, Inhabited

inductive WordReg where
  | AX | BX | CX | DX | SS | CS | DS | ES | SP | BP | SI | DI
  deriving DecidableEq, Repr, Inhabited

def lowByte (x : BitVec 16) : BitVec 8 := (x &&& 255#16).setWidth 8
def highByte (x : BitVec 16) : BitVec 8 := ((x &&& ~~~ 255#16) >>> 8).setWidth 8
def withLow (x : BitVec 16) (v : BitVec 8) : BitVec 16 := (x &&& ~~~ 255#16) ||| v.setWidth 16
def withHigh (x : BitVec 16) (v : BitVec 8) : BitVec 16 := (x &&& 255#16) ||| (v.setWidth 16 <<< 8)

/-- `get_byte_reg` -/
def Machine.getByteReg (m : Machine) : ByteReg → BitVec 8
  | .AL => lowByte m.ax | .AH => highByte m.ax
  | .BL => lowByte m.bx | .BH => highByte m.bx
  | .CL => lowByte m.cx | .CH => highByte m.cx
  | .DL => lowByte m.dx | .DH => highByte m.dx

/-- `set_byte_reg` -/
def Machine.setByteReg (m : Machine) (r : ByteReg) (v : BitVec 8) : Machine :=
  match r with
  | .AL => { m with ax := withLow m.ax v } | .AH => { m with ax := withHigh m.ax v }
  | .BL => { m with bx := withLow m.bx v } | .BH => { m with bx := withHigh m.bx v }
  | .CL => { m with cx := withLow m.cx v } | .CH => { m with cx := withHigh m.cx v }
  | .DL => { m with dx := withLow m.dx v } | .DH => { m with dx := withHigh m.dx v }

/-- `get_word_reg_val` -/
def Machine.getWordReg (m : Machine) : WordReg → BitVec 16
  | .AX => m.ax | .BX => m.bx | .CX => m.cx | .DX => m.dx
  | .SS => m.ss | .CS => m.cs | .DS => m.ds | .ES => m.es
  | .SP => m.sp | .BP => m.bp | .SI => m.si | .DI => m.di

/-- `set_word_reg_val` -/
def Machine.setWordReg (m : Machine) (r : WordReg) (v : BitVec 16) : Machine :=
  match r with
  | .AX => { m with ax := v } | .BX => { m with bx := v } | .CX => { m with cx := v } | .DX => { m with dx := v }
  | .SS => { m with ss := v } | .CS => { m with cs := v } | .DS => { m with ds := v } | .ES => { m with es := v }
  | .SP => { m with sp := v } | .BP => { m with bp := v } | .SI => { m with si := v } | .DI => { m with di := v }

/-- `vm.mem[a]` -/
def Machine.readByte (m : Machine) (a : Nat) : BitVec 8 := m.mem.read a
/-- `vm.mem[a] as u16 | (vm.mem[inc_addr(a,1)] as u16) << 8` -/
def Machine.readWord (m : Machine) (a : Nat) : BitVec 16 :=
  (m.mem.read a).setWidth 16 ||| ((m.mem.read (incAddr a 1)).setWidth 16 <<< 8)
def Machine.writeByte (m : Machine) (a : Nat) (v : BitVec 8) : Machine := { m with mem := m.mem.write a v }
/-- `let (hb,lb) = separate_bytes(v); vm.mem[a] = lb; vm.mem[inc_addr(a,1)] = hb;` -/
def Machine.writeWord (m : Machine) (a : Nat) (v : BitVec 16) : Machine :=
  let (hb, lb) := separateBytes v
  let m := m.writeByte a lb
  m.writeByte (incAddr a 1) hb

end Emu8086
