/-
Model of the LALRPOP-generated lexer and parser for ONE interpreter line
(src/lib/interpreter/interpreter.lalrpop): text → tokens → `Instr`.

Lexer (LALRPOP built-in): white space is skipped; at each position the longest match among all
terminals wins, a literal beats a regex on a tie.  Terminals: the quoted literals of the grammar, and
the regexes `[0-9]+`, `-[0-9]+`, `[_a-zA-Z][_a-zA-Z0-9]*`.  So an identifier-shaped lexeme is a
keyword iff it is exactly one of the literals (`Gen.ILiterals.keywords`, regenerated from the
grammar), otherwise a name.

The parser is a direct recogniser of the (non-recursive) grammar; numeric terminals keep their
digit string so that the range checks of `u8/u16/i8/i16/u32::from_str_radix` can be mirrored.
This part of the code (generated lexer/parser) is modelled, not verified: agreement is established
by the correspondence run on generated and malformed lines.
-/
import Emu8086.Model.Instr
import Emu8086.Gen.ILiterals

namespace Emu8086

inductive Tok where
  | kw (s : String) | name (s : String) | num (digits : String) | neg (digits : String)
  | comma | lbr | rbr | colon | arrow
  deriving DecidableEq, Repr, Inhabited

def isIdStart (c : Char) : Bool := c.isAlpha || c == '_'
def isIdChar (c : Char) : Bool := c.isAlphanum || c == '_'
/-- Rust's `\s` for the ASCII range (LALRPOP skips `\s*`) -/
def isSpace (c : Char) : Bool := c == ' ' || c == '\t' || c == '\n' || c == '\r' || c == '\x0b' || c == '\x0c'

def lexAux (kws : List String) : Nat → List Char → List Tok → Option (List Tok)
  | 0, _, _ => none
  | _, [], acc => some acc.reverse
  | fuel+1, c :: cs, acc =>
    if isSpace c then lexAux kws fuel cs acc
    else if isIdStart c then
      let w := (c :: cs).takeWhile isIdChar
      let rest := (c :: cs).dropWhile isIdChar
      let s := String.ofList w
      lexAux kws fuel rest ((if kws.contains s then Tok.kw s else Tok.name s) :: acc)
    else if c.isDigit then
      let w := (c :: cs).takeWhile Char.isDigit
      lexAux kws fuel ((c :: cs).dropWhile Char.isDigit) (Tok.num (String.ofList w) :: acc)
    else if c == '-' then
      match cs with
      | '>' :: rest => lexAux kws fuel rest (Tok.arrow :: acc)
      | d :: _ =>
        if d.isDigit then
          let w := cs.takeWhile Char.isDigit
          lexAux kws fuel (cs.dropWhile Char.isDigit) (Tok.neg (String.ofList w) :: acc)
        else none
      | [] => none
    else if c == ',' then lexAux kws fuel cs (Tok.comma :: acc)
    else if c == '[' then lexAux kws fuel cs (Tok.lbr :: acc)
    else if c == ']' then lexAux kws fuel cs (Tok.rbr :: acc)
    else if c == ':' then lexAux kws fuel cs (Tok.colon :: acc)
    else none

def lexLine (s : String) : Option (List Tok) :=
  let cs := s.toList
  lexAux Gen.interpKeywords (cs.length + 1) cs []

/-! ### numbers -/
def digitsVal (s : String) : Nat := s.toNat?.getD 0   -- `s` is a non-empty digit string by construction

/-- `u8::from_str_radix(n,10)` on `[0-9]+` -/
def uByte? (s : String) : Option (BitVec 8) := if digitsVal s ≤ 255 then some (BitVec.ofNat 8 (digitsVal s)) else none
def uWord? (s : String) : Option (BitVec 16) := if digitsVal s ≤ 65535 then some (BitVec.ofNat 16 (digitsVal s)) else none
/-- `i8::from_str_radix("-ddd",10)` -/
def negByte? (s : String) : Option (BitVec 8) := if digitsVal s ≤ 128 then some (BitVec.ofInt 8 (-(digitsVal s : Int))) else none
def negWord? (s : String) : Option (BitVec 16) := if digitsVal s ≤ 32768 then some (BitVec.ofInt 16 (-(digitsVal s : Int))) else none
/-- `raw_addr`: `u32::from_str_radix` then `% MB` -/
def rawAddr? (s : String) : Option Nat := if digitsVal s ≤ 4294967295 then some (digitsVal s % MB) else none

/-- `s_byte_num`: `-[0-9]+` as i8, or `u_word_num` truncated (`n as i8`) -/
def sByteTok? : Tok → Option (BitVec 8)
  | .neg s => negByte? s
  | .num s => (uWord? s).map (·.setWidth 8)
  | _ => none
def sWordTok? : Tok → Option (BitVec 16)
  | .neg s => negWord? s
  | .num s => uWord? s
  | _ => none
def uByteTok? : Tok → Option (BitVec 8)
  | .num s => uByte? s
  | _ => none
def uWordTok? : Tok → Option (BitVec 16)
  | .num s => uWord? s
  | _ => none

/-! ### registers -/
def byteReg? : String → Option ByteReg
  | "ah" => some .AH | "al" => some .AL | "bh" => some .BH | "bl" => some .BL
  | "ch" => some .CH | "cl" => some .CL | "dh" => some .DH | "dl" => some .DL | _ => none
/-- `word_reg` (general 16-bit registers only) -/
def wordReg? : String → Option WordReg
  | "ax" => some .AX | "bx" => some .BX | "cx" => some .CX | "dx" => some .DX
  | "sp" => some .SP | "bp" => some .BP | "si" => some .SI | "di" => some .DI | _ => none
def segReg? : String → Option WordReg
  | "es" => some .ES | "ds" => some .DS | "ss" => some .SS | "cs" => some .CS | _ => none
def baseReg? : String → Option BaseReg
  | "bx" => some .BX | "bp" => some .BP | _ => none
def indexReg? : String → Option IndexReg
  | "si" => some .SI | "di" => some .DI | _ => none

/-! ### memory_addr -/
/-- the part between `[` and `]` (after an optional `seg :`) -/
def parseBracket (seg : Option WordReg) : List Tok → Option (MemAddr × List Tok)
  -- direct
  | .lbr :: .num n :: .rbr :: rest => (uWord? n).map fun d => ({ seg := seg, disp := some d }, rest)
  -- register indirect
  | .lbr :: .kw r :: .rbr :: rest =>
    match baseReg? r, indexReg? r with
    | some b, _ => some ({ seg := seg, base := some b }, rest)
    | _, some i => some ({ seg := seg, index := some i }, rest)
    | _, _ => none
  -- based indexed
  | .lbr :: .kw b :: .comma :: .kw i :: .comma :: k :: .rbr :: rest =>
    match baseReg? b, indexReg? i, sWordTok? k with
    | some b, some i, some k => some ({ seg := seg, base := some b, index := some i, disp := some k }, rest)
    | _, _, _ => none
  -- based / indexed
  | .lbr :: .kw r :: .comma :: n :: .rbr :: rest =>
    match sWordTok? n with
    | none => none
    | some d =>
      match baseReg? r, indexReg? r with
      | some b, _ => some ({ seg := seg, base := some b, disp := some d }, rest)
      | _, some i => some ({ seg := seg, index := some i, disp := some d }, rest)
      | _, _ => none
  | _ => none

def parseMemAddr : List Tok → Option (MemAddr × List Tok)
  | .kw s :: .colon :: rest =>
    match segReg? s with
    | some sr => parseBracket (some sr) rest
    | none => none
  | toks => parseBracket none toks

/-! ### generic operands -/
inductive Opnd where
  | breg (r : ByteReg) | wreg (r : WordReg) | sreg (r : WordReg)
  | bmem (a : MemAddr) | wmem (a : MemAddr) | blbl (n : String) | wlbl (n : String)
  | num (s : String) | neg (s : String)
  deriving DecidableEq, Repr, Inhabited

def parseOpnd : List Tok → Option (Opnd × List Tok)
  | .kw "byte" :: .name n :: rest => some (.blbl n, rest)
  | .kw "word" :: .name n :: rest => some (.wlbl n, rest)
  | .kw "byte" :: rest => (parseMemAddr rest).map fun (a, r) => (.bmem a, r)
  | .kw "word" :: rest => (parseMemAddr rest).map fun (a, r) => (.wmem a, r)
  | .num s :: rest => some (.num s, rest)
  | .neg s :: rest => some (.neg s, rest)
  | .kw s :: rest =>
    match byteReg? s, wordReg? s, segReg? s with
    | some r, _, _ => some (.breg r, rest)
    | _, some r, _ => some (.wreg r, rest)
    | _, _, some r => some (.sreg r, rest)
    | _, _, _ => none
  | _ => none

/-- one operand then end of line -/
def opnd1 (t : List Tok) : Option Opnd :=
  match parseOpnd t with
  | some (o, []) => some o
  | _ => none
/-- two operands separated by a comma then end of line -/
def opnd2 (t : List Tok) : Option (Opnd × Opnd) :=
  match parseOpnd t with
  | some (a, .comma :: rest) =>
    match parseOpnd rest with
    | some (b, []) => some (a, b)
    | _ => none
  | _ => none

/-- destination-capable 8-bit operand -/
def dst8? : Opnd → Option Op8
  | .breg r => some (.reg r) | .bmem a => some (.mem a) | .blbl n => some (.lbl n) | _ => none
def dst16? : Opnd → Option Op16
  | .wreg r => some (.reg r) | .wmem a => some (.mem a) | .wlbl n => some (.lbl n) | _ => none
def isMemLike : Opnd → Bool
  | .bmem _ | .wmem _ | .blbl _ | .wlbl _ => true | _ => false
def sImm8? : Opnd → Option (BitVec 8)
  | .num s => sByteTok? (.num s) | .neg s => sByteTok? (.neg s) | _ => none
def sImm16? : Opnd → Option (BitVec 16)
  | .num s => sWordTok? (.num s) | .neg s => sWordTok? (.neg s) | _ => none
def uImm8? : Opnd → Option (BitVec 8)
  | .num s => uByte? s | _ => none
def uImm16? : Opnd → Option (BitVec 16)
  | .num s => uWord? s | _ => none

/-- the operand pairs shared by `binary_arithmetic` (signed immediates) and `binary_logical`
    (unsigned immediates): reg,reg  reg,mem  reg,label  mem,reg  label,reg  reg,imm  mem,imm  label,imm -/
def binPair (signed : Bool) (a b : Opnd) : Option (Sum (Op8 × Op8) (Op16 × Op16)) :=
  match dst8? a, dst16? a with
  | some d, _ =>
    match b with
    | .breg r => some (.inl (d, .reg r))
    | .bmem m => if isMemLike a then none else some (.inl (d, .mem m))
    | .blbl n => if isMemLike a then none else some (.inl (d, .lbl n))
    | _ => ((if signed then sImm8? b else uImm8? b).map fun v => .inl (d, .imm v))
  | _, some d =>
    match b with
    | .wreg r => some (.inr (d, .reg r))
    | .wmem m => if isMemLike a then none else some (.inr (d, .mem m))
    | .wlbl n => if isMemLike a then none else some (.inr (d, .lbl n))
    | _ => ((if signed then sImm16? b else uImm16? b).map fun v => .inr (d, .imm v))
  | _, _ => none

/-- `mov` has the pairs of `binPair true` plus the segment-register forms -/
def movPair (a b : Opnd) : Option Instr :=
  match a, b with
  | .sreg s, .wreg r => some (.mov16 (.reg s) (.reg r))
  | .wreg r, .sreg s => some (.mov16 (.reg r) (.reg s))
  | .wmem m, .sreg s => some (.mov16 (.mem m) (.reg s))
  | .wlbl n, .sreg s => some (.mov16 (.lbl n) (.reg s))
  | .sreg s, .wmem m => some (.mov16 (.reg s) (.mem m))
  | .sreg s, .wlbl n => some (.mov16 (.reg s) (.lbl n))
  | _, _ =>
    match binPair true a b with
    | some (.inl (d, s)) => some (.mov8 d s)
    | some (.inr (d, s)) => some (.mov16 d s)
    | none => none

def arithOp? : String → Option ArithOp
  | "add" => some .add | "adc" => some .adc | "sub" => some .sub | "sbb" => some .sbb | "cmp" => some .cmp | _ => none
def unOp? : String → Option UnOp
  | "dec" => some .dec | "inc" => some .inc | "neg" => some .neg | "mul" => some .mul | "imul" => some .imul
  | "div" => some .div | "idiv" => some .idiv | _ => none
def singleOp? : String → Option SingleOp
  | "aaa" => some .aaa | "aad" => some .aad | "aam" => some .aam | "aas" => some .aas | "daa" => some .daa
  | "das" => some .das | "cbw" => some .cbw | "cwd" => some .cwd | _ => none
def logicOp? : String → Option LogicOp
  | "and" => some .and | "or" => some .or | "xor" => some .xor | "test" => some .test | _ => none
def shiftOp? : String → Option ShiftOp
  | "sal" => some .sal | "shl" => some .sal | "sar" => some .sar | "shr" => some .shr | "rol" => some .rol
  | "ror" => some .ror | "rcl" => some .rcl | "rcr" => some .rcr | _ => none
def strOp? : String → Option StrOp
  | "movs" => some .movs | "lods" => some .lods | "stos" => some .stos | "cmps" => some .cmps
  | "scas" => some .scas | _ => none
def repPrefix? : String → Option RepPrefix
  | "rep" => some .rep | "repz" => some .repz | "repnz" => some .repnz | _ => none
def jmpOp? : String → Option JmpOp
  | "jmp" => some .jmp | "ja" => some .ja | "jae" => some .jae | "jb" => some .jb | "jbe" => some .jbe
  | "jc" => some .jc | "je" => some .je | "jg" => some .jg | "jge" => some .jge | "jl" => some .jl
  | "jle" => some .jle | "jnc" => some .jnc | "jne" => some .jne | "jno" => some .jno | "jnp" => some .jnp
  | "jns" => some .jns | "jo" => some .jo | "jp" => some .jp | "js" => some .js | "jcxz" => some .jcxz
  | "loop" => some .loop | "loope" => some .loope | "loopne" => some .loopne | _ => none
def ctlOp? : String → Option CtlOp
  | "stc" => some .stc | "clc" => some .clc | "cmc" => some .cmc | "std" => some .std | "cld" => some .cld
  | "sti" => some .sti | "cli" => some .cli | "hlt" => some .hlt | "nop" => some .nop | _ => none

def parseStr (p : Option RepPrefix) : List Tok → Option Instr
  | [.kw op, .kw "byte"] => (strOp? op).map fun o => .str p o false
  | [.kw op, .kw "word"] => (strOp? op).map fun o => .str p o true
  | _ => none

/-- `Interpreter` : one line -/
def parseInstr : List Tok → Option Instr
  -- print_stmt
  | [.kw "print", .kw "flags"] => some .print
  | [.kw "print", .kw "reg"] => some .print
  | [.kw "print", .kw "mem", .num a, .arrow, .num b] => (rawAddr? a).bind fun _ => (rawAddr? b).map fun _ => .print
  | [.kw "print", .kw "mem", .num a, .colon, .num b] => (rawAddr? a).bind fun _ => (rawAddr? b).map fun _ => .print
  | [.kw "print", .kw "mem", .colon, .num b] => (rawAddr? b).map fun _ => .print
  | .kw "mov" :: rest => (opnd2 rest).bind fun (a, b) => movPair a b
  | [.kw "lahf"] => some .lahf
  | [.kw "sahf"] => some .sahf
  | [.kw "pushf"] => some .pushf
  | [.kw "popf"] => some .popf
  | [.kw "xlat"] => some .xlat
  | .kw "xchg" :: rest =>
    (opnd2 rest).bind fun (a, b) =>
      match a, b with
      | .breg r1, .breg r2 => some (.xchg8 (.reg r1) r2)
      | .wreg r1, .wreg r2 => some (.xchg16 (.reg r1) r2)
      | .bmem m, .breg r => some (.xchg8 (.mem m) r)
      | .wmem m, .wreg r => some (.xchg16 (.mem m) r)
      | .blbl n, .breg r => some (.xchg8 (.lbl n) r)
      | .wlbl n, .wreg r => some (.xchg16 (.lbl n) r)
      | _, _ => none
  | .kw "pop" :: rest =>
    (opnd1 rest).bind fun a =>
      match a with
      | .wreg r => some (.pop (.reg r))
      | .sreg r => if r == .CS then none else some (.pop (.reg r))
      | .wmem m => some (.pop (.mem m))
      | .wlbl n => some (.pop (.lbl n))
      | _ => none
  | .kw "push" :: rest =>
    (opnd1 rest).bind fun a =>
      match a with
      | .wreg r => some (.push (.reg r))
      | .sreg r => some (.push (.reg r))
      | .wmem m => some (.push (.mem m))
      | .wlbl n => some (.push (.lbl n))
      | _ => none
  | .kw "lea" :: rest =>
    (opnd2 rest).bind fun (a, b) =>
      match a, b with
      | .wreg r, .wmem m => some (.lea r (.mem m))
      | .wreg r, .wlbl n => some (.lea r (.lbl n))
      | _, _ => none
  | [.kw "ret"] => some .ret
  | [.kw "call", .name n] => some (.call n)
  | [.kw "int", .num n] => (uByte? n).map .int
  | .kw "not" :: rest =>
    (opnd1 rest).bind fun a =>
      match dst8? a, dst16? a with
      | some d, _ => some (.not8 d)
      | _, some d => some (.not16 d)
      | _, _ => none
  | .kw k :: rest =>
    match arithOp? k, logicOp? k, unOp? k, shiftOp? k with
    | some f, _, _, _ =>
      (opnd2 rest).bind fun (a, b) => (binPair true a b).map fun
        | .inl (d, s) => .arith8 f d s
        | .inr (d, s) => .arith16 f d s
    | _, some f, _, _ =>
      (opnd2 rest).bind fun (a, b) => (binPair false a b).map fun
        | .inl (d, s) => .logic8 f d s
        | .inr (d, s) => .logic16 f d s
    | _, _, some f, _ =>
      (opnd1 rest).bind fun a =>
        match dst8? a, dst16? a with
        | some d, _ => some (.unary8 f d)
        | _, some d => some (.unary16 f d)
        | _, _ => none
    | _, _, _, some f =>
      (opnd2 rest).bind fun (a, b) =>
        let cnt : Option (Option (BitVec 8)) :=
          match b with
          | .breg .CL => some none
          | .num s => (uByte? s).map some
          | _ => none
        match cnt, dst8? a, dst16? a with
        | some c, some d, _ => some (.shift8 f d c)
        | some c, _, some d => some (.shift16 f d c)
        | _, _, _ => none
    | _, _, _, _ =>
      match singleOp? k, ctlOp? k, repPrefix? k, strOp? k, jmpOp? k with
      | some f, _, _, _, _ => if rest.isEmpty then some (.single f) else none
      | _, some c, _, _, _ => if rest.isEmpty then some (.ctl c) else none
      | _, _, some p, _, _ => parseStr (some p) rest
      | _, _, _, some _, _ => parseStr none (.kw k :: rest)
      | _, _, _, _, some j =>
        match rest with
        | [.name n] => some (.jcc j n)
        | _ => none
      | _, _, _, _, _ => none
  | _ => none

/-- text of one line → instruction (`none` = the generated parser returns Err) -/
def parseLine (s : String) : Option Instr := (lexLine s).bind parseInstr

end Emu8086
