/-
Meaning of the generated jump table `Gen.jumpPred` (the predicates of `jumps_condition`, translated
from interpreter.lalrpop by tools/extract.py on every run): `get_flag_state`, `!`, `&&`, `||`, `==`,
`!=`, `vm.arch.cx == 0`, and the CX-decrement prelude of the LOOP family.
-/
import Emu8086.Gen.Jumps

namespace Emu8086

def Gen.CondE.eval (fl cx : BitVec 16) : Gen.CondE → Bool
  | .tt => true
  | .flag f => getFlag fl f
  | .cxZero => cx == 0#16
  | .cxNonZero => cx != 0#16
  | .not e => !(e.eval fl cx)
  | .and a b => a.eval fl cx && b.eval fl cx
  | .or a b => a.eval fl cx || b.eval fl cx
  | .beq a b => a.eval fl cx == b.eval fl cx
  | .bne a b => a.eval fl cx != b.eval fl cx

/-- the interpreter's `jumps_condition` as the generated table says it: (CX after, taken) -/
def Gen.jumpGen (fl cx : BitVec 16) (j : JmpOp) : BitVec 16 × Bool :=
  let (dec, e) := Gen.jumpPred j
  let cx' := if dec then cx - 1#16 else cx
  (cx', e.eval fl cx')

end Emu8086
