/-
Executable model of the assembler ("preprocessor", src/lib/preprocessor/preprocessor.lalrpop).

The grammar itself — every production, every literal spelling, every `format!` template — is NOT
written here: it is `Emu8086.Gen.PP.grammar`, regenerated from the source on every run.  This file
contains what interprets that data:

  * `lex`      : the LALRPOP built-in lexer (skip white space; longest match among all literals and
                 regex terminals; a literal beats a regex of the same length), byte offsets;
  * `parse`    : a backtracking recogniser/tree builder for the (unambiguous, LR(1)) grammar;
  * `eval`     : runs the semantic actions in reduction order (post-order, left to right): the
                 regular ones (`ret`/`code` templates) from the generated data, the 42 irregular ones
                 (`special`) modelled by hand below, each pinned to the hash of its source text
                 (`expectedSpecials`, compared with the generated hashes by a theorem);
  * `assemble` : `Preprocessor::parse` — Ok(output, context) or an error.

Rust partiality is explicit: `PPErr.panic` (integer overflow in the dev profile, slice/index out of
range); the generated LR parser itself is modelled, not verified (tie: correspondence run).
-/
import Emu8086.Model.Grammar
import Emu8086.Gen.PPGrammar
import Emu8086.Gen.Arch

namespace Emu8086.Asm
open Emu8086.Grammar

/-! ### lexer -/

structure PTok where
  text : String
  lit : Bool            -- matched as a quoted literal of the grammar (else: regex terminal `re`)
  re : Nat              -- index of the regex terminal (when `lit = false`)
  start : Nat           -- byte offsets
  stop : Nat
  deriving Repr, Inhabited

/-- Rust's `\s` (Unicode White_Space) -/
def isWs (c : Char) : Bool :=
  let n := c.toNat
  n == 0x20 || (0x09 ≤ n && n ≤ 0x0D) || n == 0x85 || n == 0xA0 || n == 0x1680 || (0x2000 ≤ n && n ≤ 0x200A)
  || n == 0x2028 || n == 0x2029 || n == 0x202F || n == 0x205F || n == 0x3000

def isIdStart (c : Char) : Bool := (c.toNat < 128 && c.isAlpha) || c == '_'
def isIdChar (c : Char) : Bool := (c.toNat < 128 && c.isAlphanum) || c == '_'
def isDigit (c : Char) : Bool := '0' ≤ c && c ≤ '9'
def isHex (c : Char) : Bool := isDigit c || ('a' ≤ c && c ≤ 'f') || ('A' ≤ c && c ≤ 'F')
/-- `[[:print:]]` = 0x20..0x7E -/
def isPrint (c : Char) : Bool := 0x20 ≤ c.toNat && c.toNat ≤ 0x7E
def isBodyChar (c : Char) : Bool := isIdChar c || c == '[' || c == ']' || c == '(' || c == ')' || c == ',' || c == ' '

def countWhile (p : Char → Bool) : List Char → Nat
  | [] => 0
  | c :: cs => if p c then countWhile p cs + 1 else 0

/-- length (in chars) of the match of regex terminal `i` at the head of `cs`, 0 = no match.
    All eight regexes are ASCII-only, so chars = bytes for a match. -/
def matchRe (i : Nat) (cs : List Char) : Nat :=
  match i, cs with
  | 0, '"' :: rest =>            -- "[[:print:]]*"   greedy: up to the LAST quote of the printable run
    let run := rest.takeWhile isPrint
    -- position of the last '"' in run
    let idxs := (List.range run.length).filter (fun k => run[k]! == '"')
    match idxs.getLast? with
    | some k => k + 2
    | none => 0
  | 1, cs =>                     -- [_a-zA-Z0-9\[\]\(\), ]*<-
    let n := countWhile isBodyChar cs
    match cs.drop n with
    | '<' :: '-' :: _ => n + 2
    | _ => 0
  | 2, c :: cs => if isIdStart c then 1 + countWhile isIdChar cs else 0
  | 3, c :: cs =>
    if isIdStart c then
      let n := countWhile isIdChar cs
      match cs.drop n with
      | ':' :: _ => n + 2
      | _ => 0
    else 0
  | 4, cs => countWhile isDigit cs
  | 5, '0' :: x :: cs => if x == 'x' || x == 'X' then (let n := countWhile isHex cs; if n == 0 then 0 else n + 2) else 0
  | 6, '0' :: b :: cs => if b == 'b' || b == 'B' then (let n := countWhile (fun c => c == '0' || c == '1') cs; if n == 0 then 0 else n + 2) else 0
  | 7, '-' :: cs => let n := countWhile isDigit cs; if n == 0 then 0 else n + 1
  | _, _ => 0

def punct : List String := ["->", "[", "]", ",", "(", ")", "{", "}", ":"]

def isPrefix : List Char → List Char → Bool
  | [], _ => true
  | _ :: _, [] => false
  | a :: as, b :: bs => a == b && isPrefix as bs

/-- longest literal (keyword or punctuation) that is a prefix of `cs` -/
def longestLit (kws : List (List Char)) (cs : List Char) : Nat :=
  kws.foldl (fun best k => if k.length > best && isPrefix k cs then k.length else best) 0

def utf8Len (cs : List Char) : Nat := cs.foldl (fun n c => n + c.utf8Size) 0

def lexAux (lits : List (List Char)) : Nat → List Char → Nat → Array PTok → Except Nat (Array PTok)
  | 0, _, pos, _ => .error pos
  | _, [], _, acc => .ok acc
  | fuel+1, c :: cs, pos, acc =>
    if isWs c then lexAux lits fuel cs (pos + c.utf8Size) acc else
    let inp := c :: cs
    let l := longestLit lits inp
    -- best regex: first index with the maximal length
    let best := (List.range 8).foldl (fun (b : Nat × Nat) i => let n := matchRe i inp; if n > b.2 then (i, n) else b) (0, 0)
    if l == 0 && best.2 == 0 then .error pos else
    let (isLit, ri, n) := if l ≥ best.2 then (true, 0, l) else (false, best.1, best.2)
    let txt := inp.take n
    let bytes := utf8Len txt
    lexAux lits fuel (inp.drop n) (pos + bytes)
      (acc.push { text := String.ofList txt, lit := isLit, re := ri, start := pos, stop := pos + bytes })

/-- `Err pos` = InvalidToken at byte offset `pos` -/
def lex (src : String) : Except Nat (Array PTok) :=
  let lits := (Gen.PP.keywords ++ punct).map String.toList
  let cs := src.toList
  lexAux lits (cs.length + 1) cs 0 #[]

/-! ### parser -/

inductive Tree where
  | tok (t : PTok)
  | loc (p : Nat)
  | node (nt : String) (alt : Nat) (act : Act) (kids : List Tree)
  | plus (items : List Tree)
  | optNone
  | optSome (t : Tree)
  | clist (items : List Tree)
  deriving Inhabited

def lookupNT (name : String) : Option NTDef := Gen.PP.grammar.lookup name

def locL (toks : Array PTok) (i : Nat) : Nat :=
  if h : i < toks.size then toks[i].start else if i > 0 then (toks[i-1]!).stop else 0
def locR (toks : Array PTok) (i : Nat) : Nat :=
  if i > 0 then (toks[i-1]!).stop else 0

/- Continuation-passing backtracking parser.  The grammar is LR(1), hence unambiguous: the first
   complete parse is the parse.  `fuel` bounds the recursion (no left recursion remains: the
   list-shaped non-terminals were turned into `plus` by the generator). -/
mutual
  def parseNT (toks : Array PTok) : Nat → String → Nat → (Tree → Nat → Option Tree) → Option Tree
    | 0, _, _, _ => none
    | fuel+1, name, i, k =>
      match lookupNT name with
      | none => none
      | some (.plus members) =>
        parsePlus toks fuel members i [] k
      | some (.alts alts) => parseAlts toks fuel name alts 0 i k

  def parseAlts (toks : Array PTok) : Nat → String → List Alt → Nat → Nat → (Tree → Nat → Option Tree) → Option Tree
    | 0, _, _, _, _, _ => none
    | _, _, [], _, _, _ => none
    | fuel+1, name, a :: rest, idx, i, k =>
      match parseSyms toks fuel a.syms i [] (fun kids j => k (.node name idx a.act kids) j) with
      | some t => some t
      | none => parseAlts toks fuel name rest (idx + 1) i k

  def parseSyms (toks : Array PTok) : Nat → List Sym → Nat → List Tree → (List Tree → Nat → Option Tree) → Option Tree
    | 0, _, _, _, _ => none
    | _, [], i, acc, k => k acc.reverse i
    | fuel+1, s :: rest, i, acc, k =>
      match s with
      | .lit l =>
        if h : i < toks.size then
          if toks[i].lit && toks[i].text == l then parseSyms toks fuel rest (i + 1) (.tok toks[i] :: acc) k else none
        else none
      | .re r =>
        if h : i < toks.size then
          if !toks[i].lit && toks[i].re == r then parseSyms toks fuel rest (i + 1) (.tok toks[i] :: acc) k else none
        else none
      | .locL => parseSyms toks fuel rest i (.loc (locL toks i) :: acc) k
      | .locR => parseSyms toks fuel rest i (.loc (locR toks i) :: acc) k
      | .nt n => parseNT toks fuel n i (fun t j => parseSyms toks fuel rest j (t :: acc) k)
      | .opt n =>
        match parseNT toks fuel n i (fun t j => parseSyms toks fuel rest j (.optSome t :: acc) k) with
        | some t => some t
        | none => parseSyms toks fuel rest i (.optNone :: acc) k
      | .commaList n => parseCList toks fuel n i [] (fun items j => parseSyms toks fuel rest j (.clist items :: acc) k)

  /-- one or more members, any member at each step -/
  def parsePlus (toks : Array PTok) : Nat → List String → Nat → List Tree → (Tree → Nat → Option Tree) → Option Tree
    | 0, _, _, _, _ => none
    | fuel+1, members, i, acc, k =>
      parseAny toks fuel members members i acc k

  def parseAny (toks : Array PTok) : Nat → List String → List String → Nat → List Tree → (Tree → Nat → Option Tree) → Option Tree
    | 0, _, _, _, _, _ => none
    | _, _, [], _, _, _ => none
    | fuel+1, members, m :: ms, i, acc, k =>
      match parseNT toks fuel m i (fun t j =>
              -- either continue the list or stop here
              match parsePlus toks fuel members j (t :: acc) k with
              | some r => some r
              | none => k (.plus (t :: acc).reverse) j) with
      | some r => some r
      | none => parseAny toks fuel members ms i acc k

  /-- `(T ",")* T?` -/
  def parseCList (toks : Array PTok) : Nat → String → Nat → List Tree → (List Tree → Nat → Option Tree) → Option Tree
    | 0, _, _, _, _ => none
    | fuel+1, n, i, acc, k =>
      match parseNT toks fuel n i (fun t j =>
              -- T "," ...   or   T (last)
              let withComma : Option Tree :=
                if h : j < toks.size then
                  if toks[j].lit && toks[j].text == "," then parseCList toks fuel n (j + 1) (t :: acc) k else none
                else none
              match withComma with
              | some r => some r
              | none => k (t :: acc).reverse j) with
      | some r => some r
      | none => k acc.reverse i
end

def parse (toks : Array PTok) : Option Tree :=
  parseNT toks (20 * toks.size + 200) Gen.PP.start 0 (fun t j => if j == toks.size then some t else none)

/-! ### semantic values and state -/

inductive Val where
  | unit
  | str (s : String)
  | num (n : Int)
  | pos (p : Nat)
  | opt (v : Option Val)
  | list (l : List Val)
  deriving Inhabited, Repr

inductive LType where
  | DATA | CODE
  deriving DecidableEq, Repr, Inhabited

structure PLabel where
  type : LType
  srcPos : Nat
  map : Nat
  deriving Repr, Inhabited

inductive PPErr where
  | syntax                                        -- no parse (position: taken from the real parser, see DESIGN)
  | invalidToken (pos : Nat)
  | custom (start stop : Nat) (msg : String)      -- `error!(start,end,msg)`
  | panic (what : String)                         -- Rust abort
  deriving Repr, Inhabited

/-- `util::Context` + `util::Output` (maps as association lists, newest first; sets as lists) -/
structure St where
  labels : List (String × PLabel) := []
  macros : List (String × String) := []
  fns : List (String × Nat) := []
  undefined : List (Nat × String) := []
  nesting : List String := []
  dataCounter : Nat := 0
  code : Array String := #[]
  data : Array String := #[]
  -- SourceMapper
  sourceLast : Nat := 0
  lock : Nat := 0
  smap : Array Nat := #[]
  deriving Inhabited

abbrev M := StateT St (Except PPErr)

def fail {α} (e : PPErr) : M α := fun _ => .error e
def err {α} (a b : Nat) (msg : String) : M α := fail (.custom a b msg)

def St.label? (s : St) (n : String) : Option PLabel := s.labels.lookup n
/-- HashMap::insert (overwrites) -/
def insertAssoc {β} (l : List (String × β)) (k : String) (v : β) : List (String × β) :=
  (k, v) :: l.filter (fun p => p.1 != k)

/-- `mapper.add_entry(pos)` -/
def addEntry (pos : Nat) : M Unit := modify fun s =>
  if s.lock != 0 then { s with smap := s.smap.push s.sourceLast }
  else { s with sourceLast := pos, smap := s.smap.push pos }

def pushCode (line : String) (pos : Nat) : M Unit := do
  modify fun s => { s with code := s.code.push line }
  addEntry pos

/-! ### values of the regular actions -/

def Val.render : Val → String
  | .str s => s
  | .num n => toString n
  | .unit => ""
  | .pos p => toString p
  | .opt none => ""
  | .opt (some v) => v.render
  | .list _ => ""

def renderFmt (vals : List Val) (fmt : List Piece) : String :=
  String.join (fmt.map fun p => match p with
    | .lit s => s
    | .arg i => (vals.getD i .unit).render)

def isValueSym : Sym → Bool
  | .lit _ => false
  | .locL | .locR => false
  | _ => true

/-! ### number terminals (`from_str_radix` with the range of the target type) -/

def digitVal (c : Char) : Nat :=
  if isDigit c then c.toNat - '0'.toNat
  else if 'a' ≤ c && c ≤ 'f' then c.toNat - 'a'.toNat + 10
  else c.toNat - 'A'.toNat + 10

def natOfDigits (radix : Nat) (cs : List Char) : Nat := cs.foldl (fun n c => n * radix + digitVal c) 0

/-- unsigned terminal text → value, by regex index (4 decimal, 5 hex, 6 binary) -/
def unsignedOf (t : PTok) : Nat :=
  let cs := t.text.toList
  if t.re == 4 then natOfDigits 10 cs else if t.re == 5 then natOfDigits 16 (cs.drop 2) else natOfDigits 2 (cs.drop 2)

def MB : Nat := Gen.MB

/-! ### macro text operations -/

/-- Rust regex `\b` word characters (ASCII, as the body only contains ASCII) -/
def isWordChar (c : Char) : Bool := isIdChar c

/-- `Regex::new(r"\b{p}\b").replace_all(r, "{i}")` for an identifier `p`: replace every occurrence of
    `p` that is delimited by non-word characters (or the ends), scanning left to right, non-overlapping -/
def replaceWord (p : List Char) (rep : List Char) : Nat → Option Char → List Char → List Char
  | 0, _, cs => cs
  | _, _, [] => []
  | fuel+1, prev, c :: cs =>
    let inp := c :: cs
    let atBoundary := match prev with | none => true | some q => !isWordChar q
    if atBoundary && !p.isEmpty && isPrefix p inp && (match inp.drop p.length with | [] => true | d :: _ => !isWordChar d) then
      rep ++ replaceWord p rep fuel p.getLast? (inp.drop p.length)
    else c :: replaceWord p rep fuel (some c) cs

/-- `str::replace(pat, to)`: all non-overlapping occurrences, left to right -/
def replaceAll (pat : List Char) (to : List Char) : Nat → List Char → List Char
  | 0, cs => cs
  | _, [] => []
  | fuel+1, c :: cs =>
    if !pat.isEmpty && isPrefix pat (c :: cs) then to ++ replaceAll pat to fuel ((c :: cs).drop pat.length)
    else c :: replaceAll pat to fuel cs

def placeholder (i : Nat) : List Char := ("{" ++ toString i ++ "}").toList

/-- `macro_def`: the stored text — every parameter, in order, replaced as a whole word by its placeholder -/
def macroStore (params : List (List Char)) (body : List Char) : List Char :=
  (params.zipIdx).foldl (fun r (p, i) => replaceWord p (placeholder i) (r.length + 1) none r) body

/-- `macro_use`: the expansion — every placeholder, in order, replaced by its argument (`str::replace`) -/
def macroInst (args : List (List Char)) (stored : List Char) : List Char :=
  (args.zipIdx).foldl (fun r (a, i) => replaceAll (placeholder i) a (r.length + 1) r) stored

/-! ### the pinned special actions -/

/-- (non-terminal, alternative, hash of the normalised action text) of every hand-modelled action;
    must equal what the generator finds in the source (theorem `specials_pinned` in Props.C10) -/
def expectedSpecials : List (String × Nat × Nat) := [
  ("set_directive", 0, 224676472629137),
  ("db_directive", 0, 124883337213855), ("db_directive", 1, 266736541875032),
  ("db_directive", 2, 60899437248347), ("db_directive", 3, 220721787653662),
  ("dw_directive", 0, 136250408037795), ("dw_directive", 1, 188053192380143),
  ("dw_directive", 2, 267770588373354), ("dw_directive", 3, 88100441719110),
  ("macro_def", 0, 130373234493760), ("macro_use", 0, 182287663443291),
  ("procedure", 0, 200961422400822), ("proc_def", 0, 251200112216910),
  ("print_stmt", 3, 47717672970107),
  ("call", 0, 208330830592932), ("int", 0, 100574453885766), ("jmps_loops", 0, 117080516124279),
  ("label", 0, 281024032604980),
  ("u_word_num", 0, 57452828891401), ("u_word_num", 1, 274975932679027), ("u_word_num", 2, 43598566594190),
  ("u_word_num", 3, 250348346448124),
  ("u_byte_num", 0, 80545620335010), ("u_byte_num", 1, 249008000667547), ("u_byte_num", 2, 214181901180503),
  ("u_byte_num", 3, 142656015152080),
  ("s_word_num", 0, 63267852315345), ("s_word_num", 1, 166756546635738),
  ("s_byte_num", 0, 55017231153825), ("s_byte_num", 1, 149906902074026),
  ("raw_addr", 0, 245560338516495), ("raw_addr", 1, 107857599001146), ("raw_addr", 2, 65616753988886),
  ("raw_addr", 3, 146816928456064),
  ("offset", 0, 222863070828996),
  ("memory_addr", 0, 127546556306039), ("memory_addr", 1, 177514659168936), ("memory_addr", 2, 189859650019970),
  ("memory_addr", 3, 189859650019970), ("memory_addr", 4, 270833570792448),
  ("byte_label", 0, 91091931273634), ("word_label", 0, 91091931273634),
  ("general_string", 3, 107809784482257), ("general_string", 4, 123954269568931)]

/-- `str::replacen(":", " ", 1)`: the first colon becomes a blank -/
def replaceFirstColon : List Char → List Char
  | [] => []
  | c :: cs => if c == ':' then ' ' :: cs else c :: replaceFirstColon cs

def wrapI (bits : Nat) (n : Nat) : Int :=
  let m := n % 2 ^ bits
  if m ≥ 2 ^ (bits - 1) then (m : Int) - (2 ^ bits : Nat) else m

/-- data counter += n on a u16 with the overflow diagnostic of the repaired code -/
def dataOverflowMsg : String :=
  "Data definitions exceed 64 KiB in this segment, which would set the labels incorrectly, consider using set to change location counter"

def defineData (start stop : Nat) (lbl : Option String) (line : String) (size : Option Nat) : M Unit := do
  let s ← get
  match size with
  | none => err start stop dataOverflowMsg
  | some sz =>
    if s.dataCounter + sz > 65535 then err start stop dataOverflowMsg else
    let labels := match lbl with
      | some l => insertAssoc s.labels l { type := .DATA, srcPos := start, map := s.dataCounter }
      | none => s.labels
    set { s with labels := labels, data := s.data.push line, dataCounter := s.dataCounter + sz }

def optStr : Val → Option String
  | .opt (some (.str s)) => some s
  | _ => none
def numOf : Val → Int
  | .num n => n
  | _ => 0
def posOf : Val → Nat
  | .pos p => p
  | _ => 0
def strOf : Val → String
  | .str s => s
  | v => v.render
def tokOf : Tree → PTok
  | .tok t => t
  | _ => default

/-- `byte_label` / `word_label` -/
def dataLabelCheck (start stop : Nat) (n : String) (wordForm : Bool) : M Val := do
  let s ← get
  match s.label? n with
  | none => err start stop s!"Label {n} not defined"
  | some l =>
    match l.type with
    | .CODE => err start stop (if wordForm then s!"Cannot use Code label {n}  " else s!"Cannot use Code label {n}")
    | .DATA => pure (.str n)

/-! ### the context-dependent actions, one function each (Props.C08 / C14 reason about these) -/

/-- `label`: a name may be defined once (as code or data); a code label maps to the index of the next
    instruction to be emitted -/
def labelAction (start : Nat) (tokText : String) : M Val := do
  let name := String.ofList (tokText.toList.take (tokText.length - 1))
  let s ← get
  match s.label? name with
  | some l => err l.srcPos (l.srcPos + tokText.utf8ByteSize) s!"Label {tokText} Already defined"
  | none =>
    set { s with labels := insertAssoc s.labels name { type := .CODE, srcPos := start, map := s.code.size } }
    pure (.str name)

/-- `proc_def`: a procedure may be declared once; it maps to the index of its first instruction -/
def procDefAction (start stop : Nat) (n : String) : M Val := do
  let s ← get
  match s.fns.lookup n with
  | some _ => err start stop s!"Procedure {n} already declared"
  | none => set { s with fns := insertAssoc s.fns n s.code.size }; pure .unit

/-- `procedure`: the closing brace emits the implied `ret`, mapped to the brace -/
def procedureAction (stop : Nat) : M Val := do pushCode "ret" (stop - 1); pure .unit

/-- `call`: only a declared procedure -/
def callAction (start stop : Nat) (n : String) : M Val := do
  let s ← get
  match s.fns.lookup n with
  | none => err start stop s!"'call' can be only used with procedures, {n} is not a procedure"
  | some _ => pushCode s!"call {n}" start; pure .unit

/-- `int`: only 3, 10h, 21h -/
def intAction (start stop : Nat) (n : Int) : M Val :=
  if n == 3 || n == 0x10 || n == 0x21 then do pushCode s!"int {n}" start; pure .unit
  else err start stop "'int' only supports 0x3,0x10 and 0x21"

/-- `jmps_loops`: a data label is refused, an unknown name is recorded for the driver's check -/
def jmpAction (start stop : Nat) (q n : String) : M Val := do
  let s ← get
  match s.label? n with
  | some l =>
    match l.type with
    | .DATA => err start stop s!"Jumps are only supported with Code labels : {n} is data label"
    | .CODE => pushCode s!"{q} {n}" start; pure .unit
  | none =>
    -- `mapper.source_of(start)`: inside a macro expansion the position of the outermost use
    let pos := if s.lock != 0 then s.sourceLast else start
    set { s with undefined := if s.undefined.contains (pos, n) then s.undefined else s.undefined ++ [(pos, n)] }
    pushCode s!"{q} {n}" start; pure .unit

/-- `offset`: only a data label -/
def offsetAction (start stop : Nat) (n : String) : M Val := do
  let s ← get
  match s.label? n with
  | some l =>
    match l.type with
    | .CODE => err start stop s!"'offset' can be used only with data labels, {n} is not a data label"
    | .DATA => pure (.num (l.map % 65536))
  | none => err start stop s!"Label {n} is not declared."

/-- the evaluator: post-order (= LR reduction order).  `reparse` is the recursive entry used by
    `macro_use` (a fresh parser on the expanded text, same context). -/
def special (reparse : String → M Unit) (name : String) (alt : Nat) (kids : List Tree) (vals : List Val) : M Val := do
  let v := fun i => vals.getD i .unit
  match name, alt with
  | "set_directive", 0 =>
    modify fun s => { s with data := s.data.push s!"set {numOf (v 1)}", dataCounter := 0 }
    pure .unit
  | "db_directive", 0 =>
    defineData (posOf (v 0)) (posOf (v 4)) (optStr (v 1)) s!"db {numOf (v 3)}" (some 1); pure .unit
  | "db_directive", 1 =>
    defineData (posOf (v 0)) (posOf (v 6)) (optStr (v 1)) s!"db [{numOf (v 4)}]" (some (numOf (v 4)).toNat); pure .unit
  | "db_directive", 2 =>
    defineData (posOf (v 0)) (posOf (v 8)) (optStr (v 1)) s!"db [{numOf (v 4)} , {numOf (v 6)}]" (some (numOf (v 6)).toNat); pure .unit
  | "db_directive", 3 =>
    let q := strOf (v 3)
    let start := posOf (v 0); let stop := posOf (v 4)
    if q.utf8ByteSize > 65535 - 10 then
      err start stop s!"Single string can have at most {65535 - 10} characters, overflowing this would set the labels incorrectly, consider splitting string and using set to change location counter"
    else
      -- (q.len()-2) as u16
      defineData start stop (optStr (v 1)) s!"db {q}" (some ((q.utf8ByteSize - 2) % 65536)); pure .unit
  | "dw_directive", 0 =>
    defineData (posOf (v 0)) (posOf (v 4)) (optStr (v 1)) s!"dw {numOf (v 3)}" (some 2); pure .unit
  | "dw_directive", 1 =>
    let n := (numOf (v 4)).toNat
    defineData (posOf (v 0)) (posOf (v 6)) (optStr (v 1)) s!"dw [{n}]" (if 2 * n > 65535 then none else some (2 * n)); pure .unit
  | "dw_directive", 2 =>
    let n := (numOf (v 6)).toNat
    defineData (posOf (v 0)) (posOf (v 8)) (optStr (v 1)) s!"dw [{numOf (v 4)} , {n}]" (if 2 * n > 65535 then none else some (2 * n)); pure .unit
  | "dw_directive", 3 =>
    let q := strOf (v 3)
    let start := posOf (v 0); let stop := posOf (v 4)
    if q.utf8ByteSize > 65535 / 2 - 10 then
      err start stop s!"Single string can have at most {65535 / 2 - 10} characters, overflowing this would set the labels incorrectly, consider splitting string and using set to change location counter"
    else
      defineData start stop (optStr (v 1)) s!"dw {q}" (some ((2 * (q.utf8ByteSize - 2)) % 65536)); pure .unit
  | "macro_def", 0 =>
    -- quote_macro name "(" params ")" "->" body
    let name := strOf (v 1)
    let params := match v 3 with | .list l => l.map strOf | _ => []
    let body := (tokOf (kids.getD 6 default)).text.toList
    let r0 := body.take (body.length - 2)
    let r := macroStore (params.map String.toList) r0
    modify fun s => { s with macros := insertAssoc s.macros name (String.ofList r) }
    pure .unit
  | "macro_use", 0 =>
    let start := posOf (v 0); let stop := posOf (v 5)
    let l := (tokOf (kids.getD 1 default)).text
    let params := match v 3 with | .list l => l.map strOf | _ => []
    let s ← get
    match s.macros.lookup l with
    | none => err start (start + l.utf8ByteSize) "Macro not defined"
    | some value =>
      let r := macroInst (params.map String.toList) value.toList
      if s.nesting.contains l then err start stop "Recursive macros are not allowed" else
      -- set_source(start); lock_source()
      modify fun s => { s with nesting := l :: s.nesting,
                               sourceLast := if s.lock == 0 then start else s.sourceLast, lock := s.lock + 1 }
      let expanded := String.ofList r
      let res : Except PPErr (Unit × St) := (reparse expanded) (← get)
      match res with
      | .ok ((), s') =>
        set { s' with lock := s'.lock - 1, nesting := s'.nesting.filter (· != l) }
        pure .unit
      | .error (.panic w) => fail (.panic w)
      | .error _ => err start stop s!"Error in Macro Expansion :\nExpanded Macro : {expanded}"
  | "procedure", 0 => procedureAction (posOf (v 5))
  | "proc_def", 0 => procDefAction (posOf (v 0)) (posOf (v 3)) (strOf (v 2))
  | "print_stmt", 3 =>
    let a := (numOf (v 3)).toNat; let e := (numOf (v 5)).toNat
    if a + e ≥ MB then
      err (posOf (v 0)) (posOf (v 6)) s!"End address is greater than memory address space : {a} + {e} = {a + e} > {MB - 1}"
    else pushCode s!"print mem {a} : {e}" (posOf (v 0)); pure .unit
  | "call", 0 => callAction (posOf (v 0)) (posOf (v 3)) (strOf (v 2))
  | "int", 0 => intAction (posOf (v 0)) (posOf (v 3)) (numOf (v 2))
  | "jmps_loops", 0 => jmpAction (posOf (v 0)) (posOf (v 3)) (strOf (v 1)) (strOf (v 2))
  | "label", 0 => labelAction (posOf (v 0)) (tokOf (kids.getD 1 default)).text
  | "u_word_num", 3 => pure (v 0)
  | "u_word_num", _ =>
    let n := unsignedOf (tokOf (kids.getD 1 default))
    if n ≤ 65535 then pure (.num n) else err (posOf (v 0)) (posOf (v 2)) "Invalid Value, must be between 0-65535"
  | "u_byte_num", 3 =>
    let o := numOf (v 1)
    if o > 255 then err (posOf (v 0)) (posOf (v 2)) "Offset is greater than 255" else pure (.num o)
  | "u_byte_num", _ =>
    let n := unsignedOf (tokOf (kids.getD 1 default))
    if n ≤ 255 then pure (.num n) else err (posOf (v 0)) (posOf (v 2)) "Invalid Value, must be between 0-255"
  | "s_word_num", 0 =>
    let n := natOfDigits 10 ((tokOf (kids.getD 1 default)).text.toList.drop 1)
    if n ≤ 32768 then pure (.num (-(n : Int))) else err (posOf (v 0)) (posOf (v 2)) "Invalid Value, must be between 0-65535"
  | "s_word_num", 1 => pure (.num (wrapI 16 (numOf (v 0)).toNat))
  | "s_byte_num", 0 =>
    let n := natOfDigits 10 ((tokOf (kids.getD 1 default)).text.toList.drop 1)
    if n ≤ 128 then pure (.num (-(n : Int))) else err (posOf (v 0)) (posOf (v 2)) "Invalid Value, must be between 0-255"
  | "s_byte_num", 1 => pure (.num (wrapI 8 (numOf (v 0)).toNat))
  | "raw_addr", 3 => pure (v 0)
  | "raw_addr", _ =>
    let n := unsignedOf (tokOf (kids.getD 1 default))
    if n ≤ 4294967295 then pure (.num (n % MB)) else err (posOf (v 0)) (posOf (v 2)) "Invalid Value, must be between 0-1048576"
  | "offset", 0 => offsetAction (posOf (v 0)) (posOf (v 3)) (strOf (v 2))
  | "memory_addr", 4 =>
    let pre := match optStr (v 0) with | some s => s!"{s}:" | none => ""
    let k := match v 5 with | .opt (some x) => x.render | _ => "0"
    pure (.str s!"{pre}[{strOf (v 2)},{strOf (v 4)},{k}]")
  | "memory_addr", a =>
    let pre := match optStr (v 0) with | some s => s!"{s}:" | none => ""
    if a ≤ 1 then pure (.str s!"{pre}[{(v 2).render}]")
    else pure (.str s!"{pre}[{strOf (v 2)},{(v 4).render}]")
  | "general_string", 3 => pure (.str s!"byte {String.ofList (replaceFirstColon (strOf (v 1)).toList)}")
  | "general_string", 4 => pure (.str s!"word {String.ofList (replaceFirstColon (strOf (v 1)).toList)}")
  | "byte_label", 0 => dataLabelCheck (posOf (v 0)) (posOf (v 3)) (strOf (v 2)) false
  | "word_label", 0 => dataLabelCheck (posOf (v 0)) (posOf (v 3)) (strOf (v 2)) true
  | _, _ => fail (.panic s!"model: unknown special action {name}/{alt}")

mutual
  def evalTree (reparse : String → M Unit) : Nat → Tree → M Val
    | 0, _ => fail (.panic "model: evaluation fuel exhausted")
    | _, .tok t => pure (.str t.text)
    | _, .loc p => pure (.pos p)
    | _, .optNone => pure (.opt none)
    | fuel+1, .optSome t => do let v ← evalTree reparse fuel t; pure (.opt (some v))
    | fuel+1, .plus items => do let _ ← evalList reparse fuel items; pure .unit
    | fuel+1, .clist items => do let vs ← evalList reparse fuel items; pure (.list vs)
    | fuel+1, .node name alt act kids => do
      let vals ← evalList reparse fuel kids
      match act with
      | .unit => pure .unit
      | .none =>
        -- value of the single value-bearing child, unit otherwise
        let cands := (kids.zip vals).filter (fun (k, _) => match k with | .tok t => !t.lit | .loc _ => false | _ => true)
        match cands with
        | [(_, v)] => pure v
        | _ => pure .unit
      | .ret fmt => pure (.str (renderFmt vals fmt))
      | .code fmt pos => do pushCode (renderFmt vals fmt) (posOf (vals.getD pos .unit)); pure .unit
      | .err =>
        -- unsupported instruction: the message text is not modelled (only that it is an error at the
        -- first location symbol)
        let p := match vals.find? (fun v => match v with | .pos _ => true | _ => false) with | some (.pos p) => p | _ => 0
        err p p "unsupported"
      | .special n a _ => special reparse n a kids vals

  def evalList (reparse : String → M Unit) : Nat → List Tree → M (List Val)
    | 0, _ => fail (.panic "model: evaluation fuel exhausted")
    | _, [] => pure []
    | fuel+1, t :: ts => do
      let v ← evalTree reparse fuel t
      let vs ← evalList reparse fuel ts
      pure (v :: vs)
end

/-- `PreprocessorParser::parse(context, out, text)`; `depth` bounds macro nesting in the model (the
    real bound is the set of active macro names, see Props.C13) -/
def run : Nat → String → M Unit
  | 0, _ => fail (.panic "model: macro nesting fuel exhausted")
  | depth+1, src => do
    match lex src with
    | .error p => fail (.invalidToken p)
    | .ok toks =>
      match parse toks with
      | none => fail .syntax
      | some t => let _ ← evalTree (run depth) (4 * toks.size + 100) t; pure ()

def assemble (src : String) : Except PPErr St :=
  match (run 4096 src) {} with
  | .ok ((), s) => .ok s
  | .error e => .error e

end Emu8086.Asm
