/-
Model of src/lib/instructions/string.rs (after the repairs): helper for helper.
-/
import Emu8086.Model.Machine

namespace Emu8086

inductive StrOp where
  | movs | lods | stos | cmps | scas
  deriving DecidableEq, Repr, Inhabited

/-- `advance(vm, off, width)` -/
def strAdvance (m : Machine) (off : BitVec 16) (width : BitVec 16) : BitVec 16 :=
  if getFlag m.flag .DIRECTION then off - width else off + width

/-- `read_byte(vm, seg, off)` -/
def strReadByte (m : Machine) (seg off : BitVec 16) : BitVec 8 := m.readByte (calcAddr seg.toNat off.toNat)
/-- `read_word`: low byte at `off`, high byte at `off.wrapping_add(1)` (offset wrap, same segment) -/
def strReadWord (m : Machine) (seg off : BitVec 16) : BitVec 16 :=
  (strReadByte m seg off).setWidth 16 ||| ((strReadByte m seg (off + 1#16)).setWidth 16 <<< 8)
def strWriteByte (m : Machine) (seg off : BitVec 16) (v : BitVec 8) : Machine :=
  m.writeByte (calcAddr seg.toNat off.toNat) v
def strWriteWord (m : Machine) (seg off : BitVec 16) (v : BitVec 16) : Machine :=
  let m := strWriteByte m seg off (v.setWidth 8)
  strWriteByte m seg (off + 1#16) ((v >>> 8).setWidth 8)

/-- `compare_byte(vm, src, dest)` -/
def compareByte (m : Machine) (src dest : BitVec 8) : Machine :=
  let diff : BitVec 8 := (src.setWidth 16 - dest.setWidth 16).setWidth 8
  let f : FlagsToSet :=
    { zero := diff == 0#8, parity := hasEvenParity diff, sign := diff &&& 0x80#8 != 0#8,
      overflow := decide ((src &&& 0x7F#8) < (dest &&& 0x7F#8)) ^^ decide (src < dest),
      carry := decide (src < dest), auxillary := decide ((src &&& 0xF#8) < (dest &&& 0xF#8)) }
  { m with flag := setAllFlags m.flag f }

/-- `compare_word` -/
def compareWord (m : Machine) (src dest : BitVec 16) : Machine :=
  let diff : BitVec 16 := (src.setWidth 32 - dest.setWidth 32).setWidth 16
  let f : FlagsToSet :=
    { zero := diff == 0#16, parity := hasEvenParity (diff.setWidth 8), sign := diff &&& 0x8000#16 != 0#16,
      overflow := decide ((src &&& 0x7FFF#16) < (dest &&& 0x7FFF#16)) ^^ decide (src < dest),
      carry := decide (src < dest), auxillary := decide ((src &&& 0xF#16) < (dest &&& 0xF#16)) }
  { m with flag := setAllFlags m.flag f }

/-- one execution of a string instruction body (`movs_byte` ... `scas_word`) -/
def strStep (op : StrOp) (word : Bool) (m : Machine) : Machine :=
  let w : BitVec 16 := if word then 2#16 else 1#16
  match op, word with
  | .movs, false =>
    let v := strReadByte m m.ds m.si
    let m := strWriteByte m m.es m.di v
    let m := { m with si := strAdvance m m.si w }
    { m with di := strAdvance m m.di w }
  | .movs, true =>
    let v := strReadWord m m.ds m.si
    let m := strWriteWord m m.es m.di v
    let m := { m with si := strAdvance m m.si w }
    { m with di := strAdvance m m.di w }
  | .lods, false =>
    let v := strReadByte m m.ds m.si
    let m := m.setByteReg .AL v
    { m with si := strAdvance m m.si w }
  | .lods, true =>
    let m := { m with ax := strReadWord m m.ds m.si }
    { m with si := strAdvance m m.si w }
  | .stos, false =>
    let m := strWriteByte m m.es m.di (m.getByteReg .AL)
    { m with di := strAdvance m m.di w }
  | .stos, true =>
    let m := strWriteWord m m.es m.di m.ax
    { m with di := strAdvance m m.di w }
  | .cmps, false =>
    let src := strReadByte m m.ds m.si
    let dest := strReadByte m m.es m.di
    let m := { m with si := strAdvance m m.si w }
    let m := { m with di := strAdvance m m.di w }
    compareByte m src dest
  | .cmps, true =>
    let src := strReadWord m m.ds m.si
    let dest := strReadWord m m.es m.di
    let m := { m with si := strAdvance m m.si w }
    let m := { m with di := strAdvance m m.di w }
    compareWord m src dest
  | .scas, false =>
    let dest := strReadByte m m.es m.di
    let acc := m.getByteReg .AL
    let m := { m with di := strAdvance m m.di w }
    compareByte m acc dest
  | .scas, true =>
    let dest := strReadWord m m.es m.di
    let acc := m.ax
    let m := { m with di := strAdvance m m.di w }
    compareWord m acc dest

end Emu8086
