/-
Model of src/lib/arch.rs (flag masks) and src/lib/util/flag_util.rs, src/lib/util/interpreter_util.rs
(has_even_parity), src/lib/util/data_util.rs (separate_bytes).  The numeric mask values are NOT
written here: they come from `Emu8086.Gen.Arch`, which tools/extract.py regenerates from
/repo/src/lib/arch.rs on every run.
-/
import Emu8086.Gen.Arch

namespace Emu8086

inductive Flag where
  | OVERFLOW | DIRECTION | INTERRUPT | TRAP | SIGN | ZERO | AUX_CARRY | PARITY | CARRY
  deriving DecidableEq, Repr, Inhabited

/-- `match flag { Flags::X => FLAG_X }` of flag_util.rs; constants from the generated module. -/
def Flag.mask : Flag → BitVec 16
  | .OVERFLOW => BitVec.ofNat 16 Gen.FLAG_OVERFLOW
  | .DIRECTION => BitVec.ofNat 16 Gen.FLAG_DIRECTION
  | .INTERRUPT => BitVec.ofNat 16 Gen.FLAG_INTERRUPT
  | .TRAP => BitVec.ofNat 16 Gen.FLAG_TRAP
  | .SIGN => BitVec.ofNat 16 Gen.FLAG_SIGN
  | .ZERO => BitVec.ofNat 16 Gen.FLAG_ZERO
  | .AUX_CARRY => BitVec.ofNat 16 Gen.FLAG_AUX_CARRY
  | .PARITY => BitVec.ofNat 16 Gen.FLAG_PARITY
  | .CARRY => BitVec.ofNat 16 Gen.FLAG_CARRY

/-- `get_flag_state` -/
def getFlag (reg : BitVec 16) (f : Flag) : Bool := reg &&& f.mask != 0#16
/-- `set_flag` -/
def setFlag (reg : BitVec 16) (f : Flag) : BitVec 16 := reg ||| f.mask
/-- `unset_flag` -/
def unsetFlag (reg : BitVec 16) (f : Flag) : BitVec 16 := reg &&& ~~~ f.mask
/-- the ubiquitous `if c { set_flag(..) } else { unset_flag(..) }` -/
def putFlag (reg : BitVec 16) (f : Flag) (c : Bool) : BitVec 16 :=
  if c then setFlag reg f else unsetFlag reg f

/-- `has_even_parity` of interpreter_util.rs (xor-fold) -/
def hasEvenParity (v : BitVec 8) : Bool :=
  let val := v
  let val := val ^^^ (val >>> 4)
  let val := val ^^^ (val >>> 2)
  let val := val ^^^ (val >>> 1)
  (~~~ val) &&& 1#8 == 1#8

/-- `set_flag_helper(flag, sign, zero, parity)` (arithmetic.rs and bit_manipulation.rs) -/
def setFlagHelper (fl : BitVec 16) (sign zero parity : Bool) : BitVec 16 :=
  let fl := putFlag fl .SIGN sign
  let fl := putFlag fl .ZERO zero
  putFlag fl .PARITY parity

structure FlagsToSet where
  zero : Bool
  parity : Bool
  sign : Bool
  overflow : Bool
  auxillary : Bool
  carry : Bool

/-- `set_all_flags` (arithmetic.rs) / `set_flags` (string.rs): same order of updates -/
def setAllFlags (fl : BitVec 16) (f : FlagsToSet) : BitVec 16 :=
  let fl := putFlag fl .ZERO f.zero
  let fl := putFlag fl .PARITY f.parity
  let fl := putFlag fl .SIGN f.sign
  let fl := putFlag fl .OVERFLOW f.overflow
  let fl := putFlag fl .CARRY f.carry
  putFlag fl .AUX_CARRY f.auxillary

/-- `separate_bytes(val: i16) -> (hb, lb)` -/
def separateBytes (v : BitVec 16) : BitVec 8 × BitVec 8 :=
  let lb := (v &&& 255#16).setWidth 8
  let hb := ((v &&& ~~~ 255#16) >>> 8).setWidth 8
  (hb, lb)

end Emu8086
