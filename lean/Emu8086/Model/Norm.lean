/-
Normal form of operands: the segment a memory operand uses written out (the override, else SS for a
BP base, else DS) and a missing displacement written as 0.  Two instruction texts mean the same
exactly when their normal forms are equal up to this rewriting; the correspondence check for the
source-level operand forms (request `opnd`) compares normal forms, so that an assembler which
emits a redundant override (or drops one) is not reported, while one which changes the segment is.
`Props.C04.exec_norm` proves that normalisation does not change what `exec` does.
-/
import Emu8086.Model.Instr

namespace Emu8086

def MemAddr.norm (a : MemAddr) : MemAddr :=
  { a with
    seg := some (match a.seg with
      | some s => s
      | none => match a.base with
        | some .BP => .SS
        | _ => .DS),
    disp := some (match a.disp with | some d => d | none => 0#16) }

def Op8.norm : Op8 → Op8
  | .mem a => .mem a.norm
  | o => o
def Op16.norm : Op16 → Op16
  | .mem a => .mem a.norm
  | o => o

def Instr.norm : Instr → Instr
  | .mov8 d s => .mov8 d.norm s.norm
  | .mov16 d s => .mov16 d.norm s.norm
  | .xchg8 d r => .xchg8 d.norm r
  | .xchg16 d r => .xchg16 d.norm r
  | .pop d => .pop d.norm
  | .push s => .push s.norm
  | .lea r s => .lea r s.norm
  | .arith8 f d s => .arith8 f d.norm s.norm
  | .arith16 f d s => .arith16 f d.norm s.norm
  | .unary8 f d => .unary8 f d.norm
  | .unary16 f d => .unary16 f d.norm
  | .not8 d => .not8 d.norm
  | .not16 d => .not16 d.norm
  | .logic8 f d s => .logic8 f d.norm s.norm
  | .logic16 f d s => .logic16 f d.norm s.norm
  | .shift8 f d c => .shift8 f d.norm c
  | .shift16 f d c => .shift16 f d.norm c
  | i => i

end Emu8086
