/-
Data types of the grammar-as-data that tools/ppgrammar.py generates from preprocessor.lalrpop
(`Emu8086.Gen.PP`): symbols, alternatives, the regular action shapes.  The generic lexer, parser
and evaluator that interpret this data are in Model/Asm.lean.
-/
namespace Emu8086.Grammar

/-- a piece of a `format!` template: literal text or the value of the i-th symbol of the alternative -/
inductive Piece where
  | lit (s : String)
  | arg (i : Nat)
  deriving Repr, Inhabited, BEq

inductive Act where
  | none                                       -- no action code: value of the single value-bearing symbol
  | unit                                       -- `()`
  | ret (fmt : List Piece)                     -- returns a string
  | code (fmt : List Piece) (pos : Nat)        -- out.code.push(fmt); context.mapper.add_entry(<symbol pos>)
  | err                                        -- unconditional `error!(..)` (unsupported instruction)
  | special (nt : String) (alt : Nat) (hash : Nat)   -- modelled by hand (Model/Asm.lean), pinned by hash
  deriving Repr, Inhabited, BEq

inductive Sym where
  | lit (s : String)
  | re (i : Nat)               -- index into Gen.PP.regexes
  | nt (n : String)
  | locL | locR                -- @L / @R
  | opt (n : String)           -- `n?`
  | commaList (n : String)     -- `CommaSepList<n>` = (n ",")* n?
  deriving Repr, Inhabited, BEq

structure Alt where
  syms : List Sym
  act : Act
  deriving Repr, Inhabited

inductive NTDef where
  | alts (l : List Alt)
  | plus (members : List String)     -- A = B1 | .. | Bn | A B1 | .. | A Bn
  deriving Repr, Inhabited

end Emu8086.Grammar
