/-
Model of src/lib/instructions/bit_manipulation.rs — one Lean function per Rust function.
`fn f(vm, val, num) -> res` becomes `f fl val num = (res, fl')`.

Rust `x << n` / `x >> n` on a fixed-width integer = BitVec `<<<` / `>>>` by a BitVec amount (the
amount is always smaller than the width in the Rust code that exists today — a larger amount would
be a panic in the dev profile, which the correspondence run would report as PANIC).
`rotate_left(k)` with `k < width` is `(x <<< k) ||| (x >>> (width - k))`.
The word functions take `num: u16`, always produced by `num as u16` from a `u8`.
-/
import Emu8086.Model.Flags

namespace Emu8086

/-! ### logic -/

def logicFlags8 (fl : BitVec 16) (res : BitVec 8) : BitVec 16 :=
  let fl := unsetFlag fl .OVERFLOW
  let fl := unsetFlag fl .CARRY
  setFlagHelper fl (decide (res ≥ 0x80#8)) (res == 0#8) (hasEvenParity res)

def logicFlags16 (fl : BitVec 16) (res : BitVec 16) : BitVec 16 :=
  let fl := unsetFlag fl .OVERFLOW
  let fl := unsetFlag fl .CARRY
  setFlagHelper fl (decide (res ≥ 0x8000#16)) (res == 0#16) (hasEvenParity (res.setWidth 8))

def byteAnd (fl : BitVec 16) (d s : BitVec 8) : BitVec 8 × BitVec 16 := (d &&& s, logicFlags8 fl (d &&& s))
def byteOr (fl : BitVec 16) (d s : BitVec 8) : BitVec 8 × BitVec 16 := (d ||| s, logicFlags8 fl (d ||| s))
def byteXor (fl : BitVec 16) (d s : BitVec 8) : BitVec 8 × BitVec 16 := (d ^^^ s, logicFlags8 fl (d ^^^ s))
def byteTest (fl : BitVec 16) (d s : BitVec 8) : BitVec 8 × BitVec 16 := (d, logicFlags8 fl (d &&& s))
def wordAnd (fl : BitVec 16) (d s : BitVec 16) : BitVec 16 × BitVec 16 := (d &&& s, logicFlags16 fl (d &&& s))
def wordOr (fl : BitVec 16) (d s : BitVec 16) : BitVec 16 × BitVec 16 := (d ||| s, logicFlags16 fl (d ||| s))
def wordXor (fl : BitVec 16) (d s : BitVec 16) : BitVec 16 × BitVec 16 := (d ^^^ s, logicFlags16 fl (d ^^^ s))
def wordTest (fl : BitVec 16) (d s : BitVec 16) : BitVec 16 × BitVec 16 := (d, logicFlags16 fl (d &&& s))

/-! ### byte shifts / rotates -/

def szp8 (fl : BitVec 16) (res : BitVec 8) : BitVec 16 :=
  setFlagHelper fl (decide (res ≥ 0x80#8)) (res == 0#8) (hasEvenParity res)
def szp16 (fl : BitVec 16) (res : BitVec 16) : BitVec 16 :=
  setFlagHelper fl (decide (res ≥ 0x8000#16)) (res == 0#16) (hasEvenParity (res.setWidth 8))

def byteSal (fl : BitVec 16) (val num : BitVec 8) : BitVec 8 × BitVec 16 :=
  if num == 0#8 then (val, fl) else
  if num > 9#8 then
    (0#8, szp8 (unsetFlag fl .CARRY) 0#8)
  else
    let t : BitVec 16 := val.setWidth 16 <<< num
    let fl := putFlag fl .CARRY (t &&& 0x100#16 != 0#16)
    let res := t.setWidth 8
    let fl := putFlag fl .OVERFLOW (!(val &&& 0x80#8 == res &&& 0x80#8))
    (res, szp8 fl res)

def byteSar (fl : BitVec 16) (val num : BitVec 8) : BitVec 8 × BitVec 16 :=
  if num == 0#8 then (val, fl) else
  let msb := val &&& 0x80#8
  let p : BitVec 8 × BitVec 16 :=
    if num > 7#8 then
      if msb != 0#8 then (255#8, setFlag fl .CARRY) else (0#8, unsetFlag fl .CARRY)
    else
      let res := (val >>> num) ||| (if msb == 0#8 then 0#8 else 255#8 <<< (8#8 - num))
      (res, putFlag fl .CARRY ((val >>> (num - 1#8)) &&& 1#8 == 1#8))
  (p.1, szp8 (unsetFlag p.2 .OVERFLOW) p.1)

def byteShr (fl : BitVec 16) (val num : BitVec 8) : BitVec 8 × BitVec 16 :=
  if num == 0#8 then (val, fl) else
  let p : BitVec 8 × BitVec 16 :=
    if num > 8#8 then (0#8, unsetFlag fl .CARRY)
    else
      let fl := putFlag fl .OVERFLOW (!(val &&& 0x80#8 == 0#8))
      let t : BitVec 16 := val.setWidth 16 >>> num
      let fl := putFlag fl .CARRY ((val >>> (num - 1#8)) &&& 1#8 == 1#8)
      (t.setWidth 8, fl)
  (p.1, szp8 p.2 p.1)

def rotOF8 (fl : BitVec 16) (val res : BitVec 8) : BitVec 16 :=
  putFlag fl .OVERFLOW (!(val &&& 0x80#8 == res &&& 0x80#8))
def rotOF16 (fl : BitVec 16) (val res : BitVec 16) : BitVec 16 :=
  putFlag fl .OVERFLOW (!(val &&& 0x8000#16 == res &&& 0x8000#16))

def byteRol (fl : BitVec 16) (val num : BitVec 8) : BitVec 8 × BitVec 16 :=
  if num == 0#8 then (val, fl) else
  let k := num % 8#8
  let res := (val <<< k) ||| (val >>> (8#8 - k))        -- val.rotate_left(num as u32 % 8)
  let fl := putFlag fl .CARRY (res &&& 1#8 == 1#8)
  (res, rotOF8 fl val res)

def byteRor (fl : BitVec 16) (val num : BitVec 8) : BitVec 8 × BitVec 16 :=
  if num == 0#8 then (val, fl) else
  let k := num % 8#8
  let res := (val >>> k) ||| (val <<< (8#8 - k))        -- val.rotate_right(num as u32 % 8)
  let fl := putFlag fl .CARRY (res &&& 0x80#8 != 0#8)
  (res, rotOF8 fl val res)

def byteRcl (fl : BitVec 16) (val num : BitVec 8) : BitVec 8 × BitVec 16 :=
  if num == 0#8 then (val, fl) else
  let num := num % 9#8
  let v : BitVec 16 := val.setWidth 16 ||| ((fl &&& Flag.CARRY.mask) <<< 8)
  let res : BitVec 16 := ((v <<< num) ||| (v >>> (9#8 - num))) &&& 0x1FF#16
  let fl := putFlag fl .CARRY (res &&& 0x100#16 != 0#16)
  let res := res.setWidth 8
  (res, rotOF8 fl val res)

def byteRcr (fl : BitVec 16) (val num : BitVec 8) : BitVec 8 × BitVec 16 :=
  if num == 0#8 then (val, fl) else
  let num := num % 9#8
  let v : BitVec 16 := val.setWidth 16 ||| ((fl &&& Flag.CARRY.mask) <<< 8)
  let mask : BitVec 16 := 0xFFFF#16 >>> num
  let rotated := v &&& mask
  let res : BitVec 16 := (v >>> num) ||| (rotated <<< (9#8 - num))
  let fl := putFlag fl .CARRY (res &&& 0x100#16 != 0#16)
  let res := res.setWidth 8
  (res, rotOF8 fl val res)

/-! ### word shifts / rotates (`num : u16`, produced by `num as u16` from a u8) -/

def wordSal (fl : BitVec 16) (val num : BitVec 16) : BitVec 16 × BitVec 16 :=
  if num == 0#16 then (val, fl) else
  if num > 17#16 then
    (0#16, szp16 (unsetFlag fl .CARRY) 0#16)
  else
    let t : BitVec 32 := val.setWidth 32 <<< num
    let fl := putFlag fl .CARRY (t &&& 0x10000#32 != 0#32)
    let res := t.setWidth 16
    let fl := putFlag fl .OVERFLOW (!(val &&& 0x8000#16 == res &&& 0x8000#16))
    (res, szp16 fl res)

def wordSar (fl : BitVec 16) (val num : BitVec 16) : BitVec 16 × BitVec 16 :=
  if num == 0#16 then (val, fl) else
  let msb := val &&& 0x8000#16
  let p : BitVec 16 × BitVec 16 :=
    if num > 15#16 then
      if msb != 0#16 then (0xFFFF#16, setFlag fl .CARRY) else (0#16, unsetFlag fl .CARRY)
    else
      let res := (val >>> num) ||| (if msb == 0#16 then 0#16 else 0xFFFF#16 <<< (16#16 - num))
      (res, putFlag fl .CARRY ((val >>> (num - 1#16)) &&& 1#16 == 1#16))
  (p.1, szp16 (unsetFlag p.2 .OVERFLOW) p.1)

def wordShr (fl : BitVec 16) (val num : BitVec 16) : BitVec 16 × BitVec 16 :=
  if num == 0#16 then (val, fl) else
  let p : BitVec 16 × BitVec 16 :=
    if num > 16#16 then (0#16, unsetFlag fl .CARRY)
    else
      let fl := putFlag fl .OVERFLOW (!(val &&& 0x8000#16 == 0#16))
      let t : BitVec 32 := val.setWidth 32 >>> num
      let fl := putFlag fl .CARRY ((val >>> (num - 1#16)) &&& 1#16 == 1#16)
      (t.setWidth 16, fl)
  (p.1, szp16 p.2 p.1)

def wordRol (fl : BitVec 16) (val num : BitVec 16) : BitVec 16 × BitVec 16 :=
  if num == 0#16 then (val, fl) else
  let k := num % 16#16
  let res := (val <<< k) ||| (val >>> (16#16 - k))
  let fl := putFlag fl .CARRY (res &&& 1#16 == 1#16)
  (res, rotOF16 fl val res)

def wordRor (fl : BitVec 16) (val num : BitVec 16) : BitVec 16 × BitVec 16 :=
  if num == 0#16 then (val, fl) else
  let k := num % 16#16
  let res := (val >>> k) ||| (val <<< (16#16 - k))
  let fl := putFlag fl .CARRY (res &&& 0x8000#16 != 0#16)
  (res, rotOF16 fl val res)

def wordRcl (fl : BitVec 16) (val num : BitVec 16) : BitVec 16 × BitVec 16 :=
  if num == 0#16 then (val, fl) else
  let num := num % 17#16
  -- `val as u32 | ((flag & FLAG_CARRY) as u32) << 16`, written with the flag test because the literal
  -- form sends `simp` into a very slow ground-term evaluation; equal since FLAG_CARRY = 1 (Props.C02.carry32)
  let v : BitVec 32 := val.setWidth 32 ||| (if getFlag fl .CARRY then 0x10000#32 else 0#32)
  let res : BitVec 32 := ((v <<< num) ||| (v >>> (17#16 - num))) &&& 0x1FFFF#32
  let fl := putFlag fl .CARRY (res &&& 0x10000#32 != 0#32)
  let res := res.setWidth 16
  (res, rotOF16 fl val res)

def wordRcr (fl : BitVec 16) (val num : BitVec 16) : BitVec 16 × BitVec 16 :=
  if num == 0#16 then (val, fl) else
  let num := num % 17#16
  -- `val as u32 | ((flag & FLAG_CARRY) as u32) << 16`, written with the flag test because the literal
  -- form sends `simp` into a very slow ground-term evaluation; equal since FLAG_CARRY = 1 (Props.C02.carry32)
  let v : BitVec 32 := val.setWidth 32 ||| (if getFlag fl .CARRY then 0x10000#32 else 0#32)
  let mask : BitVec 32 := 0xFFFFFFFF#32 >>> num
  let rotated := v &&& mask
  let res : BitVec 32 := (v >>> num) ||| (rotated <<< (17#16 - num))
  let fl := putFlag fl .CARRY (res &&& 0x10000#32 != 0#32)
  let res := res.setWidth 16
  (res, rotOF16 fl val res)

end Emu8086
