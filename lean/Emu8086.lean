import Emu8086.Gen.Arch
import Emu8086.Model.Flags
import Emu8086.Model.Alu
