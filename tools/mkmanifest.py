#!/usr/bin/env python3
"""Regenerates /verif/MANIFEST.json from the table below (keeps it schema-valid at all times)."""
import json, os, sys
ROOT = os.path.dirname(os.path.dirname(os.path.abspath(__file__)))
sys.path.insert(0, os.path.join(ROOT, "tools"))

NOTE = ("Trusted: Lean 4.33 kernel; axioms propext/Classical.choice/Quot.sound plus per-call bv_decide axioms (Lean.ofReduceBool, counted in the "
        "evidence); tools/extract.py (T-gen); the Rust harness, line protocol and compiled Lean driver (T-corr); the Spec files (my reading of the "
        "8086 manual and of syntax.md). The theorems are about the hand-written Lean model; the model is tied to /repo on every run by regenerated "
        "tables (T-gen) and by a differential run of the real code against model and spec (T-corr, exhaustive where the domain is small, "
        "boundary-stratified + seeded random elsewhere). LALRPOP-generated parsers, regex, std I/O, HashMap are modelled/exercised, not verified.")

CLAIMS = {
 "C01": ("Lean 4 theorems: every byte_*/word_* arithmetic function of the model equals the two's-complement specification (result + six flags, all other flag bits unchanged) for ALL operands and ALL 2^16 flag words (bit-blasted, kernel-checked); INC-CF and NEG-0-SF are open known findings with partial theorems and refuting witnesses. Tie: regenerated constants (T-gen), differential run of the real Rust functions against model and spec (exhaustive for bytes) and of whole instructions over all operand forms (L2).",
         "Lean 4 proof (bv_decide) of model = spec + exhaustive/lattice differential tie to the Rust code"),
 "C02": ("Lean 4 theorems: each of the 14 shift/rotate functions behaves, for EVERY count 0..255, as that many single-bit 8086 steps (induction on the count over a bit-blasted one-step lemma), SF/ZF/PF/OF/count-0 rules, no other flag changes; logic ops exact. Tie: all 256 values x all 256 counts for bytes, lattice+random words x all counts, against the real functions (a panic is a violation), plus whole instructions over all operand forms incl. CL counts (L2).",
         "Lean 4 proof: induction on count + bv_decide step lemmas; exhaustive byte-level differential tie"),
 "C03": ("Lean 4 theorems: MUL/IMUL exact double-width product with CF=OF iff upper half significant, DIV/IDIV truncating quotient/remainder with the divide-error outcome exactly when divisor 0 or quotient does not fit (never a crash), AAA/AAS/DAA/DAS/AAM/AAD/CBW/CWD per the manual, for all AX/DX/operands/flag words. Byte IMUL CF/OF is an open known finding. Tie: differential run incl. quotient-overflow boundary and all 2^16 AX for the adjusts; instruction level (INT 0 outcome, operand forms) at L2.",
         "Lean 4 proof (bv_decide) of model satisfies spec predicate + differential tie to the Rust code"),
 "C04": ("Lean 4 theorems for ALL register/segment/displacement values (and, through exec_refines, for every instruction family that takes an operand): the address computed by the model of `memory_addr` equals (segment*16 + 16-bit wrapping offset) mod 2^20 with the SS-for-BP / DS default and override rule (resolve_eq, off16_sum, seg_*), data label = DS*16+offset, words little-endian with the second byte at (a+1) mod 2^20 and a word write touching exactly two cells, byte registers alias their half (get/set laws, frame), LEA = 16-bit offset without memory/flag effect (lea_partial: segment DS; the SS/override case is the open finding KF-LEA-SEG pinned by test_lea, with witness). Tie: L2 differential run of the real interpreter on pattern-filled memory over all operand shapes.",
         "Lean 4 proof (case analysis + omega/bv_decide) over the interpreter model + L2 differential tie"),
 "C05": ("Lean 4 theorems: for every machine state and operand form, the model of MOV/XCHG/PUSH/POP/PUSHF/POPF/LAHF/SAHF/XLAT yields exactly the state of the reference semantics (`*_refines`), i.e. copies/swaps completely, SS:SP with SP +-2 mod 2^16, nothing else changes. Tie: L2 differential run incl. SP=0/1/FFFFh and SS:SP at the top of memory, and straight-line push/pop interleavings up to length 64/2000.",
         "Lean 4 proof of refinement model -> reference semantics + L2 differential tie (single steps and sequences)"),
 "C06": ("Lean 4 theorems over tables REGENERATED from the source on every run: every predicate of `jumps_condition` equals the Intel condition for all 2^16 flag words and all CX (gen_eq_taken; JLE is the open finding KF-JLE with partial theorem and witness), the LOOP family decrements CX modularly first, the hand-written model used by exec is that table, jumps change only CX (jcc_refines), every spelling of `quote_jmps_loops` is emitted as a mnemonic of the Intel condition class of that spelling and every Intel mnemonic is accepted in both cases (spellings_sound/complete), complementary pairs. Tie: T-gen + exhaustive L2 run (23 mnemonics x 32 flag settings x 4 backgrounds x CX lattice).",
         "Lean 4 proof over source-generated tables (bv_decide, decide +kernel) + exhaustive L2 differential tie"),
 "C07": ("Lean 4 theorems: one execution of each string instruction (model of string.rs) equals the reference for ALL DS/ES/SI/DI/AX/flags/memory (strStep_eq_strRef: DS:SI source, ES:DI destination, little-endian words, +-1/+-2 by DF mod 2^16, CMPS/SCAS = flags of SUB, nothing written); rep_protocol: driving the line until it stops answering REPEAT terminates within CX+1 calls and equals the reference loop for EVERY CX (induction, unbounded), REPE/REPNE stop conditions; rep_exact: exactly CX body executions, CX ends 0; rep_zero. Tie: L2 single steps + the REPEAT protocol driven to completion on the real interpreter for CX 0..64 and larger.",
         "Lean 4 proof (bv_decide for flags, induction on CX for the protocol) + L2 differential tie incl. protocol runs"),
 "C09": ("Lean 4 theorems: exec_refines — for EVERY instruction with parser-producible operands, every machine state and assembler-producible context the model of the interpreter refines the reference semantics (same outcome, context and machine up to the flag bits the manual leaves undefined), outside the classes of the open findings; the model's exec is a total function whose memory indices are all < 2^20 before the memory primitive reduces them (calcAddr_lt, incAddr_lt, resolve*_inRange, read/write_in_range: the modulo in the model never hides an out-of-range index), word access at 0xFFFFF wraps to 0, reported errors arise only from undefined names / empty call stack / unsupported interrupt (exec_ok_*). Rust-level aborts (overflow, shift, index) cannot be exhibited by the model: they are decided by the L2 run of the real interpreter built with overflow checks under catch_unwind on adversarial states and near-miss lines — a PANIC is a violation.",
         "Lean 4 proof of address bounds/totality of the model + L2 differential run with panic detection (partial: Rust aborts are only observed, not proved absent)"),
 "C08": ("Lean 4 theorems for every context/machine: a label is bound to the index of the instruction emitted next and every emission appends exactly one line (label_then_instr, code_grows_by_push: so a label before a procedure, macro use or print still denotes the next instruction; last label = the appended hlt), procedure name = first body instruction, closing brace emits ret, start index = CODE label start; one run-loop step: NEXT -> idx+1, JMP n -> n, REPEAT -> idx, HALT stops with nothing executed after (loop_*); CALL pushes cur+1 and RET pops the most recent address, nested calls return in LIFO order for any depth (nested_returns, induction). Tie: the real binary's executed-instruction trace and final state (verification hook) vs the model's run loop on generated structured programs.",
         "Lean 4 proof over assembler-action and run-loop models + L4 trace-level differential run against the real binary"),
 "C10": ("Lean 4 obligations over the assembler grammar REGENERATED from preprocessor.lalrpop on every run (the model interprets that data): the hand-modelled irregular actions are pinned to the source text (specials_pinned), every keyword-shaped word that can reach an emitted code line is an interpreter keyword (emitted_words_known, kernel-evaluated over the generated tables), interpreter keywords are reserved in the assembler (interp_keywords_reserved); context consistency from C14. That every template parses downstream for every operand shape is decided by the exhaustive-over-shapes correspondence (every alternative x every mnemonic spelling, generated from the current grammar, through the real assembler and executed by the real binary: any Internal Error is a violation) - stated as partial: syntax-level acceptance is tested exhaustively over shapes, not proved.",
         "Lean 4 proof over source-generated grammar tables (rfl / decide +kernel) + shape-exhaustive L3/L4 differential run"),
 "C11": ("Lean 4 theorems over regenerated tables: every quote_* table is closed under case with the same canonical output (tables_case_closed, pure_tables_case_closed), negative decimals and unsigned constants with the same bit pattern denote the same value (neg_bitpattern16/8), digit-string values (Horner, leading zeros, hex digit case), comment stripping preserves line breaks (strip_keeps_line_count, induction); order preservation is structural (every emission is one pushCode in source order). Tie: two independent renderings of the same grammar-derived program (case, radix, sign, OFFSET, white space) must give identical lists from the real assembler and the model.",
         "Lean 4 proof over source-generated spelling tables + paired-rendering L3 differential run"),
 "C12": ("Lean 4 theorems for every machine/segment/counter/definition: a definition's bytes lie contiguously in order from its start address with 1 MiB wrap and nothing else changes (writeBytes_inside/outside, induction), DB/DW value/array/string byte images incl. little-endian words and zero-extended DW strings, the loader's counter advances by exactly the bytes written and `set` resets it, along ANY definition list the assembler's counter (label offsets) equals the loader's counter (counters_agree, induction) so a label denotes its first byte (label_first_byte), segment overflow is a diagnostic never an abort or wrap (overflow_diagnosed, fix 152bfab), fresh memory is zero. Tie: emitted data lines and label offsets at L3, whole memory image via the hook at L4.",
         "Lean 4 proof (induction over byte lists and definition lists) + L3/L4 differential run with whole-memory comparison"),
 "C13": ("Lean 4 theorems on the model's text operations for every parameter/replacement/word: a parameter never rewrites inside a longer identifier (whole_word_only, induction over the scan), an exact word is replaced whole, placeholders contain no identifier character, the recursion guard refuses an active name and the active set is duplicate-free so nesting depth <= number of macros (depth_bounded) hence expansion terminates. Use = inline expansion for whole programs is exercised by the macros correspondence group. Partial: real stack depth/time are not modelled; open finding KF-MACRO-DEPTH (chains of ~400 levels overflow the stack).",
         "Lean 4 proof of substitution/guard lemmas + L3 differential run on random macro libraries (partial: stack depth is a known finding)"),
 "C14": ("Lean 4 theorems for every context: jump to a data label rejected / to an unknown name recorded and then refused by the driver's pre-flight check (undefined_label_refused), duplicate label / procedure rejected, data operand or OFFSET on a code label or unknown name rejected, call of a non-procedure rejected, every interrupt number other than 3/10h/21h rejected, missing or data-typed start refused; a refusal executes nothing. Range / size / unsupported-mnemonic errors are syntax-level: decided by the generated grammar and exercised by mutation + boundary (+-1) cases against the real binary (diagnostic printed, empty trace).",
         "Lean 4 proof over the assembler-action and pre-flight models + mutation-based L3/L4 differential run"),
 "C15": ("Lean 4: every step of the model's text path is a total function; proved: comment stripping is length-non-increasing, the driver's text always contains a line break so the diagnostic look-ups cannot abort (text_nonempty_lines with C16.getNewlineBefore_total; fixes 204cc69, 0cd099b), lexer progress on white space, prompt termination (C20). Aborts/hangs inside the generated LR parsers, regex and the real stack cannot be exhibited by the model: decided by fuzz runs of the real binary under a watchdog (partial). Open finding KF-MACRO-DEPTH.",
         "Lean 4 totality of the modelled text path + watchdog-supervised fuzzing of the real binary (partial: generated parsers/stack are observed, not proved)"),
 "C16": ("Lean 4 theorems for every newline list and position: get_newline_before returns the FIRST newline strictly after the position and all earlier ones are <= it (newline_before_spec, induction), so the reported line is the one containing the position; the look-up never aborts on the driver's text; the source mapper records the instruction's own position outside and the outermost use's position inside macro expansions; the implied RET is mapped to the closing brace. Tie: line number, column and line text of every message of the real binary vs the model on corruptions at every token position and on stepping/print/interrupt runs.",
         "Lean 4 proof of the position arithmetic + L4 byte-exact differential run of diagnostics"),
 "C17": ("Lean 4 theorems: the four/two hex digits printed read back to exactly the value for all 2^16 / 2^8 values (hex4_roundtrip, hex2_roundtrip), the cells of a dump are exactly the bytes of the inclusive range in address order (dumpCells_spec), backwards / out-of-space ranges are reported and print nothing (range_*), print returns text only and leaves the machine as it was (exec_print; the prompt takes the machine read-only). Tie: stdout of the real binary byte-for-byte vs the model on random states and ranges, also typed at the prompt.",
         "Lean 4 proof of formatting/decision lemmas + L4 byte-exact differential run"),
 "C18": ("Lean 4 theorems for every machine and stdin: AH=2 writes DL and returns it in AL, AH=1 returns the first byte of the next line (0 at end of input), AH=0Ah stores min(line length, capacity) <= capacity and changes no register or flag (ah0A_frame), all service addresses are reduced modulo 2^20, INT 10h AH=0Ah/13h output, other AH values do nothing in the services (the driver reports them). Tie: registers, memory and stdout of the real binary vs the model for all services, capacities 0/1/255, buffers at the top of memory, stdin families, all AH.",
         "Lean 4 proof over the interrupt-service model + L4 differential run"),
 "C19": ("Lean 4 theorems: a new machine is all zero except FLAGS=F000h, CS=FFFFh (constants regenerated from vm.rs), the undefined label reported is the one with the smallest position for EVERY permutation of the recorded set (report_order_invariant: independence from hash iteration order, fix fc61e80), the run is a function of its inputs, executing on one machine cannot affect another, the library contains no construct that could carry hidden state (regenerated hygiene scan). Tie: every L4 case run repeatedly in separate processes must be byte-identical; one Interpreter object serves thousands of interleaved valid/malformed L2 requests and must agree with the stateless model. Partial: thread schedules are not modelled.",
         "Lean 4 proof (permutation invariance, determinism by construction) + repeated-run and shared-parser differential runs"),
 "C20": ("Lean 4 theorems for every machine and input script: the prompt terminates (structural recursion) and consumes at most its input, end of input and q/quit terminate the emulator, n/next returns after exactly one line, any other line is answered with the same machine and the prompt comes again, the prompt cannot change the machine (prompt_*). Whole-run transparency (same output minus banners, same final state, one prompt per instruction naming its line) is compared between the real binary and the model for -i, POPF-set TF and INT 3 (fixes 29a64f6, 050fb5f).",
         "Lean 4 proof over the prompt model + L4 differential run of stepping modes"),
}

PENDING = {}   # filled below for properties without a check yet

def main():
    import checklib
    claimed = [p for p in sorted(CLAIMS) if p in checklib.PROPS]
    checks = []
    for pid in claimed:
        text, tech = CLAIMS[pid]
        checks.append({
            "property_id": pid,
            "quick_cmd": f"./check {pid} --tier quick",
            "thorough_cmd": f"./check {pid} --tier thorough",
            "evidence_file": f"/verif/evidence/{pid}.json",
            "replay_cmd_template": f"./check {pid} --replay {{path}}",
            "engine": "lean-proof+tcorr",
            "level_claimed": {"category": "proof", "text": text, "design_ref": f"DESIGN.md §7 {pid}"},
            "level_note": NOTE,
            "technique": tech,
        })
    allp = [json.loads(l)["id"] for l in open(os.path.join(ROOT, "properties.jsonl"))]
    na = [{"property_id": p, "reason": PENDING.get(p, "not yet built in this round of work (model/theorems in progress); not a claim that the technique cannot apply")}
          for p in allp if p not in claimed]
    man = {
        "version": 1,
        "setup_cmd": "./setup.sh",
        "hooks": {
            "guard": "yjdoc2_8086_emulator_verif",
            "enable": "RUSTFLAGS=\"--cfg yjdoc2_8086_emulator_verif\" cargo build --offline --manifest-path /repo/Cargo.toml --target-dir /verif/build/target-cli (done by setup.sh and by every check); the hook dumps trace + final state to $VERIF_TRACE_FILE",
            "baseline_off_cmd": "cd /repo && cargo test --workspace --no-fail-fast --offline",
            "source_commits": ["69a92ed"],
            "add_only": True,
        },
        "engines": [{
            "name": "lean-proof+tcorr", "path": "/verif/check", "serves_properties": claimed,
            "kind_free_text": "Lean 4 kernel-checked theorems over a hand-written model; model tied to /repo by a source extractor (T-gen) and a Rust-vs-Lean differential run (T-corr)",
        }],
        "checks": checks,
        "notes": "See DESIGN.md. Every check regenerates Gen/*.lean from /repo, rebuilds the theorems (lake), audits axioms, rebuilds the harness against /repo's working tree and runs the correspondence.",
        "not_applicable": na,
    }
    with open(os.path.join(ROOT, "MANIFEST.json"), "w") as f:
        json.dump(man, f, indent=1)
        f.write("\n")
    print("claimed:", " ".join(claimed))

if __name__ == "__main__":
    main()
