#!/usr/bin/env python3
"""Regenerates /verif/MANIFEST.json from the table below (keeps it schema-valid at all times)."""
import json, os, sys
ROOT = os.path.dirname(os.path.dirname(os.path.abspath(__file__)))
sys.path.insert(0, os.path.join(ROOT, "tools"))

NOTE = ("Trusted: Lean 4.33 kernel; axioms propext/Classical.choice/Quot.sound plus per-call bv_decide axioms (Lean.ofReduceBool, counted in the "
        "evidence); tools/extract.py (T-gen); the Rust harness, line protocol and compiled Lean driver (T-corr); the Spec files (my reading of the "
        "8086 manual and of syntax.md). The theorems are about the hand-written Lean model; the model is tied to /repo on every run by regenerated "
        "tables (T-gen) and by a differential run of the real code against model and spec (T-corr, exhaustive where the domain is small, "
        "boundary-stratified + seeded random elsewhere). LALRPOP-generated parsers, regex, std I/O, HashMap are modelled/exercised, not verified.")

CLAIMS = {
 "C01": ("Lean 4 theorems: every byte_*/word_* arithmetic function of the model equals the two's-complement specification (result + six flags, all other flag bits unchanged) for ALL operands and ALL 2^16 flag words (bit-blasted, kernel-checked); INC-CF and NEG-0-SF are open known findings with partial theorems and refuting witnesses. Tie: regenerated constants (T-gen), differential run of the real Rust functions against model and spec (exhaustive for bytes) and of whole instructions over all operand forms (L2).",
         "Lean 4 proof (bv_decide) of model = spec + exhaustive/lattice differential tie to the Rust code"),
 "C02": ("Lean 4 theorems: each of the 14 shift/rotate functions behaves, for EVERY count 0..255, as that many single-bit 8086 steps (induction on the count over a bit-blasted one-step lemma), SF/ZF/PF/OF/count-0 rules, no other flag changes; logic ops exact. Tie: all 256 values x all 256 counts for bytes, lattice+random words x all counts, against the real functions (a panic is a violation), plus whole instructions over all operand forms incl. CL counts (L2).",
         "Lean 4 proof: induction on count + bv_decide step lemmas; exhaustive byte-level differential tie"),
 "C03": ("Lean 4 theorems: MUL/IMUL exact double-width product with CF=OF iff upper half significant, DIV/IDIV truncating quotient/remainder with the divide-error outcome exactly when divisor 0 or quotient does not fit (never a crash), AAA/AAS/DAA/DAS/AAM/AAD/CBW/CWD per the manual, for all AX/DX/operands/flag words. Byte IMUL CF/OF is an open known finding. Tie: differential run incl. quotient-overflow boundary and all 2^16 AX for the adjusts; instruction level (INT 0 outcome, operand forms) at L2.",
         "Lean 4 proof (bv_decide) of model satisfies spec predicate + differential tie to the Rust code"),
 "C04": ("Lean 4 theorems for ALL register/segment/displacement values: the address computed by the model of `memory_addr` equals (segment*16 + 16-bit wrapping offset) mod 2^20 with the SS-for-BP / DS default and override rule (resolve_eq, off16_sum, seg_*), data label = DS*16+offset, words little-endian with the second byte at (a+1) mod 2^20 and a word write touching exactly two cells, byte registers alias their half (get/set laws, frame), LEA = 16-bit offset without memory/flag effect (lea_partial: segment DS; the SS/override case is the open finding KF-LEA-SEG pinned by test_lea, with witness). Tie: L2 differential run of the real interpreter on pattern-filled memory over all operand shapes.",
         "Lean 4 proof (case analysis + omega/bv_decide) over the interpreter model + L2 differential tie"),
 "C05": ("Lean 4 theorems: for every machine state and operand form, the model of MOV/XCHG/PUSH/POP/PUSHF/POPF/LAHF/SAHF/XLAT yields exactly the state of the reference semantics (`*_refines`), i.e. copies/swaps completely, SS:SP with SP +-2 mod 2^16, nothing else changes. Tie: L2 differential run incl. SP=0/1/FFFFh and SS:SP at the top of memory, and straight-line push/pop interleavings up to length 64/2000.",
         "Lean 4 proof of refinement model -> reference semantics + L2 differential tie (single steps and sequences)"),
 "C06": ("Lean 4 theorems over tables REGENERATED from the source on every run: every predicate of `jumps_condition` equals the Intel condition for all 2^16 flag words and all CX (gen_eq_taken; JLE is the open finding KF-JLE with partial theorem and witness), the LOOP family decrements CX modularly first, the hand-written model used by exec is that table, jumps change only CX (jcc_refines), every spelling of `quote_jmps_loops` is emitted as a mnemonic of the Intel condition class of that spelling and every Intel mnemonic is accepted in both cases (spellings_sound/complete), complementary pairs. Tie: T-gen + exhaustive L2 run (23 mnemonics x 32 flag settings x 4 backgrounds x CX lattice).",
         "Lean 4 proof over source-generated tables (bv_decide, decide +kernel) + exhaustive L2 differential tie"),
 "C07": ("Lean 4 theorems: one execution of each string instruction (model of string.rs) equals the reference for ALL DS/ES/SI/DI/AX/flags/memory (strStep_eq_strRef: DS:SI source, ES:DI destination, little-endian words, +-1/+-2 by DF mod 2^16, CMPS/SCAS = flags of SUB, nothing written); rep_protocol: driving the line until it stops answering REPEAT terminates within CX+1 calls and equals the reference loop for EVERY CX (induction, unbounded), REPE/REPNE stop conditions; rep_exact: exactly CX body executions, CX ends 0; rep_zero. Tie: L2 single steps + the REPEAT protocol driven to completion on the real interpreter for CX 0..64 and larger.",
         "Lean 4 proof (bv_decide for flags, induction on CX for the protocol) + L2 differential tie incl. protocol runs"),
 "C09": ("Lean 4 theorems: the model's exec is a total function whose memory indices are all < 2^20 before the memory primitive reduces them (calcAddr_lt, incAddr_lt, resolve*_inRange, read/write_in_range: the modulo in the model never hides an out-of-range index), word access at 0xFFFFF wraps to 0, reported errors arise only from undefined names / empty call stack / unsupported interrupt (exec_ok_*). Rust-level aborts (overflow, shift, index) cannot be exhibited by the model: they are decided by the L2 run of the real interpreter built with overflow checks under catch_unwind on adversarial states and near-miss lines — a PANIC is a violation.",
         "Lean 4 proof of address bounds/totality of the model + L2 differential run with panic detection (partial: Rust aborts are only observed, not proved absent)"),
}

PENDING = {}   # filled below for properties without a check yet

def main():
    import checklib
    claimed = [p for p in sorted(CLAIMS) if p in checklib.PROPS]
    checks = []
    for pid in claimed:
        text, tech = CLAIMS[pid]
        checks.append({
            "property_id": pid,
            "quick_cmd": f"./check {pid} --tier quick",
            "thorough_cmd": f"./check {pid} --tier thorough",
            "evidence_file": f"/verif/evidence/{pid}.json",
            "replay_cmd_template": f"./check {pid} --replay {{path}}",
            "engine": "lean-proof+tcorr",
            "level_claimed": {"category": "proof", "text": text, "design_ref": f"DESIGN.md §7 {pid}"},
            "level_note": NOTE,
            "technique": tech,
        })
    allp = [json.loads(l)["id"] for l in open(os.path.join(ROOT, "properties.jsonl"))]
    na = [{"property_id": p, "reason": PENDING.get(p, "not yet built in this round of work (model/theorems in progress); not a claim that the technique cannot apply")}
          for p in allp if p not in claimed]
    man = {
        "version": 1,
        "setup_cmd": "./setup.sh",
        "hooks": {
            "guard": "yjdoc2_8086_emulator_verif",
            "enable": "none needed so far: the library API is public enough and the binary is driven as a process",
            "baseline_off_cmd": "cd /repo && cargo test --workspace --no-fail-fast --offline",
            "source_commits": [],
            "add_only": True,
        },
        "engines": [{
            "name": "lean-proof+tcorr", "path": "/verif/check", "serves_properties": claimed,
            "kind_free_text": "Lean 4 kernel-checked theorems over a hand-written model; model tied to /repo by a source extractor (T-gen) and a Rust-vs-Lean differential run (T-corr)",
        }],
        "checks": checks,
        "notes": "See DESIGN.md. Every check regenerates Gen/*.lean from /repo, rebuilds the theorems (lake), audits axioms, rebuilds the harness against /repo's working tree and runs the correspondence.",
        "not_applicable": na,
    }
    with open(os.path.join(ROOT, "MANIFEST.json"), "w") as f:
        json.dump(man, f, indent=1)
        f.write("\n")
    print("claimed:", " ".join(claimed))

if __name__ == "__main__":
    main()
