#!/usr/bin/env python3
"""Source-level case generator for the L3/L4 correspondence runs.  Reads the CURRENT assembler grammar
of /repo (tools/lalrpop_lite.py), so a changed grammar changes the cases.

usage: gen_l3.py <group> <quick|thorough> <seed>       -> request lines on stdout
groups:
  shapes   every instruction alternative x every spelling of its mnemonic symbol x sampled operands,
           each as a small complete program (data labels defined, `start:`)               [asm]
  progs    random whole programs: data section, labels, jumps, procedures, macros, prints  [asm]
  data     random SET/DB/DW sequences                                                      [asm]
  errors   valid programs x single semantic mutations                                      [asm]
  macros   random macro libraries and use sites                                            [asm]
"""
import sys, os, re, random
sys.path.insert(0, os.path.dirname(os.path.abspath(__file__)))
import lalrpop_lite as L

REPO = os.environ.get("VERIF_REPO", "/repo")

def enc(s):
    o = []
    for b in (s if isinstance(s, (bytes, bytearray)) else s.encode()):
        if 0x21 <= b <= 0x7e and b not in (37, 124, 59, 44):
            o.append(chr(b))
        else:
            o.append("%%%02X" % b)
    return "".join(o) or "%"

class G:
    def __init__(self, seed):
        self.rng = random.Random(seed)
        self.nts = {nt.name: nt for nt in L.parse_grammar(open(os.path.join(REPO, "src/lib/preprocessor/preprocessor.lalrpop")).read())}
        self.memo = {}
        self.spell = False          # spell mode: tables / numbers / separators become atoms rendered later
        self.atoms = []
        self.atom_vals = []

    # ---- literal tables: non-terminals all of whose alternatives are a single literal (or such a table)
    def table(self, name):
        """all source spellings of a pure-literal non-terminal, or None"""
        if name in self.memo:
            return self.memo[name]
        self.memo[name] = None
        nt = self.nts.get(name)
        if nt is None or nt.params:
            return None
        out = []
        for alt in nt.alts:
            if len(alt.symbols) != 1:
                return None
            s = alt.symbols[0]
            if s.suffix:
                return None
            if s.kind == "lit":
                out.append(s.value)
            elif s.kind == "nt":
                t = self.table(s.value)
                if t is None:
                    return None
                out += t
            else:
                return None
        self.memo[name] = out
        return out

    # ---- canonical groups of a `"X" => "x".to_owned()` table: canonical output -> spellings
    def groups(self, name):
        nt = self.nts.get(name)
        out = {}
        for alt in nt.alts:
            s0 = alt.symbols[0]
            if s0.kind == "lit":
                # alternatives of one atom = the case variants of one spelling (synonyms are C06's business)
                out.setdefault(s0.value.lower(), []).append(s0.value)
            else:
                for k, v in self.groups(s0.value).items():
                    out.setdefault(k, []).extend(v)
        return out

    def atom(self, alts, val=None):
        self.atoms.append(alts)
        self.atom_vals.append(val)
        return "\x01%d\x02" % (len(self.atoms) - 1)

    def render_atoms(self, text, srng):
        def sub(m):
            return srng.choice(self.atoms[int(m.group(1))])
        text = re.sub("\x01(\\d+)\x02", sub, text)
        text = re.sub("\x03", lambda m: srng.choice(["", "", " ", "  ", "\t"]), text)
        text = re.sub("\x04", lambda m: srng.choice([" ", " ", "  ", "\t", " \n ", " ; remark\n"]), text)
        return text

    # ---- sampling of the value-like non-terminals
    def num(self, lo, hi, signed=False):
        r = self.rng
        cands = [c for c in (lo, hi, 0, 1, (lo + hi) // 2) if lo <= c <= hi]
        v = r.choice(cands) if r.random() < 0.5 else r.randint(lo, hi)
        if self.spell and self.spell_offsets and r.random() < 0.3:
            v = r.choice([o for o in OFFSETS if lo <= o <= hi] or [v])
        if self.spell:
            if v < 0:
                return self.atom([str(v)], v)
            alts = [str(v), "0x%X" % v, "0X%x" % v, "0b" + bin(v)[2:], "0B" + bin(v)[2:].zfill(20), "000" + str(v), "0x000%x" % v]
            if self.spell_bits and v >= 2 ** (self.spell_bits - 1) and v < 2 ** self.spell_bits:
                alts.append(str(v - 2 ** self.spell_bits))          # the negative decimal with the same bit pattern
            if self.spell_offsets and v in OFFSETS:
                alts += [r.choice(["offset ", "OFFSET "]) + OFFSETS[v]] * 3
            return self.atom(alts, v)
        if v < 0:
            return str(v)
        k = r.randrange(6)
        if k == 0:
            return "0x%X" % v
        if k == 1:
            return "0X%x" % v
        if k == 2:
            return "0b" + bin(v)[2:]
        if k == 3:
            return "0B" + bin(v)[2:].zfill(r.randint(1, 18))
        if k == 4:
            return "0" * r.randint(0, 3) + str(v)
        return str(v)

    spell_bits = 0
    spell_offsets = False

    def sample(self, name, depth=0):
        r = self.rng
        if self.spell:
            self.spell_offsets = name in ("u_word_num", "u_byte_num", "s_word_num", "s_byte_num", "raw_addr")
            self.spell_bits = {"s_word_num": 16, "s_byte_num": 8}.get(name, 0)
            if name in ("u_word_num", "s_word_num"):
                return self.num(0, 65535)
            if name in ("u_byte_num", "s_byte_num"):
                return self.num(0, 255)
            if name == "raw_addr":
                return self.num(0, 1048575)
            if name in ("byte_label", "word_label"):
                kw = "byte" if name == "byte_label" else "word"
                return self.atom([kw, kw.upper()]) + "\x04" + r.choice(["bv", "wv", "arr"])
            if self.table(name) is not None:
                g = self.groups(name)
                key = r.choice(sorted(g))
                return self.atom(g[key])
        if name == "u_word_num":
            return r.choice([self.num(0, 65535), self.num(0, 65535), "offset wv", "OFFSET bv"])
        if name == "u_byte_num":
            return r.choice([self.num(0, 255), self.num(0, 255), "offset bv"])
        if name == "s_word_num":
            return r.choice([self.num(-32768, -1), self.num(0, 65535), self.num(0, 65535)])
        if name == "s_byte_num":
            return r.choice([self.num(-128, -1), self.num(0, 255), self.num(0, 255)])
        if name == "raw_addr":
            return r.choice([self.num(0, 1048575), self.num(0, 4294967295), self.num(0, 300), "offset wv"])
        if name == "name_string":
            return r.choice(["lab", "fin", "start"])
        if name == "byte_label":
            return r.choice(["byte", "BYTE"]) + " " + r.choice(["bv", "wv", "arr"])
        if name == "word_label":
            return r.choice(["word", "WORD"]) + " " + r.choice(["bv", "wv", "arr"])
        t = self.table(name)
        if t is not None:
            return r.choice(t)
        nt = self.nts[name]
        if depth > 6:
            alts = [a for a in nt.alts if len(a.symbols) <= 3] or nt.alts
        else:
            alts = nt.alts
        alt = r.choice(alts)
        return self.render_alt(alt, depth + 1)

    def render_sym(self, s, depth):
        r = self.rng
        if s.kind == "loc":
            return None
        if s.suffix == "?":
            if r.random() < 0.5:
                return None
            s2 = L.Sym(s.kind, s.value, children=s.children, args=s.args)
            return self.render_sym(s2, depth)
        if s.kind == "lit":
            return s.value
        if s.kind == "group":
            parts = [self.render_sym(c, depth) for c in s.children]
            return self.join([p for p in parts if p is not None])
        if s.kind == "nt":
            return self.sample(s.value, depth)
        raise RuntimeError("cannot render " + repr(s))

    def join(self, parts):
        r = self.rng
        if self.spell:
            out = ""
            for i, p in enumerate(parts):
                if i:
                    out += "\x04" if not (p in (",", "[", "]", "(", ")", "->") or parts[i - 1] in (",", "[", "]", "(", ")")) else "\x03"
                out += p
            return out
        out = ""
        for i, p in enumerate(parts):
            if i:
                # punctuation may or may not be surrounded by spaces; words need one
                prev = parts[i - 1]
                need = (prev[-1].isalnum() or prev[-1] == "_") and (p[0].isalnum() or p[0] == "_")
                # a name directly followed by "(" lexes fine, a name followed by ":" would become a label token
                if p[0] == ":" and (prev[-1].isalnum() or prev[-1] == "_"):
                    need = True
                if p[0] == "-" and prev[-1] == "<":
                    need = True
                out += r.choice([" ", "  ", "\t"]) if need else r.choice(["", " ", ""])
            out += p
        return out

    def render_alt(self, alt, depth):
        parts = [self.render_sym(s, depth) for s in alt.symbols]
        return self.join([p for p in parts if p is not None])

    # ---- instruction alternatives reachable from `opcodes`
    def reach(self, root):
        seen, order = set(), []
        def go(n):
            if n in seen or n not in self.nts:
                return
            seen.add(n); order.append(n)
            for alt in self.nts[n].alts:
                for s in alt.symbols:
                    walk(s)
        def walk(s):
            if s.kind == "nt":
                go(s.value)
            for c in s.children:
                walk(c)
        go(root)
        return order

OFFSETS = {0: "bv", 1: "wv", 3: "arr", 8: "sd", 10: "sw", 14: "aw", 18: "tl"}     # offsets of the prelude labels
PRELUDE = "bv: db 7\nwv: dw 0x1234\narr: db [5]\nsd: db \"ab\"\nsw: dw \"xy\"\naw: dw [2]\ntl: db 1\n"

def program(line):
    return PRELUDE + "start:\n" + line + "\nlab:\nhlt\nfin:\n"

def shapes(g, thorough):
    n_samples = 6 if thorough else 2
    out = []
    for name in g.reach("opcodes") + ["print_stmt"]:
        nt = g.nts[name]
        for alt in nt.alts:
            # only alternatives that have code of their own (an action), not pure dispatch
            if alt.action is None:
                continue
            if g.table(name) is not None:
                continue
            if "out.code.push" not in alt.action and name not in ("op_in", "op_out", "load_ptr", "control_unsupported", "into_iret"):
                continue          # helper non-terminals (operands, numbers): covered through the instructions
            if name in ("procedure",):
                continue
            # the mnemonic symbol(s): literal tables among the top-level symbols
            tables = [(i, g.table(s.value)) for i, s in enumerate(alt.symbols) if s.kind == "nt" and not s.suffix and g.table(s.value) is not None
                      and s.value.startswith("quote")]
            spellings = [[]]
            for i, t in tables:
                spellings = [sp + [(i, w)] for sp in spellings for w in t]
            if len(spellings) > 80:
                g.rng.shuffle(spellings)
                spellings = spellings[:80]
            for sp in spellings:
                fixed = dict(sp)
                for _ in range(n_samples):
                    parts = []
                    for i, s in enumerate(alt.symbols):
                        p = fixed[i] if i in fixed else g.render_sym(s, 1)
                        if p is not None:
                            parts.append(p)
                    out.append(program(g.join(parts)))
    return out

REG8 = ["al", "ah", "bl", "bh", "cl", "ch", "dl", "dh"]
REG16 = ["ax", "bx", "cx", "dx", "si", "di", "bp", "sp"]

def rand_instr(g, labels, fns, datal):
    r = g.rng
    k = r.randrange(12)
    if k == 0 and labels:
        return r.choice(["jmp", "JNE", "jz", "loop", "JCXZ", "jnbe", "JPO"]) + " " + r.choice(labels)
    if k == 1 and fns:
        return r.choice(["call", "CALL"]) + " " + r.choice(fns)
    if k == 2:
        return r.choice(["print reg", "PRINT FLAGS", "print mem 0 -> 15", "print mem 0x10 : 4", "print mem :3"])
    if k == 3 and datal:
        return "mov " + r.choice(REG16) + ", " + r.choice(["word", "WORD"]) + " " + r.choice(datal)
    if k == 4:
        return r.choice(["int 3", "int 0x10", "INT 0x21"])
    for _ in range(20):
        name = r.choice(["mov", "binary_arithmetic", "unary_arithmetic", "binary_logical", "shift_rotate", "not", "xchg", "push", "pop", "lea",
                         "string", "singleton_arithmetic", "control_supported", "singleton_data_transfer"])
        s = g.sample(name)
        # operands refer to the prelude's labels; replace by this program's data labels
        if datal:
            s = re.sub(r"\b(bv|wv|arr)\b", lambda m: r.choice(datal), s)
        elif re.search(r"\b(bv|wv|arr)\b", s):
            continue
        return s
    return "nop"

def rand_data(g, n, big=False):
    r = g.rng
    lines, labels = [], []
    for i in range(n):
        k = r.randrange(10)
        lab = ""
        if r.random() < 0.7:
            name = "d%d" % i
            labels.append(name)
            lab = name + ":" + r.choice([" ", "", "\n"])
        if k == 0:
            seg = r.choice([0xFFFF, 0xFFFF, 0xFFF0, 0xF001, 0, r.randrange(65536)])
            lines.append(r.choice(["set", "SET"]) + " " + g.num(seg, seg)); lab and labels.pop()
            continue
        kw = r.choice(["db", "DB"]) if k < 6 else r.choice(["dw", "DW"])
        word = kw.lower() == "dw"
        form = r.randrange(4)
        if form == 0:
            v = g.sample("s_word_num" if word else "s_byte_num")
            if "offset" in v.lower():
                v = "5"
            lines.append(f"{lab}{kw} {v}")
        elif form == 1:
            n_el = r.choice([0, 1, 2, 3, 16, 255, 256]) if not big else r.choice([0, 1, 1000, 20000, 32767, 32768, 40000, 65535])
            lines.append(f"{lab}{kw} [{n_el}]")
        elif form == 2:
            v = g.num(-128, -1) if r.random() < 0.3 else g.num(0, 65535 if word else 255)
            n_el = r.choice([0, 1, 2, 3, 16, 255]) if not big else r.choice([0, 1, 1000, 20000, 32767, 32768, 65535])
            lines.append(f"{lab}{kw} [{v} , {n_el}]")
        else:
            chars = "abcXYZ 019_-+*/!?.,:;<>[](){}'#$%&=@^`|~\\" + '"'
            ln = r.choice([0, 1, 2, 5, 17]) if not big else r.choice([0, 3, 300, 5000])
            s = "".join(r.choice(chars) for _ in range(ln)).replace(";", ":")
            lines.append(f'{lab}{kw} "{s}"')
    return lines, labels

def progs(g, thorough, count):
    out = []
    r = g.rng
    for _ in range(count):
        dlines, dlabels = rand_data(g, r.randrange(0, 5))
        macros = []
        mnames = []
        if r.random() < 0.4:
            for m in range(r.randrange(1, 3)):
                nm = "m%d" % m
                body = r.choice(["mov ax, p mov bx, q", "inc p dec q", "add p, q", "push p pop q", "not p"])
                if mnames and r.random() < 0.5:
                    body += " " + r.choice(mnames) + "(p,q)"
                macros.append(f"{r.choice(['macro','MACRO'])} {nm}(p,q) -> {body} <-")
                mnames.append(nm)
        nl = r.randrange(1, 6)
        labels = ["L%d" % i for i in range(nl)]
        fns = ["f%d" % i for i in range(r.randrange(0, 3))]
        code = []
        body_items = []
        for f in fns:
            n = r.randrange(1, 4)
            items = [rand_instr(g, [], [x for x in fns if x < f], dlabels) for _ in range(n)]
            code.append(f"{r.choice(['def','DEF'])} {f} {{\n" + "\n".join(items) + (("\nret") if r.random() < 0.3 else "") + "\n}")
        total = r.randrange(2, 14)
        pos = sorted(r.sample(range(total + 1), min(nl, total + 1)))
        li = 0
        seq = []
        for i in range(total + 1):
            while li < len(pos) and pos[li] == i and li < nl:
                seq.append(labels[li] + ":"); li += 1
            if i < total:
                if mnames and r.random() < 0.15:
                    seq.append(r.choice(mnames) + "(" + r.choice(REG16) + "," + r.choice(REG16) + ")")
                else:
                    seq.append(rand_instr(g, labels, fns, dlabels))
        defined = [l[:-1] for l in seq if l.endswith(":")]
        seq = [s if not re.match(r"(?i)(jmp|jne|jz|loop|jcxz|jnbe|jpo)\s+(\w+)", s) or s.split()[-1] in defined else "nop" for s in seq]
        start_at = r.randrange(0, len(seq) + 1)
        seq.insert(start_at, "start:")
        sep = r.choice(["\n", "\n\n", " \n", "\n\t"])
        src = "\n".join(dlines) + "\n" + "\n".join(macros) + "\n" + "\n".join(code) + "\n" + sep.join(seq) + r.choice(["\n", "", "\n\n"])
        out.append(src)
    return out

def data_cases(g, thorough, count):
    out = []
    for i in range(count):
        big = (i % 4 == 0)
        dlines, dlabels = rand_data(g, g.rng.randrange(1, 9), big)
        uses = "".join(f"mov ax, word {l}\nmov bx, offset {l}\n" for l in dlabels[:4])
        out.append("\n".join(dlines) + "\nstart:\n" + uses + "hlt\n")
    return out

def errors_x(g, thorough, count):
    """valid program x one semantic mutation, with the verdict the property demands where it is known by construction:
    (source, "!refused" | "!accepted" | None)"""
    r = g.rng
    base = "v: db 5\nw: dw 7\ndef f {\ninc bx\n}\nstart:\nmov ax, 1\nadd ax, word w\njnz lab\ncall f\nlab:\nhlt\n"
    muts = [
        ("jnz lab", "jnz nolabel"), ("jnz lab", "jnz v"), ("lab:", "lab:\nlab:"), ("def f {", "def f {\n}\ndef f {"),
        ("add ax, word w", "add ax, word lab"), ("add ax, word w", "add ax, word nolabel"), ("mov ax, 1", "mov ax, offset lab"),
        ("mov ax, 1", "mov ax, offset nolabel"), ("call f", "call lab"), ("call f", "call g"), ("mov ax, 1", "mov ax, 65536"),
        ("mov ax, 1", "mov al, 256"), ("mov ax, 1", "mov al, -129"), ("mov ax, 1", "mov ax, -32769"), ("mov ax, 1", "mov ax, bl"),
        ("mov ax, 1", "mov al, word [bx]"), ("add ax, word w", "add word [bx], word w"), ("mov ax, 1", "in al, 5"), ("mov ax, 1", "out 5, al"),
        ("mov ax, 1", "lds ax, [bx]"), ("mov ax, 1", "les ax, [bx]"), ("mov ax, 1", "wait"), ("mov ax, 1", "esc"), ("mov ax, 1", "lock"),
        ("mov ax, 1", "into"), ("mov ax, 1", "iret"), ("mov ax, 1", "movsb"), ("mov ax, 1", "int 4"), ("mov ax, 1", "int 0x20"),
        ("start:", "begin:"), ("start:", ""), ("v: db 5", "start: db 5"), ("mov ax, 1", "shl ax, 256"), ("mov ax, 1", "print mem 0xFFFFF : 1"),
        ("v: db 5", "v: db 256"), ("v: db 5", "v: db -129"), ("w: dw 7", "w: dw 65536"), ("w: dw 7", "w: dw [1,65536]"), ("v: db 5", "set 65536"),
        ("mov ax, 1", "mov ax, 1 mov"), ("mov ax, 1", "mov [bx], 5"), ("mov ax, 1", "push al"), ("mov ax, 1", "pop cs"),
        ("mov ax, 1", "m1(ax)"), ("jnz lab", "jnz lab\njmp nolabel"), ("jnz lab", "jnz lab\njz lab\nloop nowhere"),
        ("mov ax, 1", "mov ds, al"), ("mov ax, 1", "mov es, bh"), ("mov ax, 1", "mov al, ds"), ("mov ax, 1", "mov byte [bx], ds"), ("mov ax, 1", "xchg ax, bl"),
        ("mov ax, 1", "add al, bx"), ("mov ax, 1", "push ah"), ("mov ax, 1", "pop bl"), ("mov ax, 1", "lea al, word [bx]"), ("mov ax, 1", "mul 5"),
        ("mov ax, 1", "shl ax, bl"), ("mov ax, 1", "cmp byte [bx], byte [si]"), ("mov ax, 1", "mov cs, 5"), ("mov ax, 1", "mov ds, 5"), ("inc bx", "def g {\nnop\n}"), ("mov ax, 1", "rep cmps byte"), ("mov ax, 1", "repe movs byte"),
        # one undefined label used by several jumps (the diagnostic must name the first use, every time)
        ("jnz lab", "jnz nolabel\njmp nolabel"), ("jnz lab", "jz gone\nloop gone\njmp gone\njc gone\njnz gone"),
        ("call f", "jmp away\ncall f\njmp away\njz away\njmp away"), ("inc bx", "jmp deep\ninc bx\njz deep\nloop deep\njmp deep"),
        # a jump whose target is a procedure name (not a label), reached at run time
        ("jnz lab", "jnz f"), ("jnz lab", "jmp f"), ("jnz lab", "mov cx, 2\nloop f"), ("jnz lab", "mov cx, 0\njcxz f"), ("jnz lab", "JMP f"),
        ("call f", "call f\njmp late"), ("call f", "call start"), ("call f", "call v"),
    ]
    out = [(base, "!accepted")]
    for a, b in muts:
        out.append((base.replace(a, b, 1), "!refused"))
    out.append((base.replace("call f", "jmp late", 1) + "def late {\ninc dx\n}\n", "!refused"))
    # OFFSET of a label used as a byte constant, the label lying at 255 / 256 / 257
    for pad in (254, 255, 256, 257, 65535):
        for use in ("mov al, offset v", "shl ax, offset v", "mov byte [bx], offset v", "int offset v", "and al, offset v", "db offset v"):
            c = base.replace("v: db 5", "pad: db [%d]\nv: db 5" % pad, 1)
            verdict = None if use.startswith("int") else ("!accepted" if pad <= 255 else "!refused")
            out.append((c.replace("w: dw 7", "w: dw 7\n" + use, 1) if use.startswith("db") else c.replace("mov ax, 1", use, 1), verdict))
    # an error that arises inside a macro expansion (the diagnostic belongs to the use, not to a place in the expanded text)
    mlib = "macro addn(a,b) -> add a, b <-\nmacro twice(r) -> addn(r, r) addn(r, bl) <-\nmacro setb(q) -> mov al, q <-\nmacro ldw(q) -> mov ax, q <-\nmacro jj(l) -> jmp l <-\n"
    for use, verdict in (("addn(ax, bl)", "!refused"), ("setb(300)", "!refused"), ("twice(cx)", "!refused"), ("addn(ax)", "!refused"), ("setb(word [bx])", "!refused"),
                ("inc cx\n  addn(al, word w)", "!refused"), ("jj(nolabel)", "!refused"), ("jj(v)", "!refused"),
                ("jj(aa)\njj(bb)\njj(cc)\njj(dd)\njj(ee)\njj(ff)", "!refused"), ("jj(zz)\njj(yy)\njj(xx)\njmp ww\njj(vv)", "!refused"),
                ("six(u1,u2,u3,u4,u5,u6)", "!refused"), ("six(k6,k5,k4,k3,k2,k1)", "!refused"), ("six(lab,q2,lab,q1,start,q0)", "!refused"),
                ("six(m3,m1,m2,m1,m3,m2)\nsix(n1,n2,n3,n4,n5,n6)", "!refused"),
                # several forward references recorded at ONE position (one macro use): an undefined one followed by defined ones
                ("six(q1,q2,q3,q4,q5,lab)", "!refused"), ("six(lab,lab,lab,lab,nolabel,lab)", "!refused"), ("six(nolabel,lab,lab,lab,lab,lab)", "!refused"),
                ("six(lab,lab,lab,lab,lab,lab)", "!accepted"),
                ("setb(word w)", "!refused"), ("setb(WORD w)", "!refused"), ("ldw(word w)", "!accepted"), ("ldw(WORD w)", "!accepted"), ("ldw(byte v)", "!refused"),
                ("setb(byte v)", "!accepted"), ("setb(byte [bx])", "!accepted"), ("ldw(word [bx,si])", "!accepted"), ("ldw(byte [bx])", "!refused"),
                ("addn(ax, word w)", "!accepted"), ("addn(al, byte v)", "!accepted"), ("addn(ax, byte v)", "!refused"), ("setb(255)", "!accepted"), ("setb(256)", "!refused")):
        wl = base.replace("w: dw 7\n", "w: dw 7\n" + mlib + "macro six(a,b,c,d,e,g) -> jmp a jz b jc c loop d jmp e jnz g <-\n", 1)
        out.append((wl.replace("mov ax, 1", "mov ax, 1\n" + use, 1), verdict))
        out.append((wl.replace("inc bx", "inc bx\n" + use, 1), verdict))
    # indirect macro recursion through several macros (the diagnostic must not depend on the order of the active set)
    for k in (2, 3, 4, 6):
        names = ["rc%d" % i for i in range(k)]
        lib = "".join("macro %s(a) -> inc a %s(a) <-\n" % (names[i], names[(i + 1) % k]) for i in range(k))
        out.append((base.replace("w: dw 7\n", "w: dw 7\n" + lib, 1).replace("mov ax, 1", "mov ax, 1\n%s(bx)" % names[0], 1), "!refused"))
        out.append((base.replace("w: dw 7\n", "w: dw 7\n" + lib, 1).replace("inc bx", "inc bx\n%s(cx)" % names[k - 1], 1), "!refused"))
    for a, n_ in [(1048575, 0), (1048575, 1), (0xFFFF0, 15), (0xFFFF0, 16), (0, 1048575), (0, 1048576)]:
        out.append((base.replace("mov ax, 1", "print mem %d : %d" % (a, n_), 1), None))
    # boundary values of the constant ranges (accepted / rejected by one)
    for ins, lo, hi in [("mov al, %d", -128, 255), ("mov ax, %d", -32768, 65535), ("shl ax, %d", 0, 255), ("and al, %d", 0, 255), ("or ax, %d", 0, 65535),
                        ("int %d", 3, 3), ("mov byte [bx], %d", -128, 255), ("add word [bx,si,%d], 1", -32768, 65535), ("mov ax, word [%d]", 0, 65535)]:
        for v in (lo - 1, lo, hi, hi + 1):
            out.append((base.replace("mov ax, 1", ins % v, 1), "!accepted" if lo <= v <= hi else "!refused"))
    # the same for every instruction family x every byte / word destination form (ranges as documented: arithmetic and mov take
    # signed or unsigned constants of the operand's width, logical instructions unsigned ones)
    for op, signed in [("mov", True), ("add", True), ("adc", True), ("sub", True), ("sbb", True), ("cmp", True),
                       ("and", False), ("or", False), ("xor", False), ("test", False)]:
        for dest, bits in [("byte v", 8), ("byte [bx]", 8), ("byte [bx,si,2]", 8), ("al", 8), ("dh", 8), ("word w", 16), ("word [bx]", 16), ("word es[di,4]", 16), ("ax", 16), ("si", 16)]:
            lo = -(2 ** (bits - 1)) if signed else 0
            hi = 2 ** bits - 1
            for v in (lo - 1, lo, hi, hi + 1):
                out.append((base.replace("mov ax, 1", "%s %s, %d" % (op, dest, v), 1), "!accepted" if lo <= v <= hi else "!refused"))
    # fill values and counts of arrays
    for d, lo, hi in (("db", -128, 255), ("dw", -32768, 65535)):
        for v in (lo - 1, lo, hi, hi + 1):
            out.append((base.replace("v: db 5", "v: %s [%d , 2]" % (d, v), 1), "!accepted" if lo <= v <= hi else "!refused"))
            out.append((base.replace("v: db 5", "v: %s %d" % (d, v), 1), "!accepted" if lo <= v <= hi else "!refused"))
    for d, mx in (("db", 65535), ("dw", 32767)):
        out.append(("x: %s [%d]\nstart:\nhlt\n" % (d, mx), "!accepted"))           # exactly fills the segment
        out.append(("x: %s [%d]\nstart:\nhlt\n" % (d, mx + 1), "!refused"))
        out.append(("x: %s [%d]\ny: dw 1\nstart:\nhlt\n" % (d, mx), "!refused"))   # one / two bytes too many
        out.append(("x: %s [65536]\nstart:\nhlt\n" % d, "!refused"))
    out += long_string_cases()
    return out

def long_string_cases():
    """(source, verdict): single strings / totals whose bytes exceed one 64 KiB segment must be diagnosed (C12, C14);
    the counts are far from the implementation's own per-string cap so that only the property decides"""
    out = []
    tail = "y: db 1\nstart:\nmov ax, offset y\nprint reg\nhlt\n"
    for d, nchars in (("dw", 32768), ("dw", 33000), ("dw", 40000), ("DW", 65537), ("db", 65536), ("db", 70000), ("DB", 131075)):
        out.append(("x: %s \"%s\"\n" % (d, "A" * nchars) + tail, "!refused"))
    for pre, d, nchars, verdict in (("a: db [60000]\n", "dw", 3000, "!refused"), ("a: db [60000]\n", "dw", 1000, "!accepted"),
                                    ("a: dw [30000]\n", "db", 5600, "!refused"), ("a: dw [30000]\n", "db", 5000, "!accepted"),
                                    ("a: db [100]\n", "dw", 32760, "!refused"), ("set 5\na: db [65000]\n", "db", 600, "!refused")):
        out.append((pre + "x: %s \"%s\"\n" % (d, "Z" * nchars) + tail, verdict))
    return out

def errors(g, thorough, count):
    return [c for c, _ in errors_x(g, thorough, count)]

def macros(g, thorough, count):
    r = g.rng
    out = []
    for _ in range(count):
        nm = r.randrange(1, 6)
        names = [r.choice(["a", "ab", "abc", "b", "ba", "x", "x1", "_x", "mm"]) + str(i) for i in range(nm)]
        lib = []
        for i, n in enumerate(names):
            np_ = r.randrange(0, 4)
            params = r.sample(["a", "ab", "abc", "b", "x", "ax1", "p", "pp", "mov", "m", "r", "r_hi", "p_", "_p", "a_1", "x_"], np_)
            params = [p for p in params if p not in ("mov",)] if r.random() < 0.9 else params
            toks = []
            for _ in range(r.randrange(1, 4)):
                op = r.choice(["mov", "add", "xchg", "cmp"])
                a = r.choice(params + ["ax", "bx"]) if params else "ax"
                b = r.choice(params + ["cx", "5", "dx"]) if params else "1"
                if params and r.random() < 0.25:
                    # a body word that merely CONTAINS a parameter, delimited by '_' or a digit (must stay as it is: it is then an
                    # undefined name and the use is refused, or - for a register-like word - nothing at all is replaced)
                    b = r.choice(params) + r.choice(["_hi", "_2", "1", "x"]) if r.random() < 0.5 else r.choice(["q_", "z9_"]) + r.choice(params)
                toks.append(f"{op} {a},{b}")
            if i > 0 and r.random() < 0.6:
                callee = r.choice(names[:i] if r.random() < 0.8 else names)
                toks.append(f"{callee}({','.join(r.choice(params + ['ax']) for _ in range(3))})")
            if params and r.random() < 0.2:
                toks.append(f"{r.choice(params)}(ax)")          # macro passed by name
            if i > 0 and r.random() < 0.35:
                # a completed inner use followed by a (possibly recursive) second use
                toks.append(f"{names[0]}({','.join(['ax'] * 3)})")
                toks.append(f"{r.choice(names)}({','.join(r.choice(params + ['bx']) for _ in range(3))})")
            lib.append(f"macro {n}({','.join(params)}) -> {' '.join(toks)} <-")
        uses = []
        for _ in range(r.randrange(1, 4)):
            n = r.choice(names + names + names + ["nomacro"])
            args = [r.choice(["ax", "bx", "dx", "cx", "si", "7", "0x10", "word [bx,si,2]", "word wv", "di", "bp"]) for _ in range(3)]
            if r.random() < 0.15:
                args = [r.choice(["byte [bx]", "lab", r.choice(names), "es", "offset wv", "al"]) for _ in range(r.randrange(0, 4))]
            uses.append(f"{n}({', '.join(args)})")
        body = "\n".join(uses)
        if r.random() < 0.3:
            body = "def fn {\n" + body + "\n}\n" + "nop"
        out.append("wv: dw 1\n" + "\n".join(lib) + "\nstart:\nlab:\n" + body + "\nhlt\n")
    return out


def split_args(t):
    """split at commas outside brackets"""
    out, depth, cur = [], 0, ""
    for ch in t:
        if ch == "[":
            depth += 1
        elif ch == "]":
            depth -= 1
        if ch == "," and depth == 0:
            out.append(cur.strip()); cur = ""
        else:
            cur += ch
    if cur.strip() or out:
        out.append(cur.strip())
    return out

class RefRefused(Exception):
    pass

def ref_expand(text, lib, active=()):
    """the reference expansion (written from the property, not from the code): every use `name(args)` of a defined macro in
    `text` is replaced by the macro's body with every whole-word occurrence of each parameter replaced, simultaneously, by the
    corresponding argument; recursion, unknown arity shortfalls -> RefRefused"""
    names = {n for n, _, _ in lib}
    def repl(m):
        name = m.group(1)
        if name not in names:
            return m.group(0)
        if name in active:
            raise RefRefused("recursion " + name)
        params, body = next((p, b) for n, p, b in lib if n == name)
        args = split_args(m.group(2))
        mp = {}
        for i, prm in enumerate(params):
            if prm in mp:
                continue
            mp[prm] = i
        def sub(mm):
            w = mm.group(0)
            if w in mp:
                if mp[w] >= len(args):
                    raise RefRefused("missing argument")
                return args[mp[w]]
            return w
        inst = re.sub(r"[_a-zA-Z0-9]+", sub, body)
        return " " + ref_expand(inst, lib, active + (name,)) + " "
    return re.sub(r"\b([_a-zA-Z][_a-zA-Z0-9]*)\(([^()]*)\)", repl, text)

def macroref(g, thorough, count):
    """(program with macros, the same program with every use written out by hand or None when the reference refuses it)"""
    r = g.rng
    out = []
    for _ in range(count):
        nm = r.randrange(1, 5)
        names = [r.choice(["a", "ab", "abc", "b", "ba", "x", "x1", "_x", "mm"]) + str(i) for i in range(nm)]
        lib = []
        for i, n in enumerate(names):
            np_ = r.randrange(0, 4)
            params = r.sample(["a", "ab", "abc", "b", "x", "ax1", "p", "pp", "m", "r", "r_hi", "p_", "_p", "a_1", "x_", "q"], np_)
            toks = []
            for _k in range(r.randrange(1, 4)):
                form = r.randrange(9)
                pa = r.choice(params) if params else "ax"
                pb = r.choice(params) if params else "1"
                if form == 0:
                    toks.append(f"mov {r.choice([pa, 'ax', 'bx'])},{r.choice([pb, 'cx', '5'])}")
                elif form == 1:
                    toks.append(f"add {r.choice([pa, 'dx'])}, {r.choice([pb, '0x10'])}")
                elif form == 2:
                    toks.append(f"mov ax, word [{pb}]")            # the argument in an unsigned-only position
                elif form == 3:
                    toks.append(f"mov al, {pb}")                    # ... in a byte position
                elif form == 4:
                    toks.append(f"mov word [bx,{pb}], ax")          # ... in a signed displacement
                elif form == 5:
                    toks.append(f"cmp {pa}, {pb}")
                elif form == 6 and params:
                    toks.append(f"inc {params[-1]}")                # a later parameter used, earlier ones perhaps not
                elif form == 7 and params:
                    toks.append(f"push {pa} pop {pa}")
                else:
                    toks.append(f"xchg {r.choice([pa, 'ax'])},{r.choice(['bx', 'dx'])}")
                if params and r.random() < 0.2:
                    toks.append(f"mov dx, {r.choice(params)}{r.choice(['_hi', '1', 'x'])}" if r.random() < 0.3 else f"push {r.choice(params)}")
            if i > 0 and r.random() < 0.6:
                callee = r.choice(names[:i])
                toks.append(f"{callee}({','.join(r.choice(params + ['ax', '3']) for _k in range(3))})")
            if params and r.random() < 0.15:
                toks.append(f"{r.choice(params)}(ax,bx,cx)")          # macro passed by name
            lib.append((n, params, " ".join(toks)))
        uses = []
        for _k in range(r.randrange(1, 4)):
            n = r.choice(names)
            pool = ["ax", "bx", "dx", "cx", "si", "7", "0x10", "word [bx,si,2]", "word wv", "di", "bp", "65520", "0xFFFF", "32768", "0x8000", "255", "256",
                    "128", "0b1000000000000000", "40000", "byte [bx]", "offset wv", "word [0xFFF0]", "word es[bp,di,-2]", "SS", "ss", "ES", "DS", "ds", "AX", "BX", "SI", "WORD wv", "BYTE [bx]", "word WV" if False else "word wv"]
            args = [r.choice(pool) for _k2 in range(3)]
            if r.random() < 0.1:
                args[r.randrange(3)] = r.choice(names)
            uses.append(f"{n}({', '.join(args)})")
        body = "\n".join(uses)
        if r.random() < 0.3:
            body = "def fn {\n" + body + "\n}\nstart:\nlab:\ncall fn"
        else:
            body = "start:\nlab:\n" + body
        head = "wv: dw 1\n"
        libtxt = "\n".join(f"macro {n}({','.join(ps)}) -> {b} <-" for n, ps, b in lib)
        try:
            ref = head + ref_expand(body, lib) + "\nhlt\n"
        except RefRefused:
            ref = None
        out.append((head + libtxt + "\n" + body + "\nhlt\n", ref))
    # macros with more than ten parameters (placeholders of two digits), every parameter used
    for npar in (10, 11, 12, 13, 21):
        ps = ["p%d" % i for i in range(npar)]
        regs_ = ["ax", "bx", "cx", "dx", "si", "di", "bp"]
        bodyt = " ".join("add %s, %s" % (regs_[i % 7], ps[i]) for i in range(npar)) + " mov ax, %s" % ps[-1]
        libm = [("wide", ps, bodyt)]
        args = [str(3 + 2 * i) for i in range(npar)]
        for use in ("wide(%s)" % ", ".join(args), "wide(%s)" % ", ".join(reversed(args)), "wide(%s)" % ", ".join(args[:-1])):
            body = "start:\nlab:\n" + use
            try:
                ref = "wv: dw 1\n" + ref_expand(body, libm) + "\nhlt\n"
            except RefRefused:
                ref = None
            out.append(("wv: dw 1\nmacro wide(%s) -> %s <-\n" % (",".join(ps), bodyt) + body + "\nhlt\n", ref))
    # every register name, in both cases, in every operand role a macro can put it
    lib = [("u1", ["p"], "push p pop p"), ("u2", ["p"], "inc p"), ("u3", ["p", "q"], "mov p, q"), ("u4", ["p"], "mov p, ax"), ("u5", ["p"], "mov ax, p"),
           ("u6", ["p"], "xchg p, bx"), ("u7", ["p"], "mov word [bx], p"), ("u8", ["p"], "mov cl, p")]
    libtxt = "\n".join(f"macro {n}({','.join(ps)}) -> {b} <-" for n, ps, b in lib)
    regs = "ax bx cx dx si di bp sp al ah bl bh cl ch dl dh es ds ss cs".split()
    for rg in regs:
        for spelled in (rg, rg.upper()):
            for use in (f"u1({spelled})", f"u2({spelled})", f"u3({spelled}, {spelled})", f"u4({spelled})", f"u5({spelled})", f"u6({spelled})",
                        f"u7({spelled})", f"u8({spelled})"):
                body = "start:\nlab:\n" + use
                try:
                    ref = "wv: dw 1\n" + ref_expand(body, lib) + "\nhlt\n"
                except RefRefused:
                    ref = None
                out.append(("wv: dw 1\n" + libtxt + "\n" + body + "\nhlt\n", ref))
    return out

# ------------------------------------------------------------------------------------------------
# whole-run cases for the CLI (kind `cli`): terminating programs

SAFE_BODY = ["inc ax", "dec bx", "add dx, 3", "sub ax, bx", "xor bx, dx", "not dx", "mov word [0x200], ax", "mov byte [bx], dl", "print reg",
             "print flags", "push ax", "pop dx", "shl ax, 1", "rcr dx, 3", "neg bx", "cmp ax, dx", "test ax, 1", "stc", "cmc", "xchg ax, dx",
             "lahf", "sahf", "cbw", "mul bl", "lods byte", "stos word", "mov si, di", "cli", "sti", "cld", "std", "clc", "CLI", "STI", "nop"]

def run_prog(g, with_int3=False, with_tf=False):
    """structured terminating program: procedures first, forward jumps, bounded LOOPs"""
    r = g.rng
    dlines, dlabels = rand_data(g, r.randrange(0, 4))
    procs, fns = [], []
    for i in range(r.randrange(0, 3)):
        name = "f%d" % i
        body = [r.choice(SAFE_BODY) for _ in range(r.randrange(1, 4))]
        if fns and r.random() < 0.5:
            body.insert(r.randrange(len(body) + 1), "call " + r.choice(fns))
        if r.random() < 0.3:
            body.append(r.choice(["ret", "RET"]))
        if r.random() < 0.3:
            body.insert(0, "pl%d:" % i)
        if r.random() < 0.35:
            # a body that ends in an unconditional transfer, with a label on the closing brace
            body = ["pt%d:" % i, "inc dx", "cmp dx, %d" % r.choice([1, 2, 3]), r.choice(["je", "jae", "JNB"]) + " pd%d" % i,
                    r.choice(["jmp pt%d" % i, "jmp pt%d" % i, "hlt"]), "pd%d:" % i]
        procs.append("def %s {\n%s\n}" % (name, "\n".join(body)))
        fns.append(name)
    nblocks = r.randrange(1, 6)
    labels = ["B%d" % i for i in range(nblocks + 1)]
    seq = []
    for b in range(nblocks):
        seq.append(labels[b] + ":")
        kind = r.randrange(6)
        if kind == 0:
            k = r.randrange(0, 5)
            seq += ["mov cx, %d" % (k if k else r.choice([1, 2, 3])), "W%d:" % b] + [r.choice(SAFE_BODY) for _ in range(r.randrange(1, 3))] + [r.choice(["loop", "LOOP"]) + " W%d" % b]
        elif kind == 1 and fns:
            seq.append("call " + r.choice(fns))
        elif kind == 1:
            # a one-instruction delay loop (the jump targets itself)
            seq += ["mov cx, %d" % r.choice([1, 2, 3, 5]), "S%d:" % b, r.choice(["loop", "LOOP", "loopne", "loopz"]) + " S%d" % b]
        elif kind == 2:
            tgt = r.choice(labels[b + 1:])
            seq += [r.choice(SAFE_BODY), r.choice(["jmp", "jz", "jnz", "JC", "jnbe", "jle", "js", "jpo", "jcxz"]) + " " + tgt, r.choice(SAFE_BODY)]
        elif kind == 3:
            seq += [rand_instr(g, labels[b + 1:], fns, dlabels) for _ in range(r.randrange(1, 4))]
        elif kind == 4 and dlabels:
            l = r.choice(dlabels)
            seq += ["mov bx, offset %s" % l, "mov al, byte [bx]", "print mem offset %s : 4" % l]
        else:
            seq += [r.choice(SAFE_BODY) for _ in range(r.randrange(1, 4))]
        if with_int3 and r.random() < 0.4:
            seq.append("int 3")
    nested = ""
    if r.random() < 0.3:
        nested = "macro m_in(a) -> print reg inc a <-\nmacro m_out(a) -> m_in(a) print flags m_in(a) dec a <-\n"
        seq.insert(r.randrange(1, len(seq) + 1), r.choice(["m_out(bx)", "m_in(dx)", "m_out(ax)\nm_in(bx)"]))
    if with_tf:
        seq.insert(1, "mov ax, 0x0100\npush ax\npopf")
        if r.random() < 0.5:
            # stepping that ENDS: the program clears the trap flag again after a few stepped instructions and then
            # produces run-time messages (print, breakpoint, divide error / unsupported service) that must cite their own lines
            k = r.randrange(2, len(seq) + 1)
            seq.insert(k, r.choice(["pushf\npop ax\nand ax, 0xFEFF\npush ax\npopf", "mov ax, 0\npush ax\npopf", "inc bx\npushf\npop dx\nand dx, 65279\npush dx\npopf\nnop"]))
            for m in r.sample(["print reg", "int 3", "print flags", "print mem 0 : 3", "inc cx\nint 3\nprint reg"], r.randrange(1, 4)):
                seq.insert(r.randrange(k + 1, len(seq) + 1), m)
            if r.random() < 0.4:
                seq.append(r.choice(["mov dl, 0\ndiv dl", "mov ah, 0x77\nint 0x21", "mov ah, 0x55\nint 0x10"]))
    seq.append(labels[nblocks] + ":")
    tail = r.choice(["hlt", "", "print reg", "hlt\nmov ax, 0xDEAD\nprint reg",
                     "jmp ZEND\nmov ax, 0xDEAD\nhlt\nZEND:", "cmp ax, ax\njz ZEND\nhlt\nZEND:", "jmp ZE2\nZE1:\nhlt\nZE2:\njmp ZE1"])
    main = "\n".join(seq) + "\n" + tail
    if fns and nblocks >= 2 and r.random() < 0.15:
        # labels and procedures are separate name spaces: a (forward) label named like an earlier procedure
        main = re.sub(r"\b%s\b" % r.choice(labels[1:]), r.choice(fns), main)
    if r.random() < 0.5:
        main = "start:\n" + main
    else:
        # start in the middle: everything before it must not run
        main = "mov ax, 0xBAD\nprint reg\nstart:\n" + main
    src = "\n".join(dlines) + "\n" + nested + "\n".join(procs) + "\n" + main + r.choice(["\n", "", "\n\n; end\n"])
    if r.random() < 0.3:
        src = src.replace("\n", " ; c\n", r.randrange(1, 4))
    if r.random() < 0.12:
        src = src.replace("\n", "\r\n")
    return src

def cli_cases(g, group, thorough):
    r = g.rng
    out = []
    n = lambda q, t: t if thorough else q
    if group == "run":
        for _ in range(n(300, 3000)):
            out.append(("-", run_prog(g), ""))
        # programs longer than 65536 instructions: calls, jumps and labels beyond the 16-bit index range
        big = "def f {\ninc dx\n}\nstart:\n" + "nop\n" * 65540 + "call f\nfar_lab:\ninc bx\ncmp bx, 2\njne far_lab\ncall f\nprint reg\nhlt\n"
        out.append(("-", big, ""))
        if thorough:
            out.append(("-", "start:\njmp over\n" + "inc ax\n" * 70000 + "over:\ncall g\nprint reg\nhlt\ndef g {\ndec cx\n}\n", ""))
        for f in sorted(os.listdir(os.path.join(REPO, "examples"))):
            if f.endswith(".s"):
                out.append(("-", open(os.path.join(REPO, "examples", f)).read(), "abc\nhello\n"))
    elif group == "macros":
        for c in macros(g, thorough, n(300, 3000)):
            out.append(("-", c, ""))
    elif group == "data":
        for c in data_cases(g, thorough, n(400, 3000)):
            out.append(("-", c.replace("hlt\n", "print mem 0 -> 40\nhlt\n"), ""))
        for c, verdict in long_string_cases():
            out.append(("-", c, "", verdict))
    elif group == "shapes":
        # every instruction alternative, executed (the printer and the interpreter are the judges)
        for c in shapes(g, False)[:: (1 if thorough else 4)]:
            if re.search(r"(?i)\b(jmp|j[a-z]+|loop[a-z]*)\s+start\b", c):
                continue          # would spin forever
            out.append(("-", c.replace("lab:\nhlt", "lab:\nprint flags\nhlt"), ""))
        for a, n_ in [(1048575, 0), (1048575, 1), (0xFFFF0, 15), (0xFFFF0, 16), (0, 1048575), (0, 1048576), (1, 1048575), (524288, 524287), (524288, 524288)]:
            out.append(("-", "start:\nprint mem %s : %s\nprint flags\nhlt\n" % (g.num(a, a), g.num(n_, n_)), ""))
            out.append(("-", "start:\nprint mem %d -> %d\nhlt\n" % (min(a, 1048575 - 3), min(a, 1048575 - 3) + 2), ""))
    elif group == "prompt":
        cmds = ["n\n", "next\n", "N\n", " next \n", "print reg\n", "print flags\n", "print mem 0 -> 20\n", "print mem 5:3\n", "print mem :7\n",
                "PRINT REG\n", "garbage\n", "\n", "print\n", "print mem 9 -> 2\n", "print mem 1048575:5\n", "n n\n", "nextt\n", "print mem 0x10 -> 0x20\n",
                "print mem 1048575 : 1\n", "print mem 1048570:6\n", "print mem 1048575 : 0\n", "print mem 1048576 -> 1048580\n", "print mem 1048580 : 2\n",
                "print mem : 1048580\n", "print mem 2097151 -> 2097151\n", "print mem 0 : 1048576\n", "print mem 1048560 : 15\n", "print mem 1048560 : 16\n",
                "print\treg\n", "print\tflags\n", "print\tmem\t0\t->\t4\n", "printreg\n", "print  reg\n", "\tprint reg\t\n", "print mem 0->4\n", "PRINT\tREG\n"]
        for i in range(n(250, 2500)):
            mode = i % 4
            src = run_prog(g, with_int3=(mode == 1), with_tf=(mode == 2))
            flag = "i" if mode in (0, 3) else "-"
            k = r.randrange(0, 60)
            script = ""
            for _ in range(k):
                script += r.choice(cmds) if r.random() < 0.35 else "n\n"
            end = r.randrange(4)
            if end == 0:
                script += r.choice(["q\n", "quit\n", "QUIT\n", " q \n"])
            elif end == 1:
                script += "n\n" * 400
            elif end == 2:
                script += "n"            # premature end of input, last line unterminated
            out.append((flag, src, script))
        # stepping combined with INT 21h input: prompt answers and program input come from the same stdin
        rd = "mov bx, 0x300\nmov byte [bx], 5\nmov dx, bx\nmov ah, 0x0A\nint 0x21\nmov ah, 1\nint 0x21\nprint reg\nprint mem 0x300 : 8\n"
        out.append(("i", "start:\n" + rd, "n\nn\nn\nn\nn\nhello\nn\nn\nXyz\nn\nn\nn\n"))
        out.append(("i", "start:\nmov ah, 1\nint 0x21\nprint reg\nmov ah, 1\nint 0x21\nprint reg\n", "n\nn\nX\nn\nn\nn\nY\nn\nn\n"))
        out.append(("-", "start:\nint 3\nmov ah, 1\nint 0x21\nprint reg\nint 3\nmov ah, 1\nint 0x21\nprint reg\n", "print reg\nn\nQ\nn\nR\n"))
        out.append(("-", "start:\nmov ax, 0x0100\npush ax\npopf\nmov ah, 1\nint 0x21\nprint reg\n", "n\nn\nZ\nn\nn\n"))
        # print commands typed at -i, trap-flag and INT 3 prompts while DS is large
        for seg in (0x0FFF, 0x1000, 0x8000, 0xF000, 0xFFFF):
            for cmd in ("print mem :7", "print mem : 0", "print mem 5 : 3", "print mem 16 -> 20", "print reg", "print flags"):
                body = f"mov ax, {seg}\nmov ds, ax\nmov byte [2], 0x5A\n"
                out.append(("i", "start:\n" + body + "nop\n", f"n\nn\nn\n{cmd}\nn\n"))
                out.append(("-", "start:\n" + body + "int 3\nnop\n", f"{cmd}\nn\n"))
                out.append(("-", "start:\n" + body + "mov ax, 0x0100\npush ax\npopf\nnop\nnop\n", f"{cmd}\nn\n{cmd}\nn\nn\n"))
        # flag-control instructions while stepping is on through the trap flag
        for ins in ("cli", "sti", "cld", "std", "clc", "stc", "cmc", "sahf", "lahf"):
            out.append(("-", f"start:\nmov ax, 0x0300\npush ax\npopf\nnop\n{ins}\nnop\nnop\nprint flags\n", "n\n" * 12))
            out.append(("i", f"start:\nsti\nnop\n{ins}\nnop\nprint flags\n", "n\n" * 12))
        # the smallest programs, stepped and plain: nothing / one instruction after `start:`, explicit final hlt
        for tiny in ["start:", "start:\n", "start: hlt", "start:\nhlt\n", "start:\nnop", "start:\nprint reg", "x: db 1\nstart:\n", "def f {\n}\nstart:\n",
                     "start:\ninc ax\nhlt", "start:\ninc ax\nhlt\n", "start:\ninc ax\njmp e\nhlt\ne:\n", "start:\nmov ax, 0x0100\npush ax\npopf\nhlt\n",
                     "start:\npush cs\npop ax\nprint reg\n", "start:\npush ds\npush es\npush ss\npush cs\nint 3\nprint reg\n"]:
            for fl, script in (("i", "n\n" * 8), ("i", ""), ("i", "print reg\nq\n"), ("-", "n\n" * 8)):
                out.append((fl, tiny, script))
    elif group == "ints":
        for case_i in range(n(600, 4000)):
            ah = r.choice([1, 2, 0x0A, 0x0A, 0x13, 0x0A, r.randrange(256)])
            which = r.choice(["0x21", "0x10"])
            top = case_i % 6 == 0          # buffers that straddle the end of the 1 MB space
            if top:
                ah = r.choice([0x0A, 0x0A, 0x13])
                which = "0x21" if ah == 0x0A else "0x10"
            cap = r.choice([0, 1, 2, 3, 5, 10, 255])
            seg = r.choice([0, 0, 0x1000, 0xFFFF, 0xFFFF, 0xFFF0, r.randrange(65536)])
            off = r.choice([0, 5, 8, r.randrange(16), 0xFFF0, 0xFFFD, 0xFFFF, r.randrange(65536)])
            if top:
                seg, off, cap = 0xFFFF, r.randrange(0, 16), r.choice([10, 20, 255])
            pre = f"mov ax, {seg}\nmov ds, ax\nmov es, ax\nmov bx, {off}\nmov byte [bx], {cap}\nmov dx, bx\nmov bp, bx\n"
            pre += f"mov cx, {r.choice([0,1,3,7,40,255,256,300,1000,4097])}\nmov dl, {r.choice([0,1,4,65,200,255])}\nmov al, {r.choice([65,66,10,200,0])}\n" + ("mov dx, bx\n" if ah == 0x0A and which == "0x21" else "") + f"mov ah, {ah}\nint {which}\n"
            post = "print reg\nmov ax, 0\nmov ds, ax\nprint mem %d : 12\nprint flags\n" % (((seg * 16 + off) % 1048576) if ((seg * 16 + off) % 1048576) + 12 < 1048576 else 0)
            stdin = r.choice(["", "\n", "a\n", "ab", "abc\n", "hello world\n", "0123456789\n", "x" * 300 + "\n", "line1\nline2\n", "\r\n", "tab\there\n",
                              "ab  \n", "x\t\n", "  \n", " lead\n", "cr\r\n", "two  words \t\r\n", "end\x0b\n", "nbsp\u00a0\n",
                              "".join(chr(65 + k % 26) for k in range(r.randrange(8, 40))) + "\n"])
            if top:
                stdin = "".join(chr(65 + k % 26) for k in range(r.randrange(12, 60))) + "\n"
            out.append(("-", "start:\n" + pre + post + ("mov ah, 1\nint 0x21\nprint reg\n" if r.random() < 0.3 else ""), stdin))
        # every AH value for both interrupts (the unsupported ones must be reported and stop the program)
        for which in ("0x21", "0x10"):
            for ah in range(256):
                out.append(("-", f"start:\nmov bx, 0x300\nmov byte [bx], 4\nmov dx, bx\nmov bp, bx\nmov cx, 2\nmov al, 65\nmov ah, {ah}\nint {which}\nprint reg\nmov bx, 7\nprint reg\n", "ab\ncd\n"))
        # counts and lengths at the edges of the 16-bit / 8-bit ranges; long lines followed by further reads
        for cx, dl in ((0xFFFF, 5), (0xFF01, 255), (0xFFFF, 255), (0xFF00, 255), (0x8000, 0), (65535, 0)):
            out.append(("-", f"start:\nmov ax, 0\nmov es, ax\nmov bp, 0x40\nmov byte [0x40], 65\nmov cx, {cx}\nmov dl, {dl}\nmov ah, 0x13\nint 0x10\nprint reg\n", ""))
            out.append(("-", f"start:\nmov cx, {cx}\nmov al, 66\nmov ah, 0x0A\nint 0x10\nprint reg\n", ""))
        for n1 in (255, 256, 257, 258, 300, 600, 5000):
            for cap in (3, 255):
                long_line = "".join(chr(65 + k % 26) for k in range(n1))
                out.append(("-", f"start:\nmov bx, 0x300\nmov byte [bx], {cap}\nmov dx, bx\nmov ah, 0x0A\nint 0x21\nmov bx, 0x500\nmov byte [bx], 10\nmov dx, bx\nmov ah, 0x0A\nint 0x21\n"
                            "mov ah, 1\nint 0x21\nprint reg\nprint mem 0x300 : 8\nprint mem 0x500 : 14\n", long_line + "\nsecond\nthird\n"))
        # lines that lie across byte 8192 / 16384 of the input (refill boundaries of a buffered reader)
        for first in (8186, 8188, 8190, 8191, 8192, 16380):
            stdin_ = "x" * first + "\nHELLO\nWORLD\nend\n"
            out.append(("-", "start:\nmov bx, 0x300\nmov byte [bx], 5\nmov dx, bx\nmov ah, 0x0A\nint 0x21\nmov ah, 1\nint 0x21\nprint reg\nmov ah, 1\nint 0x21\nprint reg\n"
                        "mov ah, 1\nint 0x21\nprint reg\nprint mem 0x300 : 8\n", stdin_))
            out.append(("-", "start:\nmov ah, 1\nint 0x21\nprint reg\nmov ah, 1\nint 0x21\nprint reg\nmov ah, 1\nint 0x21\nprint reg\n", stdin_))
        # input lines with white space at their ends (only the line terminator is not part of the line)
        for line in ["ab  \n", "x\t\n", "   \n", " a \n", "ab \r\n", "ab\r\r\n", "ab\n\n", "q \x0c\n"]:
            for cap in (1, 3, 5, 255):
                out.append(("-", f"start:\nmov bx, 0x300\nmov byte [bx], {cap}\nmov dx, bx\nmov ah, 0x0A\nint 0x21\nprint reg\nprint mem 0x300 : 12\nmov ah, 1\nint 0x21\nprint reg\n", line + "next\n"))
        # reads that continue AFTER the end of input: the same buffer read again and again with fewer lines than reads
        # (a buffered read at end of input stores the count 0, whatever count an earlier read or the program left there)
        for nlines in (0, 1, 2, 3):
            for cap, stale in ((8, 0), (8, 5), (3, 2), (255, 200), (1, 1), (0, 7)):
                stdin_ = "".join(["hello\n", "wo\n", "third line\n"][:nlines])
                rd = "mov dx, bx\nmov ah, 0x0A\nint 0x21\nprint mem 0x300 : 12\n"
                out.append(("-", f"start:\nmov bx, 0x300\nmov byte [bx], {cap}\nmov byte [0x301], {stale}\nmov byte [0x302], 0x2A\n" + rd * 3
                            + "mov ah, 1\nint 0x21\nprint reg\n" + rd, stdin_))
        # input lines that do not start with (or contain only) ASCII
        for line in ["\u00e9t\u00e9\n", "\u0100x\n", "\u20ac\n", "a\u00e9\n", "\U0001F600z\n", "\u00e9", "\x7f\n", "\u00ff\u00fe\n"]:
            for ah, cap in ((1, 0), (0x0A, 1), (0x0A, 2), (0x0A, 3), (0x0A, 5), (0x0A, 255)):
                out.append(("-", f"start:\nmov bx, 0x300\nmov byte [bx], {cap}\nmov dx, bx\nmov ah, {ah}\nint 0x21\nprint reg\nprint mem 0x300 : 12\nmov ah, 1\nint 0x21\nprint reg\n", line + "next\n"))
    elif group == "prints":
        for _ in range(n(250, 2500)):
            setup = "".join("mov %s, %s\n" % (reg, g.num(0, 65535)) for reg in r.sample(REG16, 4))
            setup += r.choice(["", "stc\n", "std\n", "sti\n", "mov ax, 0x7FFF\nadd ax, 1\n", "xor ax, ax\n"])
            dl, _ = rand_data(g, 3)
            a = r.choice([0, 1, 15, 16, 17, 0xFFFF0, 0xFFFFF, r.randrange(1048576)])
            ln = r.choice([0, 1, 15, 16, 17, 31, 32, 100])
            b = min(a + ln, 1048575)
            cmds = [f"print mem {g.num(a, a)} -> {g.num(b, b)}", f"print mem {g.num(a, a)} : {g.num(ln, ln)}" if a + ln < 1048576 else "print reg",
                    f"print mem : {ln}", "print reg", "print flags", f"PRINT MEM {b} -> {a}", f"print mem {1048576 + a} -> {1048576 + b}",
                    f"print mem {g.num(a,a)}->{g.num(b,b)}"]
            seg = r.choice([0, 0, 1, 0xFFFF, 0xFFFF, 0xF000, r.randrange(65536)])
            if seg == 0xFFFF:
                cmds += ["print mem : 15", "print mem : 16", "print mem :17", "PRINT MEM : 0xF"]
            body = setup + f"mov ax, {seg}\nmov ds, ax\n" + "\n".join(r.sample(cmds, 4)) + "\nprint reg\n" + r.choice(cmds) + "\n"
            out.append(("-", "\n".join(dl) + "\nstart:\n" + body, ""))
        # every case combination of the print statements, in the program and at the prompt
        for pw in ("print", "PRINT"):
            for what, exp_ in (("flags", "OF : "), ("FLAGS", "OF : "), ("reg", "AX : 0x1234"), ("REG", "AX : 0x1234"),
                               ("mem 0x10 -> 0x12", "ws:-> 0x12 : 5A 00 00"), ("MEM 0x10 -> 0x12", "ws:-> 0x12 : 5A 00 00"),
                               ("mem 0x10 : 2", "ws:: 2 : 5A 00 00"), ("MEM 0x10 : 2", "ws:: 2 : 5A 00 00"), ("mem : 0x10", "ws:5A"), ("MEM :0x10", "ws:5A")):
                out.append(("-", f"start:\nmov ax, 0x1234\nmov byte [0x10], 0x5A\n{pw} {what}\n", "", exp_))
                out.append(("i", "start:\nmov ax, 0x1234\nmov byte [0x10], 0x5A\nnop\n", f"n\nn\n{pw} {what.replace('0x10', '16').replace('0x12', '18')}\nn\n", exp_ if not exp_.startswith("ws:->") and not exp_.startswith("ws::") else "ws:5A 00 00"))
        # DS-relative ranges whose count does not fit 16 bits, and constants beyond 2^20, in every radix
        for seg in (0, 1, 0xF000, 0xFFFF):
            for cnt in ("65535", "65536", "0x10000", "70000", "0b10000000000000000", "0x100003", "1048575", "1048576", "0xFFFFF", "2097155"):
                # `: n` = the data segment's first n+1 bytes: whenever that range lies inside the 1 MB space the dump must be
                # there, and it shows the byte 5A stored at DS:3 (no register holds 5A)
                n_val = int(cnt, 0)
                inside = seg * 16 + n_val < 1048576
                out.append(("-", f"x: db 7\nstart:\nmov ax, {seg}\nmov ds, ax\nmov byte [3], 0x5A\nprint mem : {cnt}\nprint reg\n", "") + (("5A",) if inside else ()))
                out.append(("i", f"start:\nmov ax, {seg}\nmov ds, ax\nmov byte [3], 0x5A\nnop\n", f"n\nn\nn\nprint mem : {cnt}\nn\n") + (("5A",) if inside else ()))
    elif group == "diag":
        base_cases = errors_x(g, thorough, 0)
        for ci, (c, verdict) in enumerate(base_cases):
            ex = (verdict,) if verdict else ()
            out.append(("-", c, "") + ex)
            if ci % 5 == 0:
                out.append(("-", c.replace("\n", "\r\n"), "") + ex)          # CRLF line ends: same lines, same columns
            out.append(("-", "; header comment\n\n" + c.rstrip("\n"), "") + ex)       # shifted lines, no trailing newline
            out.append(("-", r.choice(["\n", ";c\n", " \n"]) + c, "") + ex)              # an empty first line: messages about line 2
        # single-token corruptions at every token position of a valid program
        valid = "v: db 5\nw: dw 7\nmacro m(a) -> inc a <-\ndef f {\ninc bx\n}\nstart:\nmov ax, 1\nm(cx)\nadd ax, word w\njnz lab\ncall f\nlab:\nprint reg\nint 3\nhlt"
        toks = re.findall(r"\S+|\s+", valid)
        for i, t in enumerate(toks):
            if t.isspace():
                continue
            for repl in ["@", "mov", "5", "]", "zz9"]:
                c = "".join(toks[:i] + [repl] + toks[i + 1:])
                out.append(("-", c + r.choice(["", "\n"]), "n\n"))
    elif group == "fuzz":
        seeds = [run_prog(g) for _ in range(20)] + [PRELUDE + "macro m(a,b) -> mov a,b <-\nstart:\nm(ax,bx)\nhlt\n"]
        alphabet = list(" \n\t;:,[](){}<>-\"'0123456789abcxyzMOVdbDW_") + [" ", "é", "\x00", "\x7f", " "]
        for _ in range(n(400, 6000)):
            s = list(r.choice(seeds))
            for _ in range(r.randrange(1, 6)):
                k = r.randrange(4)
                pos = r.randrange(len(s) + 1)
                if k == 0 and s:
                    del s[min(pos, len(s) - 1)]
                elif k == 1:
                    s.insert(pos, r.choice(alphabet))
                elif k == 2 and s:
                    s[min(pos, len(s) - 1)] = r.choice(alphabet)
                else:
                    a, b = sorted([r.randrange(len(s) + 1), r.randrange(len(s) + 1)])
                    s[pos:pos] = s[a:b]
            out.append((r.choice(["-", "-", "i"]), "".join(s), r.choice(["", "n\n" * 50, "q\n", "print mem 1048575 : 1\nn\nprint mem 1048576 -> 1048577\n" + "n\n" * 50])))
        for pc in ["print mem 1048575 : 1", "print mem 1048570 : 6", "print mem 1048576 -> 1048580", "print mem : 1048576", "print mem 4294967295 : 1",
                   "print mem 18446744073709551615 -> 1", "print mem 99999999999999999999 -> 1", "print mem 1048560 : 15"]:
            out.append(("i", "start:\nmov ax, 0xFFFF\nmov ds, ax\nprint mem :15\nprint mem :16\nnop\n", pc + "\nn\n" + pc.upper() + "\n" + "n\n" * 10))
        # macro recursion families (must be diagnosed, not expanded for ever)
        for body in ["macro a(x) -> a(x) <-", "macro a(x) -> b(x) <-\nmacro b(x) -> a(x) <-", "macro i(x) -> inc x <-\nmacro a(x) -> i(x) a(x) <-",
                     "macro i(x) -> inc x <-\nmacro b(x) -> i(x) <-\nmacro c(x) -> a(x) <-\nmacro a(x) -> b(x) c(x) <-",
                     "macro n(x) -> nop <-\nmacro a(f,g) -> n(ax) f(g,g) <-"]:
            use = "a(a,n)" if "f,g" in body else "a(ax)"
            out.append(("-", body + "\nstart:\n" + use + "\nhlt\n", ""))
        def chain(k):
            return "macro m0(a) -> inc a <-\n" + "".join(f"macro m{i}(a) -> m{i-1}(a) <-\n" for i in range(1, k)) + f"start:\nm{k-1}(ax)\nprint reg\n"
        out.append(("-", chain(24), ""))
        if thorough:
            out.append(("-", chain(100), ""))
            out.append(("-", chain(450), ""))      # open finding KF-MACRO-DEPTH
        for special in ["", "\n", ";", "start:", "start: hlt", "\"", "[[[[", "9" * 5000, "start:\nmov ax, " + "9" * 100000 + "\n", "a:" * 2000,
                        "start:\n" + "nop\n" * 5000, "db \"" + "x" * 70000 + "\"\nstart:\n"]:
            out.append(("-", special, ""))
        # data definitions that run over the end of the 1 MB space; macro uses with too few / too many values
        for special in ["set 0xFFFF\ndb [16]\nstart:\n", "set 0xFFFF\ndb [17]\nstart:\nprint mem 0 -> 3\n", "set 0xFFFF\ndw [9]\nstart:\nprint mem 0 -> 3\n",
                        "set 0xFFFF\ndb \"0123456789abcdefXYZ\"\nstart:\nprint mem 0 -> 3\n", "set 0xFFFF\ndw \"0123456789\"\nstart:\nprint mem 0 -> 5\n",
                        "set 0xFFFF\ndb [15]\ndw 0x1234\nstart:\nprint mem 0 -> 3\n", "set 0xFFFF\ndb [15]\ndb 7\ndb 8\nstart:\nprint mem 0 -> 3\n",
                        "set 0xFFFF\ndb [200]\nx: dw 5\nstart:\nmov ax, word x\nprint reg\n", "set 0xF001\ndb [65535]\nstart:\nprint mem 0 -> 20\n",
                        "macro load(dst,src) -> mov dst, src <-\nstart:\nload(bx)\n", "macro load(dst,src) -> mov dst, src <-\nstart:\nload()\n",
                        "macro load(dst,src) -> mov dst, src <-\nstart:\nload(bx,cx,dx,ax)\nprint reg\n",
                        "macro inner(a,b,c) -> mov a, b add a, c <-\nmacro outer(x) -> inner(x) <-\nstart:\nouter(ax)\n",
                        "macro z() -> nop <-\nstart:\nz(ax)\nz()\n", "macro one(a) -> inc a <-\nstart:\none(,)\n", "macro one(a) -> inc a <-\nstart:\none(ax,)\n",
                        "macro one(a) -> inc a <-\nstart:\none(ax,bx,cx,dx,si,di,bp,ax,bx,cx,dx,si)\nprint reg\n",
                        "macro z() -> nop <-\nstart:\nz(1,2,3,4,5,6,7,8,9,10,11,12,13,14,15,16,17,18,19,20,21,22)\n",
                        "macro w(a,b,c,d,e,f,g,h,i,j,k,l) -> add ax, a add ax, l add ax, k <-\nstart:\nw(1,2,3,4,5,6,7,8,9,10,11,12)\nprint reg\n",
                        "macro w(a,b,c,d,e,f,g,h,i,j,k,l) -> add ax, a add ax, l <-\nstart:\nw(1,2,3,4,5,6,7,8,9,10,11)\n",
                        "macro w(a,b,c,d,e,f,g,h,i,j,k) -> mov ax, k <-\nmacro v(x) -> w(x,x,x,x,x,x,x,x,x,x,7) <-\nstart:\nv(3)\nprint reg\n"]:
            out.append(("-", special, ""))
        # files that are not valid UTF-8 (raw bytes: the request carries them percent-encoded)
        for raw in [b"start:\nmov ax, 1 ; \xff\xfe\nprint reg\n", b"\xff", b"start:\n\xc3", b"\xc0\xafstart:\nhlt\n", b"x: db \"\xe9\"\nstart:\n",
                    b"start:\nmov ax, 1\n\x80\x80\x80", b"\xed\xa0\x80start:\n", b"macro m(a) -> inc a <-\nstart:\nm(\xf8)\n"]:
            out.append(("-", raw, ""))
            out.append(("i", raw, "n\n"))
        # the smallest programs, stepped: nothing / one instruction after `start:`
        for tiny in ["start:", "start:\n", "start: hlt", "start:\nhlt\n", "start:\nnop", "start:\nprint reg", "x: db 1\nstart:\n", "def f {\n}\nstart:\n",
                     "start:\ncall f\ndef f {\n}\n", "macro m(a) -> <-\nstart:\nm(ax)\n"]:
            out.append(("i", tiny, "n\n" * 5))
            out.append(("i", tiny, ""))
            out.append(("i", tiny, "print reg\nq\n"))
    elif group == "dataref":
        # C12 with an image computed HERE from the definitions (not by the model, not from the grammar): SET / DB / DW of all
        # kinds; the dump of every segment touched and the offset of every label must be what the property says
        for _ in range(n(200, 2500)):
            img = {}
            seg, off = 0, 0
            lines, labels, touched, labels_seg = [], [], [], []
            def put(bs):
                nonlocal off
                for bt in bs:
                    img[(seg * 16 + off) % 1048576] = bt
                    off += 1
            nd = r.randrange(1, 9)
            top = r.random() < 0.2
            if top:
                seg = r.choice([0xFFFF, 0xFFFE, 0xFFF1]); off = 0
                lines.append("set %d" % seg)
                touched.append((seg, 0))
                if r.random() < 0.7:
                    lines.append("db 0x77"); put([0x77])
                v = r.choice([0x1234, 0xABCD, 0x00FF, 0x8001]); c = r.choice([9, 12, 20, 130])
                lines.append("dw [%d,%d]" % (v, c)); put([v % 256, v // 256] * c)
                touched.append((0, 0))
                nd = r.randrange(0, 3)
            if not top and r.random() < 0.2:
                # an overlay: a filled region, then definitions in an overlapping segment / the same segment again
                seg = r.choice([0, 0x10, 0x20]); off = 0
                lines.append("set %d" % seg); lines.append("db [0xEE,48]"); put([0xEE] * 48)
                touched.append((seg, 0))
                seg = seg + r.choice([0, 1, 2]); off = 0
                lines.append("set %d" % seg)
            for k in range(nd):
                if r.random() < 0.25:
                    seg = r.choice([0, 1, 2, 0x10, 0x1000, 0xFFFF, 0xFFFE, r.randrange(65536)])
                    off = 0
                    lines.append(r.choice(["set", "SET"]) + " " + g.num(seg, seg))
                lbl = ""
                if r.random() < 0.6:
                    lbl = "L%d" % k
                    labels.append((lbl, off))
                    labels_seg.append((lbl, off, seg))
                    lbl += ": "
                if (seg, off) not in touched:
                    touched.append((seg, off))
                kind = r.randrange(8)
                if kind == 6:
                    v = r.choice([0, 1, 127, 128, 255, -1, -3, -128, r.randrange(256)]); c = r.choice([0, 1, 3, 9])
                    lines.append(lbl + "db [%s%s,%s%s]" % (v if v < 0 else g.num(v, v), r.choice(["", " "]), r.choice(["", " "]), g.num(c, c))); put([v % 256] * c)
                elif kind == 7:
                    v = r.choice([0, 1, 0x1234, 0x8000, 0xFFFF, -1, -2, -32768, r.randrange(65536)]); c = r.choice([0, 1, 2, 5])
                    lines.append(lbl + "dw [%s%s,%s%s]" % (v if v < 0 else g.num(v, v), r.choice(["", " "]), r.choice(["", " "]), g.num(c, c))); put([v % 256, (v // 256) % 256] * c)
                elif kind == 0:
                    v = r.choice([0, 1, 127, 128, 255, -1, -128, r.randrange(256)])
                    lines.append(lbl + r.choice(["db", "DB"]) + " " + str(v)); put([v % 256])
                elif kind == 1:
                    v = r.choice([0, 1, 0x1234, 0x8000, 0xFFFF, -1, -32768, r.randrange(65536)])
                    lines.append(lbl + r.choice(["dw", "DW"]) + " " + (str(v) if v < 0 else g.num(v, v))); put([v % 256, (v // 256) % 256])
                elif kind == 2:
                    c = r.choice([0, 1, 2, 5, 16, 17])
                    lines.append(lbl + "db [%s]" % g.num(c, c)); put([0] * c)
                elif kind == 3:
                    c = r.choice([0, 1, 2, 7])
                    lines.append(lbl + "dw [%s]" % g.num(c, c)); put([0] * (2 * c))
                elif kind == 4:
                    t = "".join(r.choice("ABCxyz019 _") for _k in range(r.randrange(0, 7)))
                    lines.append(lbl + 'db "%s"' % t); put([ord(ch) for ch in t])
                else:
                    t = "".join(r.choice("ABCxyz019 _") for _k in range(r.randrange(0, 5)))
                    lines.append(lbl + 'dw "%s"' % t); put([bb for ch in t for bb in (ord(ch), 0)])
            body, exps = ["start:"], []
            for (sg, o0) in touched[:3]:
                a0 = (sg * 16 + o0) % 1048576
                ln = r.choice([8, 17, 33])
                if a0 + ln >= 1048576:
                    ln = 1048575 - a0
                cmd = "print mem %d -> %d" % (a0, a0 + ln)
                body.append(cmd)
                exps.append("ws:" + cmd + " : " + " ".join("%02X" % img.get(a0 + k, 0) for k in range(ln + 1)))
            for (lb, o) in labels[:2]:
                body += ["mov bx, offset %s" % lb, "print reg"]
                exps.append("BX : 0x%04X" % o)
            for (lb, o, sg) in labels_seg[:2]:
                a0 = (sg * 16 + o) % 1048576
                wv = img.get(a0, 0) + 256 * img.get((a0 + 1) % 1048576, 0)
                body += ["mov ax, %d" % sg, "mov ds, ax", "mov cx, word %s" % lb, "mov dl, byte %s" % lb, "print reg"]
                exps.append("CX : 0x%04X" % wv)
            src = "\n".join(lines + body) + "\n"
            out.append(("-", src, "") + tuple(exps))
    elif group == "deep":
        # deep recursion that unwinds completely; quick tier: a depth the model follows step by step
        out.append(("-", "def down {\ndec cx\njz bottom\ncall down\nbottom:\n}\nstart:\nmov cx, 3000\ncall down\nmov bx, 1\nprint reg\n", "", "BX : 0x0001"))
        if thorough:
            # more than 2^20 pending calls (17 * 65536 levels, about 4.5 million executed instructions, a minute in the
            # debug binary): far beyond the model's step budget, so only what needs no model is judged - the emulator
            # must not abort and, every RET having resumed after its CALL, the program must reach `mov bx, 1` (seed Y3B)
            out.append(("-", "def down {\ndec cx\njnz deeper\ndec dx\njz bottom\ndeeper:\ncall down\nbottom:\n}\nstart:\nmov cx, 0\nmov dx, 17\ncall down\nmov bx, 1\nprint reg\n", "",
                        "BX : 0x0001"))
    elif group == "strings":
        # C07 through the real run loop: every string mnemonic x width x DF x prefix, driven by the binary's own
        # REPEAT handling to completion; conditional repeats over data that stops them early, late or never
        for _ in range(n(250, 2500)):
            nb = r.randrange(4, 24)
            a = [r.choice("AAABXYabz09 ") for _ in range(nb)]
            b = list(a)
            for _k in range(r.randrange(0, 3)):
                b[r.randrange(nb)] = r.choice("ABXq")
            lines = ["set 0", 'sa: db "' + "".join(a) + '"', 'sb: db "' + "".join(b) + '"', "sc: db [%d]" % (nb + 4), "start:"]
            es = r.choice([0, 0, 0, 1, 2])
            if es:
                lines += ["mov ax, %d" % es, "mov es, ax"]
            steps = r.randrange(1, 4)
            for _s in range(steps):
                op = r.choice(["movs", "lods", "stos", "cmps", "scas"])
                wd = r.choice(["byte", "word"])
                pre = r.choice(["", "", "rep ", "rep "] if op in ("movs", "lods", "stos") else ["", "repe ", "repz ", "repne ", "repnz ", "REPE ", "REPNZ "])
                df = r.random() < 0.3
                cx = r.choice([0, 1, 2, 3, nb // 2, nb, nb + 2, r.randrange(0, nb + 4)])
                if wd == "word":
                    cx = cx // 2
                src_l, dst_l = r.choice([("sa", "sb"), ("sb", "sa"), ("sa", "sc"), ("sa", "sa")])
                off = (nb - (2 if wd == "word" else 1)) if df else 0
                lines += [r.choice(["std", "STD"]) if df else r.choice(["cld", "CLD"]),
                          "mov si, offset %s" % src_l] + (["add si, %d" % off] if off else []) + \
                         ["mov di, offset %s" % dst_l] + (["add di, %d" % off] if off else []) + \
                         ["mov cx, %d" % cx, "mov ax, %d" % r.choice([0x41, 0x42, 0x4141, 0x4241, r.randrange(0x10000)]),
                          (pre + op + " " + wd).upper() if r.random() < 0.2 else pre + op + " " + wd,
                          "print reg", "print flags"]
            lines += ["print mem 0 : %d" % (3 * nb + 8)] + (["print mem %d : %d" % (es * 16, 3 * nb + 8)] if es else [])
            flag = r.choice(["-", "-", "-", "i"])
            stdin = "" if flag == "-" else "n\n" * 400
            out.append((flag, "\n".join(lines) + "\n", stdin))
    else:
        sys.exit("unknown cli group " + group)
    return out

def spell_pairs(g, thorough):
    """the same program under two independent spelling choices"""
    g.spell = True
    out = []
    names = [n for n in g.reach("opcodes") + ["print_stmt"]]
    alts = []
    for name in names:
        nt = g.nts[name]
        for alt in nt.alts:
            if alt.action and "out.code.push" in alt.action and name != "procedure":
                alts.append(alt)
    reps = 12 if thorough else 3
    for alt in alts:
        # every case-family of the alternative's mnemonic table once, plus `reps` random draws
        fams = [None] * reps
        for i, sy in enumerate(alt.symbols):
            if sy.kind == "nt" and not sy.suffix and sy.value.startswith("quote") and g.table(sy.value) is not None:
                fams = [(i, f) for f in sorted(g.groups(sy.value).values())] + fams
                break
        for fam in fams:
            g.atoms = []
            g.atom_vals = []
            lines = []
            for _ in range(g.rng.randrange(1, 4)):
                a = alt if _ == 0 else g.rng.choice(alts)
                parts = []
                for i, sy in enumerate(a.symbols):
                    if _ == 0 and fam is not None and i == fam[0]:
                        parts.append(g.atom(fam[1]))
                    else:
                        parts.append(g.render_sym(sy, 1))
                lines.append(g.join([p for p in parts if p is not None]))
            body = PRELUDE + "start:\x04" + "\x04".join(lines) + "\x04lab:\x04hlt\x04fin:\n"
            s1 = g.render_atoms(body, random.Random(g.rng.random()))
            s2 = g.render_atoms(body, random.Random(g.rng.random()))
            vals = sorted(v % 256 for v in g.atom_vals if v is not None and v % 256 != 0)
            out.append((s1, s2, vals))
    g.spell = False
    return out

SYN = {"shl": "sal", "repe": "repz", "repne": "repnz"}

def canonical_interp(line):
    """a source instruction written in its plainest form (lower case, decimal) -> the interpreter's spelling of the same
    instruction, by the differences syntax.md documents: `seg [..]` is `seg:[..]`, `[b,i]` is `[b,i,0]`, OFFSET of a label
    is its offset, SHL is SAL, REPE/REPNE are REPZ/REPNZ"""
    t = line.strip()
    t = re.sub(r"\b(es|cs|ss|ds)\s*\[", r"\1:[", t)
    t = re.sub(r"\[\s*(bx|bp)\s*,\s*(si|di)\s*\]", r"[\1,\2,0]", t)
    inv = {v: k for k, v in OFFSETS.items()}
    t = re.sub(r"\boffset\s+(\w+)", lambda m: str(inv.get(m.group(1), 0)), t)
    ws = t.split(" ", 1)
    if ws and ws[0] in SYN:
        t = SYN[ws[0]] + (" " + ws[1] if len(ws) > 1 else "")
    return t

def role_cases(g, thorough):
    """every code-emitting alternative of the current grammar, one instruction per program, under a random spelling, together
    with the SAME instruction in the interpreter's spelling derived from the plainest rendering of the same atoms"""
    g.spell = True
    out = []
    alts = []
    for name in g.reach("opcodes"):
        nt = g.nts[name]
        for alt in nt.alts:
            if alt.action and "out.code.push" in alt.action and name != "procedure":
                alts.append(alt)
    reps = 8 if thorough else 2
    for alt in alts:
        fams = [None] * reps
        for i, sy in enumerate(alt.symbols):
            if sy.kind == "nt" and not sy.suffix and g.table(sy.value) is not None:
                # every spelling of every table the alternative uses, each on its own
                fams = [(i, [w]) for f in sorted(g.groups(sy.value).values()) for w in f] + fams
        for fam in fams:
            g.atoms = []
            g.atom_vals = []
            parts = []
            for i, sy in enumerate(alt.symbols):
                if fam is not None and i == fam[0]:
                    parts.append(g.atom(fam[1]))
                else:
                    parts.append(g.render_sym(sy, 1))
            line = g.join([p for p in parts if p is not None])
            # plainest rendering: the lower-case member of a case family, the decimal form of a constant
            def plain(m):
                alts_ = g.atoms[int(m.group(1))]
                low = [a for a in alts_ if a == a.lower() and not a.startswith("0x") and not a.startswith("0b") and not a.startswith("offset")]
                return (low or [alts_[0].lower()])[0]
            canon = re.sub("\x01(\\d+)\x02", plain, line)
            canon = re.sub("[\x03]", "", canon)
            canon = re.sub("[\x04]", " ", canon)
            body = PRELUDE + "start:\x04" + line + "\x04lab:\x04hlt\x04fin:\n"
            s1 = g.render_atoms(body, random.Random(g.rng.random()))
            out.append((re.sub(r";.*\n?", "\n", s1), canonical_interp(canon)))
    g.spell = False
    return out

def operand_cases(rng, thorough):
    """C04 at source level, written from syntax.md and NOT from the grammar: every memory-operand shape x
    {no override, ES, CS, SS, DS} x base x index x displacement kind, inside a few instruction frames.
    Yields (source program, the instruction in interpreter syntax built from the same parts)."""
    def case(w):
        return rng.choice([w, w.upper()])
    def sp():
        return rng.choice(["", " ", "  ", "\t"])
    def num16(v, signed):
        """a spelling of the 16-bit value v and the value the interpreter line carries"""
        forms = [str(v), "0x%x" % v, "0x%X" % v, "0b" + bin(v)[2:]]
        if signed and v >= 0x8000: forms.append(str(v - 0x10000))
        if v < 2: forms.append("0b%d" % v)
        return rng.choice(forms)
    disps = [0, 1, 2, 3, 5, 0x7f, 0x80, 0xff, 0x100, 0x7fff, 0x8000, 0xfffe, 0xffff]
    frames = [  # (source frame, interpreter frame, width keyword)
        ("mov ax, word {M}", "mov ax, word {I}"), ("mov byte {M}, bl", "mov byte {I},bl"),
        ("mov word {M}, 0x1234", "mov word {I},4660"), ("mov ch, byte {M}", "mov ch, byte {I}"),
        ("add word {M}, 7", "add word {I},7"), ("sub dl, byte {M}", "sub dl, byte {I}"),
        ("lea dx, word {M}", "lea dx , word {I}"), ("inc byte {M}", "inc byte {I}"),
        ("xchg cl, byte {M}", "xchg byte {I} ,cl"), ("push word {M}", "push word {I}"), ("pop word {M}", "pop word {I}"),
        ("not byte {M}", "not byte {I}"), ("neg word {M}", "neg word {I}"), ("test word {M}, ax", "test word {I},ax"),
        ("and byte {M}, 15", "and byte {I},15"), ("shl word {M}, 1", "sal word {I},1"), ("ror byte {M}, cl", "ror byte {I},cl"),
        ("cmp byte {M}, 3", "cmp byte {I}, 3"), ("mul word {M}", "mul word {I}"), ("idiv byte {M}", "idiv byte {I}"),
    ]
    out = []
    segs = [None, "es", "cs", "ss", "ds"]
    shapes = []
    for sg in segs:
        shapes.append((sg, None, None, "direct"))
        for r in ("bx", "bp", "si", "di"):
            shapes.append((sg, r, None, "indirect"))
        for b in ("bx", "bp"):
            shapes.append((sg, b, None, "disp"))
            for i in ("si", "di"):
                shapes.append((sg, b, i, "nodisp"))
                shapes.append((sg, b, i, "disp"))
        for i in ("si", "di"):
            shapes.append((sg, None, i, "disp"))
    reps = 6 if thorough else 1
    for (sg, b, i, kind) in shapes:
        for (fs, fi) in frames:
            for _ in range(reps):
                d = rng.choice(disps) if rng.random() < 0.7 else rng.randrange(0x10000)
                if kind == "direct":
                    src_in = num16(d, False); int_in = str(d)
                elif kind == "indirect":
                    src_in = case(b); int_in = b
                else:
                    parts_s = [case(x) for x in (b, i) if x]; parts_i = [x for x in (b, i) if x]
                    if kind == "disp":
                        parts_s.append(num16(d, True)); parts_i.append(str(d - 0x10000 if d >= 0x8000 else d))
                    else:
                        parts_i.append("0")
                    src_in = (sp() + "," + sp()).join(parts_s); int_in = ",".join(parts_i)
                M = (case(sg) + sp() if sg else "") + "[" + sp() + src_in + sp() + "]"
                I = (sg + ":" if sg else "") + "[" + int_in + "]"
                src = fs.replace("{M}", M)
                if rng.random() < 0.3 and "0x" not in src and "0b" not in src:
                    src = src.upper()
                out.append(("start:\n" + src + "\n", fi.replace("{I}", I)))
    return out

def main():
    group, tier, seed = sys.argv[1], sys.argv[2], int(sys.argv[3])
    shard, nshards = (int(sys.argv[4]), int(sys.argv[5])) if len(sys.argv) > 5 else (0, 1)
    thorough = tier == "thorough"
    g = G(seed * 7919 + hash(group) % 1000 if False else seed * 7919 + sum(map(ord, group)))
    if group == "spell":
        for i, (a, b, vals) in enumerate(spell_pairs(g, thorough)):
            if i % nshards == shard:
                strip = lambda t: re.sub(r";.*\n?", "\n", t)      # the driver's comment stripping (the library API gets stripped text)
                sys.stdout.write("asm2 " + enc(strip(a)) + " " + enc(strip(b)) + " " + ("-" if not vals else ".".join(map(str, vals))) + "\n")
        return
    if group == "roles":
        for i, (src, line) in enumerate(role_cases(g, thorough)):
            if i % nshards == shard:
                sys.stdout.write("role " + enc(src) + " " + enc(line) + "\n")
        return
    if group == "reuse":
        # C19: one parser object and one (cleared) context for two sources in a row, against fresh objects
        pool = errors(g, thorough, 0) + macros(g, thorough, 300 if thorough else 80)
        pairs = []
        for _ in range(3000 if thorough else 400):
            pairs.append((g.rng.choice(pool), g.rng.choice(pool)))
        for c in macros(g, thorough, 300 if thorough else 60):
            stripped = "\n".join(l for l in c.split("\n") if not l.startswith("macro "))
            pairs.append((stripped, c))            # first every macro is undefined, then the same names are defined and used
            pairs.append((c, stripped))
        pairs.append(("start:\nfoo(ax)\nhlt\n", "macro foo(a) -> inc a <-\nstart:\nfoo(ax)\nhlt\n"))
        pairs.append(("macro foo(a) -> foo(a) <-\nstart:\nfoo(ax)\nhlt\n", "macro foo(a) -> inc a <-\nstart:\nfoo(ax)\nhlt\n"))
        pairs.append(("macro foo(a) -> mov a, <-\nstart:\nfoo(ax)\nhlt\n", "macro foo(a) -> inc a <-\nstart:\nfoo(ax)\nhlt\n"))
        pairs.append(("x: db 1\ny: dw [70000]\nstart:\n", "y: db 2\nstart:\nmov ax, offset y\n"))
        pairs.append(("def f {\ninc ax\n}\nstart:\ncall f\n", "start:\ncall f\n"))
        for i, (a, b) in enumerate(pairs):
            if i % nshards == shard:
                sys.stdout.write("asmre " + enc(re.sub(r";.*\n?", "\n", a)) + " " + enc(re.sub(r";.*\n?", "\n", b)) + "\n")
        return
    if group == "macroref":
        for i, (a, b) in enumerate(macroref(g, thorough, 4000 if thorough else 500)):
            if i % nshards == shard:
                sys.stdout.write("asmx " + enc(a) + " " + (enc(b) if b is not None else "!") + "\n")
        return
    if group == "jumpspell":
        # every jump / loop mnemonic of the Intel manual (written out here, not read from the grammar), lower and upper case
        names = ("jmp ja jnbe jae jnb jnc jb jnae jc jbe jna je jz jg jnle jge jnl jl jnge jle jng jne jnz jno jnp jpo jns jo jp jpe js "
                 "jcxz loop loope loopz loopne loopnz").split()
        k = 0
        for nm in names:
            for spelled in (nm, nm.upper()):
                for pre, post in (("", ""), ("inc ax\n", "\nhlt"), ("", " ")):
                    if k % nshards == shard:
                        sys.stdout.write("jsp " + enc("start:\ntgt:\n" + pre + spelled + " tgt" + post + "\n") + " " + spelled + "\n")
                    k += 1
        return
    if group == "operands":
        for i, (src, line) in enumerate(operand_cases(g.rng, thorough)):
            if i % nshards == shard:
                sys.stdout.write("opnd " + enc(src) + " " + enc(line) + "\n")
        return
    if os.environ.get("VERIF_L3_KIND", "asm") == "cli":
        cases = []
    elif group == "shapes":
        cases = shapes(g, thorough)
    elif group == "progs":
        cases = progs(g, thorough, 6000 if thorough else 600)
    elif group == "data":
        cases = data_cases(g, thorough, 3000 if thorough else 300)
    elif group == "errors":
        cases = errors(g, thorough, 0)
    elif group == "macros":
        cases = macros(g, thorough, 6000 if thorough else 600)
    else:
        sys.exit("unknown group " + group)
    kind = os.environ.get("VERIF_L3_KIND", "asm")
    w = sys.stdout.write
    if kind == "cli":
        for i, case in enumerate(cli_cases(g, group, thorough)):
            flag, src, stdin = case[:3]
            if i % nshards == shard:
                w("cli " + flag + " | " + enc(src) + " | " + enc(stdin) + "".join(" | expect=" + enc(e) for e in case[3:]) + "\n")
        return
    for i, c in enumerate(cases):
        if i % nshards == shard:
            w(kind + " " + enc(c) + "\n")

if __name__ == "__main__":
    main()
