#!/bin/bash
# usage: tools/try_x.sh <seed id under /tmp/seed_out> — property taken from the seed's meta.json
id="$1"
prop=$(python3 -c "import json,sys; print(json.load(open('/tmp/seed_out/$id/meta.json')).get('property','?'))")
echo "=== $id ($prop)"
/verif/tools/try_seed.sh /tmp/seed_out/$id/patch.diff $prop 2>&1 | tail -3
