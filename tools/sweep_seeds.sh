#!/bin/bash
# usage: tools/sweep_seeds.sh [ids...] — run every kept seeded change against its property's quick check (uses /repo; nothing else may run)
cd /verif
ids="$@"; [ -z "$ids" ] && ids=$(cd seeded && ls -d */ | tr -d / | grep -v "^H[0-9]")   # H*: behaviour-preserving refactorings
for id in $ids; do
  prop=$(python3 -c "import json; print(json.load(open('/verif/seeded/$id/meta.json')).get('property','?'))")
  res=$(tools/try_seed.sh /verif/seeded/$id/patch.diff $prop 2>&1 | tail -3 | tr '\n' ' ')
  echo "$id $prop $res"
done
