"""T-gen for the assembler ("preprocessor") grammar: translates preprocessor.lalrpop into Lean DATA
(`Emu8086.Gen.PPGrammar`) that the generic parser/evaluator of Model/Asm.lean interprets.

Every alternative becomes `Alt syms act`:
  syms : literals, regex terminals (by index into a fixed, checked list), non-terminals, @L/@R,
         optional references, comma-separated lists
  act  : .none | .unit | .ret fmt | .code fmt posSym | .err | .special name hash
`fmt` is the `format!` template split into literal pieces and argument references (index of the
symbol in `syms`, or a literal number).  Everything that is not one of these regular shapes is a
`special` action: modelled by hand in Model/AsmActions.lean and pinned by the hash of its
normalised source text (a theorem compares the pinned hashes, so an edit of such an action is
noticed even if the hand model is stale).  Fails closed on anything it does not understand.
"""
import re, hashlib
import lalrpop_lite as L

class PPError(Exception):
    pass

# regex terminals the Lean lexer implements by hand (Model/Asm.lean `matchRe`)
REGEXES = [
    r'"[[:print:]]*"',
    r'[_a-zA-Z0-9\[\]\(\), ]*<-',
    r'[_a-zA-Z][_a-zA-Z0-9]*',
    r'[_a-zA-Z][_a-zA-Z0-9]*:',
    r'[0-9]+',
    r'0(x|X)[0-9A-Fa-f]+',
    r'0(b|B)[0-1]+',
    r'-[0-9]+',
]

# non-terminals whose actions are modelled by hand (all their alternatives are `special`)
SPECIAL_NTS = {
    "set_directive", "db_directive", "dw_directive", "macro_def", "macro_use", "procedure", "proc_def",
    "call", "int", "jmps_loops", "label", "u_word_num", "u_byte_num", "s_word_num", "s_byte_num",
    "raw_addr", "offset", "memory_addr", "byte_label", "word_label",
}

def lean_str(x):
    out = ['"']
    for c in x:
        if c == "\\": out.append("\\\\")
        elif c == '"': out.append('\\"')
        elif c == "\n": out.append("\\n")
        elif c == "\t": out.append("\\t")
        elif 32 <= ord(c) < 127: out.append(c)
        else: out.append("\\u{%x}" % ord(c))
    out.append('"')
    return "".join(out)

def norm(txt):
    # strip // comments and all white space
    txt = re.sub(r"//[^\n]*", "", txt)
    return re.sub(r"\s+", "", txt)

def hash_of(txt):
    return int(hashlib.sha256(norm(txt).encode()).hexdigest()[:12], 16)

def unescape_rust(s):
    return s.replace('\\"', '"').replace("\\'", "'").replace("\\\\", "\\").replace("\\n", "\n")

def split_format(tmpl, args, binders, where):
    """format!-template -> list of Lean pieces"""
    tmpl = unescape_rust(tmpl)
    pieces, lit, i, k = [], "", 0, 0
    while i < len(tmpl):
        if tmpl.startswith("{{", i): lit += "{"; i += 2
        elif tmpl.startswith("}}", i): lit += "}"; i += 2
        elif tmpl.startswith("{}", i):
            if lit: pieces.append(f".lit {lean_str(lit)}"); lit = ""
            if k >= len(args):
                raise PPError(f"{where}: more placeholders than arguments in {tmpl!r}")
            a = args[k].strip(); k += 1
            if re.fullmatch(r"[0-9]+", a):
                pieces.append(f".lit {lean_str(a)}")
            elif a in binders:
                pieces.append(f".arg {binders[a]}")
            else:
                raise PPError(f"{where}: format argument {a!r} is not a bound symbol")
            i += 2
        elif tmpl[i] in "{}":
            raise PPError(f"{where}: unsupported format spec in {tmpl!r}")
        else:
            lit += tmpl[i]; i += 1
    if lit: pieces.append(f".lit {lean_str(lit)}")
    if k != len(args):
        raise PPError(f"{where}: unused format arguments in {tmpl!r}")
    return "[" + ", ".join(pieces) + "]"

STR = r'"((?:[^"\\]|\\.)*)"'
RE_OWNED = re.compile(r'\{?\s*' + STR + r'\s*\.to_owned\(\)\s*\}?$')
RE_VAR_OWNED = re.compile(r'\{?\s*([a-z_][a-z_0-9]*)\s*\.to_owned\(\)\s*\}?$')
RE_FORMAT = re.compile(r'\{?\s*format!\(\s*' + STR + r'\s*((?:,\s*[a-z_0-9]+\s*)*)\)\s*\}?$')
RE_CODE = re.compile(r'\{\s*out\.code\.push\(\s*(.*?)\s*\)\s*;\s*context\.mapper\.add_entry\(\s*([a-z]+)\s*\)\s*;\s*\}$', re.S)
RE_ERR = re.compile(r'\{?\s*error!\(.*\)\s*\}?$', re.S)

def string_expr(e, binders, where):
    e = e.strip()
    m = re.fullmatch(STR + r'\s*\.to_owned\(\)', e)
    if m: return "[.lit " + lean_str(unescape_rust(m.group(1))) + "]"
    m = re.fullmatch(r'format!\(\s*' + STR + r'\s*((?:,\s*[a-z_0-9]+\s*)*)\)', e)
    if m:
        args = [a for a in m.group(2).split(",") if a.strip()]
        return split_format(m.group(1), args, binders, where)
    if re.fullmatch(r"[a-z_][a-z_0-9]*", e) and e in binders:
        return f"[.arg {binders[e]}]"
    raise PPError(f"{where}: string expression not understood: {e[:60]!r}")

def classify(nt, idx, alt, binders, locs):
    where = f"{nt.name}[{idx}]"
    a = alt.action
    if nt.name in SPECIAL_NTS:
        return f".special {lean_str(nt.name)} {idx} {hash_of(a or '')}"
    if a is None:
        return ".none"
    a = a.strip()
    if a == "()": return ".unit"
    m = RE_CODE.match(a)
    if m:
        pos = m.group(2)
        if pos not in binders or binders[pos] not in locs:
            raise PPError(f"{where}: add_entry argument {pos!r} is not a location binder")
        return f".code {string_expr(m.group(1), binders, where)} {binders[pos]}"
    if RE_ERR.match(a) and alt.fallible:
        return ".err"
    try:
        inner = a[1:-1].strip() if a.startswith("{") and a.endswith("}") else a
        return f".ret {string_expr(inner, binders, where)}"
    except PPError:
        pass
    m = re.fullmatch(r"\{?\s*([a-z_][a-z_0-9]*)\s*\.to_owned\(\)\s*\}?", a)
    if m and m.group(1) in binders:
        return f".ret [.arg {binders[m.group(1)]}]"
    # anything else: special, keyed by non-terminal name
    return f".special {lean_str(nt.name)} {idx} {hash_of(a)}"

def generate(text):
    nts = L.parse_grammar(text)
    lits, res = L.all_terminals(nts)
    for r in res:
        if r not in REGEXES:
            raise PPError(f"regex terminal {r!r} of the assembler grammar is not one the model's lexer implements")
    names = {nt.name for nt in nts}
    extra = []          # synthetic non-terminals for groups
    out_nts = []

    def sym_to_lean(s, owner, path):
        """returns (lean Sym, is_loc)"""
        suffix = s.suffix
        if s.kind == "lit":
            base = f".lit {lean_str(s.value)}"
        elif s.kind == "re":
            base = f".re {REGEXES.index(s.value)}"
        elif s.kind == "loc":
            if s.value not in ("@L", "@R"):
                raise PPError(f"{owner}: unknown location {s.value}")
            return (".locL" if s.value == "@L" else ".locR"), True
        elif s.kind == "nt":
            if s.args:
                if s.value == "CommaSepList" and len(s.args) == 1 and s.args[0].kind == "nt" and not s.args[0].args:
                    base = f".commaList {lean_str(s.args[0].value)}"
                    if suffix:
                        raise PPError(f"{owner}: suffix on CommaSepList")
                    return base, False
                raise PPError(f"{owner}: macro use {s.value} not supported")
            if s.value not in names:
                raise PPError(f"{owner}: unknown non-terminal {s.value}")
            base = f".nt {lean_str(s.value)}"
        elif s.kind == "group":
            gname = f"{owner}__g{path}"
            kids = []
            for j, c in enumerate(s.children):
                l, _ = sym_to_lean(c, gname, f"{path}_{j}")
                kids.append(l)
            # value of a group = value of its single selected (<..>) child, else of its single non-literal child
            extra.append((gname, [("[" + ", ".join(kids) + "]", ".none")]))
            base = f".nt {lean_str(gname)}"
        else:
            raise PPError(f"{owner}: symbol kind {s.kind}")
        if suffix == "?":
            if not base.startswith(".nt "):
                raise PPError(f"{owner}: `?` on a terminal")
            return ".opt " + base[4:], False
        if suffix:
            raise PPError(f"{owner}: suffix {suffix!r} outside CommaSepList is not supported")
        return base, False

    for nt in nts:
        if nt.params:
            if nt.name == "CommaSepList":
                # pinned: the generic evaluator implements exactly this macro
                if hash_of(nt.alts[0].action or "") != hash_of("match e { None => v, Some(e) => { let mut v = v; v.push(e); v } }"):
                    raise PPError("CommaSepList action changed")
                continue
            raise PPError(f"grammar macro {nt.name} not supported")
        # left-recursive list `A = B1 | .. | Bn | A B1 | .. | A Bn`
        singles = [a for a in nt.alts if len(a.symbols) == 1 and a.symbols[0].kind == "nt" and not a.symbols[0].suffix and a.action is None]
        rec = [a for a in nt.alts if len(a.symbols) == 2 and a.symbols[0].kind == "nt" and a.symbols[0].value == nt.name and a.symbols[1].kind == "nt" and a.action is None]
        if rec:
            if len(singles) + len(rec) != len(nt.alts) or {a.symbols[0].value for a in singles} != {a.symbols[1].value for a in rec}:
                raise PPError(f"{nt.name}: left recursion is not of the list shape A = B | A B")
            members = [a.symbols[0].value for a in singles]
            out_nts.append((nt.name, "plus", members))
            continue
        if any(s.kind == "nt" and s.value == nt.name for a in nt.alts for s in a.symbols[:1]):
            raise PPError(f"{nt.name}: unsupported left recursion")
        alts = []
        for idx, alt in enumerate(nt.alts):
            syms, binders, locs = [], {}, set()
            for j, s in enumerate(alt.symbols):
                l, is_loc = sym_to_lean(s, nt.name, f"{idx}_{j}")
                syms.append(l)
                if s.binder and s.binder != "_anon":
                    binders[s.binder] = j
                if is_loc:
                    locs.add(j)
            act = classify(nt, idx, alt, binders, locs)
            alts.append(("[" + ", ".join(syms) + "]", act))
        out_nts.append((nt.name, "alts", alts))
    for gname, alts in extra:
        out_nts.append((gname, "alts", alts))

    idlits = sorted(l for l in lits if re.fullmatch(r"[_a-zA-Z][_a-zA-Z0-9]*", l))
    punct = sorted(l for l in lits if not re.fullmatch(r"[_a-zA-Z][_a-zA-Z0-9]*", l))
    expected_punct = sorted(["[", "]", ",", "(", ")", "->", "{", "}", ":"])
    if punct != expected_punct:
        raise PPError(f"punctuation literals of the assembler grammar changed: {punct}")

    body = []
    body.append("import Emu8086.Model.Grammar")
    body.append("namespace Emu8086.Gen.PP")
    body.append("open Emu8086.Grammar")
    body.append("/-- identifier-shaped literals (keywords) of the assembler grammar -/")
    body.append("def keywords : List String := [" + ", ".join(lean_str(k) for k in idlits) + "]")
    body.append("def regexes : List String := [" + ", ".join(lean_str(r) for r in REGEXES) + "]")
    body.append("def start : String := \"Preprocessor\"")
    n_alts = 0
    n_special = 0
    defs = []
    for name, kind, payload in out_nts:
        ident = "nt_" + re.sub(r"[^A-Za-z0-9_]", "_", name)
        if kind == "plus":
            body.append(f"def {ident} : NTDef := .plus [" + ", ".join(lean_str(m) for m in payload) + "]")
        else:
            rows = []
            for syms, act in payload:
                rows.append(f"  ⟨{syms}, {act}⟩")
                n_alts += 1
                if act.startswith(".special"):
                    n_special += 1
            body.append(f"def {ident} : NTDef := .alts [\n" + ",\n".join(rows) + "]")
        defs.append(f"({lean_str(name)}, {ident})")
    body.append("def grammar : List (String × NTDef) := [\n  " + ",\n  ".join(defs) + "]")
    # ---- tables for the kernel-checked obligations (characters, not Strings: these reduce in the kernel)
    def chars(x):
        return "[" + ",".join("'" + ("\\'" if c == "'" else "\\\\" if c == "\\" else c) + "'" for c in x) + "]"
    specials = []
    ret_tables = []      # (nt, [(spelling, canonical)])
    pure_tables = []     # (nt, [spelling])
    byname = {nt.name: nt for nt in nts}
    for nt in nts:
        if nt.params:
            continue
        rows, pure, ok_ret, ok_pure = [], [], True, True
        for idx, alt in enumerate(nt.alts):
            single_lit = len(alt.symbols) == 1 and alt.symbols[0].kind == "lit" and not alt.symbols[0].suffix
            m = RE_OWNED.match(alt.action.strip()) if alt.action else None
            if single_lit and m:
                rows.append((alt.symbols[0].value, unescape_rust(m.group(1))))
            else:
                ok_ret = False
            if single_lit and alt.action is None:
                pure.append(alt.symbols[0].value)
            else:
                ok_pure = False
        # tables may also include other tables (gen_byte_reg includes reg_cl): only the literal rows are listed here
        lit_rows = []
        for alt in nt.alts:
            if len(alt.symbols) == 1 and alt.symbols[0].kind == "lit" and alt.action and RE_OWNED.match(alt.action.strip()):
                lit_rows.append((alt.symbols[0].value, unescape_rust(RE_OWNED.match(alt.action.strip()).group(1))))
        if lit_rows:
            ret_tables.append((nt.name, lit_rows))
        if ok_pure and pure:
            pure_tables.append((nt.name, pure))
    for name, kind, payload in out_nts:
        if kind == "alts":
            for syms, act in payload:
                m = re.match(r'\.special "([^"]+)" (\d+) (\d+)', act)
                if m:
                    specials.append((m.group(1), int(m.group(2)), int(m.group(3))))
    # words that can reach an emitted CODE line
    word_re = re.compile(r"[_a-zA-Z][_a-zA-Z0-9]*")
    SPECIAL_WORDS = {"call": ["call"], "int": ["int"], "procedure": ["ret"], "print_stmt": ["print", "mem"], "jmps_loops": []}
    SPECIAL_CHILDREN = {"memory_addr": None, "jmps_loops": ["quote_jmps_loops"], "call": [], "int": [], "procedure": [], "print_stmt": [],
                        "byte_label": [], "word_label": [], "u_word_num": [], "u_byte_num": [], "s_word_num": [], "s_byte_num": [], "raw_addr": [],
                        "offset": [], "label": [], "macro_use": [], "macro_def": [], "proc_def": []}
    seen_w, words = set(), set()
    def value_words(name):
        """words that can occur in the VALUE (string) a non-terminal returns"""
        if name in seen_w or name not in byname:
            return
        seen_w.add(name)
        nt = byname[name]
        for idx, alt in enumerate(nt.alts):
            a = (alt.action or "").strip()
            if nt.name in SPECIAL_NTS:
                kids = SPECIAL_CHILDREN.get(nt.name)
                for s_ in alt.symbols:
                    walk_sym(s_, kids)
                continue
            for mm in re.finditer(STR, a):
                if "error!" in a:
                    continue
                for w in word_re.findall(unescape_rust(mm.group(1))):
                    words.add(w)
            for s_ in alt.symbols:
                if "error!" in a:
                    continue
                walk_sym(s_, None)
    def walk_sym(s_, allowed):
        if s_.kind == "nt" and not s_.args:
            if allowed is None or s_.value in allowed:
                value_words(s_.value)
        for c in s_.children:
            walk_sym(c, allowed)
    for nt in nts:
        if nt.params:
            continue
        for alt in nt.alts:
            a = alt.action or ""
            if "out.code.push" in a:
                if nt.name in SPECIAL_WORDS:
                    words.update(SPECIAL_WORDS[nt.name])
                    for s_ in alt.symbols:
                        walk_sym(s_, SPECIAL_CHILDREN.get(nt.name))
                else:
                    for mm in re.finditer(STR, a):
                        for w in word_re.findall(unescape_rust(mm.group(1))):
                            words.add(w)
                    for s_ in alt.symbols:
                        walk_sym(s_, None)
    # names chosen by the user (labels, procedures) reach code lines too; they are covered by `keywordsC`
    body.insert(len(body) - 1, "def specials : List (String × Nat × Nat) := [" + ", ".join(f"({lean_str(a)}, {b}, {c})" for a, b, c in specials) + "]")
    body.insert(len(body) - 1, "def keywordsC : List (List Char) := [" + ", ".join(chars(k) for k in idlits) + "]")
    body.insert(len(body) - 1, "def emittedWords : List (List Char) := [" + ", ".join(chars(k) for k in sorted(words)) + "]")
    body.insert(len(body) - 1, "def retTables : List (List Char × List (List Char × List Char)) := [\n  " +
                ",\n  ".join("(" + chars(n) + ", [" + ", ".join(f"({chars(a)}, {chars(b)})" for a, b in rows) + "])" for n, rows in ret_tables) + "]")
    body.insert(len(body) - 1, "def pureTables : List (List Char × List (List Char)) := [\n  " +
                ",\n  ".join("(" + chars(n) + ", [" + ", ".join(chars(a) for a in rows) + "])" for n, rows in pure_tables) + "]")
    body.append("end Emu8086.Gen.PP")
    return "\n".join(body) + "\n", {"nonterminals": len(out_nts), "alternatives": n_alts, "special": n_special, "keywords": len(idlits)}
