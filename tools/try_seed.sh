#!/bin/bash
# usage: tools/try_seed.sh <patch.diff> <property> [tier]   — apply a seeded change to /repo, run the check, undo it
set -u
patch="$1"; prop="$2"; tier="${3:-quick}"
cd /verif
if ! git -C /repo diff --quiet -- src Cargo.toml build.rs; then echo "repo not clean"; exit 3; fi
git -C /repo apply "$patch" || { echo "patch does not apply"; exit 3; }
./check "$prop" --tier "$tier" > /tmp/try_seed.out 2>&1; rc=$?
git -C /repo checkout -- . 
grep -E "^VIOLATION|^property=|CHECK-BROKEN|broken obligation" /tmp/try_seed.out | cut -c1-400
echo "rc=$rc"
