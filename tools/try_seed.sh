#!/bin/bash
# usage: tools/try_seed.sh <patch.diff> <property> [tier]   — apply a seeded change to /repo, run the check, undo it
set -u
patch="$1"; prop="$2"; tier="${3:-quick}"
cd /verif
if ! git -C /repo diff --quiet -- src Cargo.toml build.rs; then echo "repo not clean"; exit 3; fi
cp -f evidence/$prop.json /tmp/try_seed_evidence.json 2>/dev/null
git -C /repo apply "$patch" || { echo "patch does not apply"; exit 3; }
./check "$prop" --tier "$tier" > /tmp/try_seed.out 2>&1; rc=$?
git -C /repo checkout -- . 
git -C /repo clean -fdq -- src   # files a patch added
cp -f /tmp/try_seed_evidence.json evidence/$prop.json 2>/dev/null
# regenerate the tables from the restored tree so that the next build does not start from the seeded ones
python3 tools/extract.py > /dev/null
grep -E "^VIOLATION|^property=|CHECK-BROKEN|broken obligation" /tmp/try_seed.out | cut -c1-400
echo "rc=$rc"
