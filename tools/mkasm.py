#!/usr/bin/env python3
"""mkasm.py file...  — print `asm <encoded>` request lines for source files (comments stripped like the driver does)"""
import sys, re
def enc(s):
    o=[]
    for b in s.encode():
        if 0x21<=b<=0x7e and b not in (37,124,59,44): o.append(chr(b))
        else: o.append("%%%02X"%b)
    return "".join(o) or "%"
for f in sys.argv[1:]:
    src=open(f).read()
    src=re.sub(r";.*\n?","\n",src)
    print("asm "+enc(src))
