"""A reader for the subset of LALRPOP grammar syntax used by /repo (fail-closed).

parse_grammar(text) -> list of NonTerminal(name, params, type, alts)
  Alt(symbols: list[Sym], fallible: bool, action: str|None)
  Sym(kind, value, binder, opt/star flags, children)
kinds: 'lit' (quoted literal), 're' (regex terminal), 'nt' (non-terminal / macro use), 'loc' (@L/@R),
       'group' (parenthesised sequence)
"""
import re

class GrammarError(Exception):
    pass

class Sym:
    def __init__(self, kind, value=None, binder=None, children=None, args=None):
        self.kind, self.value, self.binder = kind, value, binder
        self.children = children or []
        self.args = args or []
        self.suffix = ""      # '', '?', '*', '+'
    def __repr__(self):
        b = f"{self.binder}:" if self.binder else ""
        if self.kind == "group":
            return f"<{b}({' '.join(map(repr, self.children))}){self.suffix}>"
        if self.kind == "lit":
            return f'{b}"{self.value}"{self.suffix}'
        if self.kind == "re":
            return f"{b}r/{self.value}/{self.suffix}"
        return f"{b}{self.value}{'<' + ','.join(map(repr, self.args)) + '>' if self.args else ''}{self.suffix}"

class Alt:
    def __init__(self, symbols, fallible, action, line):
        self.symbols, self.fallible, self.action, self.line = symbols, fallible, action, line

class NonTerminal:
    def __init__(self, name, params, typ, alts, public, line):
        self.name, self.params, self.type, self.alts, self.public, self.line = name, params, typ, alts, public, line

class Scanner:
    def __init__(self, text):
        self.t, self.i, self.n = text, 0, len(text)
    def line(self):
        return self.t.count("\n", 0, self.i) + 1
    def skip_ws(self):
        while self.i < self.n:
            if self.t[self.i].isspace():
                self.i += 1
            elif self.t.startswith("//", self.i):
                j = self.t.find("\n", self.i)
                self.i = self.n if j < 0 else j
            elif self.t.startswith("/*", self.i):
                j = self.t.find("*/", self.i)
                if j < 0:
                    raise GrammarError("unterminated block comment")
                self.i = j + 2
            else:
                break
    def peek(self, s):
        self.skip_ws()
        return self.t.startswith(s, self.i)
    def eat(self, s):
        self.skip_ws()
        if not self.t.startswith(s, self.i):
            raise GrammarError(f"line {self.line()}: expected {s!r}, found {self.t[self.i:self.i+20]!r}")
        self.i += len(s)
    def ident(self):
        self.skip_ws()
        m = re.compile(r"[A-Za-z_][A-Za-z_0-9]*").match(self.t, self.i)
        if not m:
            raise GrammarError(f"line {self.line()}: identifier expected at {self.t[self.i:self.i+20]!r}")
        self.i = m.end()
        return m.group(0)
    def string(self):
        """at a `"`: read a Rust/LALRPOP string literal, return its (unescaped) content"""
        assert self.t[self.i] == '"'
        j = self.i + 1
        out = []
        while j < self.n and self.t[j] != '"':
            if self.t[j] == "\\":
                out.append(self.t[j:j+2]); j += 2
            else:
                out.append(self.t[j]); j += 1
        if j >= self.n:
            raise GrammarError("unterminated string")
        self.i = j + 1
        return "".join(out)
    def raw_string(self):
        """at `r"` or `r#"`"""
        m = re.compile(r'r(#*)"').match(self.t, self.i)
        hashes = m.group(1)
        start = m.end()
        endtok = '"' + hashes
        j = self.t.find(endtok, start)
        if j < 0:
            raise GrammarError("unterminated raw string")
        self.i = j + len(endtok)
        return self.t[start:j]
    def at_raw_string(self):
        return re.compile(r'r#*"').match(self.t, self.i) is not None
    def skip_code_until(self, stops):
        """skip Rust code up to (not including) one of the stop chars at nesting depth 0"""
        depth = 0
        start = self.i
        while self.i < self.n:
            c = self.t[self.i]
            if self.t.startswith("//", self.i):
                j = self.t.find("\n", self.i); self.i = self.n if j < 0 else j; continue
            if self.t.startswith("/*", self.i):
                j = self.t.find("*/", self.i); self.i = j + 2; continue
            if c == '"':
                self.string(); continue
            if c == "r" and self.at_raw_string() and (self.i == 0 or not (self.t[self.i-1].isalnum() or self.t[self.i-1] == "_")):
                self.raw_string(); continue
            if c == "'":
                # char literal or lifetime
                m = re.compile(r"'(\\.|[^\\'])'").match(self.t, self.i)
                if m:
                    self.i = m.end(); continue
                self.i += 1; continue
            if c in "([{":
                depth += 1
            elif c in ")]}":
                if depth == 0 and c in stops:
                    return self.t[start:self.i]
                depth -= 1
                if depth < 0:
                    raise GrammarError(f"line {self.line()}: unbalanced bracket in action code")
            elif depth == 0 and c in stops:
                return self.t[start:self.i]
            self.i += 1
        raise GrammarError("action code runs to end of file")

def parse_symbol(sc):
    sc.skip_ws()
    t, i = sc.t, sc.i
    if t[i] == "<":
        # <name:sym> | <sym>
        sc.i += 1
        sc.skip_ws()
        save = sc.i
        binder = None
        m = re.compile(r"(mut\s+)?([A-Za-z_][A-Za-z_0-9]*)\s*:(?!:)").match(t, sc.i)
        if m:
            binder = m.group(2); sc.i = m.end()
        else:
            sc.i = save
        inner = parse_symbol(sc)
        sc.eat(">")
        inner.binder = binder or inner.binder or "_anon"
        s = inner
    elif t[i] == '"':
        s = Sym("lit", sc.string())
    elif sc.at_raw_string():
        s = Sym("re", sc.raw_string())
    elif t[i] == "@":
        sc.i += 1
        s = Sym("loc", "@" + sc.ident())
    elif t[i] == "(":
        sc.i += 1
        kids = []
        while not sc.peek(")"):
            kids.append(parse_symbol(sc))
        sc.eat(")")
        s = Sym("group", children=kids)
    else:
        name = sc.ident()
        args = []
        sc.skip_ws()
        if sc.i < sc.n and t[sc.i] == "<" and name in sc.macros:
            # macro use: Name<arg, arg>
            sc.i += 1
            while True:
                args.append(parse_symbol(sc))
                sc.skip_ws()
                if t[sc.i] == ",":
                    sc.i += 1; continue
                break
            sc.eat(">")
        s = Sym("nt", name, args=args)
    sc.skip_ws()
    while sc.i < sc.n and t[sc.i] in "?*+":
        s2 = s
        if s.suffix:
            s2 = Sym("group", children=[s])
        s2.suffix = t[sc.i]
        s = s2
        sc.i += 1
        sc.skip_ws()
    return s

def parse_alt(sc, closers):
    line = None
    syms = []
    while True:
        sc.skip_ws()
        if line is None:
            line = sc.line()
        if sc.peek("=>?"):
            sc.eat("=>?"); fallible = True; break
        if sc.peek("=>@L") or sc.peek("=>@R"):
            raise GrammarError("=>@L/@R not supported")
        if sc.peek("=>"):
            sc.eat("=>"); fallible = False; break
        c = sc.t[sc.i] if sc.i < sc.n else ""
        if c == "," or c in closers:
            return Alt(syms, False, None, line)
        syms.append(parse_symbol(sc))
    sc.skip_ws()
    action = sc.skip_code_until("," + closers).strip()
    return Alt(syms, fallible, action, line)

def parse_grammar(text):
    sc = Scanner(text)
    sc.macros = set(re.findall(r"^\s*(?:pub\s+)?([A-Za-z_][A-Za-z_0-9]*)<[^>\n]*>\s*:", text, re.M))
    # header: `use ...;` lines and the `grammar...;` declaration
    while True:
        sc.skip_ws()
        if sc.t.startswith("use ", sc.i):
            sc.i = sc.t.index(";", sc.i) + 1
        elif sc.t.startswith("grammar", sc.i):
            sc.i = sc.t.index(";", sc.i) + 1
            break
        else:
            raise GrammarError(f"line {sc.line()}: unexpected header text {sc.t[sc.i:sc.i+30]!r}")
    nts = []
    while True:
        sc.skip_ws()
        if sc.i >= sc.n:
            break
        line = sc.line()
        public = False
        if sc.t.startswith("pub ", sc.i) or sc.t.startswith("pub\t", sc.i):
            public = True; sc.i += 3
        name = sc.ident()
        params = []
        sc.skip_ws()
        if sc.t[sc.i] == "<":
            j = sc.t.index(">", sc.i)
            params = [p.strip() for p in sc.t[sc.i+1:j].split(",")]
            sc.i = j + 1
        sc.eat(":")
        typ = sc.skip_code_until("=").strip()
        sc.eat("=")
        sc.skip_ws()
        alts = []
        if sc.t[sc.i] == "{":
            sc.i += 1
            while True:
                sc.skip_ws()
                if sc.t[sc.i] == "}":
                    sc.i += 1; break
                alts.append(parse_alt(sc, "}"))
                sc.skip_ws()
                if sc.t[sc.i] == ",":
                    sc.i += 1
                elif sc.t[sc.i] != "}":
                    raise GrammarError(f"line {sc.line()}: expected ',' or '}}' after alternative of {name}")
            sc.skip_ws()
            if sc.i < sc.n and sc.t[sc.i] == ";":
                sc.i += 1
        else:
            alts.append(parse_alt(sc, ";"))
            sc.eat(";")
        nts.append(NonTerminal(name, params, typ, alts, public, line))
    return nts

def all_terminals(nts):
    lits, res = [], []
    def walk(s):
        if s.kind == "lit":
            lits.append(s.value)
        elif s.kind == "re":
            res.append(s.value)
        for c in s.children:
            walk(c)
        for a in s.args:
            walk(a)
    for nt in nts:
        for alt in nt.alts:
            for s in alt.symbols:
                walk(s)
    def uniq(l):
        seen, out = set(), []
        for x in l:
            if x not in seen:
                seen.add(x); out.append(x)
        return out
    return uniq(lits), uniq(res)

if __name__ == "__main__":
    import sys
    for f in sys.argv[1:]:
        nts = parse_grammar(open(f).read())
        lits, res = all_terminals(nts)
        print(f, "nonterminals", len(nts), "alternatives", sum(len(n.alts) for n in nts), "literals", len(lits), "regexes", res)
