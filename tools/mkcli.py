#!/usr/bin/env python3
"""mkcli.py [-i] [--stdin TEXT] file...  — print `cli` request lines for source files"""
import sys
def enc(s):
    o=[]
    for b in s.encode():
        if 0x21<=b<=0x7e and b not in (37,124,59,44): o.append(chr(b))
        else: o.append("%%%02X"%b)
    return "".join(o) or "%"
args=sys.argv[1:]; flag="-"; stdin=""
while args and args[0].startswith("-"):
    if args[0]=="-i": flag="i"; args=args[1:]
    elif args[0]=="--stdin": stdin=args[1].encode().decode("unicode_escape"); args=args[2:]
for f in args:
    print(f"cli {flag} | {enc(open(f).read())} | {enc(stdin)}")
