#!/usr/bin/env python3
"""gen_l2i.py ishapes <quick|thorough> <seed> [shard nshards]

Interpreter-level requests (`x ...`, the L2 protocol of the harness) generated FROM THE CURRENT
interpreter grammar (src/lib/interpreter/interpreter.lalrpop): every alternative of every instruction
production x every entry of the mnemonic / register tables it uses (each on its own) x every
memory-operand alternative x boundary numbers, on adversarial machine states.  A change that breaks
exactly one operand-form alternative of one instruction is therefore always exercised.
"""
import sys, os, re, random
sys.path.insert(0, os.path.dirname(os.path.abspath(__file__)))
import lalrpop_lite as L

REPO = os.environ.get("VERIF_REPO", "/repo")
LABELS = "vb:D:5;vw:D:300;big:D:65535;zero:D:0;edge:D:15;start:C:0;lab:C:7;far:C:100"
FNS = "fun:3;other:44"
ADV = [0, 1, 2, 0x7FFF, 0x8000, 0xFFFE, 0xFFFF, 0x1234, 0x00FF, 0xFF00, 0xFFF0, 0x000F, 0x0100]

class G:
    def __init__(self, seed):
        self.r = random.Random(seed)
        self.nts = {nt.name: nt for nt in L.parse_grammar(open(os.path.join(REPO, "src/lib/interpreter/interpreter.lalrpop")).read())}

    def is_table(self, name):
        nt = self.nts.get(name)
        return nt is not None and all(len(a.symbols) == 1 and a.symbols[0].kind == "lit" for a in nt.alts)

    def num(self, regex_neg):
        r = self.r
        if regex_neg:
            return "-" + str(r.choice([1, 2, 127, 128, 129, 255, 256, 32767, 32768, r.randrange(1, 32769)]))
        return str(r.choice([0, 1, 2, 7, 8, 9, 15, 16, 17, 127, 128, 255, 256, 300, 32767, 32768, 65535, r.randrange(65536)]))

    def render(self, sym, choice=None, depth=0):
        """one rendering of a symbol; `choice` = {nt name: forced alternative index}"""
        r = self.r
        if sym.kind == "lit":
            return sym.value
        if sym.kind == "loc":
            return None
        if sym.kind == "re":
            if sym.value.startswith("-"):
                return self.num(True)
            if sym.value.startswith("[0-9]"):
                return self.num(False)
            return None
        if sym.kind == "group":
            if sym.suffix == "?" and r.random() < 0.5 and not (choice and choice.get("__grp")):
                return None
            return " ".join(x for x in (self.render(s, choice, depth + 1) for s in sym.value.symbols if True) if x is not None) if hasattr(sym.value, "symbols") else None
        if sym.kind == "nt":
            if sym.suffix == "?" and r.random() < 0.5:
                return None
            name = sym.value
            if name == "name_string":
                return "\x00NAME"
            nt = self.nts[name]
            idx = choice.get(name) if choice and name in choice else r.randrange(len(nt.alts))
            alt = nt.alts[idx % len(nt.alts)]
            parts = [self.render(s, choice, depth + 1) for s in alt.symbols]
            return " ".join(p for p in parts if p is not None)
        return None

    def instr_alts(self):
        """(production name, alternative) for everything reachable from Interpreter that contains a literal mnemonic or table"""
        out = []
        seen = set()
        def walk(name):
            if name in seen or name not in self.nts:
                return
            seen.add(name)
            nt = self.nts[name]
            for a in nt.alts:
                syms = [s for s in a.symbols if s.kind != "loc"]
                if len(syms) == 1 and syms[0].kind == "nt" and not syms[0].suffix and not self.is_table(syms[0].value) \
                        and syms[0].value not in ("memory_addr", "name_string", "byte_label", "word_label"):
                    walk(syms[0].value)
                else:
                    out.append((name, a))
        walk("Interpreter")
        return out

def state(r):
    regs = [r.choice(ADV) if r.random() < 0.66 else r.randrange(65536) for _ in range(14)]
    regs[0] = r.choice([0, 0xF000, 0xFFFF, 0x0001, 0x0400, 0x0100 | 0x0400, r.randrange(65536)])      # flags
    if r.random() < 0.3:
        regs[10:14] = [r.choice([0xFFFF, 0xFFFF, 0xF000, 0xFFF0, 0, r.randrange(65536)]) for _ in range(4)]
    return regs

def main():
    group, tier, seed = sys.argv[1], sys.argv[2], int(sys.argv[3])
    shard, nshards = (int(sys.argv[4]), int(sys.argv[5])) if len(sys.argv) > 5 else (0, 1)
    g = G(seed * 104729 + 7)
    r = g.r
    reps = 6 if tier == "thorough" else 2
    k = 0
    for name, alt in g.instr_alts():
        # tables and structured operands used by this alternative
        tabs = [s.value for s in alt.symbols if s.kind == "nt" and g.is_table(s.value)]
        mems = [s.value for s in alt.symbols if s.kind == "nt" and s.value == "memory_addr"]
        forced = [dict()]
        for t in tabs:
            forced += [{t: i} for i in range(len(g.nts[t].alts))]
        if mems:
            forced += [{"memory_addr": i} for i in range(len(g.nts["memory_addr"].alts))]
        for ch in forced:
            for _ in range(reps):
                parts = [g.render(s, ch) for s in alt.symbols]
                line = " ".join(p for p in parts if p is not None)
                # names: a data label for byte/word label operands, a code label / procedure otherwise
                def nm(m, line=line):
                    before = line[:m.start()].rstrip().split(" ")[-1] if line[:m.start()].strip() else ""
                    if before in ("byte", "word"):
                        return r.choice(["vb", "vw", "big", "zero", "edge", "edge"])
                    if before == "call":
                        return r.choice(["fun", "other", "fun", "nofun"])
                    return r.choice(["lab", "far", "start", "lab", "nolabel", "vb"])
                line = re.sub("\x00NAME", nm, line)
                line = re.sub(r"\s*,\s*", r.choice([",", " ,", ", "]), line)
                line = re.sub(r"\[\s+", "[", line); line = re.sub(r"\s+\]", "]", line); line = re.sub(r"\s*:\s*\[", ":[", line)
                if k % nshards == shard:
                    regs = state(r)
                    pokes = "-"
                    stack = r.choice(["4,17,2", "-", "9"])
                    sys.stdout.write("x %s | %d | %s | %s | %s | %s | %d | %s\n" % (" ".join(map(str, regs)), r.randrange(1, 1 << 30), pokes, LABELS, FNS, stack, r.randrange(0, 60), line))
                k += 1

if __name__ == "__main__":
    main()
