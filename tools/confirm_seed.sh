#!/bin/bash
# usage: tools/confirm_seed.sh <seed dir> <scratch worktree>
# Confirms a seeded change: demo passes on the clean tree, the change applies, the full pinned suite
# stays green with it, the demo fails with it.  Prints one line per step; exit 0 iff all confirmed.
set -u
SD="$1"; WT="$2"
export CARGO_NET_OFFLINE=true
cd "$WT" || exit 3
git checkout -q -- . ; rm -rf tests
run_demo() {
  local rs; rs=$(ls "$SD"/demo/*.rs 2>/dev/null | head -1)
  if [ -n "$rs" ]; then
    mkdir -p tests; cp "$SD"/demo/*.rs tests/
    local name; name=$(basename "$rs" .rs)
    cargo test --offline --test "$name" > /tmp/confirm_demo_$(basename $WT).out 2>&1; local rc=$?
    rm -rf tests; return $rc
  elif ls "$SD"/demo/*.sh > /dev/null 2>&1; then
    local sh; sh=$(ls "$SD"/demo/run*.sh "$SD"/demo/demo*.sh "$SD"/demo/*.sh 2>/dev/null | head -1)
    bash "$sh" "$WT" > /tmp/confirm_demo_$(basename $WT).out 2>&1; return $?
  else
    echo "no demo found"; return 99
  fi
}
ok=1
run_demo; rc=$?; echo "demo on clean tree: rc=$rc (want 0)"; [ $rc -eq 0 ] || ok=0
git apply "$SD/patch.diff" || { echo "patch does not apply"; exit 1; }
cargo test --workspace --no-fail-fast --offline > /tmp/confirm_suite_$(basename $WT).out 2>&1
passed=$(grep -E "^test result" /tmp/confirm_suite_$(basename $WT).out | sed -E 's/.* ([0-9]+) passed.*/\1/' | paste -sd+ | bc)
failed=$(grep -E "^test result" /tmp/confirm_suite_$(basename $WT).out | sed -E 's/.* ([0-9]+) failed.*/\1/' | paste -sd+ | bc)
echo "suite with change: passed=$passed failed=$failed (want 68/0)"; [ "$passed" = "68" ] && [ "$failed" = "0" ] || ok=0
run_demo; rc=$?; echo "demo with change: rc=$rc (want non-zero)"; [ $rc -ne 0 ] || ok=0
git checkout -q -- . ; rm -rf tests
echo "confirmed=$ok"
[ $ok -eq 1 ]
