#!/usr/bin/env python3
"""keep_seed.py <seed id> <property> <detected: yes|no|partial> <detail...> — copy a confirmed seeded change into /verif/seeded/<id>/"""
import sys, os, json, shutil
sid, prop, det = sys.argv[1:4]
detail = " ".join(sys.argv[4:])
src = f"/tmp/seed_out/{sid}"
dst = f"/verif/seeded/{sid}"
os.makedirs(dst, exist_ok=True)
shutil.copy(f"{src}/patch.diff", f"{dst}/patch.diff")
if os.path.isdir(f"{dst}/demo"):
    shutil.rmtree(f"{dst}/demo")
shutil.copytree(f"{src}/demo", f"{dst}/demo")
meta = {}
try:
    meta = json.load(open(f"{src}/meta.json"))
except Exception:
    pass
meta["property"] = prop
meta["confirmed_by_me"] = ["tools/confirm_seed.sh: demo passes on the clean tree; patch applies; pinned suite 68 passed / 0 failed with the change; demo fails with the change"]
meta["check_result"] = {"detected": det, "detail": detail, "cmd": f"git -C /repo apply seeded/{sid}/patch.diff; ./check {prop} --tier quick; git -C /repo checkout -- ."}
json.dump(meta, open(f"{dst}/meta.json", "w"), indent=1)
print("kept", dst)
