#!/usr/bin/env python3
"""rewrite the seeded-change table of DESIGN.md from /verif/seeded/*/meta.json"""
import json, glob, os, re
ROOT = os.path.dirname(os.path.dirname(os.path.abspath(__file__)))
rows = []
for d in sorted(glob.glob(os.path.join(ROOT, "seeded", "*"))):
    try:
        m = json.load(open(os.path.join(d, "meta.json")))
    except Exception:
        continue
    if m.get("harmless"):
        continue          # behaviour-preserving refactorings: table of §0.5b
    sid = os.path.basename(d)
    summ = re.sub(r"\s+", " ", str(m.get("summary", "")))[:200].replace("|", "/")
    cr = m.get("check_result", {})
    rows.append(f"| {sid} | {summ} | {cr.get('detected','?')} | {re.sub(chr(10),' ',cr.get('detail','')).replace('|','/')} |")
table = "\n".join(rows)
p = os.path.join(ROOT, "DESIGN.md")
s = open(p).read()
if True:
    s = re.sub(r"<!-- SEEDTABLE BEGIN -->.*?<!-- SEEDTABLE END -->", lambda _: "<!-- SEEDTABLE BEGIN -->\n" + table + "\n<!-- SEEDTABLE END -->", s, flags=re.S)
open(p, "w").write(s)
print(len(rows), "rows")
