"""Orchestration of one property check (see /verif/check)."""
import sys, os, json, subprocess, time, re, fcntl, shutil

ROOT = os.path.dirname(os.path.dirname(os.path.abspath(__file__)))
LEAN = os.path.join(ROOT, "lean")
BUILD = os.path.join(ROOT, "build")
HARNESS_DIR = os.path.join(ROOT, "harness")
HARNESS = os.path.join(BUILD, "target", "debug", "verif_harness")
DRIVER = os.path.join(LEAN, ".lake", "build", "bin", "emu_driver")
CLI = os.path.join(BUILD, "target-cli", "debug", "emulator_8086")
REPO = os.environ.get("VERIF_REPO", "/repo")
NSHARDS = int(os.environ.get("VERIF_SHARDS", "16"))

ALLOWED_AXIOMS = {"propext", "Classical.choice", "Quot.sound"}

TRUSTED_BASE = [
    "Lean 4.33 kernel (leanchecker re-check in the thorough tier)",
    "axioms propext, Classical.choice, Quot.sound; per-call bv_decide axioms (Lean.ofReduceBool + LRAT checker) listed under 'axioms'",
    "tools/extract.py (T-gen translator for tables/constants)",
    "Rust harness /verif/harness + line protocol + compiled Lean driver (T-corr); catch_unwind; splitmix64 PRNG",
    "Spec files = my reading of the 8086 Family User's Manual / syntax.md",
    "LALRPOP-generated parsers, regex, std I/O, HashMap: modelled or exercised, not verified",
]

# ---------------------------------------------------------------------------------------------
# property table: theorem modules, generated tables, correspondence runs (level, group)
PROPS = {
    "C01": dict(modules=["Emu8086.Props.C01", "Emu8086.Props.C01Exec"], runs=[("l1", "arith"), ("l2", "arith"), ("l2i", "ishapes"), ("l2", "mixseq"), ("l3", "roles"), ("l1", "wordx")], gen=["Arch"],
                rule="L1: every byte operand pair x 4+ flag words for ADD/ADC/SUB/SBB/CMP, every byte value x flag words for INC/DEC/NEG, "
                     "word operands on the boundary lattice^2 + seeded random pairs; non-trivial = result or flag word differs from the input; "
                     "distinct = distinct request text (hash-sharded, de-duplicated in the driver)"
                     " l2i ishapes: requests generated from the CURRENT interpreter grammar (every alternative of every instruction production x every table entry x every memory-operand alternative); l2 mixseq: mixed straight-line sequences over all instruction classes."
                     " l1 wordx: EVERY pair of word operands x both carry-ins for ADD/ADC/SUB/SBB/CMP (8 passes of 2^32 pairs in the thorough tier, one sixteenth of the first operands in the quick tier) is run through the real functions; pairs that disagree with a harness-side filter are handed to the model/spec verdict as ordinary requests (none on a correct tree)."),
    "C02": dict(modules=["Emu8086.Props.C02"], runs=[("l1", "bits"), ("l2", "logic+shift"), ("l2i", "ishapes"), ("l2", "mixseq"), ("l3", "roles"), ("l1", "wordx_logic"), ("l1", "wordx_shift")], gen=["Arch"],
                rule="L1: all 256 byte values x all 256 counts x 2 flag words for the 7 shift/rotate functions; word values (lattice+random) x all 256 counts; "
                     "logic ops on all byte pairs and lattice/random word pairs; non-trivial = result or flags changed"
                     " l2i ishapes: requests generated from the CURRENT interpreter grammar (every alternative of every instruction production x every table entry x every memory-operand alternative); l2 mixseq: mixed straight-line sequences over all instruction classes."),
    "C03": dict(modules=["Emu8086.Props.C03", "Emu8086.Props.C11"], runs=[("l1", "muldiv"), ("l2", "muldiv"), ("l2", "divx"), ("l2i", "ishapes"), ("l2", "mixseq"), ("l3", "roles"), ("l1", "wordx_mul")], gen=["Arch", "ILiterals", "PPGrammar"],
                rule="L1: MUL/IMUL/DIV/IDIV byte forms on (lattice+random AX) x all 256 operands, word forms on lattice triples + random 48-bit triples "
                     "biased to the quotient-overflow boundary; adjusts on AX x {AF,CF}; non-trivial = state changed or divide error"
                     " l2i ishapes: requests generated from the CURRENT interpreter grammar (every alternative of every instruction production x every table entry x every memory-operand alternative); l2 mixseq: mixed straight-line sequences over all instruction classes."),
    "C04": dict(modules=["Emu8086.Props.C04", "Emu8086.Props.ExecAll"], runs=[("l2", "mov+xfer"), ("l2", "arith+logic+shift+muldiv"), ("l3", "operands"), ("l4", "dataref"), ("l2i", "ishapes"), ("l2", "alias")], gen=["Arch", "ILiterals"],
                rule="L2 (Interpreter::parse on a fully specified machine): random lines of the MOV/XCHG/LEA and ALU families over all operand shapes "
                     "(direct, indirect, based, indexed, based-indexed, +-displacement, segment override, data label) x adversarial registers/segments "
                     "(lattice values, segments straddling 2^20); memory is a position-dependent pattern, so a read identifies the address used and the "
                     "full-memory diff shows every write; non-trivial = state or outcome differs from a plain NEXT; distinct = distinct request text"
                     " L3 operands: every memory-operand shape x override x base x index x 20 instruction frames written from syntax.md, the emitted line must mean the source instruction (request opnd). L4 dataref: label reads against an image computed by the generator."
                     " l2i ishapes: requests generated from the CURRENT interpreter grammar (every alternative x every table entry x every memory-operand alternative)."),
    "C05": dict(modules=["Emu8086.Props.C05"], runs=[("l2", "mov+xfer+stack"), ("l2", "stackseq"), ("l2i", "ishapes"), ("l2", "mixseq"), ("l2", "alias"), ("l3", "roles")], gen=["Arch", "ILiterals"],
                rule="L2: MOV/XCHG/PUSH/POP/PUSHF/POPF/LAHF/SAHF/XLAT over all operand kinds x adversarial SS:SP (0, 1, FFFFh, top of memory); "
                     "stackseq = straight-line random interleavings of pushes/pops/moves (length up to 64 quick / 2000 thorough) executed line by line "
                     "against the model and the reference; non-trivial = more than one instruction or a state change"
                     " l2i ishapes: requests generated from the CURRENT interpreter grammar (every alternative of every instruction production x every table entry x every memory-operand alternative); l2 mixseq: mixed straight-line sequences over all instruction classes."),
    "C06": dict(modules=["Emu8086.Props.C06", "Emu8086.Props.C11"], runs=[("l2", "jumpx"), ("l2", "jump"), ("l3", "jumpspell"), ("l2i", "ishapes"), ("l4", "run")], gen=["Arch", "ILiterals", "Jumps", "PPGrammar"],
                rule="L2 jumpx: EVERY jump mnemonic of the interpreter x all 32 settings of CF/PF/ZF/SF/OF x 4 settings of the other flag bits "
                     "(x CX lattice + random for JCXZ/LOOP*); jump: random jumps/calls/rets/ints; non-trivial = outcome other than plain NEXT or CX changed"
                     " L3 jumpspell: every Intel jump/loop mnemonic in both cases through the real assembler, emitted jump must belong to its Intel class (request jsp)."
                     " l2i ishapes: requests generated from the CURRENT interpreter grammar (every alternative x every table entry x every memory-operand alternative)."
                     " L4 run: taken and not-taken jumps and LOOPs (incl. one-instruction delay loops) carried through by the real driver loop."),
    "C07": dict(modules=["Emu8086.Props.C07", "Emu8086.Props.C11"], runs=[("l2", "string"), ("l2", "rep"), ("l4", "strings"), ("l2i", "ishapes"), ("l2", "mixseq"), ("l2", "alias"), ("l3", "roles")], gen=["Arch", "ILiterals", "PPGrammar"],
                rule="L2 string: single steps of every string instruction x width x DF x prefix on adversarial DS/ES/SI/DI; rep: the REPEAT protocol "
                     "driven to completion (the driver's loop) for every mnemonic x width x DF x prefix x CX in 0..64 (+255, 300; thorough also 4095, 32768, 65535), "
                     "with aliasing DS:SI/ES:DI and runs of equal bytes; non-trivial = CX != 0 or a state change"
                     " L4 strings: whole programs with every string mnemonic x width x DF x prefix run by the real binary's own REPEAT handling (plain and -i), over data that stops conditional repeats early, late or never."
                     " l2i ishapes: requests generated from the CURRENT interpreter grammar (every alternative of every instruction production x every table entry x every memory-operand alternative); l2 mixseq: mixed straight-line sequences over all instruction classes."),
    "C09": dict(modules=["Emu8086.Props.C09", "Emu8086.Props.ExecAll"], runs=[("l2", "all"), ("l2", "malformed"), ("l2", "divx"), ("l2i", "ishapes"), ("l2", "mixseq"), ("l2", "alias"), ("l4", "ints")], gen=["Arch", "ILiterals"],
                rule="L2: every instruction class x adversarial machine states (registers from {0,1,7FFFh,8000h,FFFEh,FFFFh,random}, segments straddling 2^20, "
                     "counts 0..255, divisors 0/1/-1) with catch_unwind in an overflow-checking build: a PANIC of the real code is a violation; malformed = "
                     "near-miss lines the assembler never emits (must be a reported error in both); divx = MUL/IMUL/DIV/IDIV over the boundary lattice^3 of (AX, DX, operand) x 10 operand forms (divisors 0/1/-1, MIN dividends); non-trivial = outcome/state differs from plain NEXT"
                     " l2i ishapes: requests generated from the CURRENT interpreter grammar (every alternative of every instruction production x every table entry x every memory-operand alternative); l2 mixseq: mixed straight-line sequences over all instruction classes."
                     " L4 ints: the interrupt-request outcome carried through by the real driver (buffers and strings at the end of the 1 MB space, all AH values): exit 101 is a violation."),
    "C08": dict(modules=["Emu8086.Props.C08", "Emu8086.Props.C08Flow", "Emu8086.Props.C11"], runs=[("l4", "run"), ("l3", "progs"), ("l3", "jumpspell"), ("l3", "roles"), ("l4", "deep", {"VERIF_MODEL_FUEL": "400000", "VERIF_CLI_TIMEOUT": "300"})], gen=["Arch", "ILiterals", "PPGrammar"],
                rule="L4 run: structured terminating programs (procedures first, labels at every position incl. last / before procedures / macro uses / prints, "
                     "forward jumps, bounded LOOPs, calls of calls, start in the middle, code after hlt) executed by the REAL binary; the executed-instruction "
                     "trace, final registers and memory (verification hook) and stdout must equal the model's run loop; L3 progs: random whole programs through "
                     "the real assembler (label/procedure indices, source map); non-trivial = more than one instruction executed / program accepted"
                     " L3 jumpspell + roles: grammar-independent oracles for the spelling tables and emission templates of the control-flow instructions."),
    "C10": dict(modules=["Emu8086.Props.C10", "Emu8086.Props.C10Text", "Emu8086.Props.C12Text", "Emu8086.Props.C11Text", "Emu8086.Props.ILexRT", "Emu8086.Props.C11Lines", "Emu8086.Props.C11"], runs=[("l3", "shapes"), ("l3", "progs"), ("l4", "shapes"), ("l4", "diag"), ("l3", "jumpspell"), ("l3", "roles"), ("l4", "prints")], gen=["Arch", "ILiterals", "PPGrammar"],
                rule="shapes: EVERY code-emitting alternative of the CURRENT assembler grammar x every spelling of its mnemonic table x sampled operands "
                     "(generated from the grammar on each run); L3 = real Preprocessor vs model (byte-identical lines); L4 = the same programs executed by the real "
                     "binary: the real DataParser / Interpreter / PrintParser judge every emitted line (any 'Internal Error' is a violation); non-trivial = accepted program"
                     " L4 diag: context mismatches (jump to a procedure name, call of a label, array fill values out of range ...) with verdict expectations; L3 jumpspell + roles."
                     " L4 prints: every accepted print statement executed by the real printer in states the program itself sets up (DS up to FFFFh, ranges ending at / beyond 2^20): an Internal Error is a violation."),
    "C11": dict(modules=["Emu8086.Props.C11", "Emu8086.Props.C16Map", "Emu8086.Props.C11Text", "Emu8086.Props.ILexRT", "Emu8086.Props.C11Lines"], runs=[("l3", "spell"), ("l3", "shapes"), ("l3", "operands"), ("l3", "roles"), ("l3", "macroref", {"VERIF_ISOLATE": "1"})], gen=["Arch", "ILiterals", "PPGrammar"],
                rule="spell: programs rendered from the grammar under two independent spelling choices (case of every keyword/register/mnemonic incl. synonyms, "
                     "radix / leading zeros / negative decimal with the same bit pattern / OFFSET of a label with that offset for every constant, amount and kind of "
                     "white space and line breaks): the real assembler must emit identical code and data lists for both (or refuse both with the same diagnostic) and "
                     "agree with the model; non-trivial = the two renderings differ textually"
                     " L3 operands + roles: for every code-emitting alternative x every spelling of every table it uses, the emitted line read by the interpreter model must be the source instruction with the same operands in the same roles."
                     " L3 macroref: operands that arrive through macro parameters keep their roles (macro program vs hand-expanded program)."),
    "C12": dict(modules=["Emu8086.Props.C12", "Emu8086.Props.C12Text"], runs=[("l3", "data"), ("l4", "data"), ("l4", "dataref"), ("l2", "mov+xfer")], gen=["Arch", "ILiterals", "PPGrammar"],
                rule="random SET/DB/DW sequences of all four kinds (values over the full signed/unsigned ranges, arrays 0..65535 elements incl. segment overflow, "
                     "strings with every printable character, segments up to FFFFh so that data crosses the 1 MB wrap); L3: emitted data lines, label offsets, OFFSET "
                     "values vs model; L4: the WHOLE memory image after loading (all non-zero bytes, via the verification hook) and `print mem` output vs the model's loader"
                     " L4 dataref: SET/DB/DW of all kinds incl. two-argument arrays and negative values; the dump of every segment touched, the offset of every label and the word read through every label operand must equal an image computed by the generator from the definitions. L2: label operands under arbitrary DS."),
    "C13": dict(modules=["Emu8086.Props.C13", "Emu8086.Props.C13Subst", "Emu8086.Props.C11"], runs=[("l4", "macros"), ("l4", "fuzz"), ("l3", "macros", {"VERIF_ISOLATE": "1"}), ("l3", "macroref", {"VERIF_ISOLATE": "1"}), ("l3", "progs")], gen=["Arch", "ILiterals", "PPGrammar"],
                rule="random macro libraries (1-5 macros, 0-3 parameters whose names are prefixes/substrings of each other and of body tokens, macros using earlier "
                     "and later macros incl. cycles, names passed as arguments, uses inside procedures) x use sites with register / number / bracketed-memory / label "
                     "arguments: output of the real assembler vs the model's expansion; non-trivial = accepted program"
                     " L3 macroref: the same program with every macro use written out by hand by the generator's reference expander (simultaneous whole-word substitution, nested and by-name uses, every register in both cases in every operand role): identical code lists or both refused."),
    "C14": dict(modules=["Emu8086.Props.C14", "Emu8086.Props.C14Range"], runs=[("l3", "errors"), ("l4", "diag")], gen=["Arch", "ILiterals", "PPGrammar"],
                rule="a valid program x every applicable single semantic mutation (undefined / data-label jump target, duplicate label / procedure, data operand or "
                     "OFFSET on a code label or unknown name, call of a non-procedure, constants out of range by one, operand size mismatch, two memory operands, "
                     "unsupported instructions / interrupts, missing or data-typed start) + boundary values of every constant range; the real binary must print a "
                     "diagnostic and execute nothing (empty trace from the hook); non-trivial = mutant refused"
                     " ~1000 programs that are invalid / valid BY CONSTRUCTION (every instruction family x every byte/word destination form x the constants just outside/inside the documented range, array fill values and counts, OFFSET as a byte constant at 254..257, sizes of macro arguments) carry the verdict the property demands (expect=!refused / !accepted), independent of model and grammar."),
    "C15": dict(modules=["Emu8086.Props.C15"], runs=[("l4", "fuzz"), ("l2", "malformed")], gen=["Arch", "ILiterals", "PPGrammar"],
                rule="seeded byte/token-level mutations of valid programs (delete / insert / replace / duplicate spans; alphabet incl. NUL, DEL, non-ASCII, NBSP), "
                     "size families (10^5 digits, 5000 lines, 70 000-character strings, macro chains), empty input, no final newline — run by the real binary under a "
                     "watchdog (exit 101 / signal / timeout is a violation) and compared with the model; L2 malformed lines against the interpreter in-process"
                     " fuzz also contains files that are not UTF-8 (raw bytes), data blocks crossing the end of memory, macro arity mismatches, the smallest programs under -i."),
    "C16": dict(modules=["Emu8086.Props.C16", "Emu8086.Props.C16Map", "Emu8086.Props.C11"], runs=[("l4", "diag", {"VERIF_STRICT_OUT": "1"}), ("l4", "prompt", {"VERIF_STRICT_OUT": "1"}), ("l4", "run", {"VERIF_STRICT_OUT": "1"})], gen=["Arch", "ILiterals", "PPGrammar"],
                rule="single-token corruptions at every token position of a valid program, error mutants with shifted lines / no trailing newline / comment lines, "
                     "stepping runs and prints/interrupts at first/middle/last lines and inside macros and procedures: line number, column and line text in the real "
                     "binary's messages must equal the model's (computed from the source map and byte offsets)"
                     " diag includes errors arising inside macro expansions at known lines and macro-generated undefined jumps; stdout compared strictly."),
    "C17": dict(modules=["Emu8086.Props.C17", "Emu8086.Props.C11"], runs=[("l4", "prints", {"VERIF_STRICT_OUT": "1"}), ("l4", "prompt", {"VERIF_STRICT_OUT": "1"})], gen=["Arch", "ILiterals", "PPGrammar"],
                rule="random machine states established by generated programs x print reg / flags / mem with ranges of length 0/1/15/16/17/31/32/100, ending at "
                     "FFFFFh, backwards, beyond 2^20, DS-relative with DS up to FFFFh, constants in all radices; stdout compared byte-for-byte with the model; the same "
                     "commands typed at the prompt; state after printing compared (trace hook)"
                     " every case combination of the print statements in the program and at the prompt, and DS-relative counts beyond 16 bits, with generator-stated expectations (expect=) on the text that must appear; stdout compared strictly."),
    "C18": dict(modules=["Emu8086.Props.C18"], runs=[("l4", "ints", {"VERIF_STRICT_OUT": "1"})], gen=["Arch", "ILiterals", "PPGrammar"],
                rule="INT 21h / 10h x AH in supported values and random others x buffers at random segments incl. FFFFh:FFF0h.. (wrap) x capacity 0/1/2/3/5/255 x "
                     "stdin families (empty, newline only, shorter, equal, longer than capacity, unterminated, CRLF, two lines): stdout, registers and memory after the "
                     "service vs the model"
                     " ALL 256 AH values for both interrupts in every run; input lines starting with multi-byte characters; stdout compared strictly."),
    "C19": dict(modules=["Emu8086.Props.C19"], runs=[("l4", "diag", {"VERIF_CLI_REPEAT": "3"}), ("l4", "run", {"VERIF_CLI_REPEAT": "2"}), ("l3", "reuse"), ("l2", "arith+logic+shift+muldiv+mov+xfer+stack+jump+string+ctl+malformed"), ("l4", "fuzz", {"VERIF_CLI_REPEAT": "2"}), ("l4", "macros", {"VERIF_CLI_REPEAT": "2"}), ("l4", "ints", {"VERIF_CLI_REPEAT": "2"})],
                gen=["Arch", "ILiterals", "PPGrammar", "Hygiene"],
                rule="every L4 case is run 2-3 times in separate processes: outputs, traces and final states must be byte-identical (and equal to the deterministic "
                     "model), in particular programs with several simultaneous errors; L2: ONE Interpreter object processes all requests (valid and malformed lines "
                     "interleaved, thousands per run) and must agree with the stateless model on each"
                     " L3 reuse: a source on used (cleared) parser/context objects vs fresh objects (request asmre); one undefined label used by several jumps and one macro use expanding to several undefined jumps (equal recorded positions)."),
    "C20": dict(modules=["Emu8086.Props.C20"], runs=[("l4", "prompt", {"VERIF_STRICT_OUT": "1"})], gen=["Arch", "ILiterals", "PPGrammar"],
                rule="terminating programs x stepping enabled by -i, by a POPF-set trap flag, or by INT 3 at random places x random prompt scripts (next in all "
                     "spellings, print commands, garbage, empty lines, quit, premature end of input incl. an unterminated last line): stdout, exit status, trace and "
                     "final state of the real binary vs the model"
                     " prompt group includes the smallest programs (nothing / one instruction after start:, explicit final hlt, push cs); stdout compared strictly."),
}

def log(*a):
    print(*a, flush=True)

def sh(cmd, cwd=None, timeout=None, env=None):
    e = dict(os.environ)
    e.setdefault("CARGO_NET_OFFLINE", "true")
    if env:
        e.update(env)
    p = subprocess.run(cmd, cwd=cwd, shell=isinstance(cmd, str), stdout=subprocess.PIPE, stderr=subprocess.STDOUT,
                       timeout=timeout, env=e)
    return p.returncode, p.stdout.decode("utf-8", "replace")

class Lock:
    def __enter__(self):
        os.makedirs(BUILD, exist_ok=True)
        self.f = open(os.path.join(BUILD, "lock"), "w")
        fcntl.flock(self.f, fcntl.LOCK_EX)
        return self
    def __exit__(self, *a):
        fcntl.flock(self.f, fcntl.LOCK_UN)
        self.f.close()

# ---------------------------------------------------------------------------------------------
def run_extract():
    rc, out = sh([sys.executable, os.path.join(ROOT, "tools", "extract.py")], env={"VERIF_REPO": REPO})
    if rc != 0:
        return False, out.strip(), {}
    try:
        return True, "", json.loads(out)
    except Exception:
        return False, "extract.py output not JSON: " + out[:300], {}

FORBIDDEN = re.compile(r"\b(sorry|admit|native_decide|implemented_by)\b|^\s*axiom\s|\bunsafe\s|maxHeartbeats\s+0\b")

def strip_lean_comments(txt):
    # remove /- ... -/ (nested) and -- ... comments
    out = []
    i, depth, n = 0, 0, len(txt)
    while i < n:
        if txt.startswith("/-", i):
            depth += 1; i += 2; continue
        if depth > 0 and txt.startswith("-/", i):
            depth -= 1; i += 2; continue
        if depth > 0:
            if txt[i] == "\n":
                out.append("\n")
            i += 1; continue
        if txt.startswith("--", i):
            while i < n and txt[i] != "\n":
                i += 1
            continue
        out.append(txt[i]); i += 1
    return "".join(out)

def token_scan():
    hits = []
    for base in ("Emu8086", "Driver"):
        for dp, dn, fn in os.walk(os.path.join(LEAN, base)):
            for f in fn:
                if f.endswith(".lean"):
                    p = os.path.join(dp, f)
                    body = strip_lean_comments(open(p, encoding="utf-8").read())
                    for ln, line in enumerate(body.split("\n"), 1):
                        if FORBIDDEN.search(line):
                            # `partial def` I/O loop in the driver is fine; `unsafe ` etc. is not
                            hits.append(f"{os.path.relpath(p, LEAN)}:{ln}: {line.strip()[:100]}")
    return hits

def lake_build(targets):
    rc, out = sh(["lake", "build"] + targets, cwd=LEAN, timeout=3600)
    return rc == 0, out

def theorem_names(module):
    p = os.path.join(LEAN, module.replace(".", "/") + ".lean")
    txt = strip_lean_comments(open(p, encoding="utf-8").read())
    ns = re.search(r"^namespace\s+(\S+)", txt, re.M)
    prefix = ns.group(1) + "." if ns else ""
    names = [prefix + m.group(1) for m in re.finditer(r"^\s*theorem\s+([A-Za-z_][\w'.?!]*)", txt, re.M)]
    # theorems produced by the local macros of C02 (shift_thm / byte_final / word_final)
    for m in re.finditer(r"^shift_thm\s+(\w+)", txt, re.M):
        names += [prefix + m.group(1) + "_step", prefix + m.group(1) + "_ok'"]
    for m in re.finditer(r"^(?:byte_final|word_final)\s+(\w+)", txt, re.M):
        names.append(prefix + m.group(1) + "_ok")
    return names

def audit(pid, modules):
    """#print axioms for every theorem of the property's modules"""
    names = []
    for m in modules:
        names += theorem_names(m)
    os.makedirs(os.path.join(BUILD, "audit"), exist_ok=True)
    f = os.path.join(BUILD, "audit", pid + ".lean")
    with open(f, "w") as fh:
        for m in modules:
            fh.write(f"import {m}\n")
        for n in names:
            fh.write(f"#print axioms {n}\n")
    rc, out = sh(["lake", "env", "lean", f], cwd=LEAN, timeout=1800)
    res = {}
    for m in re.finditer(r"'([^']+(?:'[^' ]*)*)' depends on axioms: \[([^\]]*)\]|'([^']+(?:'[^' ]*)*)' does not depend on any axioms", out):
        if m.group(1):
            res[m.group(1)] = [a.strip() for a in m.group(2).replace("\n", " ").split(",") if a.strip()]
        else:
            res[m.group(3)] = []
    bad = []
    for n in names:
        if n not in res:
            bad.append(f"{n}: no axiom report ({'lean failed' if rc else 'name not found'})")
            continue
        for a in res[n]:
            if a in ALLOWED_AXIOMS or "._native.bv_decide.ax_" in a:
                continue
            bad.append(f"{n}: depends on {a}")
    return names, res, bad, out if rc else ""

def build_harness():
    rc, out = sh(["cargo", "build", "--offline"], cwd=HARNESS_DIR, timeout=3600)
    if rc != 0:
        # does /repo itself still compile?  then only the tie is broken (an interface the harness reads has changed)
        rc2, out2 = sh(["cargo", "build", "--offline", "--manifest-path", os.path.join(REPO, "Cargo.toml"), "--target-dir", os.path.join(BUILD, "target-cli")],
                       timeout=3600, env={"RUSTFLAGS": "--cfg yjdoc2_8086_emulator_verif"})
        return ("tie" if rc2 == 0 else False), out
    # the real CLI binary, from /repo's working tree, verification hook enabled (MANIFEST.hooks)
    rc, out2 = sh(["cargo", "build", "--offline", "--manifest-path", os.path.join(REPO, "Cargo.toml"), "--target-dir", os.path.join(BUILD, "target-cli")],
                  timeout=3600, env={"RUSTFLAGS": "--cfg yjdoc2_8086_emulator_verif"})
    return rc == 0, out + out2

# ---------------------------------------------------------------------------------------------
def parse_driver_output(txt):
    r = dict(n=0, diff_model=[], diff_spec=[], kf_lines=[], kf={}, nontrivial=0, distinct_nontrivial=0, bad=0,
             samples=[], summary=False, other=[], dist={})
    for line in txt.split("\n"):
        if not line:
            continue
        if line.startswith("SUMMARY "):
            r["summary"] = True
            kv = dict(x.split("=", 1) for x in line.split()[1:] if "=" in x)
            r["n"] += int(kv.get("n", 0)); r["nontrivial"] += int(kv.get("nontrivial", 0))
            r["distinct_nontrivial"] += int(kv.get("distinct_nontrivial", 0)); r["bad"] += int(kv.get("bad", 0))
            r["_dm"] = int(kv.get("diff_model", 0)); r["_ds"] = int(kv.get("diff_spec", 0))
            for part in kv.get("kf", "").split(","):
                if ":" in part:
                    k, c = part.rsplit(":", 1)
                    r["kf"][k] = r["kf"].get(k, 0) + int(c)
        elif line.startswith("DIST "):
            for part in line[5:].split(";"):
                if "=" in part:
                    k, c = part.rsplit("=", 1)
                    try:
                        r["dist"][k] = r["dist"].get(k, 0) + int(c)
                    except ValueError:
                        pass
        elif line.startswith("DIFF-MODEL "):
            r["diff_model"].append(line[len("DIFF-MODEL "):])
        elif line.startswith("DIFF-SPEC "):
            r["diff_spec"].append(line[len("DIFF-SPEC "):])
        elif line.startswith("KF "):
            r["kf_lines"].append(line[3:])
        elif line.startswith("SAMPLE "):
            r["samples"].append(line[len("SAMPLE "):])
        else:
            r["other"].append(line)
    return r

def merge(a, b):
    for k in ("n", "nontrivial", "distinct_nontrivial", "bad"):
        a[k] += b[k]
    for k in ("diff_model", "diff_spec", "kf_lines", "samples", "other"):
        a[k] += b[k]
    for k, c in b["kf"].items():
        a["kf"][k] = a["kf"].get(k, 0) + c
    for k, c in b.get("dist", {}).items():
        a.setdefault("dist", {})[k] = a.get("dist", {}).get(k, 0) + c
    a["summary"] = a["summary"] and b["summary"]
    return a

def empty_result():
    return dict(n=0, diff_model=[], diff_spec=[], kf_lines=[], kf={}, nontrivial=0, distinct_nontrivial=0, bad=0,
                samples=[], summary=True, other=[], dist={})

def tcorr_run(level, group, tier, seed, nshards=NSHARDS, timeout=7200, extra_env=None):
    """run one (level, group) sharded; returns merged result, and a 'broken' message if the machinery failed"""
    procs = []
    gen = os.path.join(ROOT, "tools", "gen_l3.py")
    for i in range(nshards):
        if level in ("l3", "l4"):
            kind = "asm" if level == "l3" else "cli"
            cmd = (f"VERIF_L3_KIND={kind} VERIF_REPO='{REPO}' VERIF_CLI='{CLI}' '{sys.executable}' '{gen}' {group} {tier} {seed} {i} {nshards} "
                   f"| VERIF_CLI='{CLI}' VERIF_SCRATCH='{os.path.join(BUILD, 'scratch')}' '{HARNESS}' replay | '{DRIVER}'")
        elif level == "l2i":
            # interpreter-level requests generated from the CURRENT interpreter grammar (tools/gen_l2i.py)
            gen2 = os.path.join(ROOT, "tools", "gen_l2i.py")
            cmd = (f"VERIF_REPO='{REPO}' '{sys.executable}' '{gen2}' {group} {tier} {seed} {i} {nshards} | '{HARNESS}' replay | '{DRIVER}'")
        else:
            cmd = f"'{HARNESS}' {level} {group} {tier} {seed} {i} {nshards} | '{DRIVER}'"
        env = dict(os.environ)
        if extra_env:
            env.update(extra_env)
        procs.append(subprocess.Popen(["bash", "-o", "pipefail", "-c", cmd], stdout=subprocess.PIPE, stderr=subprocess.PIPE, env=env))
    res = empty_result()
    broken = None
    for i, p in enumerate(procs):
        try:
            out, err = p.communicate(timeout=timeout)
        except subprocess.TimeoutExpired:
            p.kill(); out, err = p.communicate()
            broken = f"{level}/{group} shard {i}: timeout"
        r = parse_driver_output(out.decode("utf-8", "replace"))
        if p.returncode != 0 or not r["summary"]:
            broken = broken or f"{level}/{group} shard {i}: exit {p.returncode}, stderr: {err.decode('utf-8','replace')[-300:]}"
        merge(res, r)
    res["samples"] = res["samples"][:4]
    return res, broken

def replay_lines(lines):
    """feed explicit request lines to the harness (replay mode) and the driver"""
    if not lines:
        return empty_result(), None
    reqs = "\n".join(l.split(" => ")[0].strip() for l in lines if l.strip() and not l.startswith("#")) + "\n"
    p = subprocess.run(["bash", "-o", "pipefail", "-c", f"'{HARNESS}' replay | '{DRIVER}'"], input=reqs.encode(),
                       stdout=subprocess.PIPE, stderr=subprocess.PIPE, timeout=3600)
    r = parse_driver_output(p.stdout.decode("utf-8", "replace"))
    broken = None
    if p.returncode != 0 or not r["summary"]:
        broken = f"replay: exit {p.returncode}: {p.stderr.decode('utf-8','replace')[-300:]}"
    return r, broken

# ---------------------------------------------------------------------------------------------
def load_known_findings(pid):
    out = []
    p = os.path.join(ROOT, "known_findings.jsonl")
    if os.path.exists(p):
        for line in open(p):
            line = line.strip()
            if not line:
                continue
            e = json.loads(line)
            if pid is None or e.get("property") == pid or pid in e.get("properties", []):
                out.append(e)
    return out

def req_weight(line):
    nums = [int(x) for x in re.findall(r"\b\d+\b", line.split(" => ")[0])]
    return (len(line.split(" => ")[0].split()), sum(nums))

def write_replay(pid, kind, payload):
    d = os.path.join(ROOT, "replays")
    os.makedirs(d, exist_ok=True)
    h = __import__("hashlib").sha1(json.dumps(payload, sort_keys=True).encode()).hexdigest()[:10]
    p = os.path.join(d, f"{pid}-{kind}-{h}.json")
    with open(p, "w") as f:
        json.dump(payload, f, indent=1)
    return p

def main(argv):
    if not argv or argv[0] not in PROPS:
        print("usage: check <ID> [--tier quick|thorough] [--replay FILE]; known ids: " + " ".join(sorted(PROPS)))
        return 2
    pid = argv[0]
    tier = os.environ.get("VERIF_TIER", "quick")
    replay = None
    i = 1
    while i < len(argv):
        if argv[i] == "--tier":
            tier = argv[i + 1]; i += 2
        elif argv[i] == "--replay":
            replay = argv[i + 1]; i += 2
        else:
            i += 1
    if tier not in ("quick", "thorough"):
        tier = "quick"
    try:
        seed = int(os.environ.get("VERIF_SEED", "1"))
    except ValueError:
        seed = 1
    with Lock():
        return run_check(pid, tier, seed, replay)

def run_check(pid, tier, seed, replay):
    t0 = time.time()
    cfg = PROPS[pid]
    broken_obligations = []     # theorem / T-gen obligations that no longer check
    notes = []

    # 1. T-gen
    ok, msg, gen_summary = run_extract()
    if not ok:
        broken_obligations.append(f"T-gen: {msg}")

    # 2. proof
    scan = token_scan()
    if scan:
        broken_obligations += [f"forbidden token: {h}" for h in scan]
    ok_build, build_out = lake_build(cfg["modules"] + ["emu_driver"])
    theorem_list, axioms, failed_thms = [], {}, []
    if ok_build:
        theorem_list, axioms, bad, aud_err = audit(pid, cfg["modules"])
        for b in bad:
            broken_obligations.append(f"axiom audit: {b}")
    else:
        errs = re.findall(r"^error: (\S+?):(\d+):\d+: (.*)$", build_out, re.M)
        failed = sorted({f"{f}:{l}" for f, l, _ in errs})
        broken_obligations.append("lake build failed: " + "; ".join(failed[:8]) + (" ..." if len(failed) > 8 else ""))
        for m in cfg["modules"]:
            try:
                theorem_list += theorem_names(m)
            except Exception:
                pass
        failed_thms = failed
        # the driver may still be buildable on its own (needed for the failing-input search)
        ok_drv, drv_out = lake_build(["emu_driver"])
        if not ok_drv:
            log(f"CHECK-BROKEN property={pid} the Lean model driver does not build:\n{drv_out[-1500:]}")
            return 2
    if tier == "thorough" and ok_build:
        for m in cfg["modules"]:
            rc, out = sh(["lake", "env", "leanchecker", m], cwd=LEAN, timeout=3600)
            if rc != 0:
                broken_obligations.append(f"leanchecker {m}: {out[-300:]}")
            else:
                notes.append(f"leanchecker {m}: ok")

    # 3. harness
    okh, hout = build_harness()
    if okh == "tie":
        # /repo compiles but the correspondence harness does not compile against it: the tie between model and
        # code is broken and no input can be run -> the property is no longer shown to hold
        errs = re.findall(r"^(error(?:\[E\d+\])?: .*(?:\n\s+--> .*)?)", hout, re.M)
        path = write_replay(pid, "unproved", dict(property=pid, kind="property no longer shown to hold: the correspondence harness (harness/, the tie between model and implementation) "
                            "no longer compiles against /repo although /repo itself compiles; no input could be run, no failing input found",
                            broken_correspondence="cargo build of /verif/harness against /repo", compiler_errors=errs[:12], cargo_output_tail=hout[-3000:],
                            broken_obligations=broken_obligations, seed=seed, tier=tier))
        log(f"property={pid} tier={tier} correspondence harness does not compile against /repo (interface changed)")
        log(f"VIOLATION property={pid} replay={path} no-failing-input-found")
        return 1
    if not okh:
        log(f"CHECK-BROKEN property={pid} cannot build the harness against /repo (does /repo compile?):\n{hout[-2000:]}")
        return 2

    # 4. T-corr: corpus first, then generated
    total = empty_result()
    machinery_broken = None
    if replay:
        rp = json.load(open(replay))
        lines = rp.get("requests", [])
        r, b = replay_lines(lines)
        merge(total, r); machinery_broken = machinery_broken or b
    else:
        cp = os.path.join(ROOT, "corpus", pid + ".txt")
        if os.path.exists(cp):
            r, b = replay_lines(open(cp).read().split("\n"))
            merge(total, r); machinery_broken = machinery_broken or b
        for run in cfg["runs"]:
            level, group = run[0], run[1]
            r, b = tcorr_run(level, group, tier, seed, extra_env=(run[2] if len(run) > 2 else None))
            merge(total, r); machinery_broken = machinery_broken or b
    if machinery_broken or total["bad"]:
        log(f"CHECK-BROKEN property={pid} correspondence machinery failed: {machinery_broken or 'BADREQ lines'}")
        for l in total["other"][:5]:
            log("  " + l)
        return 2

    # 5. classify
    kfs = load_known_findings(pid)
    open_kf = {e["id"]: e for e in load_known_findings(None) if e.get("status") == "open"}   # every open finding, any property
    own_kf = {e["id"]: e for e in kfs if e.get("status") == "open"}
    violations = []          # (kind, replay path, suffix)
    unknown_kf = [k for k in total["kf"] if k not in open_kf]
    spec_viol = list(total["diff_spec"])
    if unknown_kf:
        spec_viol += [l for l in total["kf_lines"] if l.split()[0] in unknown_kf]
    need_search = bool(broken_obligations) or bool(total["diff_model"])
    searched = None
    if not spec_viol and need_search and not replay:
        # the property is no longer SHOWN to hold: look harder for a concrete failing input
        searched = empty_result()
        for run in cfg["runs"]:
            level, group = run[0], run[1]
            for s2 in ([seed + 1000] if tier == "thorough" else [seed + 1000, seed + 2000]):
                r, b = tcorr_run(level, group, "thorough" if (tier == "quick" and level in ("l1", "l2")) else tier, s2, timeout=3600,
                                 extra_env=(run[2] if len(run) > 2 else None))
                merge(searched, r)
                if r["diff_spec"]:
                    break
        # neighbourhood of every model disagreement: replay those exact requests (they already ran) — the
        # spec verdicts for them are in diff_spec if they failed
        spec_viol += searched["diff_spec"]
        unknown2 = [k for k in searched["kf"] if k not in open_kf]
        if unknown2:
            spec_viol += [l for l in searched["kf_lines"] if l.split()[0] in unknown2]
    if spec_viol:
        spec_viol.sort(key=req_weight)
        keep = spec_viol[:12]
        path = write_replay(pid, "spec", dict(property=pid, kind="implementation violates the specification on a concrete input",
                            level="T-corr", requests=[l.split(" | ")[0] for l in keep], details=keep,
                            total_failing=len(spec_viol), seed=seed, tier=tier,
                            rerun=f"/verif/check {pid} --replay <this file>",
                            model_disagreements=total["diff_model"][:12], broken_obligations=broken_obligations))
        violations.append((path, ""))
    elif need_search:
        path = write_replay(pid, "unproved", dict(property=pid, kind="property no longer shown to hold (proof obligation or model/implementation correspondence broken); no failing input found",
                            broken_obligations=broken_obligations, failed_theorem_locations=failed_thms,
                            first_model_disagreements=sorted(total["diff_model"], key=req_weight)[:12],
                            requests=[l.split(" | ")[0] for l in sorted(total["diff_model"], key=req_weight)[:12]],
                            searched_cases=(searched or {}).get("n", 0), seed=seed, tier=tier,
                            lake_output_tail=(build_out[-3000:] if not ok_build else "")))
        violations.append((path, " no-failing-input-found"))

    # 6. evidence
    obligations = len(theorem_list) + len(cfg.get("gen", []))
    discharged = 0
    if ok_build:
        discharged = sum(1 for n in theorem_list if n in axioms and not any(a == "sorryAx" for a in axioms[n]))
        discharged += len(cfg.get("gen", [])) if ok and not any(b.startswith("T-gen") for b in broken_obligations) else 0
    bv_axioms = sorted({a for v in axioms.values() for a in v if "bv_decide" in a})
    ev = {
        "property_id": pid, "tier": tier, "seed": seed, "level": "proof",
        "coverage": {
            "obligations": max(obligations, 1), "discharged": discharged,
            "checker_cmd": f"cd /verif/lean && lake build {' '.join(cfg['modules'])}  (+ #print axioms audit; leanchecker in thorough)",
            "trusted_base": TRUSTED_BASE,
            "evaluations": total["n"] + ((searched or {}).get("n", 0)),
            "distinct_nontrivial": total["distinct_nontrivial"],
            "rule": cfg["rule"],
            "samples": (total["samples"] or ["(no correspondence cases for this property yet)"]),
            "exhaustive": False,
            "theorems": theorem_list,
            "axioms_used": sorted({a for v in axioms.values() for a in v if "bv_decide" not in a}),
            "bv_decide_axioms": len(bv_axioms),
            "gen_tables": gen_summary,
            "distribution": {"categories": len(total.get("dist", {})),
                             "largest": dict(sorted(total.get("dist", {}).items(), key=lambda kv: -kv[1])[:40]),
                             "smallest": dict(sorted(total.get("dist", {}).items(), key=lambda kv: kv[1])[:15])},
            "correspondence": {
                "runs": [f"{r[0]}/{r[1]}" for r in cfg["runs"]],
                "disagreements_model": len(total["diff_model"]),
                "violations_spec": len(spec_viol),
                "known_findings_hit": total["kf"],
            },
            "broken_obligations": broken_obligations,
            "notes": notes,
        },
        "assumptions": [
            "theorems are about the hand-written Lean model; the model is tied to /repo by T-gen (regenerated tables) and by T-corr (sampled/exhaustive-where-small differential run)",
            "Rust dev-profile semantics (overflow checks on)",
        ],
        "wall_s": round(time.time() - t0, 1),
        "violations": len(violations),
    }
    os.makedirs(os.path.join(ROOT, "evidence"), exist_ok=True)
    with open(os.path.join(ROOT, "evidence", pid + ".json"), "w") as f:
        json.dump(ev, f, indent=1)

    # 7. report
    log(f"property={pid} tier={tier} seed={seed} theorems={len(theorem_list)} discharged={discharged}/{obligations} "
        f"cases={total['n']} distinct_nontrivial={total['distinct_nontrivial']} diff_model={len(total['diff_model'])} "
        f"diff_spec={len(spec_viol)} wall={ev['wall_s']}s")
    for kid, e in open_kf.items():
        hit = total["kf"].get(kid, 0)
        if kid in own_kf or hit:
            log(f"KNOWN-FINDING: property={e.get('property', pid)} {kid}: {e.get('what', '')} (hit {hit} times in this run)")
    for b in broken_obligations[:10]:
        log(f"  broken obligation: {b}")
    for path, suffix in violations:
        log(f"VIOLATION property={pid} replay={path}{suffix}")
    return 1 if violations else 0
